#!/bin/bash
# usage: scripts/ingest_seed2.sh <property-id> <seed-worktree> <name>
# Verifies a seeded change produced in a scratch worktree (compiles, demo fails
# with it and passes without it, stable baseline still passes) and stores it
# as /verif/seeded/<name>/{patch.diff,demo/*,meta.json}; then runs all checks
# against /repo with the patch applied and records which detect it.
set -u
export GOFLAGS=-mod=mod GOPROXY=off GOSUMDB=off GOTOOLCHAIN=local; unset GOWORK
pid="$1"; wt="$2"; name="$3"
out=/verif/seeded/$name
mkdir -p "$out/demo"
cd "$wt" || exit 2
git diff -- . ':(exclude)*_test.go' > "$out/patch.diff"
[ -s "$out/patch.diff" ] || { echo "empty patch"; exit 2; }
demos=$(git status --porcelain | grep -E '^\?\?|^A ' | awk '{print $2}' | grep -E '_test\.go$|demo|main\.go$' )
git status --porcelain | grep -v SEED_REPORT | head
for d in $demos; do mkdir -p "$out/demo/$(dirname $d)"; cp -r "$d" "$out/demo/$d"; done
cp SEED_REPORT.md "$out/" 2>/dev/null
echo "--- build with change"; go build ./... || { echo BUILD-FAIL; exit 1; }
pkgs=$(for d in $demos; do echo ./$(dirname $d); done | sort -u)
echo "--- demo WITH change ($pkgs)"
runs=$(grep -ohE 'func (Test[A-Za-z0-9_]+)' $demos | awk '{print $2}' | paste -sd'|')
go test -count=1 -run "^($runs)\$" $pkgs 2>&1 | grep -E "^(--- FAIL|--- PASS|ok|FAIL|panic)" | head -20 > "$out/demo_with.txt"; cat "$out/demo_with.txt"
git checkout -- $(git diff --name-only -- . ':(exclude)*_test.go')   # no git stash: the stash is shared between worktrees
echo "--- demo WITHOUT change"
go test -count=1 -run "^($runs)\$" $pkgs 2>&1 | grep -E "^(--- FAIL|--- PASS|ok|FAIL|panic)" | head -20 > "$out/demo_without.txt"; cat "$out/demo_without.txt"
git apply "$out/patch.diff"
echo "--- stable baseline with change (demo files moved away)"
for d in $demos; do mv "$d" "$d.hidden"; done
VERIF_REPO="$wt" /verif/scripts/baseline.sh | tee "$out/baseline.txt" | tail -3
for d in $demos; do mv "$d.hidden" "$d"; done
echo "--- checks against a scratch copy of /repo's HEAD with the patch applied (one process, all properties)"
S=/var/tmp/ingest2.$$; rm -rf $S; mkdir -p $S/repo $S/verif
git -C /repo archive HEAD | tar -x -C $S/repo
(cd $S/repo && patch -s -p1 < "$out/patch.diff") || { echo "patch does not apply"; exit 1; }
cp /verif/known-findings.txt $S/verif/
${NRILINT:-/verif/bin/nrilint} check -p all -tier quick -repo $S/repo -verif $S/verif > $S/out.txt 2>&1
det=$(grep '^VIOLATION' $S/out.txt | sed 's/.*property=\([A-Z0-9]*\).*/\1/' | sort -u | tr '\n' ' ')
echo "DETECTED BY: $det"
python3 - $S/out.txt <<'PY' | tee "$out/detected_keys.txt"
import sys,re
cur=None;n={}
for l in open(sys.argv[1]):
    m=re.match(r'^VIOLATION property=(\S+)',l)
    if m: cur=m.group(1); continue
    m2=re.match(r'^(C\d\d) tier=',l)
    if m2: cur=None
    if 'key=' in l and cur:
        n[cur]=n.get(cur,0)+1
        if n[cur]<=5: print('  %s %s'%(cur,l.strip()))
PY
echo " $det" > "$out/detected_by.txt"
rm -rf $S
