#!/usr/bin/env python3
"""Prints the markdown table of seeded changes (from /verif/seeded/*/meta.json) and of
self-test patches, for inclusion in DESIGN.md section 9 (between the BEGIN/END markers)."""
import json, glob, os, re, sys
root = os.path.dirname(os.path.dirname(os.path.abspath(__file__)))
rows = []
for mp in sorted(glob.glob(os.path.join(root, "seeded", "*", "meta.json"))):
    m = json.load(open(mp))
    name = os.path.basename(os.path.dirname(mp))
    rows.append((m["property"], name, m.get("needs", ""), ", ".join(m.get("detected_by", [])), m.get("caught_by_rule", ""),
                 "missed at first; " + m.get("strengthening", "") if m.get("initially_missed") else (m.get("strengthening", "") or "caught as built")))
out = ["| property | seeded change (`/verif/seeded/…`) | what it needs to manifest | detected by | deciding obligation(s) | history |", "|---|---|---|---|---|---|"]
for r in sorted(rows):
    out.append("| " + " | ".join(x.replace("|", "\\|").replace("\n", " ") for x in r) + " |")
out.append("")
out.append("Self-test patches (thorough tier): per property, `mut-*` must be reported, `benign-*` must stay silent.")
out.append("")
out.append("| property | mutants (`selftest/<id>/mut-*.patch`) | benign refactors (`benign-*.patch`) |")
out.append("|---|---|---|")
for d in sorted(glob.glob(os.path.join(root, "selftest", "C*"))):
    muts = sorted(os.path.basename(p)[4:-6] for p in glob.glob(d + "/mut-*.patch"))
    ben = sorted(os.path.basename(p)[7:-6] for p in glob.glob(d + "/benign-*.patch"))
    if muts or ben:
        out.append(f"| {os.path.basename(d)} | {', '.join(muts) or '—'} | {', '.join(ben) or '—'} |")
text = "\n".join(out)
design = os.path.join(root, "DESIGN.md")
s = open(design).read()
b, e = "<!-- BEGIN GENERATED SEED TABLE -->", "<!-- END GENERATED SEED TABLE -->"
if b in s and e in s:
    s = s[: s.index(b) + len(b)] + "\n" + text + "\n" + s[s.index(e):]
    open(design, "w").write(s)
    print("DESIGN.md seed table updated:", len(rows), "seeds")
else:
    print(text)
