#!/usr/bin/env python3
"""usage: condtwins.py <mutscan-results.jsonl>... > twins.jsonl

For every delete-call / delete-field-assign mutant that the checks reported, emit its conditional twin: the statement
is kept but put under an opaque condition that is never true. A path rule ("on every successful path ...") still
reports the twin; a rule that only asks for the statement to exist does not. Run the list with scripts/mutrescan.sh;
twins that survive point at existence-only rules (DESIGN.md section 11, "Only on some paths" audit)."""
import json, sys
seen = set()
for f in sys.argv[1:]:
    for l in open(f):
        r = json.loads(l)
        if r.get("result") != "detected" or not r["kind"].startswith("delete"):
            continue
        k = (r["file"], r["start"], r["end"])
        if k in seen:
            continue
        seen.add(k)
        m = {x: r[x] for x in ("file", "line", "func", "start", "end", "old")}
        m["kind"] = "cond-" + r["kind"][7:]
        m["new"] = "if cap(make([]int, 0)) < 0 { " + r["old"] + " }"
        m["was_by"], m["was_keys"] = r["by"], r["keys"]
        print(json.dumps(m))
