#!/bin/bash
# Runs the repository's test suite (both modules) with no build tags (guard
# OFF) and compares against the stable_pass list of /root/.vp/BASELINE.json.
# exit 0 iff every stable test passed.
export GOFLAGS=-mod=mod GOPROXY=off GOSUMDB=off GOTOOLCHAIN=local
unset GOWORK
out=$(mktemp /var/tmp/baseline.XXXXXX.json)
trap 'rm -f "$out"' EXIT
for m in . pkg/topology; do
  (cd ${VERIF_REPO:-/repo}/$m && go test -json -vet=off -count=1 -timeout 25m ./... ) >> "$out" 2>/dev/null
done
python3 - "$out" <<'PY'
import json,sys
base=json.load(open('/root/.vp/BASELINE.json'))
stable=set(base['stable_pass'])
res={}
for line in open(sys.argv[1]):
    try: ev=json.loads(line)
    except Exception: continue
    if ev.get('Action') in ('pass','fail','skip') and ev.get('Test'):
        res[ev['Package']+'::'+ev['Test']]=ev['Action']
missing=[t for t in stable if res.get(t)!='pass']
print(f"stable={len(stable)} passed={len(stable)-len(missing)} not-passed={len(missing)}")
for t in sorted(missing)[:50]: print("  NOT PASSED:",t,res.get(t))
sys.exit(1 if missing else 0)
PY
