#!/bin/bash
# usage: mkpatch.sh <out.patch> <pkg-to-build>   (python edit script on stdin; runs in a scratch worktree /tmp/mk)
# The edit script gets helper sub(path, old, new) which asserts that old occurs exactly once.
set -e
export GOFLAGS=-mod=mod GOPROXY=off GOSUMDB=off GOTOOLCHAIN=local; unset GOWORK
out=$1; pkg=$2
[ -d /tmp/mk ] || git -C /repo worktree add -q --detach /tmp/mk HEAD
cd /tmp/mk && git checkout -q --detach $(git -C /repo rev-parse HEAD) && git checkout -- .
{ cat <<'PY'
def sub(path, old, new, count=1):
    s = open(path).read()
    assert s.count(old) == count, (path, s.count(old), old)
    open(path, 'w').write(s.replace(old, new))
PY
cat; } > /tmp/mk.edit.py
python3 /tmp/mk.edit.py
go build $pkg
go vet $pkg >/dev/null 2>&1 || echo "(vet complains)"
git diff > "$out"
git checkout -- .
echo "wrote $out ($(wc -l < $out) lines)"
