#!/bin/bash
# usage: recheck_seed.sh <seed-dir-name>...   re-runs every registered check against /repo with the seed's patch
# applied (then reverts) and rewrites detected_by.txt / detected_keys.txt of the seed.
for name in "$@"; do
  out=/verif/seeded/$name
  cd /repo && git apply "$out/patch.diff" || { echo "patch does not apply to /repo: $name"; continue; }
  det=""
  mkdir -p /var/tmp/seedverif && cp /verif/known-findings.txt /var/tmp/seedverif/
  for p in $(cd /verif && bin/nrilint list | awk '{print $1}'); do
    if ! (cd /verif && bin/nrilint check -p $p -verif /var/tmp/seedverif >/var/tmp/seedcheck.$p.txt 2>&1); then det="$det $p"; fi
  done
  git -C /repo checkout -- .
  echo "$name DETECTED BY:$det"
  for p in $det; do grep -E "key=" /var/tmp/seedcheck.$p.txt | head -5 | sed "s/^/  $p /"; done | tee "$out/detected_keys.txt"
  echo "$det" > "$out/detected_by.txt"
  rm -rf /var/tmp/seedverif /var/tmp/seedcheck.*
done
