#!/usr/bin/env python3
"""Regenerates /verif/MANIFEST.json from /verif/claims.json (one entry per
property: either a claim or a not-applicable reason)."""
import json, os, sys

root = os.path.dirname(os.path.dirname(os.path.abspath(__file__)))
claims = json.load(open(os.path.join(root, "claims.json")))
props = [json.loads(l) for l in open(os.path.join(root, "properties.jsonl")) if l.strip()]
ids = [p["id"] for p in props]

checks, na = [], []
for pid in ids:
    c = claims.get(pid)
    if not c:
        na.append({"property_id": pid, "reason": "no static check implemented yet for this property (see DESIGN.md section 4 for the planned clauses)"})
        continue
    if "not_applicable" in c:
        na.append({"property_id": pid, "reason": c["not_applicable"]})
        continue
    checks.append({
        "property_id": pid,
        "quick_cmd": f"./check {pid} quick",
        "thorough_cmd": f"./check {pid} thorough",
        "evidence_file": f"/verif/evidence/{pid}.json",
        "replay_cmd_template": "bin/nrilint explain {path}",
        "engine": "nrilint",
        "level_claimed": {
            "category": "other",
            "text": c["text"],
            "design_ref": f"DESIGN.md section 4, {pid}",
        },
        "level_note": c["note"],
        "technique": c["technique"],
    })

manifest = {
    "version": 1,
    "setup_cmd": "cd /verif/nrilint && GOFLAGS=-mod=mod GOPROXY=off GOSUMDB=off GOTOOLCHAIN=local GOWORK=off go build -o ../bin/nrilint .",
    "hooks": {
        "guard": "verif",
        "enable": "no hooks: static analysis reads /repo's source as it is; -tags verif is unused",
        "baseline_off_cmd": "/verif/scripts/baseline.sh",
        "source_commits": [],
        "add_only": True,
    },
    "engines": [{
        "name": "nrilint",
        "path": "/verif/nrilint",
        "serves_properties": [c["property_id"] for c in checks],
        "kind_free_text": "repository-specific static analyser (go/packages + go/types + go/ssa of x/tools v0.29.0): must-pass-through on the SSA CFG, guard reachability under assumptions, who-may-write/call, value-flow traces, table agreement; no repository code is executed",
    }],
    "checks": checks,
    "not_applicable": na,
    "notes": "All claims are level 'other': structural necessary conditions of each property decided exhaustively over the enumerated obligation set of the current source tree. See DESIGN.md for what each check does not decide. Repaired defects and recorded findings: /verif/known-findings.txt.",
}
json.dump(manifest, open(os.path.join(root, "MANIFEST.json"), "w"), indent=1)
print(f"MANIFEST.json: {len(checks)} checks, {len(na)} not applicable")
