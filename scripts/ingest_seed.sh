#!/bin/bash
# usage: scripts/ingest_seed.sh <property-id> <seed-worktree> <name>
# Verifies a seeded change produced in a scratch worktree (compiles, demo fails
# with it and passes without it, stable baseline still passes) and stores it
# as /verif/seeded/<name>/{patch.diff,demo/*,meta.json}; then runs all checks
# against /repo with the patch applied and records which detect it.
set -u
export GOFLAGS=-mod=mod GOPROXY=off GOSUMDB=off GOTOOLCHAIN=local; unset GOWORK
pid="$1"; wt="$2"; name="$3"
out=/verif/seeded/$name
mkdir -p "$out/demo"
cd "$wt" || exit 2
git diff -- . ':(exclude)*_test.go' > "$out/patch.diff"
[ -s "$out/patch.diff" ] || { echo "empty patch"; exit 2; }
demos=$(git status --porcelain | grep -E '^\?\?|^A ' | awk '{print $2}' | grep -E '_test\.go$|demo|main\.go$' )
git status --porcelain | grep -v SEED_REPORT | head
for d in $demos; do mkdir -p "$out/demo/$(dirname $d)"; cp -r "$d" "$out/demo/$d"; done
cp SEED_REPORT.md "$out/" 2>/dev/null
echo "--- build with change"; go build ./... || { echo BUILD-FAIL; exit 1; }
pkgs=$(for d in $demos; do echo ./$(dirname $d); done | sort -u)
echo "--- demo WITH change ($pkgs)"
runs=$(grep -ohE 'func (Test[A-Za-z0-9_]+)' $demos | awk '{print $2}' | paste -sd'|')
go test -count=1 -run "^($runs)\$" $pkgs 2>&1 | grep -E "^(--- FAIL|--- PASS|ok|FAIL|panic)" | head -20 > "$out/demo_with.txt"; cat "$out/demo_with.txt"
git stash -q -- $(git diff --name-only -- . ':(exclude)*_test.go')
echo "--- demo WITHOUT change"
go test -count=1 -run "^($runs)\$" $pkgs 2>&1 | grep -E "^(--- FAIL|--- PASS|ok|FAIL|panic)" | head -20 > "$out/demo_without.txt"; cat "$out/demo_without.txt"
git stash pop -q
echo "--- stable baseline with change (demo files moved away)"
for d in $demos; do mv "$d" "$d.hidden"; done
VERIF_REPO="$wt" /verif/scripts/baseline.sh | tee "$out/baseline.txt" | tail -3
for d in $demos; do mv "$d.hidden" "$d"; done
echo "--- checks against /repo with the patch applied"
cd /repo && git apply "$out/patch.diff" || { echo "patch does not apply to /repo"; exit 1; }
det=""
mkdir -p /var/tmp/seedverif && cp /verif/known-findings.txt /var/tmp/seedverif/
for p in $(cd /verif && bin/nrilint list | awk '{print $1}'); do
  if ! (cd /verif && bin/nrilint check -p $p -verif /var/tmp/seedverif >/var/tmp/seedcheck.$p.txt 2>&1); then det="$det $p"; fi
done
git -C /repo checkout -- .
echo "DETECTED BY:$det"
for p in $det; do grep -E "key=" /var/tmp/seedcheck.$p.txt | head -5 | sed "s/^/  $p /"; done | tee "$out/detected_keys.txt"
echo "$det" > "$out/detected_by.txt"
rm -rf /var/tmp/seedverif /var/tmp/seedcheck.*
