#!/bin/bash
# Mutation scan: for simple mutants (delete a call statement, negate an if condition, delete a field assignment) of the
# anchored source files, record which properties' checks report a violation. Survivors in property-relevant code point at
# missing rules. Scratch copies live under /var/tmp/mutscan (removed at the end unless KEEP=1).
# usage: scripts/mutrescan.sh <workers> <outfile> <mutants.jsonl>   (re-runs a prepared list of mutants, e.g. the survivors of an earlier scan, with the current checker; MUTSCAN_ROOT selects the scratch directory)
set -u
export GOFLAGS=-mod=mod GOPROXY=off GOSUMDB=off GOTOOLCHAIN=local; unset GOWORK
W=$1; OUT=$2; shift 2
ROOT=${MUTSCAN_ROOT:-/var/tmp/mutrescan}; mkdir -p $ROOT
cp /verif/bin/nrilint $ROOT/nrilint-frozen   # the checker must not change under the scan
cp "$1" $ROOT/muts.jsonl
N=$(wc -l < $ROOT/muts.jsonl); echo "$N mutants, $W workers"
: > "$OUT"
for w in $(seq 0 $((W-1))); do
  (
    S=$ROOT/w$w; rm -rf $S; mkdir -p $S/repo $S/verif
    rsync -a --exclude=.git --exclude=build /repo/ $S/repo/
    cp /verif/known-findings.txt $S/verif/
    python3 - "$w" "$W" "$S" "$ROOT/muts.jsonl" >> "$OUT.$w" <<'PY'
import sys, json, subprocess, os
w, W, S, mf = int(sys.argv[1]), int(sys.argv[2]), sys.argv[3], sys.argv[4]
muts = [json.loads(l) for l in open(mf)]
env = dict(os.environ)
for i, m in enumerate(muts):
    if i % W != w: continue
    path = os.path.join(S, 'repo', m['file'])
    orig = open(path, 'rb').read()
    new = orig[:m['start']] + m['new'].encode() + orig[m['end']:]
    open(path, 'wb').write(new)
    pkg = './' + os.path.dirname(m['file'])
    res = dict(m); res['idx'] = i
    b = subprocess.run(['go', 'build', pkg], cwd=os.path.join(S, 'repo'), capture_output=True, text=True, env=env)
    if b.returncode != 0:
        res['result'] = 'noncompile'
    else:
        c = subprocess.run([os.path.join(os.path.dirname(S), 'nrilint-frozen'), 'check', '-p', 'all', '-tier', 'quick', '-repo', os.path.join(S, 'repo'), '-verif', os.path.join(S, 'verif')], capture_output=True, text=True, env=env)
        viol = sorted(set(l.split('property=')[1].split()[0] for l in c.stdout.splitlines() if l.startswith('VIOLATION')))
        res['result'] = 'detected' if viol else 'survived'
        res['by'] = viol
        res['keys'] = sorted(set(l.strip()[4:][:120] for l in c.stdout.splitlines() if l.strip().startswith('key=')))[:6]
    open(path, 'wb').write(orig)
    print(json.dumps(res), flush=True)
PY
    [ "${KEEP:-0}" = 1 ] || rm -rf $S
  ) &
done
wait
cat "$OUT".* > "$OUT"; rm -f "$OUT".*
python3 - "$OUT" <<'PY'
import json,sys,collections
rs=[json.loads(l) for l in open(sys.argv[1])]
c=collections.Counter(r['result'] for r in rs)
print(dict(c))
PY
