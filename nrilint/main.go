// nrilint — repository-specific static checker for containers/nri-plugins.
// It decides structural clauses of the properties in /verif/properties.jsonl
// from /repo's current source without running repository code.
package main

import (
	"encoding/json"
	"flag"
	"fmt"
	"go/types"
	"os"
	"runtime/debug"
	"sort"
	"strconv"
	"strings"
	"time"

	"golang.org/x/tools/go/ssa"
)

type propCheck struct {
	ID    string
	Title string
	Run   func(e *Engine, r *Report)
}

var registry = map[string]*propCheck{}

func register(id, title string, run func(e *Engine, r *Report)) {
	registry[id] = &propCheck{ID: id, Title: title, Run: run}
}

func main() {
	if len(os.Args) < 2 {
		usage()
	}
	switch os.Args[1] {
	case "check":
		os.Exit(cmdCheck(os.Args[2:]))
	case "explain":
		os.Exit(cmdExplain(os.Args[2:]))
	case "xref":
		os.Exit(cmdXref(os.Args[2:]))
	case "list":
		ids := make([]string, 0, len(registry))
		for id := range registry {
			ids = append(ids, id)
		}
		sort.Strings(ids)
		for _, id := range ids {
			fmt.Printf("%s %s\n", id, registry[id].Title)
		}
	default:
		usage()
	}
}

func usage() {
	fmt.Fprintln(os.Stderr, "usage: nrilint check -p <id>[,<id>…]|all [-tier quick|thorough] [-repo /repo] [-verif /verif]\n       nrilint explain <violations.json>\n       nrilint list")
	os.Exit(2)
}

func cmdCheck(args []string) int {
	fs := flag.NewFlagSet("check", flag.ExitOnError)
	props := fs.String("p", "", "property id(s), comma separated, or 'all'")
	tier := fs.String("tier", os.Getenv("VERIF_TIER"), "quick|thorough")
	repo := fs.String("repo", "/repo", "repository root")
	verif := fs.String("verif", "/verif", "verification root (evidence, known findings)")
	noSelf := fs.Bool("no-selftest", false, "thorough: skip the mutant self-test")
	fs.Parse(args)
	if *tier == "" {
		*tier = "quick"
	}
	if *tier != "quick" && *tier != "thorough" {
		fmt.Fprintln(os.Stderr, "bad tier")
		return 2
	}
	seed, _ := strconv.Atoi(os.Getenv("VERIF_SEED"))
	var ids []string
	if *props == "all" {
		for id := range registry {
			ids = append(ids, id)
		}
	} else {
		ids = strings.Split(*props, ",")
	}
	sort.Strings(ids)
	for _, id := range ids {
		if registry[id] == nil {
			fmt.Fprintf(os.Stderr, "unknown property %q\n", id)
			return 2
		}
	}
	t0 := time.Now()
	e, err := Load(*repo, nil, nil)
	if err != nil {
		// an incomplete load must never pass
		for _, id := range ids {
			fmt.Printf("VIOLATION property=%s replay=%s\n  load failed: %v\n", id, *repo, err)
		}
		return 1
	}
	if e.RepoPkgs < minRepoPackages {
		for _, id := range ids {
			fmt.Printf("VIOLATION property=%s replay=%s\n  only %d repository packages loaded (expected >= %d)\n", id, *repo, e.RepoPkgs, minRepoPackages)
		}
		return 1
	}
	rc := 0
	for _, id := range ids {
		t1 := time.Now()
		r := NewReport(e, id)
		func() {
			defer func() {
				if p := recover(); p != nil {
					r.Undecided("panic", "engine", "analysis must complete", "-", nil,
						fmt.Sprintf("analysis panicked: %v\n%s", p, debug.Stack()))
				}
			}()
			registry[id].Run(e, r)
		}()
		extra := map[string]interface{}{"load_wall_s": e.LoadWall}
		if *tier == "thorough" {
			thoroughExtras(e, r, id, *repo, *verif, *noSelf, extra)
		}
		wall := time.Since(t1).Seconds()
		if len(ids) == 1 {
			wall = time.Since(t0).Seconds()
		}
		if c := r.Finish(*verif, *tier, seed, wall, extra); c > rc {
			rc = c
		}
	}
	return rc
}

// minRepoPackages: packages of the repository confirmed loadable by hand
// (67 command/library packages in the main module + pkg/topology).
const minRepoPackages = 60

func cmdExplain(args []string) int {
	if len(args) != 1 {
		usage()
	}
	b, err := os.ReadFile(args[0])
	if err != nil {
		fmt.Fprintln(os.Stderr, err)
		return 2
	}
	var v struct {
		PropertyID string        `json:"property_id"`
		Violations []*Obligation `json:"violations"`
	}
	if err := json.Unmarshal(b, &v); err != nil {
		fmt.Fprintln(os.Stderr, err)
		return 2
	}
	fmt.Printf("replaying %d violated obligations of %s against the current tree\n", len(v.Violations), v.PropertyID)
	e, err := Load("/repo", nil, nil)
	if err != nil {
		fmt.Println("load failed:", err)
		return 1
	}
	if registry[v.PropertyID] == nil {
		fmt.Println("unknown property")
		return 2
	}
	r := NewReport(e, v.PropertyID)
	registry[v.PropertyID].Run(e, r)
	want := map[string]bool{}
	for _, o := range v.Violations {
		want[o.Key] = true
	}
	still := 0
	for _, o := range r.Obls {
		if want[o.Key] {
			fmt.Printf("[%s] %s %s\n  %s: %s\n  witness: %s\n", o.Verdict, o.Rule, o.Pos, o.Fn, o.What, o.Witness)
			if o.Verdict != Discharged {
				still++
			}
		}
	}
	if still > 0 {
		fmt.Printf("VIOLATION property=%s replay=%s\n", v.PropertyID, args[0])
		return 1
	}
	return 0
}

// cmdXref: cross-reference listings (not checks): generic analyses run over the whole repository to discover candidate
// rule instances; every instance is read and either frozen in a rule table or dismissed.
func cmdXref(args []string) int {
	if len(args) < 1 {
		usage()
	}
	e, err := Load("/repo", nil, nil)
	if err != nil {
		fmt.Println("load failed:", err)
		return 1
	}
	switch args[0] {
	case "error-propagation":
		n := 0
		seen := map[string][2]int{}
		for _, pr := range e.errorPropagations(args[1:]...) {
			if isErrorConstructor(pr.Callee) {
				continue
			}
			k := propagationKey(pr)
			c := seen[k]
			c[1]++
			if pr.Path == nil {
				c[0]++
				n++
			}
			seen[k] = c
		}
		keys := make([]string, 0, len(seen))
		for k := range seen {
			keys = append(keys, k)
		}
		sort.Strings(keys)
		for _, k := range keys {
			if seen[k][0] > 0 {
				fmt.Printf("\t%q: {%d, %d},\n", k, seen[k][0], seen[k][1])
			}
		}
		fmt.Println(n, "propagating call sites,", len(keys), "pairs")
	case "lost-updates":
		fields := map[*types.Var]bool{}
		for _, fn := range e.RepoFuncs {
			AllInstrs(fn, func(in ssa.Instruction) {
				if st, ok := in.(*ssa.Store); ok {
					if f := fieldOfAddr(st.Addr); f != nil {
						fields[f] = true
					}
				}
			})
		}
		n := 0
		for _, fn := range e.RepoFuncs {
			for f := range fields {
				has := false
				AllInstrs(fn, func(in ssa.Instruction) {
					if st, ok := in.(*ssa.Store); ok && fieldOfAddr(st.Addr) == f {
						has = true
					}
				})
				if !has {
					continue
				}
				lus, _ := e.lostUpdates(fn, f)
				for _, lu := range lus {
					n++
					fmt.Printf("%s: %s.%s read at %s, possibly written by %s, overwritten at %s\n", FnName(fn), f.Pkg().Name(), f.Name(), e.InstrPos(lu.Load), e.InstrPos(lu.Writer), e.InstrPos(lu.Store))
				}
			}
		}
		fmt.Println(n, "candidates")
	}
	return 0
}
