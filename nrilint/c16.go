package main

import (
	"fmt"
	"go/token"
	"go/types"
	"sort"
	"strings"

	"golang.org/x/tools/go/ssa"
)

// C16 — hardware discovery is faithful and the pool tree well-formed.
func init() { register("C16", "sysfs discovery and pool tree", checkC16) }

// accStep is one call of an accessor chain such as p.sys.Package(id).CPUSet().
type accStep struct {
	name string
	args []ssa.Value
	call ssa.CallInstruction
}

// accessorChain decomposes v into the accessor calls that produce it, outermost first.
func accessorChain(v ssa.Value) []accStep {
	var out []accStep
	for i := 0; i < 8; i++ {
		// look through single-definition locals
		if u, ok := v.(*ssa.UnOp); ok && u.Op == token.MUL {
			if al, ok := u.X.(*ssa.Alloc); ok {
				if sts := reachingStores(al, u); len(sts) == 1 {
					v = sts[0].Val
					continue
				}
			}
		}
		c, ok := v.(*ssa.Call)
		if !ok || callObj(c.Common()) == nil {
			break
		}
		a := callArgs(c)
		if len(a) == 0 {
			break
		}
		out = append(out, accStep{name: callObj(c.Common()).Name(), args: a[1:], call: c})
		v = a[0]
	}
	return out
}

func chainNames(ch []accStep) string {
	var s []string
	for i := len(ch) - 1; i >= 0; i-- {
		s = append(s, ch[i].name)
	}
	return strings.Join(s, ".")
}

func checkC16(e *Engine, r *Report) {
	r.Rules = []string{
		"R6 sysfs reader table: every readSysfsEntry call whose constant entry name or destination field belongs to the discovered-topology table stores that entry into exactly the model field of that name's meaning (physical_package_id→pkg, die_id→die, core_id→core, core_cpus_list/thread_siblings_list→threads, cpulist→node.cpus, distance→node.distance, online/present/possible/isolated→the system sets, shared_cpu_list→cache.cpus, level→cache.level); CPUs and nodes take their id from their own sysfs directory name and are registered under that id; a CPU's node is the node link in its own directory; online/isolated flags are membership of the CPU's own id in the discovered sets",
		"R9 accessor fidelity: each topology accessor of cpu, node, cpuPackage and system returns (possibly through a sibling accessor or a pure IDSet→CPUSet conversion) exactly its table field of the receiver, and reads no other topology field",
		"R6 grouping agreement: discoverPackages registers each online CPU in the package named by its own pkg id and adds its id / node / die to the package's cpus / nodes / dies sets and to the die-indexed maps under its own die id",
		"R6 pool construction agreement: every build*Pool creates one node for the unit id it was given with the parent it was given, takes the pool's CPUs from that same unit's hardware accessor, hands the same node and CPU set to getCpuSupply and getMemSupply and stores the results in that node; child pools are built for the ids enumerated by the parent unit's own accessor, with the new node as their parent, and only when there is more than one child (redundant levels omitted); the virtual root exists only with several sockets and is the policy's root, otherwise the first socket is",
		"R11 supply partition (shared with C01): isolated, reserved and sharable sets of a pool are pairwise disjoint, cover cpus ∩ available exactly, and the free supply is a clone",
		"R2 memory attachment: the root pool takes every node that has memory; any other pool takes the nodes sharing a CPU with it plus the CPU-less PMEM/HBM nodes one of whose closest CPU-bearing DRAM nodes it already holds; a memory-less NUMA node gets no pool",
		"round 4: checkConstraints reads only sets stored earlier in the same call and does not replace them before a successful return; it refuses a reserved cpuset outside the available CPUs, mixing isolated and normal CPUs, or with several isolated CPUs; splitMemsByType puts each node into the result of its own type only; getMemSupply adds each class of special memory to the set of that class",
	}
	r.NotDecided = []string{"that the parsers turn every sysfs text into the right numbers and sets (value-level)", "hardware containment facts (a die's CPUs are a subset of its package's, sibling units are disjoint): properties of the machine description, assumed", "memory sizes and the DRAM/PMEM/HBM classification heuristic", "that child memory sets are subsets of the parent's (follows from containment of CPU sets, a hardware fact)"}
	r.Assumptions = []string{"sysfs describes a consistent machine (threads ⊆ core ⊆ die ⊆ package, one node per CPU)"}

	// ================================================================== sysfs reader table
	read := r.Anchor(pkgSysfs, "readSysfsEntry")
	cpuT, nodeT, pkgT, sysT := e.Named(pkgSysfs, "cpu"), e.Named(pkgSysfs, "node"), e.Named(pkgSysfs, "cpuPackage"), e.Named(pkgSysfs, "system")
	if read == nil || cpuT == nil || nodeT == nil || pkgT == nil || sysT == nil {
		r.Undecided("anchor:sysfs-types", "anchor", "sysfs model types exist", "-", nil, "cpu/node/cpuPackage/system not found")
		return
	}
	type dst struct{ typ, field string }
	entryTable := map[string]dst{
		"possible": {"system", "possibleCPUs"}, "present": {"system", "presentCPUs"}, "online": {"system", "onlineCPUs"}, "isolated": {"system", "isolatedCPUs"},
		"topology/physical_package_id": {"cpu", "pkg"}, "topology/die_id": {"cpu", "die"}, "topology/cluster_id": {"cpu", "cluster"}, "topology/core_id": {"cpu", "core"},
		"topology/core_cpus_list": {"cpu", "threads"}, "topology/thread_siblings_list": {"cpu", "threads"},
		"cpulist": {"node", "cpus"}, "distance": {"node", "distance"},
		"shared_cpu_list": {"Cache", "cpus"}, "level": {"Cache", "level"},
	}
	fieldEntries := map[dst][]string{}
	for en, d := range entryTable {
		fieldEntries[d] = append(fieldEntries[d], en)
	}
	seenEntries := map[string]bool{}
	nReads := 0
	for _, fn := range e.funcsInPkg(pkgSysfs) {
		for _, c := range e.callsTo(fn, read) {
			a := callArgs(c)
			if len(a) < 3 {
				continue
			}
			entry, isConst := constString(a[1])
			// destination: interface holding the address of a field
			var d dst
			hasDst := false
			Origins(a[2], func(v ssa.Value) bool {
				if mi, ok := v.(*ssa.MakeInterface); ok {
					if fa, ok := mi.X.(*ssa.FieldAddr); ok {
						if own := fieldOwner(fa); own != nil {
							d, hasDst = dst{own.Obj().Name(), fieldOfAddr(fa).Name()}, true
						}
					}
					return true
				}
				return false
			})
			want, entryKnown := entryTable[entry]
			_, fieldKnown := fieldEntries[d]
			if !(isConst && entryKnown) && !(hasDst && fieldKnown) {
				continue
			}
			// node-level "online" is read into a local string (destination nil): the system-level table entry applies only to a field destination
			if isConst && entryKnown && !hasDst {
				continue
			}
			nReads++
			ok := isConst && entryKnown && hasDst && want == d
			why := fmt.Sprintf("entry %q is read into %s.%s", entry, d.typ, d.field)
			if isConst && entryKnown {
				seenEntries[entry] = true
				why += fmt.Sprintf(" (table: %s.%s)", want.typ, want.field)
			} else {
				why += fmt.Sprintf(" (table: that field is filled from %v)", fieldEntries[d])
			}
			r.Check("R6:sysfs-entry@"+d.typ+"."+d.field+"<-"+entry, "R6 sysfs reader table", "a topology attribute file is read into the model field that stands for it", e.InstrPos(c), fn, ok, why, true)
		}
	}
	r.MinInstances("topology attribute reads", nReads, 8)
	for _, must := range []string{"topology/physical_package_id", "topology/core_id", "cpulist", "distance", "online", "isolated"} {
		r.Check("R6:sysfs-entry-read#"+must, "R6 sysfs reader table", "the attribute "+must+" is read at all", "-", nil, seenEntries[must], "", false)
	}
	// identities
	enumID := e.Fn(pkgSysfs, "getEnumeratedID")
	for _, spec := range []struct {
		fn, typ, mapField string
	}{{"system.discoverCPU", "cpu", "cpus"}, {"system.discoverNode", "node", "nodes"}} {
		fn := r.Anchor(pkgSysfs, spec.fn)
		if fn == nil || enumID == nil {
			continue
		}
		fID := e.Field(pkgSysfs, spec.typ, "id")
		okID := false
		AllInstrsOf(fn, func(in ssa.Instruction) {
			if st, ok := in.(*ssa.Store); ok && fieldOfAddr(st.Addr) == fID {
				if c, ok := st.Val.(*ssa.Call); ok && c.Common().StaticCallee() == enumID && paramIndex(callArgs(c)[0]) == 1 {
					okID = true
				}
			}
		})
		r.Check("R6:id-from-own-directory@"+spec.typ, "R6 sysfs reader table", "a discovered "+spec.typ+" takes its id from the name of its own sysfs directory", e.Pos(fn.Pos()), fn, okID, "", true)
		// registered under its own id
		fMap := e.Field(pkgSysfs, "system", spec.mapField)
		okReg := false
		AllInstrsOf(fn, func(in ssa.Instruction) {
			if mu, ok := in.(*ssa.MapUpdate); ok {
				if f, _ := loadedField(mu.Map); f == fMap {
					if kf, kb := loadedField(mu.Key); kf == fID && (kb == mu.Value || sameValue(kb, mu.Value)) {
						okReg = true
					}
				}
			}
		})
		r.Check("R6:registered-under-own-id@"+spec.typ, "R6 sysfs reader table", "a discovered "+spec.typ+" is registered in system."+spec.mapField+" under its own id", e.Pos(fn.Pos()), fn, okReg, "", true)
	}
	if fn := e.Fn(pkgSysfs, "system.discoverCPU"); fn != nil {
		fID := e.Field(pkgSysfs, "cpu", "id")
		for _, fl := range []struct{ flag, set string }{{"isolated", "isolatedCPUs"}, {"online", "onlineCPUs"}} {
			ff, fs := e.Field(pkgSysfs, "cpu", fl.flag), e.Field(pkgSysfs, "system", fl.set)
			ok := false
			AllInstrsOf(fn, func(in ssa.Instruction) {
				st, isSt := in.(*ssa.Store)
				if !isSt || fieldOfAddr(st.Addr) != ff {
					return
				}
				if c, isC := st.Val.(*ssa.Call); isC && callObj(c.Common()) != nil && callObj(c.Common()).Name() == "Has" {
					a := callArgs(c)
					sf, _ := loadedField(a[0])
					kf, _ := loadedField(variadicSingle(a[1]))
					if sf == fs && kf == fID {
						ok = true
					}
				}
			})
			r.Check("R6:flag-from-set#"+fl.flag, "R6 sysfs reader table", "cpu."+fl.flag+" is the membership of the CPU's own id in system."+fl.set, e.Pos(fn.Pos()), fn, ok, "", true)
		}
		// node link
		fNode := e.Field(pkgSysfs, "cpu", "node")
		okNode := false
		AllInstrsOf(fn, func(in ssa.Instruction) {
			st, isSt := in.(*ssa.Store)
			if !isSt || fieldOfAddr(st.Addr) != fNode {
				return
			}
			c, isC := st.Val.(*ssa.Call)
			if !isC || c.Common().StaticCallee() != enumID {
				return
			}
			// argument: element of filepath.Glob(filepath.Join(path, "node[0-9]*"))
			var glob *ssa.Call
			if u, ok := callArgs(c)[0].(*ssa.UnOp); ok {
				if ia, ok := u.X.(*ssa.IndexAddr); ok {
					if ex, ok := ia.X.(*ssa.Extract); ok {
						glob, _ = ex.Tuple.(*ssa.Call)
					}
				}
			}
			if glob == nil || glob.Common().StaticCallee() == nil || glob.Common().StaticCallee().String() != "path/filepath.Glob" {
				return
			}
			if j, ok := callArgs(glob)[0].(*ssa.Call); ok && j.Common().StaticCallee() != nil && j.Common().StaticCallee().String() == "path/filepath.Join" {
				pat := false
				elems := sliceLiteralElems(callArgs(j)[0])
				if len(elems) == 2 && paramIndex(elems[0]) == 1 {
					if sv, ok := constString(elems[1]); ok && strings.HasPrefix(sv, "node") {
						pat = true
					}
				}
				okNode = pat
			}
		})
		r.Check("R6:cpu-node-from-own-link", "R6 sysfs reader table", "a CPU's NUMA node is the node<N> link inside the CPU's own sysfs directory", e.Pos(fn.Pos()), fn, okNode, "", true)
	}

	// a cache object's identity (level, type, id — the de-duplication key of saveCache) and its sharing set are discovered
	// or discovery fails: an unreadable attribute never leaves a zero value behind, which would alias different caches
	if dc := r.Anchor(pkgSysfs, "system.discoverCache"); dc != nil {
		save := e.Fn(pkgSysfs, "system.saveCache")
		nID := 0
		for _, c := range e.callsTo(dc, read) {
			entry, isConst := constString(callArgs(c)[1])
			if !isConst || !(entry == "id" || entry == "level" || entry == "type" || entry == "shared_cpu_list") {
				continue
			}
			nID++
			failed := func(cond ssa.Value) (bool, bool) { k, v := callSucceeded(c.Value())(cond); return k, !v }
			p := FindPath(PathQuery{Fn: dc, From: c.(ssa.Instruction), Assume: failed, Target: func(in ssa.Instruction) bool {
				if save != nil && e.IsCallTo(in, fset(save)) {
					return true
				}
				ret, ok := in.(*ssa.Return)
				return ok && e.ClassifyReturn(ret) != retNonNilErr
			}})
			r.Check("R6:cache-identity-read-or-fail#"+entry, "R6 sysfs reader table", "when the cache attribute "+entry+" cannot be read, discovery of that cache fails; the cache is never registered with a defaulted "+entry, e.InstrPos(c), dc, p == nil, e.pathString(p), true)
		}
		r.MinInstances("cache identity attributes read", nID, 4)
	}

	// ================================================================== accessor fidelity
	type acc struct {
		typ, method string
		fields      []string
	}
	accs := []acc{
		{"cpu", "ID", []string{"id"}}, {"cpu", "PackageID", []string{"pkg"}}, {"cpu", "DieID", []string{"die"}}, {"cpu", "NodeID", []string{"node"}}, {"cpu", "CoreID", []string{"core"}},
		{"cpu", "ThreadCPUSet", []string{"threads"}}, {"cpu", "Online", []string{"online"}}, {"cpu", "Isolated", []string{"isolated"}},
		{"node", "ID", []string{"id"}}, {"node", "CPUSet", []string{"cpus"}}, {"node", "Distance", []string{"distance"}},
		{"cpuPackage", "ID", []string{"id"}}, {"cpuPackage", "CPUSet", []string{"cpus"}}, {"cpuPackage", "DieIDs", []string{"dies"}}, {"cpuPackage", "NodeIDs", []string{"nodes"}},
		{"cpuPackage", "DieNodeIDs", []string{"dieNodes"}}, {"cpuPackage", "DieCPUSet", []string{"dieCPUs"}},
		{"system", "PossibleCPUs", []string{"possibleCPUs"}}, {"system", "PresentCPUs", []string{"presentCPUs"}}, {"system", "OnlineCPUs", []string{"onlineCPUs"}}, {"system", "IsolatedCPUs", []string{"isolatedCPUs"}},
		{"system", "Isolated", []string{"isolatedCPUs"}}, {"system", "OfflineCPUs", []string{"onlineCPUs", "presentCPUs"}}, {"system", "Offlined", []string{"onlineCPUs", "presentCPUs"}},
		{"system", "Package", []string{"packages"}}, {"system", "Node", []string{"nodes"}}, {"system", "CPU", []string{"cpus"}},
	}
	var fieldsRead func(fn *ssa.Function, seen map[*ssa.Function]bool) map[string]bool
	fieldsRead = func(fn *ssa.Function, seen map[*ssa.Function]bool) map[string]bool {
		out := map[string]bool{}
		if fn == nil || seen[fn] || len(fn.Params) == 0 {
			return out
		}
		seen[fn] = true
		AllInstrs(fn, func(in ssa.Instruction) {
			if fa, ok := in.(*ssa.FieldAddr); ok && paramIndex(fa.X) == 0 {
				f := fieldOfAddr(fa).Name()
				if f != "Logger" && f != "path" {
					out[f] = true
				}
			}
			if c, ok := in.(ssa.CallInstruction); ok {
				if callee := c.Common().StaticCallee(); callee != nil && callee.Signature.Recv() != nil && len(c.Common().Args) > 0 && paramIndex(c.Common().Args[0]) == 0 {
					for f := range fieldsRead(callee, seen) {
						out[f] = true
					}
				}
			}
		})
		return out
	}
	nAcc := 0
	for _, a := range accs {
		fn := e.Fn(pkgSysfs, a.typ+"."+a.method)
		if fn == nil {
			r.Undecided("R9:accessor@"+a.typ+"."+a.method, "R9 accessor fidelity", "the accessor exists", "-", nil, "not found")
			continue
		}
		nAcc++
		got := fieldsRead(fn, map[*ssa.Function]bool{})
		var gl []string
		for f := range got {
			gl = append(gl, f)
		}
		sort.Strings(gl)
		want := append([]string{}, a.fields...)
		sort.Strings(want)
		r.Check("R9:accessor@"+a.typ+"."+a.method, "R9 accessor fidelity", a.typ+"."+a.method+"() reports exactly the discovered "+strings.Join(want, "/")+" of its receiver", e.Pos(fn.Pos()), fn,
			strings.Join(gl, ",") == strings.Join(want, ","), "reads "+strings.Join(gl, ","), true)
	}
	r.MinInstances("topology accessors", nAcc, 20)
	// the indexed accessors look up their own argument
	for _, a := range []struct{ typ, method, field string }{{"system", "Package", "packages"}, {"system", "Node", "nodes"}, {"system", "CPU", "cpus"}, {"cpuPackage", "DieNodeIDs", "dieNodes"}, {"cpuPackage", "DieCPUSet", "dieCPUs"}} {
		fn := e.Fn(pkgSysfs, a.typ+"."+a.method)
		if fn == nil {
			continue
		}
		f := e.Field(pkgSysfs, a.typ, a.field)
		ok := false
		AllInstrsOf(fn, func(in ssa.Instruction) {
			if lk, isLk := in.(*ssa.Lookup); isLk {
				if g, _ := loadedField(lk.X); g == f && paramIndex(lk.Index) == 1 {
					ok = true
				}
			}
		})
		r.Check("R9:indexed-accessor@"+a.typ+"."+a.method, "R9 accessor fidelity", a.typ+"."+a.method+"(id) looks up "+a.field+"[id] with the id it was given", e.Pos(fn.Pos()), fn, ok, "", true)
	}

	// ================================================================== grouping agreement
	if dp := r.Anchor(pkgSysfs, "system.discoverPackages"); dp != nil {
		cpuField := func(v ssa.Value) string {
			out := ""
			Origins(v, func(x ssa.Value) bool {
				if f, b := loadedField(x); f != nil {
					if n := namedOf(b.Type()); n == cpuT {
						out = f.Name()
					}
					return true
				}
				return false
			})
			return out
		}
		// destination: cpuPackage field, optionally indexed by a cpu field
		pkgDest := func(v ssa.Value) (field, key string) {
			Origins(v, func(x ssa.Value) bool {
				switch y := x.(type) {
				case *ssa.Extract:
					if lk, ok := y.Tuple.(*ssa.Lookup); ok {
						if f, b := loadedField(lk.X); f != nil && namedOf(b.Type()) == pkgT {
							field, key = f.Name(), cpuField(lk.Index)
							return true
						}
					}
				case *ssa.Lookup:
					if f, b := loadedField(y.X); f != nil && namedOf(b.Type()) == pkgT {
						field, key = f.Name(), cpuField(y.Index)
						return true
					}
				}
				if f, b := loadedField(x); f != nil && namedOf(b.Type()) == pkgT {
					field = f.Name()
					return true
				}
				return false
			})
			return
		}
		want := map[string][2]string{"cpus": {"", "id"}, "nodes": {"", "node"}, "dies": {"", "die"}, "dieCPUs": {"die", "id"}, "dieNodes": {"die", "node"}}
		seen := map[string]int{}
		AllInstrsOf(dp, func(in ssa.Instruction) {
			var field, key, val string
			switch x := in.(type) {
			case *ssa.Call:
				if callObj(x.Common()) == nil || callObj(x.Common()).Name() != "Add" {
					return
				}
				a := callArgs(x)
				field, key = pkgDest(a[0])
				val = cpuField(variadicSingle(a[1]))
			case *ssa.MapUpdate:
				f, b := loadedField(x.Map)
				if f == nil || namedOf(b.Type()) != pkgT {
					return
				}
				field, key = f.Name(), cpuField(x.Key)
				if c, ok := x.Value.(*ssa.Call); ok && c.Common().StaticCallee() != nil && c.Common().StaticCallee().Name() == "NewIDSet" && len(c.Common().Args) == 1 {
					val = cpuField(variadicSingle(c.Common().Args[0]))
				} else {
					return // a fresh inner map (cluster tables), not part of the property
				}
			default:
				return
			}
			w, tracked := want[field]
			if !tracked {
				return
			}
			seen[field]++
			r.Check("R6:grouping@cpuPackage."+field, "R6 grouping agreement", "discoverPackages files each CPU's id/node/die under the package set of that meaning, indexed by the CPU's own die where the set is per die", e.InstrPos(in), dp,
				key == w[0] && val == w[1], fmt.Sprintf("adds cpu.%s to %s (indexed by cpu.%s); table: cpu.%s (indexed by cpu.%s)", val, field, key, w[1], w[0]), true)
		})
		for f := range want {
			r.Check("R6:grouping-present@cpuPackage."+f, "R6 grouping agreement", "discoverPackages fills cpuPackage."+f, e.Pos(dp.Pos()), dp, seen[f] > 0, "", false)
		}
		// the package is looked up and registered under cpu.pkg, and carries it as its id
		fPk := e.Field(pkgSysfs, "system", "packages")
		okLk, okReg, okID := false, false, false
		AllInstrsOf(dp, func(in ssa.Instruction) {
			switch x := in.(type) {
			case *ssa.Lookup:
				if f, _ := loadedField(x.X); f == fPk && cpuField(x.Index) == "pkg" {
					okLk = true
				}
			case *ssa.MapUpdate:
				if f, _ := loadedField(x.Map); f == fPk && cpuField(x.Key) == "pkg" {
					okReg = true
				}
			case *ssa.Store:
				if f := fieldOfAddr(x.Addr); f != nil && f.Name() == "id" {
					if fa, ok := x.Addr.(*ssa.FieldAddr); ok && fieldOwner(fa) == pkgT && cpuField(x.Val) == "pkg" {
						okID = true
					}
				}
			}
		})
		r.Check("R6:grouping@packages", "R6 grouping agreement", "a CPU's package is looked up and registered under the CPU's own pkg id and carries that id", e.Pos(dp.Pos()), dp, okLk && okReg && okID, fmt.Sprintf("lookup=%v register=%v id=%v", okLk, okReg, okID), true)
		// only online CPUs are grouped
		online := e.Fn(pkgSysfs, "cpu.Online")
		okOnline := false
		AllInstrsOf(dp, func(in ssa.Instruction) {
			if mu, ok := in.(*ssa.MapUpdate); ok {
				if f, _ := loadedField(mu.Map); f == fPk {
					for _, cf := range dominatingConds(mu.Block()) {
						if c, ok := cf.Cond.(*ssa.Call); ok && c.Common().StaticCallee() == online && cf.Val {
							okOnline = true
						}
					}
				}
			}
		})
		r.Check("R6:grouping-online-only", "R6 grouping agreement", "only online CPUs are filed into packages (an offline CPU has no valid topology ids)", e.Pos(dp.Pos()), dp, okOnline, "", true)
	}

	// ================================================================== pool construction
	getCpu := r.Anchor(pkgTA, "policy.getCpuSupply")
	getMem := r.Anchor(pkgTA, "policy.getMemSupply")
	if getCpu == nil || getMem == nil {
		return
	}
	type buildSpec struct {
		fn       string
		ctor     string
		idParam  int      // index of the unit id parameter (-1: none)
		parParam int      // index of the parent parameter (-1: nilnode)
		chain    []string // accessor chain producing the CPUs, innermost first
		chainIDs [][]int  // parameter indices expected as the arguments of each chain step
	}
	specs := []buildSpec{
		{"policy.buildSocketPool", "NewSocketNode", 1, 2, []string{"Package", "CPUSet"}, [][]int{{1}, {}}},
		{"policy.buildDiePool", "NewDieNode", 2, 3, []string{"Package", "DieCPUSet"}, [][]int{{1}, {2}}},
		{"policy.buildNumaNodePool", "NewNumaNode", 2, 3, []string{"Node", "CPUSet"}, [][]int{{2}, {}}},
		{"policy.buildRootPool", "NewVirtualNode", -1, -1, []string{"CPUSet"}, [][]int{{}}},
	}
	created := map[string]ssa.Value{}
	for _, sp := range specs {
		fn := r.Anchor(pkgTA, sp.fn)
		ctor := e.Fn(pkgTA, "policy."+sp.ctor)
		if fn == nil || ctor == nil {
			continue
		}
		short := strings.TrimPrefix(sp.fn, "policy.")
		cs := e.callsTo(fn, ctor)
		if len(cs) != 1 {
			r.Check("R6:pool-node@"+short, "R6 pool construction agreement", short+" creates exactly one node", e.Pos(fn.Pos()), fn, false, fmt.Sprintf("%d constructor calls", len(cs)), true)
			continue
		}
		node := cs[0].Value()
		created[sp.fn] = node
		a := callArgs(cs[0])
		okCtor := true
		if sp.idParam >= 0 {
			okCtor = paramIndex(a[1]) == sp.idParam && paramIndex(a[2]) == sp.parParam
		}
		r.Check("R6:pool-node@"+short, "R6 pool construction agreement", short+" creates the node for the unit id and under the parent it was given", e.InstrPos(cs[0]), fn, okCtor, "", true)
		// the CPU set
		isNode := func(v ssa.Value) bool {
			hit := false
			Origins(v, func(x ssa.Value) bool {
				if x == node {
					hit = true
				}
				if mi, ok := x.(*ssa.MakeInterface); ok && mi.X == node {
					hit = true
				}
				return hit
			})
			return hit
		}
		var cpuArgs []ssa.Value
		for _, sup := range []*ssa.Function{getCpu, getMem} {
			scs := e.callsTo(fn, sup)
			if len(scs) != 1 {
				r.Check("R6:pool-supply@"+short+"#"+sup.Name(), "R6 pool construction agreement", short+" calls "+sup.Name()+" once", e.Pos(fn.Pos()), fn, false, fmt.Sprintf("%d calls", len(scs)), true)
				continue
			}
			sa := callArgs(scs[0])
			cpuArgs = append(cpuArgs, sa[2])
			ch := accessorChain(sa[2])
			okCh := len(ch) >= len(sp.chain)
			why := "CPUs come from " + chainNames(ch)
			if okCh {
				for i, name := range sp.chain {
					st := ch[len(sp.chain)-1-i] // ch is outermost first
					if st.name != name || len(st.args) != len(sp.chainIDs[i]) {
						okCh = false
						break
					}
					for j, pi := range sp.chainIDs[i] {
						if paramIndex(st.args[j]) != pi {
							okCh = false
							why += fmt.Sprintf("; %s is called with another id than parameter #%d", name, pi)
						}
					}
				}
				// the root of the chain is the policy's system
				if okCh {
					root := callArgs(ch[len(sp.chain)-1].call)[0]
					if f, b := loadedField(root); f == nil || f.Name() != "sys" || paramIndex(b) != 0 {
						okCh, why = false, why+"; the chain does not start at p.sys"
					}
				}
			}
			r.Check("R6:pool-cpus@"+short+"#"+sup.Name(), "R6 pool construction agreement", short+" takes the pool's CPUs from the hardware accessor of the same unit ("+strings.Join(sp.chain, ".")+") and hands the new node to "+sup.Name(),
				e.InstrPos(scs[0]), fn, okCh && isNode(sa[1]), why, true)
			// results stored in that node
			okStore := true
			nStores := 0
			if t, ok := scs[0].Value().Type().(*types.Tuple); ok {
				for _, ref := range *scs[0].Value().Referrers() {
					ex, ok := ref.(*ssa.Extract)
					if !ok {
						continue
					}
					for _, r2 := range *ex.Referrers() {
						st, ok := r2.(*ssa.Store)
						if !ok {
							continue
						}
						nStores++
						fa, ok := st.Addr.(*ssa.FieldAddr)
						if !ok {
							okStore = false
							continue
						}
						// node.node.<field>
						base := fa.X
						if fa2, ok := base.(*ssa.FieldAddr); ok {
							base = fa2.X
						}
						if base != node {
							okStore = false
						}
					}
				}
				if nStores != t.Len() {
					okStore = false
				}
			}
			r.Check("R6:pool-stores@"+short+"#"+sup.Name(), "R6 pool construction agreement", "the supplies computed for the new pool are stored in that pool", e.InstrPos(scs[0]), fn, okStore, fmt.Sprintf("%d stores", nStores), true)
		}
		if len(cpuArgs) == 2 {
			r.Check("R6:pool-same-cpus@"+short, "R6 pool construction agreement", "CPU supply and memory supply of a pool are computed for the same CPU set", e.Pos(fn.Pos()), fn, cpuArgs[0] == cpuArgs[1] || sameValue(cpuArgs[0], cpuArgs[1]), "", true)
		}
	}
	// children
	type childSpec struct {
		parent, child string
		enum          []string // accessor chain enumerating the child ids, innermost first
		enumIDs       [][]int
		idArgs        map[int]int // child call argument index -> parent parameter index passed through
		childIDArg    int         // argument index holding the enumerated id
		parentArg     int
	}
	children := []childSpec{
		{"policy.buildSocketPool", "policy.buildDiePool", []string{"Package", "DieIDs"}, [][]int{{1}, {}}, map[int]int{1: 1}, 2, 3},
		{"policy.buildSocketPool", "policy.buildNumaNodePool", []string{"Package", "NodeIDs"}, [][]int{{1}, {}}, map[int]int{1: 1}, 2, 3},
		{"policy.buildDiePool", "policy.buildNumaNodePool", []string{"Package", "DieNodeIDs"}, [][]int{{1}, {2}}, map[int]int{1: 1}, 2, 3},
	}
	nChild := 0
	for _, cs := range children {
		pf, cf := e.Fn(pkgTA, cs.parent), e.Fn(pkgTA, cs.child)
		if pf == nil || cf == nil {
			continue
		}
		key := strings.TrimPrefix(cs.parent, "policy.") + "->" + strings.TrimPrefix(cs.child, "policy.")
		calls := e.callsTo(pf, cf)
		if len(calls) != 1 {
			r.Check("R6:children@"+key, "R6 pool construction agreement", "the parent builds its children in one loop", e.Pos(pf.Pos()), pf, false, fmt.Sprintf("%d calls", len(calls)), true)
			continue
		}
		nChild++
		a := callArgs(calls[0])
		ok, why := true, ""
		for ai, pi := range cs.idArgs {
			if paramIndex(a[ai]) != pi {
				ok, why = false, fmt.Sprintf("argument #%d is not the parent's own id", ai)
			}
		}
		// parent argument is the node created here
		parentOK := false
		Origins(a[cs.parentArg], func(x ssa.Value) bool {
			if x == created[cs.parent] {
				parentOK = true
			}
			if mi, isMI := x.(*ssa.MakeInterface); isMI && mi.X == created[cs.parent] {
				parentOK = true
			}
			return parentOK
		})
		if !parentOK {
			ok, why = false, "the child's parent is not the pool created in this function"
		}
		// enumerated id: element of the slice from the accessor
		var idsSlice ssa.Value
		if u, isU := a[cs.childIDArg].(*ssa.UnOp); isU {
			if ia, isIA := u.X.(*ssa.IndexAddr); isIA {
				idsSlice = ia.X
			}
		}
		if idsSlice == nil {
			ok, why = false, "the child id is not an element of an enumerated id list"
		} else {
			ch := accessorChain(idsSlice)
			if len(ch) < len(cs.enum) {
				ok, why = false, "child ids come from "+chainNames(ch)
			} else {
				for i, name := range cs.enum {
					st := ch[len(cs.enum)-1-i]
					if st.name != name || len(st.args) != len(cs.enumIDs[i]) {
						ok, why = false, "child ids come from "+chainNames(ch)+", expected "+strings.Join(cs.enum, ".")
						break
					}
					for j, pi := range cs.enumIDs[i] {
						if paramIndex(st.args[j]) != pi {
							ok, why = false, name+" is asked about another unit than the parent's"
						}
					}
				}
			}
			// redundant level omitted: len(ids) > 1 dominates the loop
			guard := false
			for _, cfc := range dominatingConds(calls[0].Block()) {
				b, isB := cfc.Cond.(*ssa.BinOp)
				if !isB || !cfc.Val || b.Op != token.GTR || !isConstInt(b.Y, 1) {
					continue
				}
				if seq, isLen := isLenCall(b.X); isLen && (seq == idsSlice || sameValue(seq, idsSlice)) {
					guard = true
				}
			}
			r.Check("R6:children-only-if-several@"+key, "R6 pool construction agreement", "child pools are built only when the parent has more than one such child (redundant levels are omitted)", e.InstrPos(calls[0]), pf, guard, "", true)
		}
		r.Check("R6:children@"+key, "R6 pool construction agreement", "children are built for the ids the parent unit itself enumerates, with the parent's ids passed through and the new pool as their parent", e.InstrPos(calls[0]), pf, ok, why, true)
	}
	r.MinInstances("parent→child pool construction sites", nChild, 3)
	// dies take precedence over NUMA nodes directly under a socket: the NodeIDs loop is in the else-arm of the DieIDs test
	if bs := e.Fn(pkgTA, "policy.buildSocketPool"); bs != nil {
		die, numa := e.Fn(pkgTA, "policy.buildDiePool"), e.Fn(pkgTA, "policy.buildNumaNodePool")
		dc, nc := e.callsTo(bs, die), e.callsTo(bs, numa)
		ok := false
		if len(dc) == 1 && len(nc) == 1 {
			p1 := FindPath(PathQuery{Fn: bs, From: dc[0].(ssa.Instruction), Target: func(x ssa.Instruction) bool { return x == nc[0].(ssa.Instruction) }})
			p2 := FindPath(PathQuery{Fn: bs, From: nc[0].(ssa.Instruction), Target: func(x ssa.Instruction) bool { return x == dc[0].(ssa.Instruction) }})
			ok = p1 == nil && p2 == nil
		}
		r.Check("R6:socket-children-exclusive", "R6 pool construction agreement", "a socket gets either die pools or NUMA-node pools as direct children, never both (every NUMA pool has one parent)", e.Pos(bs.Pos()), bs, ok, "", true)
	}
	// root
	if br := e.Fn(pkgTA, "policy.buildRootPool"); br != nil {
		fRoot := e.Field(pkgTA, "policy", "root")
		sockCount := e.FuncObj(pkgSysfs, "System.SocketCount")
		several := func(cond ssa.Value) (bool, bool) {
			b, ok := cond.(*ssa.BinOp)
			if !ok {
				return false, false
			}
			c, ok := b.X.(*ssa.Call)
			if !ok || callObj(c.Common()) != sockCount {
				return false, false
			}
			if b.Op == token.GTR && isConstInt(b.Y, 1) {
				return true, false // assume a single socket
			}
			return false, false
		}
		ctor := e.Fn(pkgTA, "policy.NewVirtualNode")
		p := FindPath(PathQuery{Fn: br, Assume: several, Target: func(x ssa.Instruction) bool { return e.IsCallTo(x, fset(ctor)) }})
		r.Check("R6:virtual-root-only-multi-socket", "R6 pool construction agreement", "the virtual root is created only on machines with several sockets", e.Pos(br.Pos()), br, p == nil && len(e.callsTo(br, ctor)) == 1, e.pathString(p), true)
		okRoot := false
		AllInstrsOf(br, func(in ssa.Instruction) {
			if st, ok := in.(*ssa.Store); ok && fieldOfAddr(st.Addr) == fRoot {
				Origins(st.Val, func(x ssa.Value) bool {
					if x == created["policy.buildRootPool"] {
						okRoot = true
					}
					if mi, ok := x.(*ssa.MakeInterface); ok && mi.X == created["policy.buildRootPool"] {
						okRoot = true
					}
					return okRoot
				})
			}
		})
		r.Check("R6:virtual-root-is-root", "R6 pool construction agreement", "the virtual root becomes the policy's root", e.Pos(br.Pos()), br, okRoot, "", true)
		// every package gets a socket pool under that root
		bs := e.Fn(pkgTA, "policy.buildSocketPool")
		okAll := false
		for _, c := range e.callsTo(br, bs) {
			a := callArgs(c)
			if u, ok := a[1].(*ssa.UnOp); ok {
				if ia, ok := u.X.(*ssa.IndexAddr); ok {
					ch := accessorChain(ia.X)
					if len(ch) >= 1 && ch[0].name == "PackageIDs" {
						okAll = true
					}
				}
			}
		}
		r.Check("R6:socket-per-package", "R6 pool construction agreement", "a socket pool is built for every package id the system reports", e.Pos(br.Pos()), br, okAll, "", true)
	}
	if bs := e.Fn(pkgTA, "policy.buildSocketPool"); bs != nil {
		fRoot := e.Field(pkgTA, "policy", "root")
		ok := false
		AllInstrsOf(bs, func(in ssa.Instruction) {
			st, isSt := in.(*ssa.Store)
			if !isSt || fieldOfAddr(st.Addr) != fRoot {
				return
			}
			for _, cf := range dominatingConds(st.Block()) {
				b, isB := cf.Cond.(*ssa.BinOp)
				if !isB || b.Op != token.EQL || !cf.Val {
					continue
				}
				if f, _ := loadedField(b.X); f == fRoot {
					if k, isK := b.Y.(*ssa.Const); isK && k.IsNil() {
						ok = true
					}
				}
			}
		})
		r.Check("R6:first-socket-is-root", "R6 pool construction agreement", "without a virtual root the (only) socket becomes the root, and an existing root is never replaced", e.Pos(bs.Pos()), bs, ok, "", true)
	}

	// the tree is rebuilt from a clean root: on every path from an entry point to the construction of the first
	// socket pool the policy's root is (re)assigned — otherwise `if p.root == nil { p.root = socket }` keeps the
	// root of the previous tree on single-socket machines
	{
		fRoot := e.Field(pkgTA, "policy", "root")
		bs := e.Fn(pkgTA, "policy.buildSocketPool")
		br := e.Fn(pkgTA, "policy.buildRootPool")
		isRootStore := func(in ssa.Instruction) bool {
			st, ok := in.(*ssa.Store)
			return ok && fieldOfAddr(st.Addr) == fRoot
		}
		var need func(fn *ssa.Function, target func(ssa.Instruction) bool, depth int, trail string) (bool, string)
		need = func(fn *ssa.Function, target func(ssa.Instruction) bool, depth int, trail string) (bool, string) {
			p := FindPath(PathQuery{Fn: fn, Block: isRootStore, Target: target})
			if p == nil {
				return true, ""
			}
			callers := e.Callers(fn)
			if depth >= 4 || len(callers) == 0 {
				return false, "root is not reset on: " + trail + FnName(fn) + " [" + e.pathString(p) + "]"
			}
			for _, cs := range callers {
				call := cs.Call.(ssa.Instruction)
				if ok, why := need(cs.Fn, func(in ssa.Instruction) bool { return in == call }, depth+1, trail+FnName(fn)+" <- "); !ok {
					return false, why
				}
			}
			return true, ""
		}
		if bs != nil && br != nil && fRoot != nil {
			ok, why := need(br, func(in ssa.Instruction) bool { return e.IsCallTo(in, fset(bs)) }, 0, "")
			r.Check("R6:root-reset-before-rebuild", "R6 pool construction agreement", "every (re)build of the pool tree starts from a freshly assigned root: the root is reset or set to the new virtual root before the first socket pool is created", e.Pos(br.Pos()), br, ok, why, true)
		}
	}

	// ================================================================== supply partition
	checkSupplyPartition(e, r, getCpu, "R11:supply-partition@getCpuSupply")
	checkPoolEnumeration(e, r)
	checkConstraintsFreshness(e, r)
	checkConstraintsRefusals(e, r)

	// ================================================================== memory attachment
	{
		fRoot := e.Field(pkgTA, "policy", "root")
		allMems := e.Fn(pkgTA, "policy.getAllMems")
		forCpus := e.Fn(pkgTA, "policy.getMemsForCpus")
		special := e.Fn(pkgTA, "policy.getClosestSpecialMem")
		isRoot := func(val bool) Assumption {
			return func(cond ssa.Value) (bool, bool) {
				b, ok := cond.(*ssa.BinOp)
				if !ok || (b.Op != token.EQL && b.Op != token.NEQ) {
					return false, false
				}
				fx, _ := loadedField(b.X)
				fy, _ := loadedField(b.Y)
				if fx == fRoot || fy == fRoot {
					return true, (b.Op == token.EQL) == val
				}
				return false, false
			}
		}
		checkMemSplit(e, r, getMem)
		if allMems != nil && forCpus != nil && special != nil {
			p1 := FindPath(PathQuery{Fn: getMem, Assume: isRoot(true), Target: func(x ssa.Instruction) bool { return e.IsCallTo(x, fset(forCpus, special)) }})
			p2 := FindPath(PathQuery{Fn: getMem, Assume: isRoot(false), Target: func(x ssa.Instruction) bool { return e.IsCallTo(x, fset(allMems)) }})
			r.Check("R2:root-takes-all-memory", "R2 memory attachment", "the root pool's memory is every node that has memory; other pools never take that shortcut", e.Pos(getMem.Pos()), getMem,
				p1 == nil && p2 == nil && len(e.callsTo(getMem, allMems)) == 1, e.pathString(p1)+e.pathString(p2), true)
			// non-root: locality mems from the pool's own cpus; special mem computed from exactly those mems and added
			okLoc, okSp := false, false
			var memsVal ssa.Value
			for _, c := range e.callsTo(getMem, forCpus) {
				if paramIndex(callArgs(c)[1]) == 2 {
					okLoc = true
					memsVal = c.Value()
				}
			}
			for _, c := range e.callsTo(getMem, special) {
				a := callArgs(c)
				if memsVal != nil && (a[1] == memsVal || sameValue(a[1], memsVal)) {
					okSp = true
				}
			}
			r.Check("R2:pool-memory-by-cpu-locality", "R2 memory attachment", "a non-root pool's memory nodes are chosen by the pool's own CPU set, and the CPU-less special memory is chosen relative to exactly those nodes", e.Pos(getMem.Pos()), getMem, okLoc && okSp, "", true)
			// getAllMems = FilterNodes(NodeIDs(), NodeHasMemory)
			okAll := false
			AllInstrsOf(allMems, func(in ssa.Instruction) {
				c, ok := in.(*ssa.Call)
				if !ok || callObj(c.Common()) == nil || callObj(c.Common()).Name() != "FilterNodes" {
					return
				}
				a := callArgs(c)
				ch := accessorChain(a[1])
				filt := variadicSingle(a[2])
				isHM := filterName(filt) == "NodeHasMemory"
				if len(ch) >= 1 && ch[0].name == "NodeIDs" && isHM {
					okAll = true
				}
			})
			r.Check("R2:all-mems-is-has-memory", "R2 memory attachment", "\"all memory\" is every NUMA node id filtered by NodeHasMemory only", e.Pos(allMems.Pos()), allMems, okAll, "", true)
			// getMemsForCpus: node added iff its CPUs intersect the pool's
			okInt := false
			AllInstrsOf(forCpus, func(in ssa.Instruction) {
				c, ok := in.(*ssa.Call)
				if !ok || callObj(c.Common()) == nil || callObj(c.Common()).Name() != "Add" {
					return
				}
				added := variadicSingle(callArgs(c)[1])
				for _, cf := range dominatingConds(c.Block()) {
					ie, ok := cf.Cond.(*ssa.Call)
					if !ok || callObj(ie.Common()) == nil || callObj(ie.Common()).Name() != "IsEmpty" || cf.Val {
						continue
					}
					ic, ok := callArgs(ie)[0].(*ssa.Call)
					if !ok || callObj(ic.Common()) == nil || callObj(ic.Common()).Name() != "Intersection" {
						continue
					}
					ia := callArgs(ic)
					var nodeSide, cpuSide ssa.Value
					for i := 0; i < 2; i++ {
						if paramIndex(ia[i]) == 1 {
							cpuSide = ia[i]
						} else {
							nodeSide = ia[i]
						}
					}
					if cpuSide == nil || nodeSide == nil {
						continue
					}
					ch := accessorChain(nodeSide)
					if len(ch) >= 2 && ch[0].name == "CPUSet" && ch[1].name == "Node" && len(ch[1].args) == 1 && (ch[1].args[0] == added || sameValue(ch[1].args[0], added)) {
						okInt = true
					}
				}
			})
			r.Check("R2:mems-for-cpus-by-intersection", "R2 memory attachment", "a NUMA node belongs to a pool exactly when its own CPU set intersects the pool's CPUs", e.Pos(forCpus.Pos()), forCpus, okInt, "", true)
			// getClosestSpecialMem: special.Add(id) only under mems.Has(closest DRAM-with-CPUs node), id is the filtered CPU-less PMEM/HBM node
			nSp, okAllSp := 0, true
			AllInstrsOf(special, func(in ssa.Instruction) {
				c, ok := in.(*ssa.Call)
				if !ok || callObj(c.Common()) == nil || callObj(c.Common()).Name() != "Add" {
					return
				}
				nSp++
				added := variadicSingle(callArgs(c)[1])
				// guard
				guarded := false
				for _, cf := range dominatingConds(c.Block()) {
					h, ok := cf.Cond.(*ssa.Call)
					if !ok || callObj(h.Common()) == nil || callObj(h.Common()).Name() != "Has" || !cf.Val {
						continue
					}
					if paramIndex(callArgs(h)[0]) != 1 {
						continue
					}
					// the tested id is ONE element of the closest group returned by ClosestNodes(added, DRAM, has CPUs): membership of
					// any single closest node attaches the special node (IDSet.Has with several ids means "all of them")
					one := variadicSingle(callArgs(h)[1])
					if one == callArgs(h)[1] {
						continue
					}
					if cc := elemSourceCall(one); cc != nil && callObj(cc.Common()) != nil && callObj(cc.Common()).Name() == "ClosestNodes" {
						a := callArgs(cc)
						fl := sliceLiteralElems(a[2])
						if len(a) >= 3 && (a[1] == added || sameValue(a[1], added)) && len(fl) == 2 && filterName(fl[0]) == "NodeOfDRAMType" && filterName(fl[1]) == "NodeHasLocalCPUs" {
							guarded = true
						}
					}
				}
				// added id: element of FilterNodes(...).Members()
				fromFilter := false
				if cc := elemSourceCall(added); cc != nil && callObj(cc.Common()) != nil && callObj(cc.Common()).Name() == "FilterNodes" {
					fromFilter = true
				}
				if !guarded || !fromFilter {
					okAllSp = false
				}
			})
			r.Check("R2:special-mem-by-closest-dram", "R2 memory attachment", "a CPU-less PMEM/HBM node is attached when (any single) one of its closest CPU-bearing DRAM nodes is among the pool's nodes, and it is the filtered node itself that is attached", e.Pos(special.Pos()), special, okAllSp && nSp >= 2, fmt.Sprintf("%d attach sites", nSp), true)
			// the filters
			for _, kind := range []string{"NodeOfPMEMType", "NodeOfHBMType"} {
				ok := false
				AllInstrsOf(special, func(in ssa.Instruction) {
					al, isAl := in.(*ssa.Alloc)
					if !isAl {
						return
					}
					arr, isArr := al.Type().(*types.Pointer).Elem().Underlying().(*types.Array)
					if !isArr || arr.Len() != 3 {
						return
					}
					have := map[string]bool{}
					for _, ref := range *al.Referrers() {
						ia, isIA := ref.(*ssa.IndexAddr)
						if !isIA {
							continue
						}
						for _, r2 := range *ia.Referrers() {
							if st, isSt := r2.(*ssa.Store); isSt {
								have[filterName(st.Val)] = true
							}
						}
					}
					if have[kind] && have["NodeHasMemory"] && have["NodeHasNoLocalCPUs"] {
						ok = true
					}
				})
				r.Check("R2:special-filter#"+kind, "R2 memory attachment", "special memory candidates are the nodes of that type that have memory and no local CPUs", e.Pos(special.Pos()), special, ok, "", true)
			}
		}
		// memory-less NUMA node gets no pool
		if bn := e.Fn(pkgTA, "policy.buildNumaNodePool"); bn != nil {
			ctor := e.Fn(pkgTA, "policy.NewNumaNode")
			fTotal := e.Field(pkgSysfs, "MemInfo", "MemTotal")
			noMem := func(cond ssa.Value) (bool, bool) {
				b, ok := cond.(*ssa.BinOp)
				if !ok {
					return false, false
				}
				if f, _ := loadedField(b.X); f == fTotal && isConstInt(b.Y, 0) {
					return true, b.Op == token.EQL
				}
				if k, isK := b.Y.(*ssa.Const); isK && k.IsNil() {
					if _, isEx := b.X.(*ssa.Extract); isEx {
						return true, b.Op == token.NEQ // memory info is available
					}
				}
				return false, false
			}
			p := FindPath(PathQuery{Fn: bn, Assume: noMem, Target: func(x ssa.Instruction) bool { return e.IsCallTo(x, fset(ctor)) }})
			r.Check("R2:memoryless-numa-node-omitted", "R2 memory attachment", "a NUMA node whose memory info reports no memory gets no pool (its CPUs stay with the parent)", e.Pos(bn.Pos()), bn, p == nil && fTotal != nil, e.pathString(p), true)
		}
	}
}

func namedOf(t types.Type) *types.Named {
	if p, ok := t.Underlying().(*types.Pointer); ok {
		t = p.Elem()
	}
	if p, ok := t.(*types.Pointer); ok {
		t = p.Elem()
	}
	n, _ := t.(*types.Named)
	return n
}

// filterName: the name of the sysfs node filter (a package-level func variable or function) a value denotes.
func filterName(v ssa.Value) string {
	for i := 0; i < 4; i++ {
		switch x := v.(type) {
		case *ssa.ChangeType:
			v = x.X
			continue
		case *ssa.UnOp:
			if g, ok := x.X.(*ssa.Global); ok && x.Op == token.MUL {
				return g.Name()
			}
		case *ssa.Function:
			return x.Name()
		}
		break
	}
	return ""
}

// sliceLiteralElems: the elements stored into a `[...]T{…}[:]` slice literal, in index order.
func sliceLiteralElems(v ssa.Value) []ssa.Value {
	sl, ok := v.(*ssa.Slice)
	if !ok {
		return nil
	}
	al, ok := sl.X.(*ssa.Alloc)
	if !ok {
		return nil
	}
	byIdx := map[int64]ssa.Value{}
	for _, ref := range *al.Referrers() {
		ia, ok := ref.(*ssa.IndexAddr)
		if !ok {
			continue
		}
		k, ok := constIntVal(ia.Index)
		if !ok {
			continue
		}
		for _, r2 := range *ia.Referrers() {
			if st, ok := r2.(*ssa.Store); ok && st.Addr == ia {
				byIdx[k] = st.Val
			}
		}
	}
	var out []ssa.Value
	for i := int64(0); i < int64(len(byIdx)); i++ {
		out = append(out, byIdx[i])
	}
	return out
}

// elemSourceCall peels element accesses (x[i], x.Members(), tuple extraction, single-definition
// locals) off v and returns the call that produced the collection v was taken from.
func elemSourceCall(v ssa.Value) *ssa.Call {
	for i := 0; i < 10; i++ {
		switch x := v.(type) {
		case *ssa.UnOp:
			if x.Op != token.MUL {
				return nil
			}
			switch a := x.X.(type) {
			case *ssa.IndexAddr:
				v = a.X
				continue
			case *ssa.Alloc:
				if sts := reachingStores(a, x); len(sts) == 1 {
					v = sts[0].Val
					continue
				}
			}
			return nil
		case *ssa.Extract:
			v = x.Tuple
			continue
		case *ssa.Call:
			if o := callObj(x.Common()); o != nil && (o.Name() == "Members" || o.Name() == "SortedMembers") {
				v = callArgs(x)[0]
				continue
			}
			return x
		default:
			return nil
		}
	}
	return nil
}

// checkConstraintsFreshness: the partition lemma of getCpuSupply assumes what checkConstraints validates about the
// policy-level sets (reserved within allowed, no mix of isolated and normal CPUs in reserved, isolated within
// allowed). Those validations and derivations must look at the sets being installed by this very call: every read of
// p.allowed / p.isolated / p.reserved that is combined with another of them (set algebra in checkConstraints) sees
// a value stored earlier in the same call on every path — never the value left by a previous Setup/Reconfigure —
// and that value is not replaced afterwards on the way to a successful return.
func checkConstraintsFreshness(e *Engine, r *Report) {
	rule := "R11 supply partition"
	fn := r.Anchor(pkgTA, "policy.checkConstraints")
	if fn == nil {
		return
	}
	fields := map[*types.Var]bool{}
	for _, n := range []string{"allowed", "isolated", "reserved"} {
		if f := e.Field(pkgTA, "policy", n); f != nil {
			fields[f] = true
		} else {
			r.Undecided("R11:constraints-validate-installed#"+n, rule, "policy."+n+" exists", "-", nil, "field not found")
		}
	}
	// the switch over the kind of amount is exhaustive: enumerate its cases
	type kindSwitch struct {
		v  ssa.Value
		ks []*ssa.Const
	}
	var switches []*kindSwitch
	AllInstrs(fn, func(in ssa.Instruction) {
		b, ok := in.(*ssa.BinOp)
		if !ok || b.Op != token.EQL {
			return
		}
		k, isK := b.Y.(*ssa.Const)
		if !isK || k.Value == nil {
			return
		}
		if n := namedOf(b.X.Type()); n == nil || n.Obj().Name() != "AmountKind" {
			return
		}
		for _, s := range switches {
			if s.v == b.X {
				s.ks = append(s.ks, k)
				return
			}
		}
		switches = append(switches, &kindSwitch{b.X, []*ssa.Const{k}})
	})
	var assumptions []Assumption
	var rec func(i int, chosen []*ssa.Const)
	rec = func(i int, chosen []*ssa.Const) {
		if i == len(switches) {
			ch := append([]*ssa.Const{}, chosen...)
			assumptions = append(assumptions, func(cond ssa.Value) (bool, bool) {
				b, ok := cond.(*ssa.BinOp)
				if !ok || b.Op != token.EQL {
					return false, false
				}
				k, isK := b.Y.(*ssa.Const)
				if !isK || k.Value == nil {
					return false, false
				}
				for j, s := range switches {
					if s.v == b.X {
						return true, k.Value.ExactString() == ch[j].Value.ExactString()
					}
				}
				return false, false
			})
			return
		}
		for _, k := range switches[i].ks {
			rec(i+1, append(chosen, k))
		}
	}
	rec(0, nil)
	if len(assumptions) == 0 {
		assumptions = []Assumption{nil}
	}
	isStoreOf := func(f *types.Var) func(ssa.Instruction) bool {
		return func(in ssa.Instruction) bool {
			st, ok := in.(*ssa.Store)
			return ok && fieldOfAddr(st.Addr) == f && paramIndex(st.Addr.(*ssa.FieldAddr).X) == 0
		}
	}
	// loads combined with another policy set
	n := 0
	AllInstrs(fn, func(in ssa.Instruction) {
		call, ok := in.(*ssa.Call)
		if !ok {
			return
		}
		g := call.Common().StaticCallee()
		if g == nil || g.Pkg == nil || g.Pkg.Pkg.Path() != pkgK8sCpuset {
			return
		}
		var loads []*ssa.UnOp
		for _, a := range call.Common().Args {
			Origins(variadicSingle(a), func(v ssa.Value) bool {
				if f, b := loadedField(v); f != nil && fields[f] && paramIndex(b) == 0 {
					loads = append(loads, v.(*ssa.UnOp))
					return true
				}
				if c2, ok := v.(*ssa.Call); ok {
					if g2 := c2.Common().StaticCallee(); g2 != nil && g2.Pkg != nil && g2.Pkg.Pkg.Path() == pkgK8sCpuset {
						return false
					}
					return true
				}
				return false
			})
		}
		if len(loads) == 0 || len(call.Common().Args) < 2 {
			return
		}
		for _, ld := range loads {
			f, _ := loadedField(ld)
			n++
			ok, why := true, ""
			for _, asm := range assumptions {
				if asm != nil && !reachableBlock(fn, ld.Block(), asm) {
					continue
				}
				if p := FindPath(PathQuery{Fn: fn, Assume: asm, Block: isStoreOf(f), Target: func(x ssa.Instruction) bool { return x == ssa.Instruction(ld) }}); p != nil {
					ok, why = false, "reads the value left by an earlier configuration: "+e.pathString(p)
					break
				}
				// … and the value examined is the one in force at a successful return
				if p := FindPath(PathQuery{Fn: fn, From: ld, Assume: asm, Target: isStoreOf(f), Block: func(x ssa.Instruction) bool { return x == ssa.Instruction(ld) }}); p != nil {
					last := p[len(p)-1]
					if p2 := FindPath(PathQuery{Fn: fn, From: last, Assume: asm, Target: func(x ssa.Instruction) bool {
						ret, ok := x.(*ssa.Return)
						return ok && e.maySucceed(ret)
					}}); p2 != nil {
						ok, why = false, "the set is replaced after it was examined, at "+e.InstrPos(last)
						break
					}
				}
			}
			r.Check("R11:constraints-validate-installed#"+f.Name(), rule, "checkConstraints examines and derives from the allowed / isolated / reserved sets it installs in this call (not those of a previous configuration), and does not replace them after examining them", e.InstrPos(ld), fn, ok, why, true)
		}
	})
	r.MinInstances("policy-set reads combined in checkConstraints", n, 3)
}

// checkMemSplit: splitMemsByType sorts every id into the result set of its own memory type (and no other), and
// getMemSupply adds each class of CPU-less special memory into the pool's set of the same class.
func checkMemSplit(e *Engine, r *Report, getMem *ssa.Function) {
	rule := "R2 memory attachment"
	split := r.Anchor(pkgTA, "policy.splitMemsByType")
	special := e.Fn(pkgTA, "policy.getClosestSpecialMem")
	if split == nil {
		return
	}
	typeIdx := map[string]int{"MemoryTypeDRAM": 0, "MemoryTypePMEM": 1, "MemoryTypeHBM": 2} // (dram, pmem, hbm) result order
	consts := map[int]*types.Const{}
	for n, i := range typeIdx {
		if k, ok := e.TypesPkg(pkgSysfs).Scope().Lookup(n).(*types.Const); ok {
			consts[i] = k
		} else {
			r.Undecided("R2:split-by-own-type#"+n, rule, "constant "+n+" exists", "-", nil, "not found")
		}
	}
	// same set: the receiver of an Add and the i-th returned value denote the same set object
	sameSet := func(a, b ssa.Value) bool {
		if sameObject(a, b) {
			return true
		}
		ua, ok1 := a.(*ssa.UnOp)
		ub, ok2 := b.(*ssa.UnOp)
		return ok1 && ok2 && ua.Op == token.MUL && ub.Op == token.MUL && ua.X == ub.X
	}
	addTo := func(fn *ssa.Function, in ssa.Instruction, idx int, arg func(ssa.Value) bool) bool {
		ci, ok := in.(ssa.CallInstruction)
		if !ok || callObj(ci.Common()) == nil || callObj(ci.Common()).Name() != "Add" {
			return false
		}
		a := callArgs(ci)
		if len(a) != 2 {
			return false
		}
		isRes := false
		for _, ret := range Returns(fn) {
			if idx < len(ret.Results) {
				Origins(ret.Results[idx], func(v ssa.Value) bool {
					if sameSet(a[0], v) {
						isRes = true
					}
					return isRes
				})
			}
		}
		if !isRes {
			return false
		}
		if arg(a[1]) {
			return true
		}
		for _, el := range sliceLiteralElems(a[1]) {
			if arg(el) {
				return true
			}
		}
		return false
	}
	// the loop over the ids
	loops := sliceLoops(split)
	var memTypeCalls []ssa.Value
	AllInstrs(split, func(in ssa.Instruction) {
		if c, ok := in.(*ssa.Call); ok && callObj(c.Common()) != nil && callObj(c.Common()).Name() == "GetMemoryType" {
			memTypeCalls = append(memTypeCalls, c)
		}
	})
	r.MinInstances("id loop / GetMemoryType in splitMemsByType", min(len(loops), len(memTypeCalls)), 1)
	for _, loop := range loops {
		loop := loop
		isID := loop.elem
		for i := 0; i < 3; i++ {
			k := consts[i]
			if k == nil {
				continue
			}
			i := i
			ofType := func(cond ssa.Value) (bool, bool) {
				b, ok := cond.(*ssa.BinOp)
				if !ok || (b.Op != token.EQL && b.Op != token.NEQ) {
					return false, false
				}
				c, isK := b.Y.(*ssa.Const)
				if !isK || c.Value == nil || !types.Identical(c.Type(), k.Type()) {
					return false, false
				}
				isMT := false
				for _, mc := range memTypeCalls {
					if unspill(b.X) == mc {
						isMT = true
					}
				}
				if !isMT {
					return false, false
				}
				return true, isConstEq(b.Y, k) == (b.Op == token.EQL)
			}
			p := loop.skips(ofType, func(in ssa.Instruction) bool { return addTo(split, in, i, isID) }, true)
			r.Check("R2:split-by-own-type#"+k.Name(), rule, "splitMemsByType puts every node of type "+k.Name()+" into the result set of that type", e.InstrPos(loop.start), split, p == nil, e.pathString(p), true)
			p = FindPath(PathQuery{Fn: split, From: loop.start, Assume: ofType,
				Block: func(in ssa.Instruction) bool { return in == loop.head.Instrs[0] }, Target: func(in ssa.Instruction) bool {
					for j := 0; j < 3; j++ {
						if j != i && addTo(split, in, j, isID) {
							return true
						}
					}
					return false
				}})
			r.Check("R2:split-by-own-type#"+k.Name()+"-only", rule, "splitMemsByType puts a node of type "+k.Name()+" into no other result set", e.InstrPos(loop.start), split, p == nil, e.pathString(p), true)
		}
	}
	// getMemSupply: the special memory found for a non-root pool is added class by class
	if getMem != nil && special != nil {
		var splitOfSpecial ssa.Value
		for _, c := range e.callsTo(getMem, split) {
			a := callArgs(c)
			if call, ok := a[1].(*ssa.Call); ok && e.IsCallTo(call, fset(special)) {
				splitOfSpecial = c.Value()
			}
		}
		if splitOfSpecial == nil {
			r.Check("R2:special-mem-added", rule, "getMemSupply splits the special memory it found by type", e.Pos(getMem.Pos()), getMem, false, "no splitMemsByType(getClosestSpecialMem(…))", true)
		} else {
			for i, n := range []string{"DRAM", "PMEM", "HBM"} {
				i := i
				fromSplit := func(v ssa.Value) bool { // X.Members() of the i-th part
					call, ok := v.(*ssa.Call)
					if !ok || callObj(call.Common()) == nil || callObj(call.Common()).Name() != "Members" {
						return false
					}
					ex, ok := unspill(callArgs(call)[0]).(*ssa.Extract)
					return ok && ex.Tuple == splitOfSpecial && ex.Index == i
				}
				p := FindPath(PathQuery{Fn: getMem, From: splitOfSpecial.(ssa.Instruction), Target: isRet, Block: func(in ssa.Instruction) bool { return addTo(getMem, in, i, fromSplit) }})
				r.Check("R2:special-mem-added#"+n, rule, "the CPU-less "+n+" memory found for a pool is added to the pool's "+n+" nodes", e.Pos(getMem.Pos()), getMem, p == nil, e.pathString(p), true)
			}
		}
	}
}

// checkConstraintsRefusals: what the partition lemma assumes about a configured reserved cpuset is enforced — a set
// with CPUs outside the available ones, a mix of isolated and normal CPUs, or several isolated CPUs is refused.
// Each case is stated as an assumption on the set-algebra tests of checkConstraints; no successful return may be
// reachable under it.
func checkConstraintsRefusals(e *Engine, r *Report) {
	rule := "R11 supply partition"
	fn := e.Fn(pkgTA, "policy.checkConstraints")
	if fn == nil {
		return
	}
	fAllowed, fIsolated := e.Field(pkgTA, "policy", "allowed"), e.Field(pkgTA, "policy", "isolated")
	callNamed := func(v ssa.Value, name string) *ssa.Call {
		c, ok := unspill(v).(*ssa.Call)
		if !ok || callObj(c.Common()) == nil || callObj(c.Common()).Name() != name {
			return nil
		}
		return c
	}
	argIsField := func(c *ssa.Call, i int, f *types.Var) bool {
		a := callArgs(c)
		if i >= len(a) {
			return false
		}
		return isFieldLoad(variadicSingle(a[i]), f)
	}
	// outside := X.Difference(p.allowed);  iso := X.Intersection(p.isolated)
	isOutside := func(v ssa.Value) bool {
		c := callNamed(v, "Difference")
		return c != nil && argIsField(c, 1, fAllowed)
	}
	isIso := func(v ssa.Value) bool {
		ok := false
		Origins(v, func(o ssa.Value) bool {
			if c := callNamed(o, "Intersection"); c != nil && argIsField(c, 1, fIsolated) {
				ok = true
			}
			return ok
		})
		return ok
	}
	type tv struct{ known, val bool }
	scen := func(outsideEmpty, isoEmpty, equalsIso tv, isoSize signSet) Assumption {
		return func(cond ssa.Value) (bool, bool) {
			if c := callNamed(cond, "IsEmpty"); c != nil {
				x := callArgs(c)[0]
				if isOutside(x) && outsideEmpty.known {
					return true, outsideEmpty.val
				}
				if isIso(x) && isoEmpty.known {
					return true, isoEmpty.val
				}
			}
			if c := callNamed(cond, "Equals"); c != nil && equalsIso.known {
				a := callArgs(c)
				if len(a) == 2 && (isIso(a[1]) || isIso(a[0])) {
					return true, equalsIso.val
				}
			}
			if isoSize != 0 {
				if x, y, op, ok := cmpOriented(cond, func(v ssa.Value) bool {
					c := callNamed(v, "Size")
					return c != nil && isIso(callArgs(c)[0])
				}); ok {
					_ = x
					if k, isK := y.(*ssa.Const); isK {
						if n, ok := constIntVal(k); ok && n == 1 {
							// size ? 1 with size >= 2
							switch op {
							case token.GTR, token.GEQ, token.NEQ:
								return true, true
							case token.LEQ, token.LSS, token.EQL:
								return true, false
							}
						}
					}
				}
			}
			return false, false
		}
	}
	yes, no, unk := tv{true, true}, tv{true, false}, tv{}
	for _, t := range []struct {
		key, what string
		asm       Assumption
	}{
		{"outside-available", "a reserved cpuset with CPUs outside the available ones is refused", scen(no, unk, unk, 0)},
		{"mixes-isolated-and-normal", "a reserved cpuset that mixes isolated and normal CPUs is refused", scen(yes, no, no, 0)},
		{"several-isolated", "a reserved cpuset of several isolated CPUs is refused", scen(yes, no, yes, sgPos)},
	} {
		// from the first of the tests on: the scenario only makes sense where the reserved cpuset is examined
		var first ssa.Instruction
		AllInstrs(fn, func(in ssa.Instruction) {
			if first != nil {
				return
			}
			if c, ok := in.(*ssa.Call); ok && callObj(c.Common()) != nil && callObj(c.Common()).Name() == "Difference" && argIsField(c, 1, fAllowed) {
				first = in
			}
		})
		if first == nil {
			r.Check("R11:constraints-refuse#"+t.key, rule, t.what, e.Pos(fn.Pos()), fn, false, "checkConstraints does not compare the reserved cpuset with the available CPUs", true)
			continue
		}
		p := FindPath(PathQuery{Fn: fn, From: first, Assume: t.asm, Target: func(in ssa.Instruction) bool {
			ret, ok := in.(*ssa.Return)
			return ok && e.maySucceed(ret)
		}})
		r.Check("R11:constraints-refuse#"+t.key, rule, t.what, e.InstrPos(first), fn, p == nil, e.pathString(p), true)
	}
}

// checkPoolEnumeration: after the tree is built every pool in it gets its own id (a counter that is incremented per
// visited pool) and is entered in the policy's list of pools — what scoring, ranking and grant restoration index by.
func checkPoolEnumeration(e *Engine, r *Report) {
	rule := "R6 pool construction agreement"
	enum := r.Anchor(pkgTA, "policy.enumeratePools")
	build := e.Fn(pkgTA, "policy.buildPoolsByTopology")
	if enum == nil {
		return
	}
	fID := e.Field(pkgTA, "node", "id")
	fPools := e.Field(pkgTA, "policy", "pools")
	var cb *ssa.Function
	AllInstrs(enum, func(in ssa.Instruction) {
		ci, ok := in.(ssa.CallInstruction)
		if !ok || callObj(ci.Common()) == nil || callObj(ci.Common()).Name() != "DepthFirst" {
			return
		}
		for _, a := range ci.Common().Args {
			if mc, ok := a.(*ssa.MakeClosure); ok {
				cb, _ = mc.Fn.(*ssa.Function)
			}
		}
	})
	if cb == nil || fID == nil || fPools == nil || len(cb.Params) != 1 {
		r.Undecided("R6:pools-enumerated", rule, "enumeratePools walks the tree depth-first with a visitor closure", e.Pos(enum.Pos()), enum, "visitor not found")
		return
	}
	nP := ssa.Value(cb.Params[0])
	// the id stored is the current value of a captured counter, which is incremented in the same visit
	var counter *ssa.Alloc
	setsID := func(in ssa.Instruction) bool {
		st, ok := in.(*ssa.Store)
		if !ok || fieldOfAddr(st.Addr) != fID {
			return false
		}
		u, ok := st.Val.(*ssa.UnOp)
		if !ok || u.Op != token.MUL {
			return false
		}
		al := cellOf(u.X)
		if al == nil {
			return false
		}
		// the node written is the visited one
		base := st.Addr.(*ssa.FieldAddr).X
		okBase := false
		Origins(base, func(v ssa.Value) bool {
			if ta, ok := v.(*ssa.TypeAssert); ok && sameObject(ta.X, nP) {
				okBase = true
			}
			if sameObject(v, nP) {
				okBase = true
			}
			return okBase
		})
		if okBase {
			counter = al
		}
		return okBase
	}
	p := FindPath(PathQuery{Fn: cb, Target: isRet, Block: setsID})
	r.Check("R6:pools-enumerated#id", rule, "every pool visited gets the current value of the id counter as its id", e.Pos(cb.Pos()), cb, p == nil, e.pathString(p), true)
	increments := func(in ssa.Instruction) bool {
		st, ok := in.(*ssa.Store)
		if !ok || counter == nil || cellOf(st.Addr) != counter {
			return false
		}
		b, ok := st.Val.(*ssa.BinOp)
		return ok && b.Op == token.ADD && isConstInt(b.Y, 1)
	}
	p = FindPath(PathQuery{Fn: cb, Target: isRet, Block: increments})
	r.Check("R6:pools-enumerated#unique", rule, "the id counter is incremented in every visit (ids are unique)", e.Pos(cb.Pos()), cb, counter != nil && p == nil, e.pathString(p), true)
	listed := func(in ssa.Instruction) bool {
		st, ok := in.(*ssa.Store)
		if !ok || fieldOfAddr(st.Addr) != fPools {
			return false
		}
		call, ok := st.Val.(*ssa.Call)
		if !ok {
			return false
		}
		bi, ok := call.Common().Value.(*ssa.Builtin)
		if !ok || bi.Name() != "append" {
			return false
		}
		for _, el := range sliceLiteralElems(call.Common().Args[1]) {
			if sameObject(el, nP) {
				return true
			}
		}
		return false
	}
	p = FindPath(PathQuery{Fn: cb, Target: isRet, Block: listed})
	r.Check("R6:pools-enumerated#listed", rule, "every pool visited is entered in the policy's list of pools", e.Pos(cb.Pos()), cb, p == nil, e.pathString(p), true)
	if build != nil {
		p = FindPath(PathQuery{Fn: build, Block: func(in ssa.Instruction) bool { return e.callOf(in, enum) }, Target: func(in ssa.Instruction) bool {
			ret, ok := in.(*ssa.Return)
			return ok && e.maySucceed(ret)
		}})
		r.Check("R6:pools-enumerated#after-build", rule, "a successfully built tree is enumerated", e.Pos(build.Pos()), build, p == nil, e.pathString(p), true)
		for _, f := range []*types.Var{fPools, e.Field(pkgTA, "policy", "nodes")} {
			if f == nil {
				continue
			}
			f := f
			resets := func(in ssa.Instruction) bool {
				st, ok := in.(*ssa.Store)
				return ok && fieldOfAddr(st.Addr) == f
			}
			p = FindPath(PathQuery{Fn: build, Block: resets, Target: func(in ssa.Instruction) bool { return e.callOf(in, enum) }})
			r.Check("R6:pools-enumerated#fresh-"+f.Name(), rule, "the policy's "+f.Name()+" table is reset before the new tree is enumerated (no pool of a previous tree stays listed)", e.Pos(build.Pos()), build, p == nil, e.pathString(p), true)
		}
	}
}
