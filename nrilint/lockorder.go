package main

import (
	"fmt"
	"go/token"
	"go/types"
	"sort"
	"strings"

	"golang.org/x/tools/go/ssa"
)

// Lock-order analysis (C15): no two locks of the repository are ever acquired
// in opposite orders.
//
// Locks are identified by the struct field or package variable that holds the
// sync.Mutex / sync.RWMutex. Per function the analysis computes
//   acquires*  — locks the function (or a callee) may acquire,
//   heldOnRet  — locks it may still hold when it returns (Block()-style helpers),
//   releases   — locks it (or a callee) releases without having acquired them.
// An ordering edge A → B is recorded at every instruction that acquires B
// (directly, or by calling a function with B in acquires*) while A may be held
// (a path from an acquisition of A reaches the instruction without passing a
// release of A; deferred unlocks run at return and keep the lock held). The
// edge relation must be acyclic.

type lockID struct {
	v    *types.Var // field or package-level variable
	name string
}

type lockOrder struct {
	e         *Engine
	fns       []*ssa.Function
	acqMemo   map[*ssa.Function]map[lockID]bool
	heldMemo  map[*ssa.Function]map[lockID]bool
	relMemo   map[*ssa.Function]map[lockID]bool
	inProg    map[*ssa.Function]bool
	directAcq map[ssa.Instruction]lockID
	directRel map[ssa.Instruction]lockID
}

func isSyncMutexMethod(c *ssa.CallCommon) string {
	f := c.StaticCallee()
	if f == nil || f.Pkg == nil || f.Pkg.Pkg.Path() != "sync" || f.Signature.Recv() == nil {
		return ""
	}
	rt := f.Signature.Recv().Type().String()
	if rt != "*sync.Mutex" && rt != "*sync.RWMutex" {
		return ""
	}
	return f.Name()
}

func lockOf(v ssa.Value) (lockID, bool) {
	switch x := v.(type) {
	case *ssa.FieldAddr:
		f := fieldOfAddr(x)
		owner := ""
		if n := fieldOwner(x); n != nil {
			owner = n.Obj().Name() + "."
		}
		return lockID{v: f, name: owner + f.Name()}, true
	case *ssa.Global:
		if tv, ok := x.Object().(*types.Var); ok {
			return lockID{v: tv, name: x.Pkg.Pkg.Name() + "." + x.Name()}, true
		}
	case *ssa.UnOp:
		if x.Op == token.MUL {
			return lockOf(x.X)
		}
	}
	return lockID{}, false
}

func newLockOrder(e *Engine) *lockOrder {
	lo := &lockOrder{e: e, acqMemo: map[*ssa.Function]map[lockID]bool{}, heldMemo: map[*ssa.Function]map[lockID]bool{}, relMemo: map[*ssa.Function]map[lockID]bool{},
		inProg: map[*ssa.Function]bool{}, directAcq: map[ssa.Instruction]lockID{}, directRel: map[ssa.Instruction]lockID{}}
	for _, fn := range e.RepoFuncs {
		if fn.Blocks == nil {
			continue
		}
		lo.fns = append(lo.fns, fn)
		AllInstrsOf(fn, func(in ssa.Instruction) {
			ci, ok := in.(ssa.CallInstruction)
			if !ok {
				return
			}
			name := isSyncMutexMethod(ci.Common())
			if name == "" || len(ci.Common().Args) == 0 {
				return
			}
			id, ok := lockOf(ci.Common().Args[0])
			if !ok {
				return
			}
			switch name {
			case "Lock", "RLock":
				if _, isDefer := in.(*ssa.Defer); !isDefer {
					lo.directAcq[in] = id
				}
			case "Unlock", "RUnlock":
				if _, isDefer := in.(*ssa.Defer); !isDefer {
					lo.directRel[in] = id
				}
			}
		})
	}
	return lo
}

func (lo *lockOrder) callees(in ssa.Instruction) []*ssa.Function {
	ci, ok := in.(ssa.CallInstruction)
	if !ok {
		return nil
	}
	if _, isGo := in.(*ssa.Go); isGo {
		return nil // a new goroutine does not run under the spawner's locks
	}
	var out []*ssa.Function
	for _, g := range lo.e.Callees(ci) {
		if g.Blocks != nil {
			out = append(out, g)
		}
	}
	return out
}

// acquires: locks fn or its callees may acquire.
func (lo *lockOrder) acquires(fn *ssa.Function) map[lockID]bool {
	if m, ok := lo.acqMemo[fn]; ok {
		return m
	}
	m := map[lockID]bool{}
	lo.acqMemo[fn] = m // cycles: partial result
	AllInstrs(fn, func(in ssa.Instruction) {
		if id, ok := lo.directAcq[in]; ok {
			m[id] = true
		}
		for _, g := range lo.callees(in) {
			if g == fn {
				continue
			}
			for id := range lo.acquires(g) {
				m[id] = true
			}
		}
	})
	return m
}

// releases: locks released by fn or its callees.
func (lo *lockOrder) releases(fn *ssa.Function) map[lockID]bool {
	if m, ok := lo.relMemo[fn]; ok {
		return m
	}
	m := map[lockID]bool{}
	lo.relMemo[fn] = m
	AllInstrs(fn, func(in ssa.Instruction) {
		if id, ok := lo.directRel[in]; ok {
			m[id] = true
		}
		// deferred unlocks release too (at return)
		if d, ok := in.(*ssa.Defer); ok {
			if name := isSyncMutexMethod(d.Common()); name == "Unlock" || name == "RUnlock" {
				if id, ok := lockOf(d.Common().Args[0]); ok {
					m[id] = true
				}
			}
		}
		for _, g := range lo.callees(in) {
			if g == fn {
				continue
			}
			for id := range lo.releases(g) {
				m[id] = true
			}
		}
	})
	return m
}

func (lo *lockOrder) isReleaseOf(in ssa.Instruction, id lockID) bool {
	if r, ok := lo.directRel[in]; ok && r == id {
		return true
	}
	if _, isDefer := in.(*ssa.Defer); isDefer {
		return false
	}
	for _, g := range lo.callees(in) {
		if lo.releases(g)[id] && !lo.heldOnReturn(g)[id] {
			return true
		}
	}
	return false
}

func (lo *lockOrder) isAcquireOf(in ssa.Instruction, id lockID, heldOnly bool) bool {
	if a, ok := lo.directAcq[in]; ok && a == id {
		return true
	}
	if _, isDefer := in.(*ssa.Defer); isDefer {
		return false
	}
	for _, g := range lo.callees(in) {
		if heldOnly {
			if lo.heldOnReturn(g)[id] {
				return true
			}
		} else if lo.acquires(g)[id] {
			return true
		}
	}
	return false
}

// heldOnReturn: locks fn may still hold when it returns.
func (lo *lockOrder) heldOnReturn(fn *ssa.Function) map[lockID]bool {
	if m, ok := lo.heldMemo[fn]; ok {
		return m
	}
	m := map[lockID]bool{}
	lo.heldMemo[fn] = m
	if lo.inProg[fn] {
		return m
	}
	lo.inProg[fn] = true
	defer delete(lo.inProg, fn)
	// deferred releases in fn
	deferred := map[lockID]bool{}
	AllInstrsOf(fn, func(in ssa.Instruction) {
		d, ok := in.(*ssa.Defer)
		if !ok {
			return
		}
		if name := isSyncMutexMethod(d.Common()); name == "Unlock" || name == "RUnlock" {
			if id, ok := lockOf(d.Common().Args[0]); ok {
				deferred[id] = true
			}
		}
		for _, g := range lo.e.Callees(d) {
			if g.Blocks != nil {
				for id := range lo.releases(g) {
					deferred[id] = true
				}
			}
		}
	})
	cands := map[lockID][]ssa.Instruction{}
	AllInstrsOf(fn, func(in ssa.Instruction) {
		if id, ok := lo.directAcq[in]; ok {
			cands[id] = append(cands[id], in)
		}
		if _, isDefer := in.(*ssa.Defer); isDefer {
			return
		}
		for _, g := range lo.callees(in) {
			if g == fn {
				continue
			}
			for id := range lo.heldOnReturn(g) {
				cands[id] = append(cands[id], in)
			}
		}
	})
	for id, sites := range cands {
		if deferred[id] {
			continue
		}
		for _, s := range sites {
			id := id
			p := FindPath(PathQuery{Fn: fn, From: s, Block: func(x ssa.Instruction) bool { return lo.isReleaseOf(x, id) },
				Target: func(x ssa.Instruction) bool { _, ok := x.(*ssa.Return); return ok }})
			if p != nil {
				m[id] = true
			}
		}
	}
	return m
}

type lockEdge struct {
	from, to lockID
	fn       *ssa.Function
	at       ssa.Instruction
}

func (lo *lockOrder) edges() []lockEdge {
	var out []lockEdge
	seen := map[string]bool{}
	for _, fn := range lo.fns {
		// acquisition points of any lock inside fn (held afterwards)
		holdStarts := map[lockID][]ssa.Instruction{}
		AllInstrsOf(fn, func(in ssa.Instruction) {
			if id, ok := lo.directAcq[in]; ok {
				holdStarts[id] = append(holdStarts[id], in)
			}
			if _, isDefer := in.(*ssa.Defer); isDefer {
				return
			}
			for _, g := range lo.callees(in) {
				for id := range lo.heldOnReturn(g) {
					holdStarts[id] = append(holdStarts[id], in)
				}
			}
		})
		if len(holdStarts) == 0 {
			continue
		}
		AllInstrsOf(fn, func(in ssa.Instruction) {
			// which locks does `in` acquire?
			acq := map[lockID]bool{}
			if id, ok := lo.directAcq[in]; ok {
				acq[id] = true
			}
			if _, isDefer := in.(*ssa.Defer); !isDefer {
				for _, g := range lo.callees(in) {
					for id := range lo.acquires(g) {
						acq[id] = true
					}
				}
			}
			if len(acq) == 0 {
				return
			}
			for a, starts := range holdStarts {
				for b := range acq {
					if a == b {
						continue
					}
					key := fmt.Sprintf("%p>%p@%p", a.v, b.v, fn)
					if seen[key] {
						continue
					}
					for _, s := range starts {
						if s == in {
							continue
						}
						a := a
						p := FindPath(PathQuery{Fn: fn, From: s, Block: func(x ssa.Instruction) bool { return lo.isReleaseOf(x, a) }, Target: func(x ssa.Instruction) bool { return x == in }})
						if p != nil {
							seen[key] = true
							out = append(out, lockEdge{from: a, to: b, fn: fn, at: in})
							break
						}
					}
				}
			}
		})
	}
	return out
}

// checkLockOrder reports every pair of locks acquired in both orders.
func checkLockOrder(e *Engine, r *Report, scopePkgs []string) {
	lo := newLockOrder(e)
	edges := lo.edges()
	byPair := map[[2]*types.Var][]lockEdge{}
	locks := map[*types.Var]string{}
	for _, ed := range edges {
		byPair[[2]*types.Var{ed.from.v, ed.to.v}] = append(byPair[[2]*types.Var{ed.from.v, ed.to.v}], ed)
		locks[ed.from.v], locks[ed.to.v] = ed.from.name, ed.to.name
	}
	// cycles of length 2 (the only kind possible with the handful of locks here) and longer ones through reachability
	adj := map[*types.Var]map[*types.Var]bool{}
	for pr := range byPair {
		if adj[pr[0]] == nil {
			adj[pr[0]] = map[*types.Var]bool{}
		}
		adj[pr[0]][pr[1]] = true
	}
	var reach func(from, to *types.Var, seen map[*types.Var]bool) bool
	reach = func(from, to *types.Var, seen map[*types.Var]bool) bool {
		if from == to {
			return true
		}
		if seen[from] {
			return false
		}
		seen[from] = true
		for n := range adj[from] {
			if reach(n, to, seen) {
				return true
			}
		}
		return false
	}
	var keys [][2]*types.Var
	for pr := range byPair {
		keys = append(keys, pr)
	}
	sort.Slice(keys, func(i, j int) bool {
		return locks[keys[i][0]]+">"+locks[keys[i][1]] < locks[keys[j][0]]+">"+locks[keys[j][1]]
	})
	n := 0
	for _, pr := range keys {
		eds := byPair[pr]
		n++
		cyc := reach(pr[1], pr[0], map[*types.Var]bool{})
		var sites []string
		for _, ed := range eds {
			sites = append(sites, FnName(ed.fn)+" at "+e.InstrPos(ed.at))
		}
		sort.Strings(sites)
		if len(sites) > 4 {
			sites = append(sites[:4], fmt.Sprintf("(+%d more)", len(sites)-4))
		}
		why := ""
		if cyc {
			var back []string
			for _, ed := range byPair[[2]*types.Var{pr[1], pr[0]}] {
				back = append(back, FnName(ed.fn)+" at "+e.InstrPos(ed.at))
			}
			why = fmt.Sprintf("%s is taken while %s is held in %s, and the opposite order occurs (directly or through other locks) e.g. in %s", locks[pr[1]], locks[pr[0]], strings.Join(sites, "; "), strings.Join(back, "; "))
		}
		r.Check("R7:lock-order#"+locks[pr[0]]+"->"+locks[pr[1]], "R7 lock order", "locks are always acquired in one global order: "+locks[pr[1]]+" may be taken while "+locks[pr[0]]+" is held, never the other way round (no deadlock by lock-order inversion)", e.InstrPos(eds[0].at), eds[0].fn, !cyc, why, true)
	}
	r.MinInstances("lock-ordering edges", n, 1)
}
