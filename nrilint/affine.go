package main

import (
	"fmt"
	"go/constant"
	"go/token"
	"go/types"
	"math/big"
	"strings"

	"golang.org/x/tools/go/ssa"
)

// Affine-interval abstract interpretation of small arithmetic functions.
//
// One symbolic input m ranges over the integers of [mLo, mHi] that are
// multiples of q. Every abstract value is  a·m + [lo, hi]  with exact rational
// a, lo, hi. The transfer functions are sound for Go's semantics of the
// operations that occur in the conversion helpers:
//
//	x*c, x+c, x-c            exact
//	x/d  (integers, d>0, x>=0)  floor: (a/d)·m + [(lo-(d-1))/d, hi/d]; exact
//	                         (no widening) when a·q/d and lo/d are integers
//	float64(x), x/d (floats) exact up to a rounding slack eps added to the interval
//	int64(f) (f >= 0)        floor: if a·q is an integer the offset becomes
//	                         [floor(lo), floor(hi)], otherwise [lo-1, hi]
//
// Branches split the analysis (trace partitioning); each outcome carries the
// range of m for which its path is feasible, over-approximated from the
// branch conditions. Nothing is executed: the functions are interpreted over
// the abstract domain, for all m at once.

// fpSlack bounds the rounding error of one correctly rounded float64 operation
// whose result lies in v's range: one unit in the last place, 2^-52 relative.
func fpSlack(v aval, ctx actx) *big.Rat {
	m := new(big.Rat).Abs(v.minVal(ctx))
	if h := new(big.Rat).Abs(v.maxVal(ctx)); h.Cmp(m) > 0 {
		m = h
	}
	m.Add(m, rat(1))
	return m.Mul(m, new(big.Rat).SetFrac(big.NewInt(1), new(big.Int).Lsh(big.NewInt(1), 52)))
}

// widen adds the rounding slack of a float operation unless the result is provably exact:
// every admissible value is an integer below 2^53 computed from exact operands.
func fpRound(v aval, ctx actx, operandsExact bool) aval {
	if operandsExact && v.lo.Cmp(v.hi) == 0 && isIntRat(v.lo) && isIntRat(new(big.Rat).Mul(v.a, ctx.q)) {
		return v
	}
	sl := fpSlack(v, ctx)
	v.lo = new(big.Rat).Sub(v.lo, sl)
	v.hi = new(big.Rat).Add(v.hi, sl)
	return v
}

func (v aval) exact() bool { return v.bad == "" && v.lo.Cmp(v.hi) == 0 }

type aval struct {
	a, lo, hi    *big.Rat
	absLo, absHi *big.Rat // optional absolute bounds (set where an operation rounds: floor(x) lies in [floor(min x), floor(max x)])
	mono         bool     // obtained from m by monotone non-decreasing operations only
	bad          string
}

func rat(n int64) *big.Rat { return big.NewRat(n, 1) }

func aconst(c *big.Rat) aval { return aval{a: rat(0), lo: c, hi: c, mono: true} }
func abad(why string) aval   { return aval{bad: why} }
func aident() aval           { return aval{a: rat(1), lo: rat(0), hi: rat(0), mono: true} }

func (v aval) isConst() bool { return v.bad == "" && v.a.Sign() == 0 && v.lo.Cmp(v.hi) == 0 }
func (v aval) String() string {
	if v.bad != "" {
		return "?(" + v.bad + ")"
	}
	if v.a.Sign() == 0 {
		if v.lo.Cmp(v.hi) == 0 {
			return v.lo.RatString()
		}
		return fmt.Sprintf("[%s, %s]", v.lo.FloatString(4), v.hi.FloatString(4))
	}
	return fmt.Sprintf("%s·m + [%s, %s]", v.a.FloatString(6), v.lo.FloatString(4), v.hi.FloatString(4))
}

type actx struct {
	mLo, mHi *big.Rat
	q        *big.Rat
}

func (c actx) String() string {
	return fmt.Sprintf("m ∈ [%s, %s] step %s", c.mLo.RatString(), c.mHi.RatString(), c.q.RatString())
}

func (c actx) empty() bool { return c.mLo.Cmp(c.mHi) > 0 }

func floorRat(x *big.Rat) *big.Rat {
	n, d := new(big.Int).Set(x.Num()), x.Denom()
	z := new(big.Int)
	z.Div(n, d) // Euclidean; for positive d this is floor
	return new(big.Rat).SetInt(z)
}

func ceilRat(x *big.Rat) *big.Rat {
	f := floorRat(x)
	if f.Cmp(x) == 0 {
		return f
	}
	return f.Add(f, rat(1))
}

// snap restricts [lo, hi] to the grid q·Z.
func (c actx) snap(lo, hi *big.Rat) actx {
	out := actx{q: c.q}
	l := new(big.Rat).Quo(lo, c.q)
	h := new(big.Rat).Quo(hi, c.q)
	out.mLo = new(big.Rat).Mul(ceilRat(l), c.q)
	out.mHi = new(big.Rat).Mul(floorRat(h), c.q)
	return out
}

func maxRat(a, b *big.Rat) *big.Rat {
	if a.Cmp(b) >= 0 {
		return a
	}
	return b
}
func minRat(a, b *big.Rat) *big.Rat {
	if a.Cmp(b) <= 0 {
		return a
	}
	return b
}

func (v aval) minVal(c actx) *big.Rat {
	m := c.mLo
	if v.a.Sign() < 0 {
		m = c.mHi
	}
	r := new(big.Rat).Mul(v.a, m)
	r.Add(r, v.lo)
	if v.absLo != nil {
		return maxRat(r, v.absLo)
	}
	return r
}
func (v aval) maxVal(c actx) *big.Rat {
	m := c.mHi
	if v.a.Sign() < 0 {
		m = c.mLo
	}
	r := new(big.Rat).Mul(v.a, m)
	r.Add(r, v.hi)
	if v.absHi != nil {
		return minRat(r, v.absHi)
	}
	return r
}

func isIntRat(x *big.Rat) bool { return x.IsInt() }

type aoutcome struct {
	ctx     actx
	results []aval
	trace   []string
}

type affInterp struct {
	e     *Engine
	notes []string
}

func constRat(k *ssa.Const) (*big.Rat, bool) {
	if k.Value == nil {
		return nil, false
	}
	switch k.Value.Kind() {
	case constant.Int, constant.Float:
		r, ok := new(big.Rat).SetString(k.Value.ExactString())
		return r, ok
	}
	return nil, false
}

func isFloatType(t types.Type) bool {
	b, ok := t.Underlying().(*types.Basic)
	return ok && b.Info()&types.IsFloat != 0
}
func isIntType(t types.Type) bool {
	b, ok := t.Underlying().(*types.Basic)
	return ok && b.Info()&types.IsInteger != 0
}

// run interprets fn on the abstract arguments.
func (ai *affInterp) run(fn *ssa.Function, args []aval, ctx actx) ([]aoutcome, error) {
	if len(fn.Blocks) == 0 {
		return nil, fmt.Errorf("%s has no body", fn.Name())
	}
	env := map[ssa.Value]aval{}
	for i, p := range fn.Params {
		if i < len(args) {
			env[p] = args[i]
		} else {
			env[p] = abad("unbound parameter " + p.Name())
		}
	}
	var outs []aoutcome
	var err error
	var walk func(b, pred *ssa.BasicBlock, env map[ssa.Value]aval, ctx actx, trace []string, onPath map[*ssa.BasicBlock]bool)
	walk = func(b, pred *ssa.BasicBlock, env map[ssa.Value]aval, ctx actx, trace []string, onPath map[*ssa.BasicBlock]bool) {
		if err != nil {
			return
		}
		if onPath[b] {
			err = fmt.Errorf("%s contains a loop (block %d): outside the affine interpreter", fn.Name(), b.Index)
			return
		}
		onPath[b] = true
		defer delete(onPath, b)
		if fn.Recover != nil && b == fn.Recover {
			return
		}
		for _, in := range b.Instrs {
			switch x := in.(type) {
			case *ssa.Phi:
				for i, p := range b.Preds {
					if p == pred {
						env[x] = ai.eval(x.Edges[i], env)
					}
				}
			case *ssa.BinOp:
				env[x] = ai.binop(x, env, ctx)
			case *ssa.Convert:
				env[x] = ai.convert(x, env, ctx)
			case *ssa.ChangeType:
				env[x] = ai.eval(x.X, env)
			case *ssa.Alloc:
				// a local kept in memory (captured by a closure, address taken): its content is tracked in env under the cell
				if cellWrittenInClosures(x) {
					env[x] = abad("local written by a closure")
				}
			case *ssa.Store:
				if al, ok := x.Addr.(*ssa.Alloc); ok {
					if cur, had := env[al]; !had || cur.bad == "" {
						env[al] = ai.eval(x.Val, env)
					}
				}
			case *ssa.MakeClosure:
				// creating a closure computes nothing here (one that writes a tracked local poisons that local above)
			case *ssa.UnOp:
				if al, ok := x.X.(*ssa.Alloc); ok && x.Op == token.MUL {
					if v, had := env[al]; had {
						env[x] = v
					} else {
						env[x] = abad("load of an unset local")
					}
					continue
				}
				if x.Op == token.SUB {
					v := ai.eval(x.X, env)
					if v.bad == "" {
						env[x] = aval{a: new(big.Rat).Neg(v.a), lo: new(big.Rat).Neg(v.hi), hi: new(big.Rat).Neg(v.lo)}
						continue
					}
				}
				env[x] = abad("unsupported unary " + x.Op.String())
			case *ssa.DebugRef:
			case *ssa.Jump:
				walk(b.Succs[0], b, env, ctx, trace, onPath)
				return
			case *ssa.If:
				for bi, want := range []bool{true, false} {
					c2, feasible, desc := ai.refine(x.Cond, want, env, ctx)
					if !feasible {
						continue
					}
					env2 := make(map[ssa.Value]aval, len(env))
					for k, v := range env {
						env2[k] = v
					}
					walk(b.Succs[bi], b, env2, c2, append(append([]string{}, trace...), desc), onPath)
				}
				return
			case *ssa.Return:
				var rs []aval
				for _, r := range x.Results {
					rs = append(rs, ai.eval(r, env))
				}
				outs = append(outs, aoutcome{ctx: ctx, results: rs, trace: trace})
				return
			case *ssa.Panic:
				outs = append(outs, aoutcome{ctx: ctx, results: []aval{abad("panic")}, trace: append(trace, "panic")})
				return
			default:
				if v, ok := in.(ssa.Value); ok {
					env[v] = abad(fmt.Sprintf("unsupported instruction %T", in))
				}
			}
		}
	}
	walk(fn.Blocks[0], nil, env, ctx, nil, map[*ssa.BasicBlock]bool{})
	return outs, err
}

func (ai *affInterp) eval(v ssa.Value, env map[ssa.Value]aval) aval {
	if k, ok := v.(*ssa.Const); ok {
		if r, ok := constRat(k); ok {
			return aconst(r)
		}
		return abad("non-numeric constant")
	}
	if a, ok := env[v]; ok {
		return a
	}
	return abad("unknown value " + v.Name())
}

func (ai *affInterp) binop(x *ssa.BinOp, env map[ssa.Value]aval, ctx actx) aval {
	l, r := ai.eval(x.X, env), ai.eval(x.Y, env)
	switch x.Op {
	case token.EQL, token.NEQ, token.LSS, token.LEQ, token.GTR, token.GEQ:
		return abad("comparison")
	}
	if l.bad != "" {
		return l
	}
	if r.bad != "" {
		return r
	}
	isF := isFloatType(x.Type())
	opsExact := l.exact() && r.exact()
	switch x.Op {
	case token.ADD:
		out := aval{a: new(big.Rat).Add(l.a, r.a), lo: new(big.Rat).Add(l.lo, r.lo), hi: new(big.Rat).Add(l.hi, r.hi), mono: l.mono && r.mono}
		if isF {
			// x + c with a dyadic constant and a result far below 2^53 is exact only if x's fraction fits; be conservative
			out = fpRound(out, ctx, opsExact)
		}
		return out
	case token.SUB:
		out := aval{a: new(big.Rat).Sub(l.a, r.a), lo: new(big.Rat).Sub(l.lo, r.hi), hi: new(big.Rat).Sub(l.hi, r.lo), mono: l.mono && r.isConst()}
		if isF {
			out = fpRound(out, ctx, opsExact)
		}
		return out
	case token.MUL:
		c, v := r, l
		if !c.isConst() {
			c, v = l, r
		}
		if !c.isConst() {
			return abad("product of two non-constants")
		}
		k := c.lo
		out := aval{a: new(big.Rat).Mul(v.a, k), mono: v.mono && k.Sign() >= 0}
		if k.Sign() >= 0 {
			out.lo, out.hi = new(big.Rat).Mul(v.lo, k), new(big.Rat).Mul(v.hi, k)
		} else {
			out.lo, out.hi = new(big.Rat).Mul(v.hi, k), new(big.Rat).Mul(v.lo, k)
		}
		if isF {
			out = fpRound(out, ctx, opsExact)
		}
		return out
	case token.QUO:
		if !r.isConst() || r.lo.Sign() <= 0 {
			return abad("division by a non-constant or non-positive value")
		}
		d := r.lo
		if isFloatType(x.Type()) {
			lo := new(big.Rat).Quo(l.lo, d)
			hi := new(big.Rat).Quo(l.hi, d)
			na := new(big.Rat).Quo(l.a, d)
			// IEEE division is correctly rounded: it is exact when the divisor is a power of two, or when the true
			// quotient is an integer for every admissible m (representable below 2^53, checked at the int->float conversion)
			pow2 := d.IsInt() && new(big.Int).And(d.Num(), new(big.Int).Sub(d.Num(), big.NewInt(1))).Sign() == 0
			out := aval{a: na, lo: lo, hi: hi, mono: l.mono}
			if pow2 {
				return out // scaling by a power of two is exact
			}
			return fpRound(out, ctx, opsExact)
		}
		if !isIntType(x.Type()) {
			return abad("division of unsupported type")
		}
		if l.minVal(ctx).Sign() < 0 {
			return abad("integer division of a possibly negative value")
		}
		na := new(big.Rat).Quo(l.a, d)
		// exact when the dividend is a multiple of d for every admissible m
		if l.lo.Cmp(l.hi) == 0 && isIntRat(new(big.Rat).Mul(na, ctx.q)) && isIntRat(new(big.Rat).Quo(l.lo, d)) {
			o := new(big.Rat).Quo(l.lo, d)
			return aval{a: na, lo: o, hi: o, mono: l.mono}
		}
		lo := new(big.Rat).Sub(l.lo, new(big.Rat).Sub(d, rat(1)))
		return aval{a: na, lo: lo.Quo(lo, d), hi: new(big.Rat).Quo(l.hi, d), mono: l.mono,
			absLo: floorRat(new(big.Rat).Quo(l.minVal(ctx), d)), absHi: floorRat(new(big.Rat).Quo(l.maxVal(ctx), d))}
	}
	return abad("unsupported operator " + x.Op.String())
}

func (ai *affInterp) convert(x *ssa.Convert, env map[ssa.Value]aval, ctx actx) aval {
	v := ai.eval(x.X, env)
	if v.bad != "" {
		return v
	}
	from, to := x.X.Type(), x.Type()
	switch {
	case isIntType(from) && isIntType(to):
		if tb := to.Underlying().(*types.Basic); tb.Info()&types.IsUnsigned != 0 && v.minVal(ctx).Sign() < 0 {
			return abad("conversion of a possibly negative value to an unsigned type")
		}
		return v
	case isIntType(from) && isFloatType(to):
		// exact below 2^53
		if v.maxVal(ctx).Cmp(new(big.Rat).SetInt(new(big.Int).Lsh(big.NewInt(1), 53))) > 0 {
			return abad("integer too large for an exact float64")
		}
		return v
	case isFloatType(from) && isIntType(to):
		if v.minVal(ctx).Sign() < 0 {
			return abad("truncation of a possibly negative float")
		}
		fl, fh := floorRat(v.minVal(ctx)), floorRat(v.maxVal(ctx))
		if isIntRat(new(big.Rat).Mul(v.a, ctx.q)) {
			return aval{a: v.a, lo: floorRat(v.lo), hi: floorRat(v.hi), absLo: fl, absHi: fh, mono: v.mono}
		}
		return aval{a: v.a, lo: new(big.Rat).Sub(v.lo, rat(1)), hi: v.hi, absLo: fl, absHi: fh, mono: v.mono}
	case isFloatType(from) && isFloatType(to):
		return v
	}
	return abad("unsupported conversion")
}

// refine restricts the range of m by `cond == want`; feasible=false when no m satisfies it.
func (ai *affInterp) refine(cond ssa.Value, want bool, env map[ssa.Value]aval, ctx actx) (actx, bool, string) {
	b, ok := cond.(*ssa.BinOp)
	if !ok {
		return ctx, true, "?"
	}
	l, r := ai.eval(b.X, env), ai.eval(b.Y, env)
	desc := fmt.Sprintf("%s %s %s is %v", l, b.Op, r, want)
	if l.bad != "" || r.bad != "" {
		return ctx, true, desc
	}
	d := aval{a: new(big.Rat).Sub(l.a, r.a), lo: new(big.Rat).Sub(l.lo, r.hi), hi: new(big.Rat).Sub(l.hi, r.lo)}
	op := b.Op
	if !want {
		op = map[token.Token]token.Token{token.EQL: token.NEQ, token.NEQ: token.EQL, token.LSS: token.GEQ, token.GEQ: token.LSS, token.GTR: token.LEQ, token.LEQ: token.GTR}[op]
	}
	// d op 0
	neg := func(x *big.Rat) *big.Rat { return new(big.Rat).Neg(x) }
	lo, hi := ctx.mLo, ctx.mHi
	strictLo, strictHi := false, false
	switch op {
	case token.LSS, token.LEQ: // need a·m + lo (<|<=) 0
		if d.a.Sign() == 0 {
			if (op == token.LSS && d.lo.Sign() >= 0) || (op == token.LEQ && d.lo.Sign() > 0) {
				return ctx, false, desc
			}
			return ctx, true, desc
		}
		bound := new(big.Rat).Quo(neg(d.lo), d.a)
		if d.a.Sign() > 0 {
			hi, strictHi = minRat(hi, bound), op == token.LSS && bound.Cmp(hi) <= 0
		} else {
			lo, strictLo = maxRat(lo, bound), op == token.LSS && bound.Cmp(lo) >= 0
		}
	case token.GTR, token.GEQ: // need a·m + hi (>|>=) 0
		if d.a.Sign() == 0 {
			if (op == token.GTR && d.hi.Sign() <= 0) || (op == token.GEQ && d.hi.Sign() < 0) {
				return ctx, false, desc
			}
			return ctx, true, desc
		}
		bound := new(big.Rat).Quo(neg(d.hi), d.a)
		if d.a.Sign() > 0 {
			lo, strictLo = maxRat(lo, bound), op == token.GTR && bound.Cmp(lo) >= 0
		} else {
			hi, strictHi = minRat(hi, bound), op == token.GTR && bound.Cmp(hi) <= 0
		}
	case token.EQL:
		if d.a.Sign() == 0 {
			if d.lo.Sign() > 0 || d.hi.Sign() < 0 {
				return ctx, false, desc
			}
			return ctx, true, desc
		}
		b1 := new(big.Rat).Quo(neg(d.hi), d.a)
		b2 := new(big.Rat).Quo(neg(d.lo), d.a)
		if b1.Cmp(b2) > 0 {
			b1, b2 = b2, b1
		}
		lo, hi = maxRat(lo, b1), minRat(hi, b2)
	case token.NEQ:
		if d.a.Sign() == 0 && d.lo.Sign() == 0 && d.hi.Sign() == 0 {
			return ctx, false, desc
		}
		return ctx, true, desc
	default:
		return ctx, true, desc
	}
	out := ctx.snap(lo, hi)
	// strict bounds that land exactly on a grid point exclude it
	if strictHi && out.mHi.Cmp(hi) == 0 {
		out.mHi = new(big.Rat).Sub(out.mHi, ctx.q)
	}
	if strictLo && out.mLo.Cmp(lo) == 0 {
		out.mLo = new(big.Rat).Add(out.mLo, ctx.q)
	}
	if out.empty() {
		return out, false, desc
	}
	return out, true, desc
}

// diffFromInput: the interval of (v - m) over ctx, for an integer-typed v.
func (v aval) diffFromInput(ctx actx) (lo, hi *big.Rat, ok bool) {
	if v.bad != "" {
		return nil, nil, false
	}
	d := aval{a: new(big.Rat).Sub(v.a, rat(1)), lo: v.lo, hi: v.hi}
	// both the result (a Go integer) and m are integers, so is their difference
	return ceilRat(d.minVal(ctx)), floorRat(d.maxVal(ctx)), true
}

func traceString(t []string) string { return strings.Join(t, "; ") }
