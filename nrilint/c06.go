package main

import (
	"fmt"
	"go/constant"
	"go/token"
	"go/types"

	"golang.org/x/tools/go/ssa"
)

// C06 — memory allocator operations are transactional; stale offers are rejected.
func init() { register("C06", "libmem transactions and offers", checkC06) }

type lmCtx struct {
	e                                                        *Engine
	fns                                                      []*ssa.Function
	zoneAssign, zoneRemove, zoneMove                         *ssa.Function
	startJournal, revertJournal, commitJournal               *ssa.Function
	jAssign, jDelete                                         *ssa.Function
	invalidate, allocate, realloc, release, reset, getOffer  *ssa.Function
	commit, isValid, newOffer, handleOvercommit              *ssa.Function
	fRequests, fUsers, fZoneUsers, fReqZone, fVersion, fOVer *types.Var
	fZones, fJournal, fReverts, fUpdates, fOUpdates          *types.Var
	prims                                                    map[*ssa.Function]bool
}

func newLMCtx(e *Engine, r *Report) *lmCtx {
	c := &lmCtx{e: e}
	c.fns = e.funcsInPkg(pkgLM)
	A := func(n string) *ssa.Function { return r.Anchor(pkgLM, n) }
	c.zoneAssign, c.zoneRemove, c.zoneMove = A("Allocator.zoneAssign"), A("Allocator.zoneRemove"), A("Allocator.zoneMove")
	c.startJournal, c.revertJournal, c.commitJournal = A("Allocator.startJournal"), A("Allocator.revertJournal"), A("Allocator.commitJournal")
	c.jAssign, c.jDelete = A("journal.assign"), A("journal.delete")
	c.invalidate, c.allocate, c.realloc = A("Allocator.invalidateOffers"), A("Allocator.allocate"), A("Allocator.realloc")
	c.release, c.reset, c.getOffer = A("Allocator.release"), A("Allocator.reset"), A("Allocator.GetOffer")
	c.commit, c.isValid, c.newOffer = A("Offer.Commit"), A("Offer.IsValid"), A("Allocator.newOffer")
	c.handleOvercommit = A("Allocator.handleOvercommit")
	F := func(t, f string) *types.Var {
		v := e.Field(pkgLM, t, f)
		if v == nil {
			r.Undecided("anchor:field:"+t+"."+f, "anchor", "field "+t+"."+f+" must exist", "-", nil, "field not found")
		}
		return v
	}
	c.fRequests, c.fUsers, c.fZoneUsers = F("Allocator", "requests"), F("Allocator", "users"), F("Zone", "users")
	c.fReqZone, c.fVersion, c.fOVer = F("Request", "zone"), F("Allocator", "version"), F("Offer", "version")
	c.fZones, c.fJournal = F("Allocator", "zones"), F("Allocator", "journal")
	c.fReverts, c.fUpdates, c.fOUpdates = F("journal", "reverts"), F("journal", "updates"), F("Offer", "updates")
	c.prims = fset(c.zoneAssign, c.zoneRemove)
	// every function that directly writes assignment state is a primitive too
	for _, fn := range c.fns {
		AllInstrs(fn, func(in ssa.Instruction) {
			if c.isDirectWrite(in) {
				c.prims[fn] = true
			}
		})
	}
	return c
}

func (c *lmCtx) isDirectWrite(in ssa.Instruction) bool {
	if isMapWriteOf(in, c.fRequests) || isMapWriteOf(in, c.fUsers) || isMapWriteOf(in, c.fZoneUsers) {
		return true
	}
	if st, ok := in.(*ssa.Store); ok {
		f := fieldOfAddr(st.Addr)
		if f != nil && (f == c.fRequests || f == c.fUsers) {
			return true
		}
	}
	return false
}

// isMutation: does the instruction (possibly) change assignment state —
// a call that reaches zoneAssign/zoneRemove at any depth, or a direct write
// to Allocator.requests / users / Zone.users?
func (c *lmCtx) isMutation(in ssa.Instruction) bool {
	if c.isDirectWrite(in) {
		return true
	}
	if _, ok := in.(ssa.CallInstruction); ok {
		return c.e.CallReaches(in, c.prims, 0)
	}
	return false
}

func checkC06(e *Engine, r *Report) {
	r.Rules = []string{
		"R13 revert-on-failure (allocate, realloc: deferred closure reverts the journal whenever the named error result is non-nil; all mutations happen after startJournal)",
		"R1 offers-do-not-commit (GetOffer: success path passes revertJournal(req), never reaches commitJournal/invalidateOffers; the offer stores exactly revertJournal's updates)",
		"R3 journal completeness (single writers of users/zone/requests maps; zoneAssign/zoneRemove journal every mutation; first-write-wins revert records)",
		"R1 invalidate-on-committed-mutation (every exported mutator of Allocator/Offer: success return after a mutation passes invalidateOffers, inter-procedural summaries)",
		"R2 stale-offer refusal (Commit mutates only under IsValid(); IsValid compares offer and allocator versions; newOffer copies, invalidateOffers increments)",
		"data-flow: release removes only its own request id",
		"R16 atomic update groups: zoneAssign and zoneRemove update all representations of a request's zone (Zone.users, Allocator.users, Request.zone, the journal) together on every path, with the values of their own arguments; zoneMove removes from the old zone and assigns to the new one unless they are equal",
	}
	r.NotDecided = []string{
		"byte-for-byte equality of zone usage before/after a failed call (follows from revert-on-failure + journal completeness, not separately computed)",
		"behaviour of user-supplied custom allocator functions",
		"capacity arithmetic",
	}
	r.Assumptions = []string{
		"Go semantics: a `return expr` in a function with named results assigns them before deferred functions run",
		"CustomFunctions supplied by the embedding policy mutate the allocator only through the customAllocator wrapper",
	}
	checkErrorPolarity(e, r, "R13 revert-on-failure", pkgLM)
	checkErrorPropagation(e, r, "R13 revert-on-failure", pkgLM)
	c := newLMCtx(e, r)
	if c.zoneAssign == nil || c.zoneRemove == nil || c.revertJournal == nil || c.startJournal == nil ||
		c.allocate == nil || c.realloc == nil || c.invalidate == nil || c.commit == nil || c.getOffer == nil {
		return
	}
	checkZonePrimitives(e, r, c)
	checkLibmemJournal(e, r, c)
	checkLibmemOfferCommit(e, r, c)
	checkLibmemAdmission(e, r, c)

	// ---- rule 1: revert on failure ---------------------------------------
	for _, fn := range []*ssa.Function{c.allocate, c.realloc} {
		name := FnName(fn)
		sj := e.callsTo(fn, c.startJournal)
		if len(sj) != 1 {
			r.Undecided("R13:revert@"+name, "R13 revert-on-failure", "exactly one startJournal call", e.Pos(fn.Pos()), fn,
				fmt.Sprintf("found %d startJournal calls", len(sj)))
			continue
		}
		start := sj[0].(ssa.Instruction)
		// (a) all mutations come after startJournal
		p := FindPath(PathQuery{Fn: fn, Target: c.isMutation, Block: func(in ssa.Instruction) bool { return in == start }})
		w := ""
		if p != nil {
			w = "mutation before journal start: " + e.pathString(p)
		}
		r.Check("R13:journal-before-mutation@"+name, "R13 revert-on-failure",
			"no assignment mutation is reachable before startJournal() has been called", e.InstrPos(start), fn, p == nil, w, true)

		// (b) a deferred closure that reverts whenever the named error result is non-nil
		var deferOK ssa.Instruction
		var revertCall ssa.CallInstruction
		AllInstrs(fn, func(in ssa.Instruction) {
			d, ok := in.(*ssa.Defer)
			if !ok {
				return
			}
			for _, cl := range e.Callees(d) {
				if cl.Parent() != fn {
					continue
				}
				rc := e.callsTo(cl, c.revertJournal)
				if len(rc) == 0 {
					continue
				}
				// find the captured named error result
				errVar := namedErrFreeVar(cl, fn)
				if errVar == nil {
					continue
				}
				assumeErr := func(cond ssa.Value) (bool, bool) {
					b, ok := cond.(*ssa.BinOp)
					if !ok || (b.Op != token.NEQ && b.Op != token.EQL) {
						return false, false
					}
					isLoad := func(v ssa.Value) bool {
						u, ok := v.(*ssa.UnOp)
						return ok && u.Op == token.MUL && u.X == errVar
					}
					isNil := func(v ssa.Value) bool { k, ok := v.(*ssa.Const); return ok && k.IsNil() }
					if (isLoad(b.X) && isNil(b.Y)) || (isLoad(b.Y) && isNil(b.X)) {
						return true, b.Op == token.NEQ
					}
					return false, false
				}
				// under retErr != nil every path of the closure passes revertJournal
				bad := FindPath(PathQuery{Fn: cl, Assume: assumeErr,
					Block:  func(in ssa.Instruction) bool { return e.IsCallTo(in, fset(c.revertJournal)) },
					Target: func(in ssa.Instruction) bool { _, ok := in.(*ssa.Return); return ok }})
				if bad == nil {
					deferOK = d
					revertCall = rc[0]
				}
			}
		})
		r.Check("R13:revert-defer@"+name, "R13 revert-on-failure",
			"a deferred closure calls revertJournal on every path where the named error result is non-nil",
			e.Pos(fn.Pos()), fn, deferOK != nil, "", true)
		if deferOK == nil {
			continue
		}
		// (c) after a successful startJournal every return passes that defer
		r.MustPass("R13:revert-registered@"+name, "R13 revert-on-failure",
			"every return after a successful startJournal() has the reverting defer registered", fn, start,
			nil, func(in ssa.Instruction) bool { return in == deferOK }, callSucceeded(sj[0].Value()))
		// (d) the revert argument: the request when this function registered it, nil otherwise
		inserts := false
		AllInstrs(fn, func(in ssa.Instruction) {
			if mu, ok := in.(*ssa.MapUpdate); ok && isMapWriteOf(mu, c.fRequests) {
				inserts = true
			}
		})
		arg := callArgs(revertCall)[1]
		if inserts {
			okArg := originAll(arg, func(v ssa.Value) bool {
				// the closure's free variable bound to the function's *Request parameter
				return isParamOrCaptureOfParam(v, fn, 1)
			})
			r.Check("R13:revert-arg@"+name, "R13 revert-on-failure",
				"the function inserts its request into Allocator.requests, so revertJournal must be given that request (to remove it again)",
				e.InstrPos(revertCall), fn, okArg, "", true)
		} else {
			k, isC := arg.(*ssa.Const)
			r.Check("R13:revert-arg@"+name, "R13 revert-on-failure",
				"the function does not register a new request, so revertJournal must be called with nil (the existing request must survive the failure)",
				e.InstrPos(revertCall), fn, isC && k.IsNil(), "", true)
		}
	}

	// revertJournal replays every recorded entry
	if c.fReverts != nil {
		fn := c.revertJournal
		var rng *ssa.Range
		AllInstrs(fn, func(in ssa.Instruction) {
			if rg, ok := in.(*ssa.Range); ok {
				if f, _ := loadedField(rg.X); f == c.fReverts {
					rng = rg
				}
			}
		})
		r.Check("R13:revert-all@"+FnName(fn), "R13 revert-on-failure", "revertJournal iterates over all of journal.reverts",
			e.Pos(fn.Pos()), fn, rng != nil, "", false)
		r.Check("R13:revert-calls@"+FnName(fn), "R13 revert-on-failure", "revertJournal undoes entries through zoneRemove and zoneAssign",
			e.Pos(fn.Pos()), fn, len(e.callsTo(fn, c.zoneRemove)) > 0 && len(e.callsTo(fn, c.zoneAssign)) > 0, "", false)
		// the journal is detached before the undo operations (so that they are not journaled again)
		var detach ssa.Instruction
		AllInstrs(fn, func(in ssa.Instruction) {
			if st, ok := in.(*ssa.Store); ok && fieldOfAddr(st.Addr) == c.fJournal {
				if k, ok := st.Val.(*ssa.Const); ok && k.IsNil() {
					detach = in
				}
			}
		})
		okDetach := detach != nil
		if okDetach {
			p := FindPath(PathQuery{Fn: fn, Block: func(in ssa.Instruction) bool { return in == detach },
				Target: func(in ssa.Instruction) bool { return e.IsCallTo(in, fset(c.zoneRemove, c.zoneAssign)) }})
			okDetach = p == nil
		}
		r.Check("R13:revert-detach@"+FnName(fn), "R13 revert-on-failure",
			"revertJournal clears Allocator.journal before undoing (undo steps must not be journaled)", e.Pos(fn.Pos()), fn, okDetach, "", true)
	}

	// who may call revertJournal / commitJournal / startJournal
	for _, t := range []struct {
		fn     *ssa.Function
		owners map[string]bool
	}{
		{c.revertJournal, set(FnName(c.allocate), FnName(c.realloc), FnName(c.getOffer))},
		{c.commitJournal, set("(*"+short(pkgLM)+".Allocator).Allocate", FnName(c.realloc))},
		{c.startJournal, set(FnName(c.allocate), FnName(c.realloc))},
	} {
		if t.fn == nil {
			continue
		}
		for _, cs := range e.Callers(t.fn) {
			top := FnName(TopParent(cs.Fn))
			r.Check("R3:caller["+t.fn.Name()+"]@"+top, "R3 who-may-call", t.fn.Name()+" is called only from "+fmt.Sprint(sortedKeys(t.owners)),
				e.InstrPos(cs.Call), cs.Fn, t.owners[top], "", false)
		}
	}

	// ---- rule 2: offers do not commit ------------------------------------
	{
		fn := c.getOffer
		ac := e.callsTo(fn, c.allocate)
		if len(ac) != 1 {
			r.Undecided("R1:offer-revert@"+FnName(fn), "R1 offers-do-not-commit", "GetOffer calls allocate exactly once", e.Pos(fn.Pos()), fn, fmt.Sprintf("%d calls", len(ac)))
		} else {
			isRevertReq := func(in ssa.Instruction) bool {
				if !e.IsCallTo(in, fset(c.revertJournal)) {
					return false
				}
				a := callArgs(in.(ssa.CallInstruction))
				return len(a) == 2 && paramIndex(a[1]) == 1
			}
			r.MustPass("R1:offer-revert@"+FnName(fn), "R1 offers-do-not-commit",
				"after allocate() succeeded every return of GetOffer passes revertJournal(req) with the request itself", fn, ac[0].(ssa.Instruction),
				nil, isRevertReq, callSucceeded(ac[0].Value()))
		}
		reach := e.Reach([]*ssa.Function{fn}, 0)
		_, hitsCommit := reach[c.commitJournal]
		_, hitsInval := reach[c.invalidate]
		r.Check("R1:offer-no-commit@"+FnName(fn), "R1 offers-do-not-commit", "GetOffer never reaches commitJournal",
			e.Pos(fn.Pos()), fn, !hitsCommit, "", true)
		r.Check("R1:offer-no-invalidate@"+FnName(fn), "R1 offers-do-not-commit", "GetOffer never changes the allocator version (requesting an offer changes no state)",
			e.Pos(fn.Pos()), fn, !hitsInval, "", true)
		// newOffer(req, updates): updates is revertJournal's first result
		for _, nc := range e.callsTo(fn, c.newOffer) {
			a := callArgs(nc)
			ok := len(a) == 3 && originAll(a[2], func(v ssa.Value) bool {
				ex, ok := v.(*ssa.Extract)
				if !ok || ex.Index != 0 {
					return false
				}
				call, ok := ex.Tuple.(*ssa.Call)
				return ok && e.IsCallTo(call, fset(c.revertJournal))
			})
			r.Check("R1:offer-updates@"+FnName(fn), "R1 offers-do-not-commit",
				"the offer is built from exactly the updates revertJournal returned (what a direct allocation would have committed)",
				e.InstrPos(nc), fn, ok, "", true)
			ok2 := len(a) == 3 && paramIndex(a[1]) == 1
			r.Check("R1:offer-req@"+FnName(fn), "R1 offers-do-not-commit", "the offer is for the request passed in", e.InstrPos(nc), fn, ok2, "", true)
		}
		// newOffer stores its parameters and the current version
		if c.newOffer != nil && c.fOUpdates != nil {
			okU, okV := false, false
			AllInstrs(c.newOffer, func(in ssa.Instruction) {
				st, ok := in.(*ssa.Store)
				if !ok {
					return
				}
				switch fieldOfAddr(st.Addr) {
				case c.fOUpdates:
					okU = paramIndex(st.Val) == 2
				case c.fOVer:
					f, _ := loadedField(st.Val)
					okV = f == c.fVersion
				}
			})
			r.Check("R1:newOffer-updates", "R1 offers-do-not-commit", "newOffer stores its updates parameter unmodified", e.Pos(c.newOffer.Pos()), c.newOffer, okU, "", true)
			r.Check("R2:newOffer-version", "R2 stale-offer refusal", "newOffer records the allocator's current version", e.Pos(c.newOffer.Pos()), c.newOffer, okV, "", true)
		}
	}

	// ---- rule 3: journal completeness ------------------------------------
	za, zr := FnName(c.zoneAssign), FnName(c.zoneRemove)
	n := 0
	n += r.WhoMayWrite("R3", c.fUsers, "Allocator.users", set(za, zr, FnName(c.reset)), c.fns)
	n += r.WhoMayWrite("R3", c.fZoneUsers, "Zone.users", set(za, zr), c.fns)
	n += r.WhoMayWrite("R3", c.fRequests, "Allocator.requests", set(FnName(c.allocate), FnName(c.revertJournal), FnName(c.release), FnName(c.reset), FnName(c.commit)), c.fns)
	n += r.WhoMayWrite("R3", c.fReqZone, "Request.zone", set(za, zr,
		"(*"+short(pkgLM)+".Allocator).findInitialZone", "(*"+short(pkgLM)+".Allocator).ensureNormalMemory",
		FnName(c.realloc), FnName(c.commit)), c.fns)
	n += r.WhoMayWrite("R3", c.fVersion, "Allocator.version", set(FnName(c.invalidate)), c.fns)
	n += r.WhoMayWrite("R3", c.fOVer, "Offer.version", set(FnName(c.newOffer)), c.fns)
	n += r.WhoMayWrite("R3", c.fJournal, "Allocator.journal", set(FnName(c.startJournal), FnName(c.commitJournal), FnName(c.revertJournal)), c.fns)
	n += r.WhoMayWrite("R3", c.fReverts, "journal.reverts", set(FnName(c.startJournal), FnName(c.jAssign), FnName(c.jDelete)), c.fns)
	n += r.WhoMayWrite("R3", c.fUpdates, "journal.updates", set(FnName(c.startJournal), FnName(c.jAssign), FnName(c.commitJournal)), c.fns)
	r.MinInstances("R3 writers (libmem state)", n, 12)

	c.checkJournaling(r)
	// a request is dropped from the requests table by the revert only inside an open journal (i.e. only when this very
	// transaction registered it): without a journal, revertJournal must not touch the table — otherwise a request refused
	// before the journal was opened (duplicate id) would erase the existing allocation of that id
	{
		noJournal := func(cond ssa.Value) (bool, bool) {
			b, ok := cond.(*ssa.BinOp)
			if !ok || (b.Op != token.EQL && b.Op != token.NEQ) {
				return false, false
			}
			for _, pr := range [][2]ssa.Value{{b.X, b.Y}, {b.Y, b.X}} {
				if f, _ := loadedField(pr[0]); f == c.fJournal {
					if k, isK := pr[1].(*ssa.Const); isK && k.IsNil() {
						return true, b.Op == token.EQL
					}
				}
			}
			return false, false
		}
		isDeleteOfRequests := func(in ssa.Instruction) bool {
			ci, ok := in.(ssa.CallInstruction)
			if !ok {
				return false
			}
			if bi, ok := ci.Common().Value.(*ssa.Builtin); ok && bi.Name() == "delete" && len(ci.Common().Args) == 2 {
				if f, _ := loadedField(ci.Common().Args[0]); f == c.fRequests {
					return true
				}
			}
			// a (deferred) closure that deletes
			for _, g := range e.Callees(ci) {
				found := false
				if g.Parent() != nil {
					AllInstrs(g, func(x ssa.Instruction) {
						if c2, ok := x.(ssa.CallInstruction); ok {
							if bi, ok := c2.Common().Value.(*ssa.Builtin); ok && bi.Name() == "delete" {
								if f, _ := loadedField(c2.Common().Args[0]); f == c.fRequests {
									found = true
								}
							}
						}
					})
				}
				if found {
					return true
				}
			}
			return false
		}
		p := FindPath(PathQuery{Fn: c.revertJournal, Assume: noJournal, Target: isDeleteOfRequests})
		nDel := 0
		AllInstrs(c.revertJournal, func(in ssa.Instruction) {
			if isDeleteOfRequests(in) {
				nDel++
			}
		})
		r.Check("R13:revert-deletes-only-in-open-journal", "R13 revert-on-failure", "revertJournal removes the requester from the requests table only when a journal is open (the transaction that registered it), also through deferred calls", e.Pos(c.revertJournal.Pos()), c.revertJournal, p == nil && nDel >= 1,
			"reachable without a journal: "+e.pathString(p), true)
	}
	// single residence: a request is assigned to a zone only when it is in no zone — every zoneAssign call is for a
	// fresh request (the one being admitted by allocate, or an offer's own request in Commit), or is preceded on every
	// path by zoneRemove (or by a failed lookup in the users map) in the same function
	{
		fOReq := e.Field(pkgLM, "Offer", "req")
		na := 0
		for _, cs := range e.Callers(c.zoneAssign) {
			na++
			fn := cs.Fn
			arg := callArgs(cs.Call)[2]
			ok, why := false, ""
			switch {
			case fn == c.allocate && paramIndex(arg) == 1:
				ok, why = true, "the request being admitted (validateRequest refuses an id that already exists)"
			case fn == c.commit:
				if f, _ := loadedField(arg); f == fOReq && fOReq != nil {
					ok, why = true, "the offer's own, not yet admitted request"
				} else {
					why = "Commit assigns a request other than the offer's own without removing it from its current zone"
				}
			default:
				notUser := func(cond ssa.Value) (bool, bool) {
					// `_, ok := a.users[id]` failed: the request is in no zone
					if ex, isEx := cond.(*ssa.Extract); isEx && ex.Index == 1 {
						if lk, isLk := ex.Tuple.(*ssa.Lookup); isLk {
							if f, _ := loadedField(lk.X); f == c.fUsers {
								return true, true // explore the branch where it IS a user
							}
						}
					}
					return false, false
				}
				p := FindPath(PathQuery{Fn: fn, Assume: notUser, Block: func(in ssa.Instruction) bool { return e.IsCallTo(in, fset(c.zoneRemove)) },
					Target: func(in ssa.Instruction) bool { return in == cs.Call.(ssa.Instruction) }})
				ok, why = p == nil, "reaches zoneAssign without zoneRemove: "+e.pathString(p)
			}
			r.Check("R3:single-residence@"+FnName(fn), "R3 journal completeness", "a request is assigned to a zone only when it is in no zone (fresh request, or removed from its current zone first), so no zone keeps counting a request that has moved", e.InstrPos(cs.Call), fn, ok, why, true)
		}
		r.MinInstances("zoneAssign callers", na, 3)
	}
	// cleanupUnusedZones deletes only empty zones
	if fn := r.Anchor(pkgLM, "Allocator.cleanupUnusedZones"); fn != nil {
		AllInstrs(fn, func(in ssa.Instruction) {
			if !isMapWriteOf(in, c.fZones) {
				return
			}
			// dominated by len(zone.users) == 0
			ok := false
			for b := in.Block(); b != nil && !ok; b = b.Idom() {
				id := b.Idom()
				if id == nil {
					break
				}
				if ifi, isIf := lastInstr(id).(*ssa.If); isIf && id.Succs[0] == b && len(b.Preds) == 1 {
					if bo, isB := ifi.Cond.(*ssa.BinOp); isB && bo.Op == token.EQL {
						if isLenOfField(bo.X, c.fZoneUsers) && isConstInt(bo.Y, 0) {
							ok = true
						}
					}
				}
			}
			r.Check("R3:cleanup-empty-only@"+FnName(fn), "R3 journal completeness", "zones are deleted only when they have no users",
				e.InstrPos(in), fn, ok, "", true)
		})
	}

	// ---- rule 4: invalidate on every committed mutation -------------------
	c.checkInvalidate(r)

	// ---- rule 5: stale offers refused -------------------------------------
	if c.isValid != nil {
		fn := c.commit
		ivc := e.callsTo(fn, c.isValid)
		r.Check("R2:commit-checks-validity", "R2 stale-offer refusal", "Commit consults IsValid()", e.Pos(fn.Pos()), fn, len(ivc) > 0, "", false)
		assumeInvalid := func(cond ssa.Value) (bool, bool) {
			if call, ok := cond.(*ssa.Call); ok && e.IsCallTo(call, fset(c.isValid)) {
				return true, false
			}
			return false, false
		}
		r.Unreachable("R2:commit-guard", "R2 stale-offer refusal",
			"with IsValid() false no mutation, request registration or version change is reachable in Commit", fn, nil,
			func(in ssa.Instruction) bool {
				return c.isMutation(in) || e.IsCallTo(in, fset(c.invalidate))
			}, assumeInvalid)
		// with IsValid() false, Commit returns a non-nil error
		p := FindPath(PathQuery{Fn: fn, Assume: assumeInvalid, Target: func(in ssa.Instruction) bool {
			ret, ok := in.(*ssa.Return)
			return ok && e.ClassifyReturn(ret) != retNonNilErr
		}})
		r.Check("R2:commit-refuses", "R2 stale-offer refusal", "with IsValid() false every return of Commit carries a non-nil error",
			e.Pos(fn.Pos()), fn, p == nil, e.pathString(p), true)
		// IsValid compares the two versions
		okCmp := false
		for _, ret := range Returns(c.isValid) {
			if b, ok := ret.Results[0].(*ssa.BinOp); ok && b.Op == token.EQL {
				f1, _ := loadedField(b.X)
				f2, _ := loadedField(b.Y)
				if (f1 == c.fOVer && f2 == c.fVersion) || (f1 == c.fVersion && f2 == c.fOVer) {
					okCmp = true
				}
			}
		}
		r.Check("R2:isvalid-compares-versions", "R2 stale-offer refusal", "IsValid() is `offer.version == allocator.version`",
			e.Pos(c.isValid.Pos()), c.isValid, okCmp && len(Returns(c.isValid)) == 1, "", true)
		// invalidateOffers strictly increases the version on every path
		okInc := false
		AllInstrs(c.invalidate, func(in ssa.Instruction) {
			if st, ok := in.(*ssa.Store); ok && fieldOfAddr(st.Addr) == c.fVersion {
				if b, ok := st.Val.(*ssa.BinOp); ok && b.Op == token.ADD {
					f, _ := loadedField(b.X)
					if f == c.fVersion && isConstInt(b.Y, 1) {
						okInc = true
					}
				}
			}
		})
		r.Check("R2:invalidate-increments", "R2 stale-offer refusal", "invalidateOffers performs version = version + 1",
			e.Pos(c.invalidate.Pos()), c.invalidate, okInc, "", true)
		r.MustPass("R2:invalidate-unconditional", "R2 stale-offer refusal", "invalidateOffers changes the version on every path",
			c.invalidate, nil, nil, func(in ssa.Instruction) bool {
				st, ok := in.(*ssa.Store)
				return ok && fieldOfAddr(st.Addr) == c.fVersion
			}, nil)
	}

	// ---- rule 6: release is local ------------------------------------------
	if c.release != nil {
		fn := c.release
		isOwnID := func(v ssa.Value) bool {
			return originAll(v, func(x ssa.Value) bool {
				call, ok := x.(*ssa.Call)
				if !ok {
					return false
				}
				a := callArgs(call)
				o := callObj(call.Common())
				return o != nil && o.Name() == "ID" && len(a) == 1 && paramIndex(a[0]) == 1
			})
		}
		cnt := 0
		AllInstrs(fn, func(in ssa.Instruction) {
			if e.IsCallTo(in, fset(c.zoneRemove)) {
				a := callArgs(in.(ssa.CallInstruction))
				cnt++
				sp := e.skippedOnSuccess(fn, in)
				r.Check("R6:release-local@zoneRemove", "data-flow release-is-local", "every successful release removes the zone entry of its own request id, and only that",
					e.InstrPos(in), fn, len(a) == 3 && isOwnID(a[2]) && sp == nil, e.pathString(sp), true)
			}
			if isMapWriteOf(in, c.fRequests) {
				cc := in.(ssa.CallInstruction).Common()
				cnt++
				sp := e.skippedOnSuccess(fn, in)
				r.Check("R6:release-local@delete(requests)", "data-flow release-is-local", "every successful release deletes its own request id, and only that",
					e.InstrPos(in), fn, isOwnID(cc.Args[1]) && sp == nil, e.pathString(sp), true)
			}
			if c.e.CallReaches(in, fset(c.zoneAssign, c.zoneMove), 0) {
				r.Check("R6:release-no-assign", "data-flow release-is-local", "release never (re)assigns or moves any request",
					e.InstrPos(in), fn, false, "", true)
			}
		})
		r.MinInstances("release-is-local sites", cnt, 2)
		// Release (exported) hands release() the request looked up under the given id
		if pub := r.Anchor(pkgLM, "Allocator.Release"); pub != nil {
			for _, rc := range e.callsTo(pub, c.release) {
				a := callArgs(rc)
				ok := len(a) == 2 && originAll(a[1], func(v ssa.Value) bool {
					ex, ok := v.(*ssa.Extract)
					if !ok || ex.Index != 0 {
						return false
					}
					lk, ok := ex.Tuple.(*ssa.Lookup)
					if !ok {
						return false
					}
					f, _ := loadedField(lk.X)
					return f == c.fRequests && paramIndex(lk.Index) == 1
				})
				r.Check("R6:release-lookup", "data-flow release-is-local", "Release(id) releases the request registered under that id",
					e.InstrPos(rc), pub, ok, "", true)
			}
		}
	}
}

// checkInvalidate implements rule 4 with inter-procedural summaries.
func (c *lmCtx) checkInvalidate(r *Report) {
	e := c.e
	// alwaysInv[f]: every may-succeed return of f passes an invalidation.
	// cleanOnSuccess[f]: on every may-succeed return, each mutation made by f
	// has been followed by an invalidation.
	type summ struct{ done, always, clean bool }
	memo := map[*ssa.Function]*summ{}
	var summarize func(fn *ssa.Function, depth int) *summ
	isInv := func(in ssa.Instruction, depth int) bool {
		ci, ok := in.(ssa.CallInstruction)
		if !ok {
			return false
		}
		cal := e.Callees(ci)
		if len(cal) == 0 {
			return false
		}
		for _, f := range cal {
			if f == c.invalidate {
				continue
			}
			if f.Blocks == nil || depth > 6 {
				return false
			}
			if !summarize(f, depth+1).always {
				return false
			}
		}
		return true
	}
	isDirtyMut := func(in ssa.Instruction, depth int) bool {
		if !c.isMutation(in) {
			return false
		}
		ci, ok := in.(ssa.CallInstruction)
		if !ok {
			return true
		}
		if _, isBuiltin := ci.Common().Value.(*ssa.Builtin); isBuiltin {
			return true
		}
		for _, f := range e.Callees(ci) {
			if c.prims[f] || f == c.zoneMove {
				return true
			}
			if f.Blocks == nil {
				continue
			}
			if !e.ReachesAny(f, c.prims, 0) {
				continue
			}
			if depth > 6 || !summarize(f, depth+1).clean {
				return true
			}
		}
		return false
	}
	summarize = func(fn *ssa.Function, depth int) *summ {
		if s, ok := memo[fn]; ok {
			return s
		}
		s := &summ{}
		memo[fn] = s // recursion: pessimistic default
		okRet := func(ret *ssa.Return) bool { return e.maySucceed(ret) }
		inv := func(in ssa.Instruction) bool { return isInv(in, depth) }
		s.always = FindPath(PathQuery{Fn: fn, Block: inv, Target: func(in ssa.Instruction) bool {
			ret, ok := in.(*ssa.Return)
			return ok && okRet(ret)
		}}) == nil
		s.clean = true
		AllInstrs(fn, func(in ssa.Instruction) {
			if !s.clean || !isDirtyMut(in, depth) {
				return
			}
			if inv(in) {
				return
			}
			if FindPath(PathQuery{Fn: fn, From: in, Block: inv, Target: func(x ssa.Instruction) bool {
				ret, ok := x.(*ssa.Return)
				return ok && okRet(ret)
			}}) != nil {
				s.clean = false
			}
		})
		s.done = true
		return s
	}

	// exported mutators: exported methods of *Allocator and *Offer that reach a primitive
	exempt := map[string]string{
		FnName(c.getOffer): "GetOffer's mutations are reverted before it returns (rule 2)",
	}
	n := 0
	for _, tname := range []string{"Allocator", "Offer"} {
		named := e.Named(pkgLM, tname)
		if named == nil {
			continue
		}
		ms := e.Prog.MethodSets.MethodSet(types.NewPointer(named))
		for i := 0; i < ms.Len(); i++ {
			sel := ms.At(i)
			if !sel.Obj().Exported() {
				continue
			}
			fn := e.Prog.FuncValue(sel.Obj().(*types.Func))
			if fn == nil || fn.Blocks == nil {
				continue
			}
			mutates := e.ReachesAny(fn, c.prims, 0)
			if !mutates {
				continue
			}
			name := FnName(fn)
			if why, ok := exempt[name]; ok {
				r.Check("R1:invalidate@"+name, "R1 invalidate-on-committed-mutation", "exempt: "+why, e.Pos(fn.Pos()), fn, true, "", false)
				continue
			}
			n++
			// find a witness
			var witness []ssa.Instruction
			var dirtyAt ssa.Instruction
			inv := func(in ssa.Instruction) bool { return isInv(in, 0) }
			AllInstrs(fn, func(in ssa.Instruction) {
				if witness != nil || !isDirtyMut(in, 0) || inv(in) {
					return
				}
				p := FindPath(PathQuery{Fn: fn, From: in, Block: inv, Target: func(x ssa.Instruction) bool {
					ret, ok := x.(*ssa.Return)
					return ok && e.maySucceed(ret)
				}})
				if p != nil {
					witness, dirtyAt = p, in
				}
			})
			w := ""
			if witness != nil {
				w = fmt.Sprintf("mutation at %s (%s) reaches a success return without invalidateOffers: %s",
					e.InstrPos(dirtyAt), describeCall(e, dirtyAt), e.pathString(witness))
			}
			r.Check("R1:invalidate@"+name, "R1 invalidate-on-committed-mutation",
				"every successful return of exported mutator "+fn.Name()+" that follows a committed assignment mutation passes invalidateOffers (directly or in a callee that always does)",
				e.Pos(fn.Pos()), fn, witness == nil, w, true)
		}
	}
	r.MinInstances("R1 invalidate (exported mutators)", n, 3)
}

func describeCall(e *Engine, in ssa.Instruction) string {
	if ci, ok := in.(ssa.CallInstruction); ok {
		var names []string
		for _, f := range e.Callees(ci) {
			names = append(names, f.Name())
		}
		return "call " + fmt.Sprint(names)
	}
	return in.String()
}

func isConstInt(v ssa.Value, n int64) bool {
	k, ok := v.(*ssa.Const)
	if !ok || k.Value == nil {
		return false
	}
	if k.Value.Kind() != constant.Int {
		return false
	}
	return k.Int64() == n
}

func isLenOfField(v ssa.Value, f *types.Var) bool {
	call, ok := v.(*ssa.Call)
	if !ok {
		return false
	}
	b, ok := call.Common().Value.(*ssa.Builtin)
	if !ok || b.Name() != "len" || len(call.Common().Args) != 1 {
		return false
	}
	g, _ := loadedField(call.Common().Args[0])
	return g == f
}

// namedErrFreeVar returns the free variable of closure cl that is bound to
// the cell of parent's named error result.
func namedErrFreeVar(cl, parent *ssa.Function) *ssa.FreeVar {
	idx := errResultIndex(parent)
	if idx < 0 {
		return nil
	}
	resName := parent.Signature.Results().At(idx).Name()
	if resName == "" {
		return nil
	}
	for _, fv := range cl.FreeVars {
		if fv.Name() == resName {
			if p, ok := fv.Type().(*types.Pointer); ok && isErrorType(p.Elem()) {
				return fv
			}
		}
	}
	return nil
}

// isParamOrCaptureOfParam: v is parameter #idx of fn, or a closure free
// variable / cell load bound to it.
func isParamOrCaptureOfParam(v ssa.Value, fn *ssa.Function, idx int) bool {
	if p, ok := v.(*ssa.Parameter); ok {
		return p.Parent() == fn && paramIndex(p) == idx
	}
	if fv, ok := v.(*ssa.FreeVar); ok {
		cl := fv.Parent()
		fi := -1
		for i, f := range cl.FreeVars {
			if f == fv {
				fi = i
			}
		}
		found := false
		if cl.Parent() != nil && fi >= 0 {
			AllInstrs(cl.Parent(), func(in ssa.Instruction) {
				if mc, ok := in.(*ssa.MakeClosure); ok && mc.Fn == cl {
					if isParamOrCaptureOfParam(mc.Bindings[fi], fn, idx) {
						found = true
					}
				}
			})
		}
		return found
	}
	return false
}

// checkJournaling: zoneAssign/zoneRemove record every mutation in the journal
// (shared by C06 rule 3 and C07 rule 3).
func (c *lmCtx) checkJournaling(r *Report) {
	e := c.e
	for _, t := range []struct {
		fn, j *ssa.Function
		what  string
	}{{c.zoneAssign, c.jAssign, "journal.assign"}, {c.zoneRemove, c.jDelete, "journal.delete"}} {
		if t.fn == nil || t.j == nil {
			continue
		}
		fn := t.fn
		isJ := func(in ssa.Instruction) bool { return e.IsCallTo(in, fset(t.j)) }
		// every mutation of users is journaled: from each mutation all returns pass the journal call, or the journal call precedes it
		AllInstrs(fn, func(in ssa.Instruction) {
			if !(isMapWriteOf(in, c.fUsers) || isMapWriteOf(in, c.fZoneUsers)) {
				return
			}
			after := FindPath(PathQuery{Fn: fn, From: in, Block: isJ, Target: func(x ssa.Instruction) bool { _, ok := x.(*ssa.Return); return ok }})
			before := FindPath(PathQuery{Fn: fn, Block: isJ, Target: func(x ssa.Instruction) bool { return x == in }})
			ok := after == nil || before == nil
			r.Check("R3:journaled@"+FnName(fn), "R3 journal completeness",
				"every write to the users maps in "+fn.Name()+" is recorded by "+t.what+" on all paths", e.InstrPos(in), fn, ok,
				e.pathString(after), true)
		})
		// the journal call records the same (zone, id) the primitive was called with
		for _, jc := range e.callsTo(fn, t.j) {
			a := callArgs(jc)
			okZone := len(a) == 3 && paramIndex(a[1]) == 1
			r.Check("R3:journal-args@"+FnName(fn), "R3 journal completeness", t.what+" is given the zone parameter of "+fn.Name(),
				e.InstrPos(jc), fn, okZone, "", true)
		}
	}
	// first-write-wins for revert records (an entry must hold the pre-transaction zone)
	for _, fn := range []*ssa.Function{c.jAssign, c.jDelete} {
		if fn == nil || c.fReverts == nil {
			continue
		}
		assumeExists := func(cond ssa.Value) (bool, bool) {
			ex, ok := cond.(*ssa.Extract)
			if !ok || ex.Index != 1 {
				return false, false
			}
			lk, ok := ex.Tuple.(*ssa.Lookup)
			if !ok || !lk.CommaOk {
				return false, false
			}
			if f, _ := loadedField(lk.X); f == c.fReverts {
				return true, true
			}
			return false, false
		}
		r.Unreachable("R3:first-write-wins@"+FnName(fn), "R3 journal completeness",
			"a revert record that already exists is never overwritten (it holds the pre-transaction zone)", fn, nil,
			func(in ssa.Instruction) bool {
				mu, ok := in.(*ssa.MapUpdate)
				return ok && isMapWriteOf(mu, c.fReverts)
			}, assumeExists)
	}
	if c.jAssign != nil && c.fUpdates != nil {
		// updates[id] = zone is unconditional once the journal exists
		fn := c.jAssign
		okU := false
		AllInstrs(fn, func(in ssa.Instruction) {
			if mu, ok := in.(*ssa.MapUpdate); ok && isMapWriteOf(mu, c.fUpdates) {
				if paramIndex(mu.Value) == 1 && paramIndex(mu.Key) == 2 {
					okU = true
				}
			}
		})
		r.Check("R3:updates-recorded@"+FnName(fn), "R3 journal completeness", "journal.assign records updates[id] = zone with its own parameters",
			e.Pos(fn.Pos()), fn, okU, "", true)
		// and no revert-exists early return precedes it
		r.MustPass("R3:updates-unconditional@"+FnName(fn), "R3 journal completeness",
			"journal.assign records the update on every path on which the journal is active", fn, nil, nil,
			func(in ssa.Instruction) bool {
				mu, ok := in.(*ssa.MapUpdate)
				return ok && isMapWriteOf(mu, c.fUpdates)
			},
			func(cond ssa.Value) (bool, bool) { // j == nil is false
				b, ok := cond.(*ssa.BinOp)
				if ok && (b.Op == token.EQL || b.Op == token.NEQ) && (paramIndex(b.X) == 0 || paramIndex(b.Y) == 0) {
					return true, b.Op == token.NEQ
				}
				return false, false
			})
	}
}

// checkZonePrimitives (C06, shared with C07): the primitives keep the representations of "request id is in zone z" in
// agreement — Zone.users[id], Allocator.users[id], Request.zone and the journal record.
func checkZonePrimitives(e *Engine, r *Report, c *lmCtx) {
	callTo := func(fn *ssa.Function) func(ssa.Instruction) bool {
		return func(in ssa.Instruction) bool {
			ci, ok := in.(ssa.CallInstruction)
			if !ok || fn == nil {
				return false
			}
			for _, g := range e.Callees(ci) {
				if g == fn {
					return true
				}
			}
			return false
		}
	}
	storeOf := func(f *types.Var) func(ssa.Instruction) bool {
		return func(in ssa.Instruction) bool {
			st, ok := in.(*ssa.Store)
			return ok && fieldOfAddr(st.Addr) == f
		}
	}
	mapW := func(f *types.Var) func(ssa.Instruction) bool {
		return func(in ssa.Instruction) bool { return isMapWriteOf(in, f) }
	}
	r.AtomicGroup("R16:zone-assign-updates-all", "zoneAssign records the assignment in every representation", c.zoneAssign, []groupKind{
		{"Zone.users", mapW(c.fZoneUsers)}, {"Allocator.users", mapW(c.fUsers)}, {"Request.zone", storeOf(c.fReqZone)}, {"journal", callTo(c.jAssign)}})
	r.AtomicGroup("R16:zone-remove-updates-all", "zoneRemove erases the assignment from every representation", c.zoneRemove, []groupKind{
		{"Zone.users", mapW(c.fZoneUsers)}, {"Allocator.users", mapW(c.fUsers)}, {"Request.zone", storeOf(c.fReqZone)}, {"journal", callTo(c.jDelete)}})
	// values: assign records its own zone argument for its own request; remove clears
	isReqID := func(v ssa.Value, req ssa.Value) bool { // req.ID() of the given request
		call, ok := v.(*ssa.Call)
		if !ok || callObj(call.Common()) == nil || callObj(call.Common()).Name() != "ID" || len(callArgs(call)) != 1 {
			return false
		}
		return sameObject(callArgs(call)[0], req)
	}
	if fn := c.zoneAssign; fn != nil && len(fn.Params) == 3 {
		zoneP, reqP := ssa.Value(fn.Params[1]), ssa.Value(fn.Params[2])
		AllInstrs(fn, func(in ssa.Instruction) {
			switch x := in.(type) {
			case *ssa.Store:
				if fieldOfAddr(x.Addr) == c.fReqZone {
					ok := sameObject(x.Val, zoneP) && sameObject(x.Addr.(*ssa.FieldAddr).X, reqP)
					r.Check("R16:zone-assign-values#Request.zone", "R16 atomic update group", "zoneAssign(zone, req) sets req.zone = zone", e.InstrPos(in), fn, ok, "", true)
				}
			case *ssa.MapUpdate:
				if f, _ := loadedField(x.Map); f == c.fUsers {
					ok := sameObject(x.Value, zoneP) && isReqID(x.Key, reqP)
					r.Check("R16:zone-assign-values#Allocator.users", "R16 atomic update group", "zoneAssign(zone, req) sets users[req.ID()] = zone", e.InstrPos(in), fn, ok, "", true)
				} else if f == c.fZoneUsers {
					// the zone object is the one registered under the zone argument
					_, zbase := loadedField(x.Map)
					okZ := originAll(zbase, func(v ssa.Value) bool {
						switch y := v.(type) {
						case *ssa.Extract:
							if lk, ok := y.Tuple.(*ssa.Lookup); ok {
								f2, _ := loadedField(lk.X)
								return f2 == c.fZones && sameObject(lk.Index, zoneP)
							}
						case *ssa.Lookup:
							f2, _ := loadedField(y.X)
							return f2 == c.fZones && sameObject(y.Index, zoneP)
						case *ssa.Alloc:
							// a new Zone: it must be stored into zones[zone]
							stored := false
							AllInstrs(fn, func(in2 ssa.Instruction) {
								if mu, ok := in2.(*ssa.MapUpdate); ok && mu.Value == ssa.Value(y) {
									if f3, _ := loadedField(mu.Map); f3 == c.fZones && sameObject(mu.Key, zoneP) {
										stored = true
									}
								}
							})
							return stored
						}
						return false
					})
					ok := okZ && sameObject(x.Value, reqP) && isReqID(x.Key, reqP)
					r.Check("R16:zone-assign-values#Zone.users", "R16 atomic update group", "zoneAssign(zone, req) sets zones[zone].users[req.ID()] = req (creating and registering the zone if needed)", e.InstrPos(in), fn, ok, "", true)
				}
			}
		})
	}
	if fn := c.zoneRemove; fn != nil {
		AllInstrs(fn, func(in ssa.Instruction) {
			if st, ok := in.(*ssa.Store); ok && fieldOfAddr(st.Addr) == c.fReqZone {
				k, isK := st.Val.(*ssa.Const)
				z, _ := constIntVal(k)
				r.Check("R16:zone-remove-values#Request.zone", "R16 atomic update group", "zoneRemove clears the removed request's zone", e.InstrPos(in), fn, isK && z == 0, "", true)
			}
		})
	}
	// zoneMove: unless the request already is in the target zone, it is removed from its current zone and assigned to the target
	if fn := c.zoneMove; fn != nil && len(fn.Params) == 3 {
		zoneP, reqP := ssa.Value(fn.Params[1]), ssa.Value(fn.Params[2])
		same := func(val bool) Assumption { // `from == zone` evaluates to val
			return func(cond ssa.Value) (bool, bool) {
				b, ok := cond.(*ssa.BinOp)
				if !ok || (b.Op != token.EQL && b.Op != token.NEQ) {
					return false, false
				}
				if !(sameObject(b.X, zoneP) || sameObject(b.Y, zoneP)) {
					return false, false
				}
				return true, (b.Op == token.EQL) == val
			}
		}
		isRet := func(in ssa.Instruction) bool { _, ok := in.(*ssa.Return); return ok }
		isAssign := func(in ssa.Instruction) bool {
			ci, ok := in.(ssa.CallInstruction)
			if !ok {
				return false
			}
			for _, g := range e.Callees(ci) {
				if g == c.zoneAssign {
					a := callArgs(ci)
					return len(a) == 3 && sameObject(a[1], zoneP) && sameObject(a[2], reqP)
				}
			}
			return false
		}
		p := FindPath(PathQuery{Fn: fn, Assume: same(false), Target: isRet, Block: isAssign})
		r.Check("R16:zone-move-assigns-target", "R16 atomic update group", "zoneMove(zone, req) assigns req to zone on every path where it is not there already", e.Pos(fn.Pos()), fn, p == nil, e.pathString(p), true)
		p2 := FindPath(PathQuery{Fn: fn, Assume: same(true), Target: func(in ssa.Instruction) bool {
			ci, ok := in.(ssa.CallInstruction)
			if !ok {
				return false
			}
			for _, g := range e.Callees(ci) {
				if g == c.zoneRemove {
					return true
				}
			}
			return false
		}})
		r.Check("R16:zone-move-same-zone-keeps", "R16 atomic update group", "zoneMove to the zone the request is already in removes nothing", e.Pos(fn.Pos()), fn, p2 == nil, e.pathString(p2), true)
	}
}
