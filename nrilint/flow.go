package main

import (
	"go/constant"
	"go/token"
	"go/types"

	"golang.org/x/tools/go/ssa"
)

// ---------------------------------------------------------------------------
// positions inside a function: (block, index)

func instrIndex(in ssa.Instruction) int {
	for i, x := range in.Block().Instrs {
		if x == in {
			return i
		}
	}
	return -1
}

// Assumption decides the outcome of a conditional branch under a hypothesis:
// known=false leaves the branch non-deterministic.
type Assumption func(cond ssa.Value) (known, val bool)

// PathQuery describes a search for a CFG path inside one function.
type PathQuery struct {
	Fn     *ssa.Function
	From   ssa.Instruction                           // start after this instruction; nil = function entry
	Target func(ssa.Instruction) bool                // path ends successfully when reaching such an instruction
	Block  func(ssa.Instruction) bool                // paths may not pass such an instruction (checked before Target)
	Assume Assumption                                // optional: prune infeasible branches under a hypothesis
	Edge   func(from *ssa.BasicBlock, succ int) bool // optional: edge filter (false = do not follow)
}

// FindPath returns a witness path (sequence of positioned instructions) from
// From to an instruction satisfying Target that passes no Block instruction,
// or nil if there is none.
func FindPath(q PathQuery) []ssa.Instruction {
	type node struct {
		b   *ssa.BasicBlock
		idx int
	}
	if len(q.Fn.Blocks) == 0 {
		return nil
	}
	start := node{q.Fn.Blocks[0], 0}
	if q.From != nil {
		start = node{q.From.Block(), instrIndex(q.From) + 1}
	}
	type qe struct {
		n     node
		prev  int
		from  *ssa.BasicBlock // the predecessor this block was entered from (nil for the start)
		from2 *ssa.BasicBlock // … and the predecessor `from` was entered from
	}
	queue := []qe{{start, -1, nil, nil}}
	// blocks whose branch condition is a phi of the block itself (&&/|| lowering) are visited once per incoming edge: the
	// phi's value on a path is the value of the edge actually taken
	type vkey struct{ b, from, from2 *ssa.BasicBlock }
	phiCond := func(b *ssa.BasicBlock) *ssa.Phi {
		if ifi, ok := lastInstr(b).(*ssa.If); ok {
			if ph, ok := ifi.Cond.(*ssa.Phi); ok && ph.Block() == b {
				return ph
			}
		}
		return nil
	}
	visited := map[vkey]bool{}
	if start.idx == 0 {
		visited[vkey{start.b, nil, nil}] = true
	}
	var hit ssa.Instruction
	hitIdx := -1
	for qi := 0; qi < len(queue) && hit == nil; qi++ {
		n := queue[qi].n
		blocked := false
		for i := n.idx; i < len(n.b.Instrs); i++ {
			in := n.b.Instrs[i]
			if q.Block != nil && q.Block(in) {
				blocked = true
				break
			}
			if q.Target != nil && q.Target(in) {
				hit = in
				hitIdx = qi
				break
			}
		}
		if blocked || hit != nil {
			continue
		}
		succs := n.b.Succs
		if ifi, ok := lastInstr(n.b).(*ssa.If); ok && q.Assume != nil {
			var res predResolver
			if n.idx == 0 && queue[qi].from != nil {
				cur := queue[qi]
				res = func(b *ssa.BasicBlock) *ssa.BasicBlock {
					switch b {
					case n.b:
						return cur.from
					case cur.from:
						return cur.from2
					}
					return nil
				}
			}
			if known, val := evalCondOnPath(ifi.Cond, q.Assume, res, 0); known {
				if val {
					succs = n.b.Succs[:1]
				} else {
					succs = n.b.Succs[1:2]
				}
			}
		}
		for si, s := range n.b.Succs {
			follow := false
			for _, t := range succs {
				if t == s {
					follow = true
				}
			}
			// distinguish the two edges when both point to the same block
			if len(succs) == 1 && len(n.b.Succs) == 2 && n.b.Succs[0] == n.b.Succs[1] {
				follow = true
			}
			if !follow {
				continue
			}
			if q.Edge != nil && !q.Edge(n.b, si) {
				continue
			}
			k := vkey{s, nil, nil}
			var f2 *ssa.BasicBlock
			if phiCond(s) != nil {
				// keep the history the condition may depend on: the entering edge and the edge before it
				k.from = n.b
				if n.idx == 0 {
					f2 = queue[qi].from
				}
				k.from2 = f2
			}
			if !visited[k] {
				visited[k] = true
				queue = append(queue, qe{node{s, 0}, qi, n.b, f2})
			}
		}
	}
	if hit == nil {
		return nil
	}
	// reconstruct: list the first positioned instruction of each block on the way
	var rev []ssa.Instruction
	rev = append(rev, hit)
	for i := hitIdx; i >= 0; i = queue[i].prev {
		n := queue[i].n
		for j := n.idx; j < len(n.b.Instrs); j++ {
			if n.b.Instrs[j].Pos().IsValid() {
				if n.b.Instrs[j] != hit {
					rev = append(rev, n.b.Instrs[j])
				}
				break
			}
		}
	}
	for i, j := 0, len(rev)-1; i < j; i, j = i+1, j-1 {
		rev[i], rev[j] = rev[j], rev[i]
	}
	return rev
}

func lastInstr(b *ssa.BasicBlock) ssa.Instruction {
	if len(b.Instrs) == 0 {
		return nil
	}
	return b.Instrs[len(b.Instrs)-1]
}

// EvalCond evaluates a boolean SSA value under an assumption on atoms.
// It looks through `!x`, comparisons with boolean constants, and phis whose
// incoming values all evaluate to the same known result.
func EvalCond(v ssa.Value, a Assumption) (known, val bool) {
	return evalCond(v, a, 0)
}

// predResolver tells, for a block on the path being explored, which predecessor it was entered from (nil: unknown).
type predResolver func(b *ssa.BasicBlock) *ssa.BasicBlock

// evalCondOnPath is EvalCond for a condition met on a concrete path: phis of blocks whose entering edge is known take the
// value of that edge.
func evalCondOnPath(v ssa.Value, a Assumption, res predResolver, depth int) (bool, bool) {
	if depth > 8 {
		return false, false
	}
	if ph, ok := v.(*ssa.Phi); ok && res != nil {
		if p := res(ph.Block()); p != nil {
			for i, q := range ph.Block().Preds {
				if q == p {
					return evalCondOnPath(ph.Edges[i], a, res, depth+1)
				}
			}
		}
	}
	if u, ok := v.(*ssa.UnOp); ok && u.Op == token.NOT {
		k, val := evalCondOnPath(u.X, a, res, depth+1)
		return k, !val
	}
	return evalCond(v, a, depth)
}

func evalCond(v ssa.Value, a Assumption, depth int) (bool, bool) {
	if depth > 8 {
		return false, false
	}
	if c, ok := v.(*ssa.Const); ok {
		if c.Value != nil && c.Value.Kind() == constant.Bool {
			return true, constant.BoolVal(c.Value)
		}
		return false, false
	}
	if k, val := a(v); k {
		return true, val
	}
	switch x := v.(type) {
	case *ssa.UnOp:
		if x.Op == token.NOT {
			k, val := evalCond(x.X, a, depth+1)
			return k, !val
		}
	case *ssa.BinOp:
		if x.Op == token.EQL || x.Op == token.NEQ {
			for _, pair := range [][2]ssa.Value{{x.X, x.Y}, {x.Y, x.X}} {
				if c, ok := pair[1].(*ssa.Const); ok && c.Value != nil && c.Value.Kind() == constant.Bool {
					k, val := evalCond(pair[0], a, depth+1)
					if !k {
						return false, false
					}
					r := val == constant.BoolVal(c.Value)
					if x.Op == token.NEQ {
						r = !r
					}
					return true, r
				}
			}
		}
	case *ssa.Call:
		// a small predicate helper of the repository (`func (p *T) pinsX(opt *bool) bool { … }`): its result is known when
		// every return that is feasible under the assumption evaluates to the same value. The assumption is shape-based
		// (field loads, parameters every caller fills from a given field), so it applies inside the callee as it does here.
		if f := x.Common().StaticCallee(); f != nil && depth < 4 && f.Pkg != nil && isRepoPath(f.Pkg.Pkg.Path()) && len(f.Blocks) > 0 && len(f.Blocks) <= 16 &&
			f.Signature.Results().Len() == 1 && isBoolType(f.Signature.Results().At(0).Type()) {
			first, res := true, false
			for _, ret := range Returns(f) {
				if !blockFeasible(ret.Block(), a, depth+1) || !reachableBlock(f, ret.Block(), a) {
					continue
				}
				k, val := evalCond(ret.Results[0], a, depth+2)
				if !k {
					return false, false
				}
				if first {
					res, first = val, false
				} else if res != val {
					return false, false
				}
			}
			if !first {
				return true, res
			}
		}
	case *ssa.Phi:
		// a phi produced by && / || lowering: evaluate each incoming value,
		// pruning edges whose controlling branch contradicts the assumption.
		first := true
		res := false
		for i, ed := range x.Edges {
			pred := x.Block().Preds[i]
			if !edgeFeasible(pred, x.Block(), a, depth) || !blockFeasible(pred, a, depth) {
				continue
			}
			k, val := evalCond(ed, a, depth+1)
			if !k {
				return false, false
			}
			if first {
				res, first = val, false
			} else if res != val {
				return false, false
			}
		}
		if first {
			return false, false
		}
		return true, res
	}
	return false, false
}

// edgeFeasible: can control flow from pred to succ under the assumption?
func edgeFeasible(pred, succ *ssa.BasicBlock, a Assumption, depth int) bool {
	ifi, ok := lastInstr(pred).(*ssa.If)
	if !ok {
		return true
	}
	k, val := evalCond(ifi.Cond, a, depth+1)
	if !k {
		return true
	}
	if pred.Succs[0] == succ && pred.Succs[1] == succ {
		return true
	}
	if val {
		return pred.Succs[0] == succ
	}
	return pred.Succs[1] == succ
}

// ---------------------------------------------------------------------------
// return classification

type retClass int

const (
	retUnknown   retClass = iota
	retNilErr             // the error result is provably nil
	retNonNilErr          // the error result is provably non-nil
)

func isErrorType(t types.Type) bool {
	return types.Identical(t, types.Universe.Lookup("error").Type())
}

// errResultIndex returns the index of the last result if it is of type
// error, else -1.
func errResultIndex(fn *ssa.Function) int {
	res := fn.Signature.Results()
	if res.Len() == 0 {
		return -1
	}
	if isErrorType(res.At(res.Len() - 1).Type()) {
		return res.Len() - 1
	}
	return -1
}

// Returns lists the Return instructions of fn.
func Returns(fn *ssa.Function) []*ssa.Return {
	var out []*ssa.Return
	for _, b := range fn.Blocks {
		if b == fn.Recover {
			continue // reached only after a recovered panic
		}
		if r, ok := lastInstr(b).(*ssa.Return); ok {
			out = append(out, r)
		}
	}
	return out
}

// nilness of a value at an instruction: looks through constants, calls of
// well-known constructors, and dominating `v != nil` / `v == nil` tests.
func (e *Engine) nilnessAt(v ssa.Value, at ssa.Instruction) retClass {
	switch x := v.(type) {
	case *ssa.Const:
		if x.IsNil() {
			return retNilErr
		}
		return retUnknown
	case *ssa.MakeInterface:
		return retNonNilErr
	case *ssa.Call:
		if f := x.Common().StaticCallee(); f != nil {
			full := f.String()
			switch full {
			case "fmt.Errorf", "errors.New":
				return retNonNilErr
			}
			// repository error constructors: functions named *Error/*Errorf that
			// wrap fmt.Errorf and return it unconditionally
			if f.Blocks != nil && len(f.Blocks) == 1 && errResultIndex(f) == 0 && f.Signature.Results().Len() == 1 {
				if r, ok := lastInstr(f.Blocks[0]).(*ssa.Return); ok {
					if e.nilnessAt(r.Results[0], r) == retNonNilErr {
						return retNonNilErr
					}
				}
			}
		}
	case *ssa.Phi:
		cls := retClass(-1)
		for _, ed := range x.Edges {
			c := e.nilnessAt(ed, at)
			if cls == -1 {
				cls = c
			} else if cls != c {
				return retUnknown
			}
		}
		if cls >= 0 {
			return cls
		}
	case *ssa.UnOp:
		// a sentinel error: a package-level variable of the repository that is written only by its package initialiser,
		// with an error constructor (`var ErrX = errors.New(…)` / fmt.Errorf(…))
		if g, ok := x.X.(*ssa.Global); ok && x.Op == token.MUL && e.sentinelError(g) {
			return retNonNilErr
		}
	case *ssa.Extract, *ssa.Parameter, *ssa.TypeAssert:
	}
	// dominating nil tests on the same SSA value
	b := at.Block()
	for d := b; d != nil; d = d.Idom() {
		id := d.Idom()
		if id == nil {
			break
		}
		ifi, ok := lastInstr(id).(*ssa.If)
		if !ok {
			continue
		}
		bin, ok := ifi.Cond.(*ssa.BinOp)
		if !ok || (bin.Op != token.EQL && bin.Op != token.NEQ) {
			continue
		}
		var other ssa.Value
		if bin.X == v {
			other = bin.Y
		} else if bin.Y == v {
			other = bin.X
		} else {
			continue
		}
		c, ok := other.(*ssa.Const)
		if !ok || !c.IsNil() {
			continue
		}
		// which branch is d on?
		onTrue := id.Succs[0] == d && len(d.Preds) == 1
		onFalse := id.Succs[1] == d && len(d.Preds) == 1
		if !onTrue && !onFalse {
			continue
		}
		isNeq := bin.Op == token.NEQ
		if (onTrue && isNeq) || (onFalse && !isNeq) {
			return retNonNilErr
		}
		return retNilErr
	}
	return retUnknown
}

// ClassifyReturn classifies a return by its error result.
func (e *Engine) ClassifyReturn(r *ssa.Return) retClass {
	fn := r.Parent()
	i := errResultIndex(fn)
	if i < 0 || i >= len(r.Results) {
		return retUnknown
	}
	v := r.Results[i]
	// named results spilled to a cell (functions with defer+recover or
	// closures capturing the result): classify the stores that reach the load.
	if u, ok := v.(*ssa.UnOp); ok && u.Op == token.MUL {
		if a, ok := u.X.(*ssa.Alloc); ok {
			sts := reachingStores(a, u)
			if len(sts) == 0 {
				return retNilErr // zero value of the result
			}
			cls := retClass(-1)
			for _, st := range sts {
				val := st.Val
				c := retUnknown
				// `return x, y, err` re-stores the cell's own value: look one level further
				if u2, ok := val.(*ssa.UnOp); ok && u2.Op == token.MUL && u2.X == a {
					inner := reachingStores(a, u2)
					c = retClass(-1)
					for _, st2 := range inner {
						c2 := e.nilnessAt(st2.Val, st2)
						if c == -1 {
							c = c2
						} else if c != c2 {
							c = retUnknown
						}
					}
					if c == -1 {
						c = retNilErr
					}
				} else {
					c = e.nilnessAt(val, st)
				}
				if cls == -1 {
					cls = c
				} else if cls != c {
					return retUnknown
				}
			}
			return cls
		}
	}
	return e.nilnessAt(v, r)
}

func reachingStoreInBlock(a *ssa.Alloc, load ssa.Instruction) *ssa.Store {
	b := load.Block()
	idx := instrIndex(load)
	for i := idx - 1; i >= 0; i-- {
		if st, ok := b.Instrs[i].(*ssa.Store); ok && st.Addr == a {
			return st
		}
		if _, ok := b.Instrs[i].(ssa.CallInstruction); ok {
			// a call may run a closure that writes the cell
			if allocEscapesToClosure(a) {
				return nil
			}
		}
	}
	return nil
}

func lastStoreInBlock(a *ssa.Alloc, b *ssa.BasicBlock) *ssa.Store {
	for i := len(b.Instrs) - 1; i >= 0; i-- {
		if st, ok := b.Instrs[i].(*ssa.Store); ok && st.Addr == a {
			return st
		}
	}
	return nil
}

func allocEscapesToClosure(a *ssa.Alloc) bool {
	for _, r := range *a.Referrers() {
		if _, ok := r.(*ssa.MakeClosure); ok {
			return true
		}
	}
	return false
}

// ---------------------------------------------------------------------------
// value tracing

// Origins walks backwards from v through value-preserving instructions
// (phi, conversions, interface boxing, extract of a tuple, loads of local
// cells with their stores) and calls visit on every source reached. visit
// returns true to stop descending below that value.
func Origins(v ssa.Value, visit func(ssa.Value) bool) {
	seen := map[ssa.Value]bool{}
	var walk func(ssa.Value, int)
	walk = func(v ssa.Value, d int) {
		if v == nil || seen[v] || d > 40 {
			return
		}
		seen[v] = true
		if visit(v) {
			return
		}
		switch x := v.(type) {
		case *ssa.Phi:
			for _, ed := range x.Edges {
				walk(ed, d+1)
			}
		case *ssa.ChangeType:
			walk(x.X, d+1)
		case *ssa.Convert:
			walk(x.X, d+1)
		case *ssa.ChangeInterface:
			walk(x.X, d+1)
		case *ssa.MakeInterface:
			walk(x.X, d+1)
		case *ssa.TypeAssert:
			walk(x.X, d+1)
		case *ssa.UnOp:
			if x.Op == token.MUL {
				if a, ok := x.X.(*ssa.Alloc); ok {
					for _, st := range reachingStores(a, x) {
						walk(st.Val, d+1)
					}
				}
				if fv, ok := x.X.(*ssa.FreeVar); ok {
					// captured cell: find the binding in the parent's MakeClosure
					fn := fv.Parent()
					idx := -1
					for i, f := range fn.FreeVars {
						if f == fv {
							idx = i
						}
					}
					if p := fn.Parent(); p != nil && idx >= 0 {
						AllInstrs(p, func(in ssa.Instruction) {
							if mc, ok := in.(*ssa.MakeClosure); ok && mc.Fn == fn {
								if a, ok := mc.Bindings[idx].(*ssa.Alloc); ok {
									for _, r := range *a.Referrers() {
										if st, ok := r.(*ssa.Store); ok && st.Addr == a {
											walk(st.Val, d+1)
										}
									}
								}
							}
						})
					}
				}
			}
		}
	}
	walk(v, 0)
}

// calleeOf returns the static callee / interface method object of a call value.
func callObj(c *ssa.CallCommon) *types.Func {
	if c.IsInvoke() {
		return c.Method
	}
	if f := c.StaticCallee(); f != nil {
		if o, ok := f.Object().(*types.Func); ok {
			return o
		}
		if f.Origin() != nil {
			if o, ok := f.Origin().Object().(*types.Func); ok {
				return o
			}
		}
	}
	return nil
}

// isCallToObj: is v a call of the given function/method object?
func isCallToObj(v ssa.Value, objs ...*types.Func) (*ssa.Call, bool) {
	c, ok := v.(*ssa.Call)
	if !ok {
		return nil, false
	}
	o := callObj(c.Common())
	if o == nil {
		return nil, false
	}
	for _, t := range objs {
		if t != nil && o == t {
			return c, true
		}
	}
	return nil, false
}

// fieldOfAddr: if v is &x.f (FieldAddr) return the field object.
func fieldOfAddr(v ssa.Value) *types.Var {
	fa, ok := v.(*ssa.FieldAddr)
	if !ok {
		return nil
	}
	t := fa.X.Type()
	if p, ok := t.Underlying().(*types.Pointer); ok {
		t = p.Elem()
	}
	st, ok := t.Underlying().(*types.Struct)
	if !ok {
		return nil
	}
	return st.Field(fa.Field)
}

// loadedField: if v is a load `*(&x.f)` or a Field extraction, return the field.
func loadedField(v ssa.Value) (*types.Var, ssa.Value) {
	switch x := v.(type) {
	case *ssa.UnOp:
		if x.Op == token.MUL {
			if f := fieldOfAddr(x.X); f != nil {
				return f, x.X.(*ssa.FieldAddr).X
			}
		}
	case *ssa.Field:
		st, ok := x.X.Type().Underlying().(*types.Struct)
		if ok {
			return st.Field(x.Field), x.X
		}
	}
	return nil, nil
}

// StoresToField lists, over the given functions, every instruction that
// writes the field: direct stores through &x.f, map updates / deletes on a
// map-typed field loaded from x.f, and address-taking uses (&x.f passed to a
// call) which are reported separately.
type fieldWrite struct {
	Fn    *ssa.Function
	Instr ssa.Instruction
	Kind  string // "store", "mapupdate", "mapdelete", "addr-escape"
	Val   ssa.Value
}

func (e *Engine) FieldWrites(field *types.Var, fns []*ssa.Function) []fieldWrite {
	var out []fieldWrite
	for _, fn := range fns {
		AllInstrs(fn, func(in ssa.Instruction) {
			switch x := in.(type) {
			case *ssa.Store:
				if fieldOfAddr(x.Addr) == field {
					out = append(out, fieldWrite{fn, in, "store", x.Val})
				}
			case *ssa.MapUpdate:
				if f, _ := loadedField(x.Map); f == field {
					out = append(out, fieldWrite{fn, in, "mapupdate", x.Value})
				}
			case ssa.CallInstruction:
				cc := x.Common()
				if b, ok := cc.Value.(*ssa.Builtin); ok && b.Name() == "delete" && len(cc.Args) == 2 {
					if f, _ := loadedField(cc.Args[0]); f == field {
						out = append(out, fieldWrite{fn, in, "mapdelete", nil})
					}
				}
				for ai, a := range cc.Args {
					if fieldOfAddr(a) == field && e.mayWriteThroughArg(x, ai) {
						out = append(out, fieldWrite{fn, in, "addr-escape", a})
					}
				}
			}
		})
	}
	return out
}

// dominatesInstr: does instruction a dominate instruction b (same function)?
func dominatesInstr(a, b ssa.Instruction) bool {
	if a.Block() == b.Block() {
		return instrIndex(a) < instrIndex(b)
	}
	return a.Block().Dominates(b.Block())
}

// retValue resolves result #i of a return, looking through the spill of
// named results into a cell (store; rundefers; load; return).
func retValue(r *ssa.Return, i int) ssa.Value {
	if i < 0 || i >= len(r.Results) {
		return nil
	}
	v := r.Results[i]
	for d := 0; d < 4; d++ {
		u, ok := v.(*ssa.UnOp)
		if !ok || u.Op != token.MUL {
			break
		}
		a, ok := u.X.(*ssa.Alloc)
		if !ok {
			break
		}
		sts := reachingStores(a, u)
		if len(sts) != 1 {
			break // Origins() expands the alternatives
		}
		v = sts[0].Val
	}
	return v
}

type condFact struct {
	Cond ssa.Value
	Val  bool
}

// dominatingConds lists the branch conditions known to hold when control is
// at the start of block b: for every dominator d ending in `if c`, if b is
// dominated by d's true (false) successor and that successor is entered only
// from d, then c is true (false).
func dominatingConds(b *ssa.BasicBlock) []condFact {
	var out []condFact
	for x := b; x != nil; x = x.Idom() {
		d := x.Idom()
		if d == nil {
			break
		}
		ifi, ok := lastInstr(d).(*ssa.If)
		if !ok {
			continue
		}
		if len(x.Preds) != 1 || x.Preds[0] != d {
			continue
		}
		if d.Succs[0] == x && d.Succs[1] != x {
			out = append(out, flattenCond(ifi.Cond, true)...)
		} else if d.Succs[1] == x && d.Succs[0] != x {
			out = append(out, flattenCond(ifi.Cond, false)...)
		}
	}
	return out
}

// flattenCond strips negations.
func flattenCond(c ssa.Value, val bool) []condFact {
	for {
		u, ok := c.(*ssa.UnOp)
		if !ok || u.Op != token.NOT {
			break
		}
		c, val = u.X, !val
	}
	return []condFact{{c, val}}
}

// reachableBlock: is block b reachable from entry under the assumption?
func reachableBlock(fn *ssa.Function, b *ssa.BasicBlock, a Assumption) bool {
	if len(b.Instrs) == 0 {
		return true
	}
	first := b.Instrs[0]
	if b == fn.Blocks[0] {
		return true
	}
	return FindPath(PathQuery{Fn: fn, Assume: a, Target: func(in ssa.Instruction) bool { return in == first }}) != nil
}

// OriginsUnder is Origins restricted to phi edges whose predecessor block is
// reachable under the assumption and whose edge into the phi's block is
// feasible.
func OriginsUnder(fn *ssa.Function, v ssa.Value, a Assumption, visit func(ssa.Value) bool) {
	seen := map[ssa.Value]bool{}
	var walk func(ssa.Value, int)
	walk = func(v ssa.Value, d int) {
		if v == nil || seen[v] || d > 40 {
			return
		}
		seen[v] = true
		if visit(v) {
			return
		}
		switch x := v.(type) {
		case *ssa.Phi:
			for i, ed := range x.Edges {
				pred := x.Block().Preds[i]
				if !edgeFeasible(pred, x.Block(), a, 0) || !reachableBlock(fn, pred, a) {
					continue
				}
				walk(ed, d+1)
			}
		case *ssa.ChangeType:
			walk(x.X, d+1)
		case *ssa.Convert:
			walk(x.X, d+1)
		case *ssa.MakeInterface:
			walk(x.X, d+1)
		}
	}
	walk(v, 0)
}

// reachingStores returns the stores to local cell a that may reach the
// instruction `at` (flow-sensitive reaching definitions for one cell). If a
// closure may write the cell, every store is returned (flow-insensitive).
func reachingStores(a *ssa.Alloc, at ssa.Instruction) []*ssa.Store {
	var all []*ssa.Store
	for _, r := range *a.Referrers() {
		if st, ok := r.(*ssa.Store); ok && st.Addr == a {
			all = append(all, st)
		}
	}
	if cellWrittenInClosures(a) || at == nil || at.Block() == nil {
		return all
	}
	isStore := map[ssa.Instruction]*ssa.Store{}
	for _, st := range all {
		isStore[st] = st
	}
	var out []*ssa.Store
	seenOut := map[*ssa.Store]bool{}
	visited := map[*ssa.BasicBlock]bool{}
	type pos struct {
		b   *ssa.BasicBlock
		idx int // scan instructions idx-1 … 0
	}
	work := []pos{{at.Block(), instrIndex(at)}}
	for len(work) > 0 {
		p := work[len(work)-1]
		work = work[:len(work)-1]
		found := false
		for i := p.idx - 1; i >= 0; i-- {
			if st, ok := isStore[p.b.Instrs[i]]; ok {
				if !seenOut[st] {
					seenOut[st] = true
					out = append(out, st)
				}
				found = true
				break
			}
		}
		if found {
			continue
		}
		for _, pr := range p.b.Preds {
			if !visited[pr] {
				visited[pr] = true
				work = append(work, pos{pr, len(pr.Instrs)})
			}
		}
	}
	return out
}

// blockFeasible: can control reach block b under the assumption? Decided
// only along single-predecessor chains (cheap, sound: "true" when unsure).
func blockFeasible(b *ssa.BasicBlock, a Assumption, depth int) bool {
	for i := 0; i < 6 && len(b.Preds) == 1; i++ {
		if !edgeFeasible(b.Preds[0], b, a, depth) {
			return false
		}
		b = b.Preds[0]
	}
	return true
}

// mayWriteThroughArg: may the callee(s) of the call store through the pointer
// passed as argument #ai (directly or into a field reached from it)? Unknown
// callees are assumed to write.
func (e *Engine) mayWriteThroughArg(c ssa.CallInstruction, ai int) bool {
	callees := e.Callees(c)
	if len(callees) == 0 {
		return true
	}
	idx := ai
	if c.Common().IsInvoke() {
		idx = ai + 1
	}
	for _, g := range callees {
		if g.Blocks == nil {
			return true
		}
		if idx >= len(g.Params) {
			return true
		}
		writes := false
		AllInstrs(g, func(in ssa.Instruction) {
			st, ok := in.(*ssa.Store)
			if !ok {
				return
			}
			if paramIndex(st.Addr) == idx {
				writes = true
			}
			if fa, ok := st.Addr.(*ssa.FieldAddr); ok && paramIndex(fa.X) == idx {
				writes = true
			}
		})
		// passing the pointer on to another function: be conservative one level down
		AllInstrs(g, func(in ssa.Instruction) {
			if ci, ok := in.(ssa.CallInstruction); ok {
				for aj, a := range ci.Common().Args {
					if paramIndex(a) == idx {
						for _, h := range e.Callees(ci) {
							if h.Blocks == nil || !isRepoFn(h) {
								continue
							}
							hi := aj
							if hi < len(h.Params) {
								AllInstrs(h, func(x ssa.Instruction) {
									if st, ok := x.(*ssa.Store); ok {
										if paramIndex(st.Addr) == hi {
											writes = true
										}
										if fa, ok := st.Addr.(*ssa.FieldAddr); ok && paramIndex(fa.X) == hi {
											writes = true
										}
									}
								})
							}
						}
					}
				}
			}
		})
		if writes {
			return true
		}
	}
	return false
}

func isBoolType(t types.Type) bool {
	b, ok := t.Underlying().(*types.Basic)
	return ok && b.Kind() == types.Bool
}

// blockReaches: b is reachable from a along CFG edges (a reaches itself only through a cycle).
func blockReaches(a, b *ssa.BasicBlock) bool {
	seen := map[*ssa.BasicBlock]bool{}
	work := append([]*ssa.BasicBlock{}, a.Succs...)
	for len(work) > 0 {
		x := work[len(work)-1]
		work = work[:len(work)-1]
		if x == b {
			return true
		}
		if seen[x] {
			continue
		}
		seen[x] = true
		work = append(work, x.Succs...)
	}
	return false
}

// ---- sign abstraction for integers ------------------------------------------------------------------------------
//
// signOf over-approximates the sign of an integer value: constants exactly, values the caller knows (`base`), phis as
// the union over the edges that are feasible under the assumption, sums/products of known signs; anything else is
// "any sign". cmpZero decides `x op 0` when the sign set allows.
type signSet uint8

const (
	sgNeg signSet = 1 << iota
	sgZero
	sgPos
	sgAny = sgNeg | sgZero | sgPos
)

func signOf(fn *ssa.Function, v ssa.Value, base func(ssa.Value) (signSet, bool), a Assumption, depth int) signSet {
	if depth > 12 {
		return sgAny
	}
	if s, ok := base(v); ok {
		return s
	}
	switch x := v.(type) {
	case *ssa.Const:
		if k, ok := constIntVal(x); ok {
			switch {
			case k < 0:
				return sgNeg
			case k == 0:
				return sgZero
			}
			return sgPos
		}
	case *ssa.Convert:
		return signOf(fn, x.X, base, a, depth+1)
	case *ssa.ChangeType:
		return signOf(fn, x.X, base, a, depth+1)
	case *ssa.Phi:
		var s signSet
		for i, ed := range x.Edges {
			pred := x.Block().Preds[i]
			if a != nil && (!edgeFeasible(pred, x.Block(), a, depth+1) || !reachableBlock(fn, pred, a)) {
				continue
			}
			s |= signOf(fn, ed, base, a, depth+1)
		}
		if s == 0 {
			return sgAny
		}
		return s
	case *ssa.UnOp:
		if al, ok := x.X.(*ssa.Alloc); ok && x.Op == token.MUL {
			var s signSet
			for _, st := range reachingStores(al, x) {
				if a != nil && !reachableBlock(fn, st.Block(), a) {
					continue
				}
				s |= signOf(fn, st.Val, base, a, depth+1)
			}
			if s != 0 {
				return s
			}
		}
	case *ssa.BinOp:
		l, r := signOf(fn, x.X, base, a, depth+1), signOf(fn, x.Y, base, a, depth+1)
		nonneg := func(s signSet) bool { return s&sgNeg == 0 }
		switch x.Op {
		case token.ADD:
			if nonneg(l) && nonneg(r) {
				if l == sgZero && r == sgZero {
					return sgZero
				}
				if l == sgPos || r == sgPos {
					return sgPos
				}
				return sgZero | sgPos
			}
		case token.MUL:
			if l == sgZero || r == sgZero {
				return sgZero
			}
			if nonneg(l) && nonneg(r) {
				if l == sgPos && r == sgPos {
					return sgPos
				}
				return sgZero | sgPos
			}
		}
	}
	return sgAny
}

func cmpZero(s signSet, op token.Token) (known, val bool) {
	holds := func(sg signSet) bool { // does `x op 0` hold for a value of exactly this sign?
		switch op {
		case token.GTR:
			return sg == sgPos
		case token.GEQ:
			return sg != sgNeg
		case token.LSS:
			return sg == sgNeg
		case token.LEQ:
			return sg != sgPos
		case token.EQL:
			return sg == sgZero
		case token.NEQ:
			return sg != sgZero
		}
		return false
	}
	switch op {
	case token.GTR, token.GEQ, token.LSS, token.LEQ, token.EQL, token.NEQ:
	default:
		return false, false
	}
	anyT, anyF := false, false
	for _, sg := range []signSet{sgNeg, sgZero, sgPos} {
		if s&sg == 0 {
			continue
		}
		if holds(sg) {
			anyT = true
		} else {
			anyF = true
		}
	}
	if anyT && !anyF {
		return true, true
	}
	if anyF && !anyT {
		return true, false
	}
	return false, false
}

// sentinelError: g is a package-level error variable stored exactly once, in its package's init, from an error
// constructor call.
func (e *Engine) sentinelError(g *ssa.Global) bool {
	if e.sentinels == nil {
		e.sentinels = map[*ssa.Global]int{}
	}
	if v, ok := e.sentinels[g]; ok {
		return v == 2
	}
	e.sentinels[g] = 1
	if g.Pkg == nil || !isRepoPath(g.Pkg.Pkg.Path()) {
		return false
	}
	pt, ok := g.Type().(*types.Pointer)
	if !ok || !isErrorType(pt.Elem()) {
		return false
	}
	n, okAll := 0, true
	for _, fn := range e.RepoFuncs {
		AllInstrs(fn, func(in ssa.Instruction) {
			st, ok := in.(*ssa.Store)
			if !ok || st.Addr != ssa.Value(g) {
				return
			}
			n++
			if fn.Name() != "init" || fn.Pkg != g.Pkg {
				okAll = false
				return
			}
			v := st.Val
			if mi, ok := v.(*ssa.MakeInterface); ok {
				v = mi.X
			}
			call, ok := v.(*ssa.Call)
			if !ok {
				okAll = false
				return
			}
			if f := call.Common().StaticCallee(); f == nil || !(f.String() == "errors.New" || f.String() == "fmt.Errorf") {
				okAll = false
			}
		})
	}
	// the package initialiser may not be among RepoFuncs (synthetic): look at it directly
	if n == 0 {
		if initFn := g.Pkg.Func("init"); initFn != nil {
			AllInstrs(initFn, func(in ssa.Instruction) {
				st, ok := in.(*ssa.Store)
				if !ok || st.Addr != ssa.Value(g) {
					return
				}
				n++
				v := st.Val
				if mi, ok := v.(*ssa.MakeInterface); ok {
					v = mi.X
				}
				call, ok := v.(*ssa.Call)
				if !ok {
					okAll = false
					return
				}
				if f := call.Common().StaticCallee(); f == nil || !(f.String() == "errors.New" || f.String() == "fmt.Errorf") {
					okAll = false
				}
			})
		}
	}
	if n == 1 && okAll {
		e.sentinels[g] = 2
		return true
	}
	return false
}
