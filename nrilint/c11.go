package main

import (
	"fmt"
	"go/token"
	"go/types"
	"sort"
	"strings"

	"golang.org/x/tools/go/ssa"
)

// C11 — restart + Synchronize converges to the runtime's truth.
func init() { register("C11", "restart + Synchronize converges", checkC11) }

func checkC11(e *Engine, r *Report) {
	r.Rules = []string{
		"R1 allocations are rebuilt, not trusted: NewResourceManager loads the cache before it creates the policy, and setupPolicy clears the persisted policy data (ResetActivePolicy) before NewPolicy",
		"R6 state classification is total: syncWithNRI names every ContainerState constant of the cache package in a case or the constant is in the reviewed ignore table; created/running containers go on the allocate list (and the release list, forcing re-allocation), exited ones on the release list",
		"data-flow refresh semantics: RefreshPods/RefreshContainers insert unknown ids, purge ids the runtime no longer lists (marking purged containers Stale and returning them), and for ids present on both sides copy the runtime-reported state into the cached entry",
		"R1 Synchronize feeds policy.Sync(allocated, released + unmapped) and returns the drained updates (shared with C05/C09)",
		"round 4: DeleteContainer/DeletePod remove the entry of a known id from their table",
	}
	r.NotDecided = []string{"convergence of the resulting allocations to a state satisfying C01-C04 (value parts)", "containers the runtime reports as paused are neither created nor running and are ignored"}
	r.Assumptions = []string{"the runtime's Synchronize lists every pod and container it knows"}

	// the policies' Sync releases every container it is given to release and allocates every one it is given to allocate,
	// in that order: the R1:sync-* obligations of the C09 check, adopted here (convergence after a restart rests on them)
	{
		sub := NewReport(e, "C09")
		checkC09(e, sub)
		n := 0
		for _, o := range sub.Obls {
			if strings.HasPrefix(o.Key, "R1:sync-") || strings.HasPrefix(o.Key, "R1:rm-sync-") {
				n++
				cp := *o
				r.add(&cp)
			}
		}
		r.MinInstances("policy Sync obligations (shared with C09)", n, 6)
	}
	// what the policies re-assert during Synchronize reaches the runtime only because every cpuset/resource setter queues
	// an update for an existing container, whatever the cached value was: the update-side dual-write obligations of the
	// C05 check, adopted here (a setter that skips "unchanged" values leaves a runtime that drifted while the plugin was
	// down out of step for good)
	{
		sub := NewReport(e, "C05")
		checkC05(e, sub)
		n := 0
		for _, o := range sub.Obls {
			if strings.HasPrefix(o.Key, "R1:dual-write[") && (strings.HasSuffix(o.Key, "-update") || strings.HasSuffix(o.Key, "#field-agreement")) {
				n++
				cp := *o
				r.add(&cp)
			}
		}
		r.MinInstances("setter update-side obligations (shared with C05)", n, 10)
	}
	// ---- rule 1 -------------------------------------------------------------------
	if nrm := r.Anchor(pkgRM, "NewResourceManager"); nrm != nil {
		sc, sp := e.Fn(pkgRM, "resmgr.setupCache"), e.Fn(pkgRM, "resmgr.setupPolicy")
		p := FindPath(PathQuery{Fn: nrm, Block: func(in ssa.Instruction) bool { return e.IsCallTo(in, fset(sc)) }, Target: func(in ssa.Instruction) bool { return e.IsCallTo(in, fset(sp)) }})
		r.Check("R1:cache-before-policy", "R1 rebuilt-not-trusted", "the cache is set up (loaded) before the policy is created", e.Pos(nrm.Pos()), nrm, p == nil && len(e.callsTo(nrm, sp)) == 1, e.pathString(p), true)
	}
	if sp := r.Anchor(pkgRM, "resmgr.setupPolicy"); sp != nil {
		reset := e.objs(pkgCA, "Cache.ResetActivePolicy")
		newPolicy := e.Fn(pkgPolicy, "NewPolicy")
		p := FindPath(PathQuery{Fn: sp, Block: func(in ssa.Instruction) bool { return isCallOfObj(in, reset) }, Target: func(in ssa.Instruction) bool { return e.IsCallTo(in, fset(newPolicy)) }})
		r.Check("R1:reset-before-newpolicy", "R1 rebuilt-not-trusted", "persisted policy data is cleared (ResetActivePolicy) before the policy is instantiated", e.Pos(sp.Pos()), sp,
			p == nil && len(e.callsTo(sp, newPolicy)) == 1, e.pathString(p), true)
	}
	if rap := r.Anchor(pkgCA, "cache.ResetActivePolicy"); rap != nil {
		for _, fname := range []string{"policyData", "PolicyJSON"} {
			f := e.Field(pkgCA, "cache", fname)
			r.MustPass("R1:reset-clears-"+fname, "R1 rebuilt-not-trusted", "ResetActivePolicy replaces cache."+fname+" with an empty map on every path", rap, nil, nil,
				func(in ssa.Instruction) bool {
					st, ok := in.(*ssa.Store)
					if !ok || fieldOfAddr(st.Addr) != f {
						return false
					}
					_, isMake := st.Val.(*ssa.MakeMap)
					return isMake
				}, nil)
		}
	}

	// ---- rule 2 -------------------------------------------------------------------
	sw := r.Anchor(pkgRM, "nriPlugin.syncWithNRI")
	if sw != nil {
		getState := e.objs(pkgCA, "Container.GetState")
		// constants compared with c.GetState()
		named := map[string]bool{}
		AllInstrs(sw, func(in ssa.Instruction) {
			b, ok := in.(*ssa.BinOp)
			if !ok || b.Op != token.EQL {
				return
			}
			call, ok := b.X.(*ssa.Call)
			if !ok || !isCallOfObj(call, getState) {
				return
			}
			if k, ok := b.Y.(*ssa.Const); ok && k.Value != nil {
				named[k.Value.ExactString()] = true
			}
		})
		ignored := map[string]string{
			"ContainerStateCreating": "transient state inside CreateContainer; after a restart the runtime's state replaces it (RefreshContainers)",
			"ContainerStateUnknown":  "the runtime does not know the state; nothing to allocate or release",
			"ContainerStateStale":    "already purged from the cache by the refresh step and put on the release list there",
		}
		sc := e.TypesPkg(pkgCA).Scope()
		stateT := e.TypesPkg(pkgCA).Scope().Lookup("ContainerState").Type()
		n := 0
		names := sc.Names()
		sort.Strings(names)
		for _, name := range names {
			k, ok := sc.Lookup(name).(*types.Const)
			if !ok || !types.Identical(k.Type(), stateT) || !strings.HasPrefix(name, "ContainerState") {
				continue
			}
			n++
			why, ign := ignored[name]
			ok2 := named[k.Val().ExactString()] || ign
			r.Check("R6:state-classified#"+name, "R6 state classification", "syncWithNRI handles "+name+" in a case, or it is deliberately ignored", e.Pos(sw.Pos()), sw, ok2, why, false)
		}
		r.MinInstances("ContainerState constants", n, 3)
		// created/running -> both lists; exited -> release list (see C09 for the list contents)
		created, _ := sc.Lookup("ContainerStateCreated").(*types.Const)
		running, _ := sc.Lookup("ContainerStateRunning").(*types.Const)
		exited, _ := sc.Lookup("ContainerStateExited").(*types.Const)
		for _, k := range []*types.Const{created, running, exited} {
			if k == nil {
				r.Undecided("R6:state-constants", "R6 state classification", "Created/Running/Exited state constants exist", e.Pos(sw.Pos()), sw, "constant not found")
				continue
			}
			src0, src1 := &sliceSrc{}, &sliceSrc{}
			for _, ret := range Returns(sw) {
				traceSlice(e, sw, retValue(ret, 0), src0, map[ssa.Value]bool{}, 0)
				traceSlice(e, sw, retValue(ret, 1), src1, map[ssa.Value]bool{}, 0)
			}
			reach := func(src *sliceSrc) bool {
				for _, el := range src.elems {
					if el.Fn != sw {
						continue
					}
					is := func(cond ssa.Value) (bool, bool) {
						b, ok := cond.(*ssa.BinOp)
						if !ok || b.Op != token.EQL {
							return false, false
						}
						call, ok := b.X.(*ssa.Call)
						if !ok || !isCallOfObj(call, getState) || !sameValue(callArgs(call)[0], el.Elem) {
							return false, false
						}
						if c, ok := b.Y.(*ssa.Const); ok && c.Value != nil {
							return true, isConstEq(b.Y, k)
						}
						return false, false
					}
					hasTest := false
					AllInstrs(sw, func(in ssa.Instruction) {
						if c2, ok := in.(*ssa.Call); ok && isCallOfObj(c2, getState) && sameValue(callArgs(c2)[0], el.Elem) {
							hasTest = true
						}
					})
					if hasTest && FindPath(PathQuery{Fn: sw, Assume: is, Target: func(x ssa.Instruction) bool { return x == el.At }}) != nil {
						return true
					}
				}
				return false
			}
			if k == exited {
				r.Check("R6:"+k.Name()+"->released", "R6 state classification", "a cached container the runtime reports as exited is put on the release list, whatever state the cache had saved for it (only created/running containers may hold allocations after Synchronize)", e.Pos(sw.Pos()), sw, reach(src1), "", true)
				continue
			}
			r.Check("R6:"+k.Name()+"->allocated", "R6 state classification", "a cached container in state "+k.Name()+" is put on the allocate list", e.Pos(sw.Pos()), sw, reach(src0), "", true)
			r.Check("R6:"+k.Name()+"->released-first", "R6 state classification", "a cached container in state "+k.Name()+" is also put on the release list (its allocation is rebuilt, not trusted)", e.Pos(sw.Pos()), sw, reach(src1), "", true)
		}
	}

	// ---- rule 2b: Synchronize places containers afresh -----------------------------------------
	// The topology-aware allocator treats a pool hint as binding (no fallback): a hint taken from the stale,
	// about-to-be-released state can make a running container end up without any allocation.
	if ts := r.Anchor(pkgTA, "policy.Sync"); ts != nil {
		allocPool := e.Fn(pkgTA, "policy.allocatePool")
		allocRes := e.Fn(pkgTA, "policy.allocateResources")
		pub := e.Fn(pkgTA, "policy.AllocateResources")
		n := 0
		AllInstrs(ts, func(in ssa.Instruction) {
			ci, ok := in.(ssa.CallInstruction)
			if !ok || allocPool == nil || !e.CallReaches(in, fset(allocPool), 4) {
				return
			}
			n++
			okHint, why := false, ""
			switch {
			case e.IsCallTo(in, fset(pub)):
				// the public entry point: its own call of allocateResources carries the empty hint
				for _, c := range e.callsTo(pub, allocRes) {
					if s, isS := constString(callArgs(c)[2]); isS && s == "" {
						okHint = true
					}
				}
				why = "AllocateResources does not pass the empty hint"
			case e.IsCallTo(in, fset(allocRes)), e.IsCallTo(in, fset(allocPool)):
				if s, isS := constString(callArgs(ci)[2]); isS && s == "" {
					okHint = true
				}
				why = "a non-empty pool hint is passed"
			default:
				why = "allocation through an unrecognised path"
			}
			if okHint {
				why = ""
			}
			r.Check("R1:sync-allocates-without-binding-hint", "R1 Synchronize feeds policy.Sync", "the topology-aware Sync re-allocates every container on its add list without a (binding) pool hint, so a container the runtime reports as running cannot be refused because of where it used to be", e.InstrPos(in), ts, okHint, why, true)
		})
		r.MinInstances("allocations in topology-aware Sync", n, 1)
	}

	// ---- rule 3 -------------------------------------------------------------------
	stale, _ := e.TypesPkg(pkgCA).Scope().Lookup("ContainerStateStale").(*types.Const)
	if rc := r.Anchor(pkgCA, "cache.RefreshContainers"); rc != nil {
		fCtrs := e.Field(pkgCA, "cache", "Containers")
		insert := e.Fn(pkgCA, "cache.InsertContainer")
		del := e.Fn(pkgCA, "cache.DeleteContainer")
		updState := e.objs(pkgCA, "Container.UpdateState", "container.UpdateState")
		// the lookup of a listed id in the cached containers
		var lk *ssa.Lookup
		AllInstrs(rc, func(in ssa.Instruction) {
			if l, ok := in.(*ssa.Lookup); ok && l.CommaOk {
				if f, _ := loadedField(l.X); f == fCtrs && lk == nil {
					lk = l
				}
			}
		})
		if lk == nil {
			r.Undecided("R7:refresh-containers", "data-flow refresh semantics", "RefreshContainers looks each listed id up in the cache", e.Pos(rc.Pos()), rc, "lookup not found")
		} else {
			r.MustPass("R7:unknown-inserted", "data-flow refresh semantics", "a listed container that is not cached is inserted", rc, lk, nil,
				func(in ssa.Instruction) bool { return e.IsCallTo(in, fset(insert)) }, okOf(lk, false))
			// known id: the runtime's state is copied into the cached container
			isStateCopy := func(in ssa.Instruction) bool {
				if !isCallOfObj(in, updState) {
					return false
				}
				a := callArgs(in.(ssa.CallInstruction))
				if len(a) != 2 {
					return false
				}
				// receiver: the cached entry found by the lookup; argument: GetState() of the listed item
				recvOK := false
				Origins(a[0], func(v ssa.Value) bool {
					if ex, ok := v.(*ssa.Extract); ok && ex.Tuple == lk && ex.Index == 0 {
						recvOK = true
					}
					return false
				})
				argOK := false
				Origins(a[1], func(v ssa.Value) bool {
					if call, ok := v.(*ssa.Call); ok {
						if o := callObj(call.Common()); o != nil && o.Name() == "GetState" && isElementOfParam(callArgs(call)[0], 1) {
							argOK = true
						}
					}
					if f, base := loadedField(v); f != nil && f.Name() == "State" && isElementOfParam(base, 1) {
						argOK = true
					}
					return false
				})
				return recvOK && argOK
			}
			// the loop continues after each element; require the copy before the next iteration or the loop exit
			p := FindPath(PathQuery{Fn: rc, From: lk, Assume: okOf(lk, true), Block: isStateCopy,
				Target: func(in ssa.Instruction) bool {
					// reaching the lookup again (next element) or leaving the first loop
					if in == ssa.Instruction(lk) {
						return true
					}
					_, isRange := in.(*ssa.Range)
					return isRange
				}})
			r.Check("R7:known-state-refreshed", "data-flow refresh semantics",
				"for a listed container that is already cached, the runtime-reported state is copied into the cached entry (the runtime is the truth after a restart)",
				e.InstrPos(lk), rc, p == nil, e.pathString(p), true)
		}
		// purge: containers not listed are deleted, marked Stale and returned
		nd := 0
		for _, dc := range e.callsTo(rc, del) {
			nd++
			in := dc.(ssa.Instruction)
			// marked stale afterwards on all paths to the next iteration
			r.MustPass("R7:purged-marked-stale@RefreshContainers", "data-flow refresh semantics", "a purged container is marked Stale", rc, in, nil,
				func(x ssa.Instruction) bool {
					if !isCallOfObj(x, updState) {
						return false
					}
					a := callArgs(x.(ssa.CallInstruction))
					return len(a) == 2 && isConstEq(a[1], stale)
				}, nil)
		}
		r.MinInstances("purges in RefreshContainers", nd, 1)
		// … and no cached entry the runtime does not list escapes the purge, whatever its state
		delPod := e.Fn(pkgCA, "cache.DeletePod")
		nPurge := 0
		for _, fn := range []*ssa.Function{rc, e.Fn(pkgCA, "cache.RefreshPods")} {
			if fn == nil {
				continue
			}
			AllInstrsOf(fn, func(in ssa.Instruction) {
				lk, ok := in.(*ssa.Lookup)
				if !ok || !lk.CommaOk {
					return
				}
				// a lookup in the local set of listed ids, keyed by a cached entry's own id (GetID / GetPodID of the ranged element)
				if _, isMk := lk.X.(*ssa.MakeMap); !isMk {
					return
				}
				c, isCall := lk.Index.(*ssa.Call)
				if !isCall || callObj(c.Common()) == nil || (callObj(c.Common()).Name() != "GetID" && callObj(c.Common()).Name() != "GetPodID") {
					return
				}
				nPurge++
				bp := FindPath(PathQuery{Fn: fn, From: lk, Assume: okOf(lk, false),
					Block: func(x ssa.Instruction) bool { return e.IsCallTo(x, fset(del, delPod)) },
					Target: func(x ssa.Instruction) bool {
						if _, isNext := x.(*ssa.Next); isNext {
							return true
						}
						_, isRet := x.(*ssa.Return)
						return isRet
					}})
				r.Check("R7:unlisted-always-purged@"+fn.Name(), "data-flow refresh semantics", "every cached pod/container the runtime does not list is purged, whatever state the cache had recorded for it", e.InstrPos(lk), fn, bp == nil,
					"an unlisted entry can stay in the cache: "+e.pathString(bp), true)
			})
		}
		r.MinInstances("purge decisions in RefreshPods/RefreshContainers", nPurge, 3)
		// … and purging really removes the entry: DeleteContainer / DeletePod delete the looked-up id from their table
		for _, t := range []struct{ fn, table string }{{"cache.DeleteContainer", "Containers"}, {"cache.DeletePod", "Pods"}} {
			g := e.Fn(pkgCA, t.fn)
			fTab := e.Field(pkgCA, "cache", t.table)
			if g == nil || fTab == nil || len(g.Params) != 2 {
				r.Undecided("R7:purge-removes-entry@"+t.fn, "data-flow refresh semantics", t.fn+" and cache."+t.table+" exist", "-", nil, "not found")
				continue
			}
			idP := ssa.Value(g.Params[1])
			removes := func(in ssa.Instruction) bool {
				ci, ok := in.(ssa.CallInstruction)
				if !ok || !isMapWriteOf(in, fTab) || len(ci.Common().Args) != 2 {
					return false
				}
				k := ci.Common().Args[1]
				if sameObject(k, idP) {
					return true
				}
				// the id of the entry looked up under the parameter
				okKey := false
				if c, ok := unspill(k).(ssa.CallInstruction); ok && callObj(c.Common()) != nil && (callObj(c.Common()).Name() == "GetID") {
					Origins(callArgs(c)[0], func(v ssa.Value) bool {
						var lk *ssa.Lookup
						switch y := v.(type) {
						case *ssa.Extract:
							lk, _ = y.Tuple.(*ssa.Lookup)
						case *ssa.Lookup:
							lk = y
						}
						if lk != nil && isFieldLoad(lk.X, fTab) && sameObject(lk.Index, idP) {
							okKey = true
						}
						return okKey
					})
				}
				return okKey
			}
			known := func(cond ssa.Value) (bool, bool) {
				if ex, ok := unspill(cond).(*ssa.Extract); ok && ex.Index == 1 {
					if lk, ok := ex.Tuple.(*ssa.Lookup); ok && lk.CommaOk && isFieldLoad(lk.X, fTab) {
						return true, true
					}
				}
				return false, false
			}
			p := FindPath(PathQuery{Fn: g, Assume: known, Target: isRet, Block: removes})
			r.Check("R7:purge-removes-entry@"+t.fn, "data-flow refresh semantics", t.fn+" removes the entry of a known id from cache."+t.table, e.Pos(g.Pos()), g, p == nil, e.pathString(p), true)
		}
		src := &sliceSrc{}
		for _, ret := range Returns(rc) {
			traceSlice(e, rc, retValue(ret, 1), src, map[ssa.Value]bool{}, 0)
		}
		r.Check("R7:purged-returned@RefreshContainers", "data-flow refresh semantics", "purged containers are returned to the caller (which releases them)", e.Pos(rc.Pos()), rc, len(src.elems) >= 1, "", true)
	}
	if rp := r.Anchor(pkgCA, "cache.RefreshPods"); rp != nil {
		insertPod, delPod, delCtr := e.Fn(pkgCA, "cache.InsertPod"), e.Fn(pkgCA, "cache.DeletePod"), e.Fn(pkgCA, "cache.DeleteContainer")
		updState := e.objs(pkgCA, "Container.UpdateState", "container.UpdateState")
		r.Check("R7:pods-inserted", "data-flow refresh semantics", "RefreshPods inserts listed pods that are not cached", e.Pos(rp.Pos()), rp, len(e.callsTo(rp, insertPod)) >= 1, "", false)
		r.Check("R7:pods-purged", "data-flow refresh semantics", "RefreshPods deletes cached pods the runtime no longer lists", e.Pos(rp.Pos()), rp, len(e.callsTo(rp, delPod)) >= 1, "", false)
		for _, dc := range e.callsTo(rp, delCtr) {
			r.MustPass("R7:purged-marked-stale@RefreshPods", "data-flow refresh semantics", "a container purged with its pod is marked Stale", rp, dc.(ssa.Instruction), nil,
				func(x ssa.Instruction) bool {
					if !isCallOfObj(x, updState) {
						return false
					}
					a := callArgs(x.(ssa.CallInstruction))
					return len(a) == 2 && isConstEq(a[1], stale)
				}, nil)
		}
		src := &sliceSrc{}
		for _, ret := range Returns(rp) {
			traceSlice(e, rp, retValue(ret, 2), src, map[ssa.Value]bool{}, 0)
		}
		r.Check("R7:purged-returned@RefreshPods", "data-flow refresh semantics", "containers purged with their pods are returned to the caller", e.Pos(rp.Pos()), rp, len(src.elems) >= 1, "", true)
		// purge decisions use the set of listed ids: deletions are guarded by a failed lookup in the `valid` set
		for _, fn := range []*ssa.Function{rp, e.Fn(pkgCA, "cache.RefreshContainers")} {
			if fn == nil {
				continue
			}
			for _, dc := range append(e.callsTo(fn, delPod), e.callsTo(fn, delCtr)...) {
				in := dc.(ssa.Instruction)
				// under "every comma-ok lookup in a local map[string]struct{} succeeds" the delete is unreachable
				listed := func(cond ssa.Value) (bool, bool) {
					if ex, ok := cond.(*ssa.Extract); ok && ex.Index == 1 {
						if lk, ok := ex.Tuple.(*ssa.Lookup); ok && lk.CommaOk {
							if _, isField := lk.X.(*ssa.UnOp); !isField {
								return true, true
							}
							if f, _ := loadedField(lk.X); f == nil {
								return true, true
							}
						}
					}
					return false, false
				}
				p := FindPath(PathQuery{Fn: fn, Assume: listed, Target: func(x ssa.Instruction) bool { return x == in }})
				r.Check("R7:purge-only-unlisted@"+fn.Name(), "data-flow refresh semantics", "a cached pod/container is purged only when its id is not among those the runtime listed",
					e.InstrPos(in), fn, p == nil, e.pathString(p), true)
			}
		}
	}

	// ---- rule 4 -------------------------------------------------------------------
	if syn := r.Anchor(pkgRM, "nriPlugin.Synchronize"); syn != nil && sw != nil {
		polSync := e.objs(pkgPolicy, "Policy.Sync")
		getUpd := e.Fn(pkgRM, "nriPlugin.getPendingUpdates")
		syncNames := e.Fn(pkgRM, "nriPlugin.syncNamesToContainers")
		calls := allCallsOfObj(syn, polSync)
		if len(calls) != 1 {
			r.Undecided("R1:sync-feeds-policy", "R1 Synchronize", "Synchronize calls policy.Sync once", e.Pos(syn.Pos()), syn, fmt.Sprintf("%d calls", len(calls)))
		} else {
			a := callArgs(calls[0])
			fromSW := func(v ssa.Value, idx int) bool {
				found := false
				var walk func(v ssa.Value, d int)
				walk = func(v ssa.Value, d int) {
					if d > 6 || v == nil {
						return
					}
					Origins(v, func(x ssa.Value) bool {
						if ex, ok := x.(*ssa.Extract); ok && ex.Index == idx {
							if call, ok := ex.Tuple.(*ssa.Call); ok && e.IsCallTo(call, fset(sw)) {
								found = true
							}
						}
						if call, ok := x.(*ssa.Call); ok {
							if b, ok := call.Common().Value.(*ssa.Builtin); ok && b.Name() == "append" {
								walk(call.Common().Args[0], d+1)
								walk(call.Common().Args[1], d+1)
							}
						}
						return false
					})
				}
				walk(v, 0)
				return found
			}
			r.Check("R1:sync-add-is-allocated", "R1 Synchronize", "policy.Sync's add list is syncWithNRI's allocate list", e.InstrPos(calls[0]), syn, fromSW(a[1], 0), "", true)
			r.Check("R1:sync-del-includes-released", "R1 Synchronize", "policy.Sync's release list includes syncWithNRI's release list", e.InstrPos(calls[0]), syn, fromSW(a[2], 1), "", true)
			unm := false
			var walk func(v ssa.Value, d int)
			walk = func(v ssa.Value, d int) {
				if d > 6 || v == nil {
					return
				}
				Origins(v, func(x ssa.Value) bool {
					if call, ok := x.(*ssa.Call); ok {
						if e.IsCallTo(call, fset(syncNames)) {
							unm = true
						}
						if b, ok := call.Common().Value.(*ssa.Builtin); ok && b.Name() == "append" {
							walk(call.Common().Args[0], d+1)
							walk(call.Common().Args[1], d+1)
						}
					}
					return false
				})
			}
			walk(a[2], 0)
			r.Check("R1:sync-del-includes-unmapped", "R1 Synchronize", "policy.Sync's release list includes containers whose name was re-used (syncNamesToContainers)", e.InstrPos(calls[0]), syn, unm, "", true)
			r.MustPass("R1:sync-returns-drain", "R1 Synchronize", "after policy.Sync every successful return passes getPendingUpdates", syn, calls[0].(ssa.Instruction), e.maySucceed,
				func(in ssa.Instruction) bool { return e.IsCallTo(in, fset(getUpd)) }, nil)
		}
	}
	checkReadmission(e, r)
}
