package main

import (
	"fmt"
	"go/token"
	"go/types"
	"strings"

	"golang.org/x/tools/go/ssa"
)

// C09 — no leaks: releasing everything restores the pristine state.
func init() { register("C09", "no leaks", checkC09) }

// objs resolves several "Type.Method" names in one package, dropping misses.
func (e *Engine) objs(pkg string, names ...string) []*types.Func {
	var out []*types.Func
	for _, n := range names {
		if o := e.FuncObj(pkg, n); o != nil {
			out = append(out, o)
		}
	}
	return out
}

func isCallOfObj(in ssa.Instruction, objs []*types.Func) bool {
	ci, ok := in.(ssa.CallInstruction)
	if !ok {
		return false
	}
	o := callObj(ci.Common())
	if o == nil {
		return false
	}
	for _, t := range objs {
		if t == o {
			return true
		}
	}
	return false
}

func firstCallOfObj(fn *ssa.Function, objs []*types.Func) ssa.CallInstruction {
	var out ssa.CallInstruction
	AllInstrs(fn, func(in ssa.Instruction) {
		if out == nil && isCallOfObj(in, objs) {
			out = in.(ssa.CallInstruction)
		}
	})
	return out
}

func allCallsOfObj(fn *ssa.Function, objs []*types.Func) []ssa.CallInstruction {
	var out []ssa.CallInstruction
	AllInstrs(fn, func(in ssa.Instruction) {
		if isCallOfObj(in, objs) {
			out = append(out, in.(ssa.CallInstruction))
		}
	})
	return out
}

// okOf builds the assumption "the comma-ok tuple value t reported ok == val".
func okOf(t ssa.Value, val bool) Assumption {
	return func(cond ssa.Value) (bool, bool) {
		if ex, ok := cond.(*ssa.Extract); ok && ex.Tuple == t && ex.Index == 1 {
			return true, val
		}
		return false, false
	}
}

// nonNilOf builds the assumption "value v is (not) nil".
func nilnessOf(v ssa.Value, isNil bool) Assumption {
	return func(cond ssa.Value) (bool, bool) {
		b, ok := cond.(*ssa.BinOp)
		if !ok || (b.Op != token.EQL && b.Op != token.NEQ) {
			return false, false
		}
		if (b.X == v && isNilConstV(b.Y)) || (b.Y == v && isNilConstV(b.X)) {
			return true, (b.Op == token.EQL) == isNil
		}
		return false, false
	}
}

func checkC09(e *Engine, r *Report) {
	r.Rules = []string{
		"R1 release pairing (TA: ReleaseResources -> releasePool -> grant.Release -> ReleaseCPU + releaseMem + StopTimer + delete(grants); BL: ReleaseResources -> dismissContainer (libmem Release, PodIDs, groups) and, for an emptied balloon, resizeBalloon(0) then freeBalloon; RM: StopContainer and the stale-instance branch release before marking Exited; syncWithNRI puts purged/exited/re-synchronised containers on the release list; Sync releases before it allocates)",
		"R13 error-path undo (supply.Allocate / AllocateCPU / Reserve release the CPU accounting on later failure; balloons undo a new balloon that cannot be used)",
		"R2 stopped-never-readmitted: every container collection reaching the `add` argument of a policy Sync, across function boundaries, is built only from elements filtered by GetState() in {Created, Running}; every AllocateResources argument is the container being created, an element of Sync's add list, or the subject of an update",
		"R5 ledger symmetry (shared with C03): what an admission adds to grantedShared/grantedReserved is what the release subtracts",
		"round 4: undo() of a trial balloon reaches a store freeCpus = freeCpus ∪ (that balloon's CPUs) (calls through the local slice of closures resolved); R14b propagated failures of the two policy packages (frozen caller/callee table)",
	}
	r.Rules = append(r.Rules, "round 6: when a balloon is dropped the free set becomes exactly free ∪ that balloon's CPUs (frame lemma R11:free-grows-by-balloon of the C02 check, adopted)")
	r.NotDecided = []string{"equality of the final state with the pristine one (value-level)", "UpdateContainer for a container that already exited (allowed source (d), residual risk)"}
	r.Assumptions = []string{"the runtime sends StopContainer before RemoveContainer for every container that was created"}
	checkErrorPolarity(e, r, "R13 error-path undo", pkgTA, pkgBL, pkgRM)
	checkErrorPropagation(e, r, "R13 error-path undo", pkgTA, pkgBL)

	// ------------------------------------------------------------------ TA release chain
	taRelease := r.Anchor(pkgTA, "policy.ReleaseResources")
	releasePool := r.Anchor(pkgTA, "policy.releasePool")
	grantRelease := r.Anchor(pkgTA, "grant.Release")
	supplyReleaseCPU := r.Anchor(pkgTA, "supply.ReleaseCPU")
	fGrants := e.Field(pkgTA, "allocations", "grants")
	mGrantRelease := e.objs(pkgTA, "Grant.Release", "grant.Release")
	mReleaseCPU := e.objs(pkgTA, "Supply.ReleaseCPU", "supply.ReleaseCPU")
	mAcctRel := e.objs(pkgTA, "Grant.AccountReleaseCPU", "grant.AccountReleaseCPU")
	mAcctAlloc := e.objs(pkgTA, "Grant.AccountAllocateCPU", "grant.AccountAllocateCPU")
	if taRelease != nil && releasePool != nil {
		r.MustPass("R1:ta-release->releasePool", "R1 release pairing", "TA ReleaseResources always goes through releasePool", taRelease, nil, nil,
			func(in ssa.Instruction) bool { return e.IsCallTo(in, fset(releasePool)) }, nil)
	}
	if releasePool != nil && fGrants != nil {
		var lk ssa.Value
		AllInstrs(releasePool, func(in ssa.Instruction) {
			if l, ok := in.(*ssa.Lookup); ok && l.CommaOk {
				if f, _ := loadedField(l.X); f == fGrants {
					lk = l
				}
			}
		})
		if lk == nil {
			r.Undecided("R1:ta-releasePool", "R1 release pairing", "releasePool looks the grant up in allocations.grants", e.Pos(releasePool.Pos()), releasePool, "lookup not found")
		} else {
			r.MustPass("R1:ta-releasePool->grant.Release", "R1 release pairing", "when a grant exists releasePool calls grant.Release() on every path", releasePool, lk.(ssa.Instruction), nil,
				func(in ssa.Instruction) bool { return isCallOfObj(in, mGrantRelease) }, okOf(lk, true))
			r.MustPass("R1:ta-releasePool->delete(grants)", "R1 release pairing", "when a grant exists releasePool deletes it from allocations.grants on every path", releasePool, lk.(ssa.Instruction), nil,
				func(in ssa.Instruction) bool {
					_, isCall := in.(ssa.CallInstruction)
					return isCall && isMapWriteOf(in, fGrants)
				}, okOf(lk, true))
		}
	}
	if grantRelease != nil {
		releaseMem := e.Fn(pkgTA, "policy.releaseMem")
		stopTimer := e.Fn(pkgTA, "grant.StopTimer")
		for _, t := range []struct {
			key  string
			what string
			pass func(ssa.Instruction) bool
		}{
			{"ReleaseCPU", "returns the CPU accounting to the supply", func(in ssa.Instruction) bool { return isCallOfObj(in, mReleaseCPU) }},
			{"releaseMem", "releases the libmem allocation", func(in ssa.Instruction) bool { return e.IsCallTo(in, fset(releaseMem)) }},
			{"StopTimer", "stops a pending cold-start timer", func(in ssa.Instruction) bool { return e.IsCallTo(in, fset(stopTimer)) }},
		} {
			r.MustPass("R1:ta-grant.Release->"+t.key, "R1 release pairing", "grant.Release "+t.what+" on every path", grantRelease, nil, nil, t.pass, nil)
		}
		// the memory released is the grant's own container id
		if releaseMem != nil {
			for _, c := range e.callsTo(grantRelease, releaseMem) {
				a := callArgs(c)
				ok := len(a) == 2 && originAll(a[1], func(v ssa.Value) bool {
					call, isC := v.(*ssa.Call)
					if !isC {
						return false
					}
					o := callObj(call.Common())
					return o != nil && o.Name() == "GetID"
				})
				r.Check("R1:ta-grant.Release-own-id", "R1 release pairing", "grant.Release releases the memory of its own container id", e.InstrPos(c), grantRelease, ok, "", true)
			}
		}
	}
	if supplyReleaseCPU != nil {
		r.MustPass("R1:ta-ReleaseCPU->AccountReleaseCPU", "R1 release pairing", "supply.ReleaseCPU propagates the release to the rest of the tree", supplyReleaseCPU, nil, nil,
			func(in ssa.Instruction) bool { return isCallOfObj(in, mAcctRel) }, nil)
		for _, fname := range []string{"isolated", "sharable", "grantedReserved", "grantedShared"} {
			f := e.Field(pkgTA, "supply", fname)
			r.MustPass("R1:ta-ReleaseCPU-updates-"+fname, "R1 release pairing", "supply.ReleaseCPU updates supply."+fname+" on every path", supplyReleaseCPU, nil, nil,
				func(in ssa.Instruction) bool { st, ok := in.(*ssa.Store); return ok && fieldOfAddr(st.Addr) == f }, nil)
		}
	}

	// ------------------------------------------------------------------ BL release chain
	blRelease := r.Anchor(pkgBL, "balloons.ReleaseResources")
	dismiss := r.Anchor(pkgBL, "balloons.dismissContainer")
	resize := r.Anchor(pkgBL, "balloons.resizeBalloon")
	freeBln := r.Anchor(pkgBL, "balloons.freeBalloon")
	delBln := r.Anchor(pkgBL, "balloons.deleteBalloon")
	byCtr := r.Anchor(pkgBL, "balloons.balloonByContainer")
	if blRelease != nil && dismiss != nil && resize != nil && freeBln != nil && byCtr != nil {
		bc := e.callsTo(blRelease, byCtr)
		if len(bc) == 1 {
			bln := bc[0].Value()
			r.MustPass("R1:bl-release->dismiss", "R1 release pairing", "when the container is in a balloon ReleaseResources dismisses it", blRelease, bc[0].(ssa.Instruction), nil,
				func(in ssa.Instruction) bool { return e.IsCallTo(in, fset(dismiss)) }, nilnessOf(bln, false))
			// emptied balloon: deflate to zero, then free
			cnt := e.FuncObj(pkgBL, "Balloon.ContainerCount")
			emptied := func(cond ssa.Value) (bool, bool) {
				if k, v := nilnessOf(bln, false)(cond); k {
					return k, v
				}
				b, ok := cond.(*ssa.BinOp)
				if ok && (b.Op == token.EQL || b.Op == token.NEQ) && isConstInt(b.Y, 0) {
					if call, ok := b.X.(*ssa.Call); ok && callObj(call.Common()) == cnt {
						return true, b.Op == token.EQL
					}
				}
				return false, false
			}
			r.MustPass("R1:bl-release-empty->resize0", "R1 release pairing", "a balloon left without containers is deflated with resizeBalloon(bln, 0)", blRelease, bc[0].(ssa.Instruction), nil,
				func(in ssa.Instruction) bool {
					if !e.IsCallTo(in, fset(resize)) {
						return false
					}
					a := callArgs(in.(ssa.CallInstruction))
					return len(a) == 3 && isConstInt(a[2], 0)
				}, emptied)
			r.MustPass("R1:bl-release-empty->freeBalloon", "R1 release pairing", "a balloon left without containers is handed to freeBalloon", blRelease, bc[0].(ssa.Instruction), nil,
				func(in ssa.Instruction) bool { return e.IsCallTo(in, fset(freeBln)) }, emptied)
		} else {
			r.Undecided("R1:bl-release", "R1 release pairing", "ReleaseResources looks the balloon up once", e.Pos(blRelease.Pos()), blRelease, fmt.Sprintf("%d lookups", len(bc)))
		}
	}
	if blRelease != nil {
		// memory is released whether or not the container (still) belongs to a balloon: a configuration update rebuilds all
		// balloons while the memory allocator and its requests survive
		lmRelease := e.Fn(pkgLM, "Allocator.Release")
		r.MustPass("R1:bl-release->mem-release", "R1 release pairing", "every normal return of the balloons ReleaseResources has released the container's libmem allocation (through dismissContainer, or directly for a container without a balloon)", blRelease, nil, e.maySucceed,
			func(in ssa.Instruction) bool { return e.CallReaches(in, fset(lmRelease), 3) },
			func(cond ssa.Value) (bool, bool) {
				// `_, ok := memAllocator.AssignedZone(id)`: nothing to release when the allocator does not know the container
				if ex, ok := cond.(*ssa.Extract); ok && ex.Index == 1 {
					if c, ok := ex.Tuple.(*ssa.Call); ok && callObj(c.Common()) != nil && callObj(c.Common()).Name() == "AssignedZone" {
						return true, true
					}
				}
				return false, false
			})
	}
	if dismiss != nil {
		lmRelease := e.Fn(pkgLM, "Allocator.Release")
		updGroups := e.Fn(pkgBL, "Balloon.updateGroups")
		fPod := e.Field(pkgBL, "Balloon", "PodIDs")
		r.MustPass("R1:bl-dismiss->mem-release", "R1 release pairing", "dismissContainer releases the container's libmem allocation", dismiss, nil, nil,
			func(in ssa.Instruction) bool { return e.IsCallTo(in, fset(lmRelease)) }, nil)
		r.MustPass("R1:bl-dismiss->PodIDs", "R1 release pairing", "dismissContainer removes the container id from the balloon's PodIDs", dismiss, nil, nil,
			func(in ssa.Instruction) bool { mu, ok := in.(*ssa.MapUpdate); return ok && isMapWriteOf(mu, fPod) }, nil)
		okDelta := false
		for _, c := range e.callsTo(dismiss, updGroups) {
			a := callArgs(c)
			if len(a) == 3 && isConstInt(a[2], -1) {
				okDelta = e.skippedOnSuccess(dismiss, c.(ssa.Instruction)) == nil // on every path, not only on some
			}
		}
		r.Check("R1:bl-dismiss->groups-1", "R1 release pairing", "dismissContainer decrements the balloon's group count", e.Pos(dismiss.Pos()), dismiss, okDelta, "", true)
	}
	if freeBln != nil && delBln != nil {
		fPod := e.Field(pkgBL, "Balloon", "PodIDs")
		r.MustPass("R1:bl-free-clears-members", "R1 release pairing", "freeBalloon clears the balloon's membership", freeBln, nil, nil,
			func(in ssa.Instruction) bool { st, ok := in.(*ssa.Store); return ok && fieldOfAddr(st.Addr) == fPod }, nil)
		fFree := e.Field(pkgBL, "balloons", "freeCpus")
		fBlns := e.Field(pkgBL, "balloons", "balloons")
		for _, f := range []*types.Var{fFree, fBlns} {
			r.MustPass("R1:bl-delete-updates-"+f.Name(), "R1 release pairing", "deleteBalloon updates balloons."+f.Name()+" on every path", delBln, nil, nil,
				func(in ssa.Instruction) bool { st, ok := in.(*ssa.Store); return ok && fieldOfAddr(st.Addr) == f }, nil)
		}
		// what the free set becomes when a balloon is dropped (exactly free ∪ the balloon's CPUs — nothing is lost):
		// the frame lemmas of the C02 check for deleteBalloon and the undo of a trial balloon, adopted here
		{
			sub := NewReport(e, "C02")
			checkC02(e, sub)
			n := 0
			for _, o := range sub.Obls {
				if strings.HasPrefix(o.Key, "R11:free-grows-by-balloon@") {
					n++
					cp := *o
					r.add(&cp)
				}
			}
			r.MinInstances("free-set frame lemmas (shared with C02)", n, 1)
		}
	}

	// ------------------------------------------------------------------ RM
	polRelease := e.objs(pkgPolicy, "Policy.ReleaseResources")
	polAlloc := e.objs(pkgPolicy, "Policy.AllocateResources", "Backend.AllocateResources")
	updState := e.objs(pkgCA, "Container.UpdateState")
	exited, _ := e.TypesPkg(pkgCA).Scope().Lookup("ContainerStateExited").(*types.Const)
	isExitedUpdate := func(in ssa.Instruction) bool {
		if !isCallOfObj(in, updState) {
			return false
		}
		a := callArgs(in.(ssa.CallInstruction))
		return len(a) == 2 && isConstEq(a[1], exited)
	}
	if stop := r.Anchor(pkgRM, "nriPlugin.StopContainer"); stop != nil {
		lcAt, _, lcKnown := e.eventContainer(stop)
		if lcAt != nil {
			r.MustPass("R1:rm-stop->release", "R1 release pairing", "StopContainer releases the container's resources on every successful path for a known container", stop, lcAt,
				e.maySucceed, func(in ssa.Instruction) bool { return isCallOfObj(in, polRelease) }, lcKnown)
			r.MustPass("R1:rm-stop->exited", "R1 release pairing", "StopContainer marks the container Exited on every successful path", stop, lcAt,
				e.maySucceed, isExitedUpdate, lcKnown)
			// release precedes the state change
			p := FindPath(PathQuery{Fn: stop, Block: func(in ssa.Instruction) bool { return isCallOfObj(in, polRelease) }, Target: isExitedUpdate})
			r.Check("R1:rm-stop-release-before-exited", "R1 release pairing", "resources are released before the container is marked Exited", e.Pos(stop.Pos()), stop, p == nil, e.pathString(p), true)
		} else {
			r.Undecided("R1:rm-stop", "R1 release pairing", "StopContainer looks the container up", e.Pos(stop.Pos()), stop, "no LookupContainer call (directly or through a lookup helper)")
		}
	}
	if create := r.Anchor(pkgRM, "nriPlugin.CreateContainer"); create != nil {
		unmap := e.Fn(pkgRM, "nriPlugin.unmapName")
		uc := e.callsTo(create, unmap)
		if len(uc) == 1 {
			r.MustPass("R1:rm-create-stale->release", "R1 release pairing", "a stale instance with the same name is released before the new container is admitted", create, uc[0].(ssa.Instruction), nil,
				func(in ssa.Instruction) bool {
					return isCallOfObj(in, polRelease) || isCallOfObj(in, polAlloc) && false
				}, okOf(uc[0].Value(), true))
			p := FindPath(PathQuery{Fn: create, From: uc[0].(ssa.Instruction), Assume: okOf(uc[0].Value(), true),
				Block: func(in ssa.Instruction) bool { return isCallOfObj(in, polRelease) }, Target: func(in ssa.Instruction) bool { return isCallOfObj(in, polAlloc) }})
			r.Check("R1:rm-create-stale-release-first", "R1 release pairing", "the stale instance is released before AllocateResources runs", e.InstrPos(uc[0]), create, p == nil, e.pathString(p), true)
			r.MustPass("R1:rm-create-stale->exited", "R1 release pairing", "the stale instance is marked Exited", create, uc[0].(ssa.Instruction), e.maySucceed, isExitedUpdate, okOf(uc[0].Value(), true))
		}
	}
	// syncWithNRI: everything purged from the cache and every exited container goes on the release list
	if sw := r.Anchor(pkgRM, "nriPlugin.syncWithNRI"); sw != nil {
		src := &sliceSrc{}
		for _, ret := range Returns(sw) {
			if len(ret.Results) == 3 {
				traceSlice(e, sw, retValue(ret, 1), src, map[ssa.Value]bool{}, 0)
			}
		}
		refreshPods := e.objs(pkgCA, "Cache.RefreshPods")
		refreshCtrs := e.objs(pkgCA, "Cache.RefreshContainers")
		fromDeleted := func(elem ssa.Value, objs []*types.Func, idx int) bool {
			ok := false
			Origins(elem, func(x ssa.Value) bool {
				if u, isU := x.(*ssa.UnOp); isU && u.Op == token.MUL {
					if ia, isIA := u.X.(*ssa.IndexAddr); isIA {
						if ex, isEx := ia.X.(*ssa.Extract); isEx && ex.Index == idx {
							if call, isC := ex.Tuple.(*ssa.Call); isC && isCallOfObj(call, objs) {
								ok = true
							}
						}
					}
				}
				return false
			})
			return ok
		}
		gotPods, gotCtrs, gotExited := false, false, false
		getState := e.objs(pkgCA, "Container.GetState")
		for _, el := range src.elems {
			if el.Fn != sw {
				continue
			}
			if fromDeleted(el.Elem, refreshPods, 2) {
				gotPods = true
			}
			if fromDeleted(el.Elem, refreshCtrs, 1) {
				gotCtrs = true
			}
			// reachable when the element's state is Exited
			isExited := func(cond ssa.Value) (bool, bool) {
				b, ok := cond.(*ssa.BinOp)
				if !ok || (b.Op != token.EQL && b.Op != token.NEQ) {
					return false, false
				}
				call, ok := b.X.(*ssa.Call)
				if !ok || !isCallOfObj(call, getState) || !sameValue(callArgs(call)[0], el.Elem) {
					return false, false
				}
				if k, ok := b.Y.(*ssa.Const); ok && k.Value != nil {
					return true, isConstEq(b.Y, exited) == (b.Op == token.EQL)
				}
				return false, false
			}
			hasStateTest := false
			AllInstrs(sw, func(in ssa.Instruction) {
				if c2, ok := in.(*ssa.Call); ok && isCallOfObj(c2, getState) && sameValue(callArgs(c2)[0], el.Elem) {
					hasStateTest = true
				}
			})
			if hasStateTest && FindPath(PathQuery{Fn: sw, Assume: isExited, Target: func(x ssa.Instruction) bool { return x == el.At }}) != nil {
				gotExited = true
			}
		}
		r.Check("R1:rm-sync-purged-pods->released", "R1 release pairing", "containers purged together with their vanished pods are put on the release list", e.Pos(sw.Pos()), sw, gotPods, "", true)
		r.Check("R1:rm-sync-purged-containers->released", "R1 release pairing", "containers the runtime no longer lists are put on the release list", e.Pos(sw.Pos()), sw, gotCtrs, "", true)
		r.Check("R1:rm-sync-exited->released", "R1 release pairing", "cached containers in state Exited are put on the release list", e.Pos(sw.Pos()), sw, gotExited, "", true)
	}
	if syn := r.Anchor(pkgRM, "nriPlugin.Synchronize"); syn != nil {
		// the release list reaches policy.Sync as (part of) its del argument
		sw := e.Fn(pkgRM, "nriPlugin.syncWithNRI")
		ok := false
		for _, c := range allCallsOfObj(syn, e.objs(pkgPolicy, "Policy.Sync")) {
			a := callArgs(c)
			if len(a) == 3 {
				found := false
				var walk func(v ssa.Value, d int)
				walk = func(v ssa.Value, d int) {
					if d > 6 || v == nil {
						return
					}
					Origins(v, func(x ssa.Value) bool {
						if ex, isEx := x.(*ssa.Extract); isEx && ex.Index == 1 {
							if call, isC := ex.Tuple.(*ssa.Call); isC && e.IsCallTo(call, fset(sw)) {
								found = true
							}
						}
						if call, isC := x.(*ssa.Call); isC {
							if b, isB := call.Common().Value.(*ssa.Builtin); isB && b.Name() == "append" {
								walk(call.Common().Args[0], d+1)
							}
						}
						return false
					})
				}
				walk(a[2], 0)
				ok = found
			}
		}
		r.Check("R1:rm-sync-release-list->policy", "R1 release pairing", "Synchronize hands syncWithNRI's release list to policy.Sync as containers to release", e.Pos(syn.Pos()), syn, ok, "", true)
	}
	// both backends and the policy layer: release loop before allocate loop
	backendRelease := e.objs(pkgPolicy, "Backend.ReleaseResources")
	for _, t := range []struct{ pkg, fn string }{{pkgTA, "policy.Sync"}, {pkgBL, "balloons.Sync"}} {
		fn := r.Anchor(t.pkg, t.fn)
		if fn == nil {
			continue
		}
		self := func(name string) *ssa.Function {
			recv := t.fn[:len(t.fn)-len("Sync")]
			return e.Fn(t.pkg, recv+name)
		}
		rel, alloc := self("ReleaseResources"), self("AllocateResources")
		isRel := func(in ssa.Instruction) bool { return e.IsCallTo(in, fset(rel)) || isCallOfObj(in, backendRelease) }
		// an allocation: AllocateResources itself or any same-receiver helper it is a thin wrapper of (allocateResources)
		allocSet := fset(alloc)
		if alloc != nil {
			for _, cal := range e.Edges(alloc) {
				if cal.Signature.Recv() != nil && alloc.Signature.Recv() != nil && types.Identical(cal.Signature.Recv().Type(), alloc.Signature.Recv().Type()) && strings.HasPrefix(strings.ToLower(cal.Name()), "allocate") {
					allocSet[cal] = true
				}
			}
		}
		isAlloc := func(in ssa.Instruction) bool { return e.IsCallTo(in, allocSet) }
		nr, na := 0, 0
		var firstAlloc ssa.Instruction
		AllInstrs(fn, func(in ssa.Instruction) {
			if isRel(in) {
				nr++
			}
			if isAlloc(in) {
				na++
				if firstAlloc == nil {
					firstAlloc = in
				}
			}
		})
		okOrder := nr >= 1 && na >= 1
		w := ""
		if okOrder {
			if p := FindPath(PathQuery{Fn: fn, From: firstAlloc, Target: isRel}); p != nil {
				okOrder, w = false, e.pathString(p)
			}
		}
		r.Check("R1:sync-release-before-allocate@"+FnName(fn), "R1 release pairing", "Sync releases every container on its del list before it allocates any from its add list", e.Pos(fn.Pos()), fn, okOrder, w, true)
		// the loops range over the parameters
		for _, c := range allCallsOfObj(fn, nil) {
			_ = c
		}
		for _, pr := range []struct {
			calls func(ssa.Instruction) bool
			param int
			what  string
		}{{isRel, 2, "del"}, {isAlloc, 1, "add"}} {
			AllInstrs(fn, func(in ssa.Instruction) {
				if !pr.calls(in) {
					return
				}
				a := callArgs(in.(ssa.CallInstruction))
				ok := len(a) >= 2 && isElementOfParam(a[1], pr.param)
				r.Check("R1:sync-iterates-"+pr.what+"@"+FnName(fn), "R1 release pairing", "Sync's "+pr.what+" loop handles exactly the elements of its "+pr.what+" parameter", e.InstrPos(in), fn, ok, "", true)
			})
			// … all of them: no iteration over the parameter ends without the call for its element (two containers on the
			// list are two containers, whatever else they have in common)
			nLoop := 0
			for _, lp := range sliceLoops(fn) {
				lp := lp
				if paramIndex(rangedSlice(lp)) != pr.param {
					continue
				}
				nLoop++
				handles := func(in ssa.Instruction) bool {
					if !pr.calls(in) {
						return false
					}
					a := callArgs(in.(ssa.CallInstruction))
					return len(a) >= 2 && lp.elem(a[1])
				}
				// seeing the same container (same id) again may be skipped; nothing else may
				firstTime := func(cond ssa.Value) (bool, bool) {
					if ex, ok := unspill(cond).(*ssa.Extract); ok && ex.Index == 1 {
						if lk, ok := ex.Tuple.(*ssa.Lookup); ok && lk.CommaOk {
							if c, ok := unspill(lk.Index).(ssa.CallInstruction); ok && callObj(c.Common()) != nil && callObj(c.Common()).Name() == "GetID" && lp.elem(callArgs(c)[0]) {
								return true, false
							}
						}
					}
					return false, false
				}
				p := lp.skips(firstTime, handles, true)
				r.Check("R1:sync-handles-every-"+pr.what+"@"+FnName(fn), "R1 release pairing", "Sync handles every element of its "+pr.what+" list (none is skipped)", e.InstrPos(lp.start), fn, p == nil, e.pathString(p), true)
			}
			if nLoop == 0 {
				r.Check("R1:sync-handles-every-"+pr.what+"@"+FnName(fn), "R1 release pairing", "Sync ranges over its "+pr.what+" list", e.Pos(fn.Pos()), fn, false, "no loop over the parameter", true)
			}
		}
	}

	// ------------------------------------------------------------------ R13 error-path undo
	if fn := r.Anchor(pkgTA, "supply.Allocate"); fn != nil {
		commit := e.objs(pkgLM, "Offer.Commit")
		cc := firstCallOfObj(fn, commit)
		if cc != nil {
			r.MustPass("R13:ta-Allocate-commit-failure->ReleaseCPU", "R13 error-path undo", "if committing the memory offer fails the CPU grant just made is released", fn, cc.(ssa.Instruction), nil,
				func(in ssa.Instruction) bool { return isCallOfObj(in, mReleaseCPU) }, func(cond ssa.Value) (bool, bool) {
					k, v := callSucceeded(cc.Value())(cond)
					return k, !v
				})
		} else {
			r.Undecided("R13:ta-Allocate", "R13 error-path undo", "supply.Allocate commits a memory offer", e.Pos(fn.Pos()), fn, "Commit call not found")
		}
	}
	if fn := r.Anchor(pkgTA, "supply.AllocateCPU"); fn != nil {
		ac := firstCallOfObj(fn, mAcctAlloc)
		if ac != nil {
			r.MustPass("R13:ta-AllocateCPU-failure->ReleaseCPU", "R13 error-path undo", "every failure after the exclusive CPUs were accounted releases them again", fn, ac.(ssa.Instruction),
				func(ret *ssa.Return) bool {
					return e.ClassifyReturn(ret) == retNonNilErr || e.ClassifyReturn(ret) == retUnknown && isNilConstV(ret.Results[0])
				},
				func(in ssa.Instruction) bool { return isCallOfObj(in, mReleaseCPU) }, nil)
		} else {
			r.Undecided("R13:ta-AllocateCPU", "R13 error-path undo", "AllocateCPU accounts the grant", e.Pos(fn.Pos()), fn, "AccountAllocateCPU call not found")
		}
	}
	if fn := r.Anchor(pkgTA, "supply.Reserve"); fn != nil {
		ac := firstCallOfObj(fn, mAcctAlloc)
		if ac != nil {
			r.MustPass("R13:ta-Reserve-failure->Release", "R13 error-path undo", "if committing the memory offer fails the re-instated grant is released", fn, ac.(ssa.Instruction),
				func(ret *ssa.Return) bool { return e.ClassifyReturn(ret) != retNilErr },
				func(in ssa.Instruction) bool { return isCallOfObj(in, mGrantRelease) }, nil)
		}
	}
	if fn := r.Anchor(pkgBL, "balloons.fillableBalloonInstances"); fn != nil {
		newBalloon := e.Fn(pkgBL, "balloons.newBalloon")
		nb := e.callsTo(fn, newBalloon)
		if len(nb) == 1 {
			var undo *ssa.Function
			for _, a := range fn.AnonFuncs {
				// the closure that runs the collected undo functions: it ranges over a captured slice of funcs and calls them
				calls := false
				AllInstrs(a, func(in ssa.Instruction) {
					if c, ok := in.(*ssa.Call); ok && c.Common().StaticCallee() == nil && !c.Common().IsInvoke() {
						if _, isB := c.Common().Value.(*ssa.Builtin); !isB {
							calls = true
						}
					}
				})
				if calls && len(a.Params) == 0 && undo == nil {
					undo = a
				}
			}
			newBln := ssa.Value(nil)
			for _, ref := range *nb[0].Value().Referrers() {
				if ex, ok := ref.(*ssa.Extract); ok && ex.Index == 0 {
					newBln = ex
				}
			}
			if undo == nil || newBln == nil {
				r.Undecided("R13:bl-new-balloon-undo", "R13 error-path undo", "undo closure and new balloon value are identifiable", e.Pos(fn.Pos()), fn, "not found")
			} else {
				isUndo := func(in ssa.Instruction) bool { return e.IsCallTo(in, fset(undo)) }
				// every return reachable after a successful newBalloon that does not hand out the new balloon passes undo()
				bad := FindPath(PathQuery{Fn: fn, From: nb[0].(ssa.Instruction), Assume: callSucceeded(nb[0].Value()), Block: isUndo,
					Target: func(in ssa.Instruction) bool {
						ret, ok := in.(*ssa.Return)
						if !ok {
							return false
						}
						return !sliceLiteralContains(retValue(ret, 0), newBln)
					}})
				r.Check("R13:bl-new-balloon-undo", "R13 error-path undo", "every exit after a new balloon was created that does not return it undoes the creation (CPUs back to the free set)",
					e.InstrPos(nb[0]), fn, bad == nil, e.pathString(bad), true)
				// … and the undo really gives the CPUs back: among the functions undo() may run (the closures appended to
				// the captured slice) one stores freeCpus ∪ (the new balloon's CPUs) into the free set
				fFreeCpus := e.Field(pkgBL, "balloons", "freeCpus")
				fBlnCpus := e.Field(pkgBL, "Balloon", "Cpus")
				gives := false
				seenF := map[*ssa.Function]bool{}
				var visit func(g *ssa.Function, d int)
				visit = func(g *ssa.Function, d int) {
					if g == nil || seenF[g] || d > 4 {
						return
					}
					seenF[g] = true
					AllInstrs(g, func(in ssa.Instruction) {
						if st, ok := in.(*ssa.Store); ok && fieldOfAddr(st.Addr) == fFreeCpus {
							if call, ok := st.Val.(*ssa.Call); ok && callObj(call.Common()) != nil && callObj(call.Common()).Name() == "Union" {
								a := callArgs(call)
								f0, _ := loadedField(a[0])
								f1, b1 := loadedField(variadicSingle(a[1]))
								if f0 == fFreeCpus && f1 == fBlnCpus {
									// the balloon whose CPUs are returned is the new one
									if u, ok := b1.(*ssa.UnOp); ok {
										if al := cellOf(u.X); al != nil {
											for _, cs := range cellStores(al) {
												if cs.Val == newBln {
													gives = true
												}
											}
										}
									}
									if b1 == newBln {
										gives = true
									}
								}
							}
						}
						if ci, ok := in.(ssa.CallInstruction); ok {
							for _, h := range e.Callees(ci) {
								if TopParent(h) == fn {
									visit(h, d+1)
								}
							}
						}
					})
				}
				visit(undo, 0)
				r.Check("R13:bl-new-balloon-undo-returns-cpus", "R13 error-path undo", "undoing the creation of a balloon returns that balloon's CPUs to the free set", e.Pos(undo.Pos()), undo, gives, "", true)
			}
		}
	}

	// a released grant's cold-start timer is stopped: StopTimer calls Stop() on the timer it holds (a timer left running
	// would later re-allocate memory for a container that is gone)
	if fn := r.Anchor(pkgTA, "grant.StopTimer"); fn != nil {
		fT := e.Field(pkgTA, "grant", "coldStartTimer")
		set := func(cond ssa.Value) (bool, bool) {
			b, ok := cond.(*ssa.BinOp)
			if !ok || (b.Op != token.EQL && b.Op != token.NEQ) {
				return false, false
			}
			for _, pr := range [][2]ssa.Value{{b.X, b.Y}, {b.Y, b.X}} {
				if k, isK := pr[1].(*ssa.Const); isK && k.IsNil() && isFieldLoad(pr[0], fT) {
					return true, b.Op == token.NEQ
				}
			}
			return false, false
		}
		stops := func(in ssa.Instruction) bool {
			ci, ok := in.(ssa.CallInstruction)
			if !ok || callObj(ci.Common()) == nil || callObj(ci.Common()).Name() != "Stop" {
				return false
			}
			a := callArgs(ci)
			return len(a) >= 1 && isFieldLoad(a[0], fT)
		}
		p := FindPath(PathQuery{Fn: fn, Assume: set, Target: isRet, Block: stops})
		r.Check("R1:ta-stoptimer-stops", "R1 release pairing", "grant.StopTimer stops the cold-start timer the grant holds", e.Pos(fn.Pos()), fn, p == nil && fT != nil, e.pathString(p), true)
	}

	// ------------------------------------------------------------------ R2 stopped never re-admitted
	checkReadmission(e, r)

	// ------------------------------------------------------------------ R5 ledger symmetry
	checkLedgerSymmetry(e, r)
}

// isElementOfParam: v is an element read from the slice parameter #idx
// (range loop element), directly.
func isElementOfParam(v ssa.Value, idx int) bool {
	ok := false
	Origins(v, func(x ssa.Value) bool {
		if u, isU := x.(*ssa.UnOp); isU && u.Op == token.MUL {
			if ia, isIA := u.X.(*ssa.IndexAddr); isIA && paramIndex(ia.X) == idx {
				ok = true
				return true
			}
		}
		return false
	})
	return ok
}

// sliceLiteralContains: v is a slice literal one of whose elements is elem.
func sliceLiteralContains(v ssa.Value, elem ssa.Value) bool {
	sl, ok := v.(*ssa.Slice)
	if !ok {
		return false
	}
	al, ok := sl.X.(*ssa.Alloc)
	if !ok {
		return false
	}
	for _, ref := range *al.Referrers() {
		if ia, ok := ref.(*ssa.IndexAddr); ok {
			for _, r2 := range *ia.Referrers() {
				if st, ok := r2.(*ssa.Store); ok && (st.Val == elem || sameValue(st.Val, elem)) {
					return true
				}
				if st, ok := r2.(*ssa.Store); ok {
					// the variable holding elem
					found := false
					Origins(st.Val, func(x ssa.Value) bool {
						if x == elem {
							found = true
							return true
						}
						return false
					})
					if found {
						return true
					}
				}
			}
		}
	}
	return false
}

// ---------------------------------------------------------------------------
// R2: sources of Sync's add list and of AllocateResources arguments

type sliceElem struct {
	Fn   *ssa.Function
	At   ssa.Instruction
	Elem ssa.Value
}

type sliceSrc struct {
	elems      []sliceElem
	unfiltered []string // collections taken wholesale (e.g. cache.GetContainers())
	unknown    []string
}

// traceSlice finds how the slice value v (in fn) is built.
func traceSlice(e *Engine, fn *ssa.Function, v ssa.Value, out *sliceSrc, seen map[ssa.Value]bool, depth int) {
	if v == nil || seen[v] || depth > 12 {
		return
	}
	seen[v] = true
	switch x := v.(type) {
	case *ssa.Const:
		return
	case *ssa.MakeSlice:
		return
	case *ssa.Phi:
		for _, ed := range x.Edges {
			traceSlice(e, fn, ed, out, seen, depth+1)
		}
	case *ssa.Slice:
		if al, ok := x.X.(*ssa.Alloc); ok {
			// slice literal: elements are stored through IndexAddr
			for _, ref := range *al.Referrers() {
				if ia, ok := ref.(*ssa.IndexAddr); ok {
					for _, r2 := range *ia.Referrers() {
						if st, ok := r2.(*ssa.Store); ok {
							out.elems = append(out.elems, sliceElem{fn, st, st.Val})
						}
					}
				}
			}
			return
		}
		traceSlice(e, fn, x.X, out, seen, depth+1)
	case *ssa.UnOp:
		if x.Op == token.MUL {
			if al, ok := x.X.(*ssa.Alloc); ok {
				for _, r := range *al.Referrers() {
					if st, ok := r.(*ssa.Store); ok && st.Addr == al {
						traceSlice(e, fn, st.Val, out, seen, depth+1)
					}
				}
				return
			}
		}
		out.unknown = append(out.unknown, e.InstrPos(x)+" "+x.String())
	case *ssa.Extract:
		if call, ok := x.Tuple.(*ssa.Call); ok {
			traceCallResult(e, call, x.Index, out, seen, depth)
			return
		}
		out.unknown = append(out.unknown, x.String())
	case *ssa.Call:
		if b, ok := x.Common().Value.(*ssa.Builtin); ok && b.Name() == "append" {
			traceSlice(e, fn, x.Common().Args[0], out, seen, depth+1)
			traceSlice(e, fn, x.Common().Args[1], out, seen, depth+1)
			return
		}
		traceCallResult(e, x, 0, out, seen, depth)
	case *ssa.Parameter:
		idx := paramIndex(x)
		callers := e.Callers(fn)
		if len(callers) == 0 {
			out.unknown = append(out.unknown, "parameter "+x.Name()+" of "+FnName(fn)+" (no callers)")
		}
		for _, cs := range callers {
			a := callArgs(cs.Call)
			if idx < len(a) {
				traceSlice(e, cs.Fn, a[idx], out, seen, depth+1)
			}
		}
	default:
		out.unknown = append(out.unknown, fmt.Sprintf("%T %s", v, v.String()))
	}
}

func traceCallResult(e *Engine, call *ssa.Call, idx int, out *sliceSrc, seen map[ssa.Value]bool, depth int) {
	o := callObj(call.Common())
	if o != nil && o.Name() == "GetContainers" {
		out.unfiltered = append(out.unfiltered, e.InstrPos(call)+" "+o.Name()+"()")
		return
	}
	callees := e.Callees(call)
	if len(callees) == 0 {
		out.unknown = append(out.unknown, e.InstrPos(call)+" unresolved call")
		return
	}
	for _, g := range callees {
		if g.Blocks == nil || !isRepoFn(g) {
			out.unknown = append(out.unknown, e.InstrPos(call)+" result of "+g.String())
			continue
		}
		for _, ret := range Returns(g) {
			traceSlice(e, g, retValue(ret, idx), out, seen, depth+1)
		}
	}
}

func checkReadmission(e *Engine, r *Report) {
	getState := e.objs(pkgCA, "Container.GetState")
	created, _ := e.TypesPkg(pkgCA).Scope().Lookup("ContainerStateCreated").(*types.Const)
	running, _ := e.TypesPkg(pkgCA).Scope().Lookup("ContainerStateRunning").(*types.Const)
	syncObjs := e.objs(pkgPolicy, "Policy.Sync", "Backend.Sync")
	syncObjs = append(syncObjs, e.objs(pkgTA, "policy.Sync")...)
	syncObjs = append(syncObjs, e.objs(pkgBL, "balloons.Sync")...)
	// an element is admitted only if its state is Created or Running: with both comparisons false the append is unreachable
	notLive := func(elem ssa.Value) Assumption {
		return func(cond ssa.Value) (bool, bool) {
			b, ok := cond.(*ssa.BinOp)
			if !ok || (b.Op != token.EQL && b.Op != token.NEQ) {
				return false, false
			}
			call, ok := b.X.(*ssa.Call)
			if !ok || callObj(call.Common()) == nil {
				return false, false
			}
			isGS := false
			for _, g := range getState {
				if callObj(call.Common()) == g {
					isGS = true
				}
			}
			if !isGS || !sameValue(callArgs(call)[0], elem) {
				return false, false
			}
			if isConstEq(b.Y, created) || isConstEq(b.Y, running) {
				return true, b.Op == token.NEQ
			}
			return false, false
		}
	}
	nsites := 0
	for _, fn := range e.RepoFuncs {
		tp := TopParent(fn)
		if tp.Pkg == nil {
			continue
		}
		// forwarding wrappers are followed through their parameters by traceSlice; start at real sources only
		AllInstrs(fn, func(in ssa.Instruction) {
			if !isCallOfObj(in, syncObjs) {
				return
			}
			a := callArgs(in.(ssa.CallInstruction))
			if len(a) != 3 {
				return
			}
			if paramIndex(a[1]) >= 0 && tp.Name() == "Sync" {
				return // a Sync forwarding its own add parameter: covered at its callers
			}
			nsites++
			src := &sliceSrc{}
			traceSlice(e, fn, a[1], src, map[ssa.Value]bool{}, 0)
			key := "R2:sync-add@" + FnName(fn)
			ok := len(src.unfiltered) == 0 && len(src.unknown) == 0
			w := ""
			if len(src.unfiltered) > 0 {
				w = "add list is an unfiltered collection: " + fmt.Sprint(src.unfiltered)
			}
			if len(src.unknown) > 0 {
				w += " untraceable sources: " + fmt.Sprint(src.unknown)
			}
			r.Check(key, "R2 stopped-never-readmitted", "the add list handed to Sync is built element by element (never a whole cache listing)", e.InstrPos(in), fn, ok, w, true)
			for _, el := range src.elems {
				p := FindPath(PathQuery{Fn: el.Fn, Assume: notLive(el.Elem), Target: func(x ssa.Instruction) bool { return x == el.At }})
				w := ""
				if p != nil {
					w = "reachable for a container in any other state via " + e.pathString(p)
				}
				r.Check(key+"#element@"+FnName(el.Fn), "R2 stopped-never-readmitted",
					"a container is put on Sync's add list only when its state is Created or Running", e.InstrPos(el.At), el.Fn, p == nil, w, true)
			}
			if len(src.elems) == 0 && ok {
				r.Check(key+"#elements", "R2 stopped-never-readmitted", "at least one element source of the add list was found", e.InstrPos(in), fn, false, "no element sources found", true)
			}
		})
	}
	r.MinInstances("Sync call sites with an own add list", nsites, 2)

	// AllocateResources arguments
	allocObjs := e.objs(pkgPolicy, "Policy.AllocateResources", "Backend.AllocateResources")
	allocObjs = append(allocObjs, e.objs(pkgTA, "policy.AllocateResources")...)
	allocObjs = append(allocObjs, e.objs(pkgBL, "balloons.AllocateResources")...)
	insert := e.objs(pkgCA, "Cache.InsertContainer")
	na := 0
	for _, fn := range e.RepoFuncs {
		tp := TopParent(fn)
		if tp.Pkg == nil {
			continue
		}
		AllInstrs(fn, func(in ssa.Instruction) {
			if !isCallOfObj(in, allocObjs) {
				return
			}
			a := callArgs(in.(ssa.CallInstruction))
			if len(a) != 2 {
				return
			}
			na++
			arg := a[1]
			kind := ""
			switch {
			case paramIndex(arg) == 1 && tp.Name() == "AllocateResources":
				kind = "forwarded parameter of an AllocateResources wrapper"
			case paramIndex(arg) == 1 && tp.Name() == "UpdateResources":
				kind = "subject of an UpdateContainer request (allowed source, residual risk noted)"
			case tp.Name() == "Sync" && isElementOfParam(arg, 1):
				kind = "element of Sync's add list"
			default:
				if originAll(arg, func(v ssa.Value) bool {
					ex, ok := v.(*ssa.Extract)
					if !ok || ex.Index != 0 {
						return false
					}
					call, ok := ex.Tuple.(*ssa.Call)
					return ok && isCallOfObj(call, insert)
				}) {
					kind = "the container being created (InsertContainer result)"
				}
			}
			r.Check("R2:allocate-arg@"+FnName(fn), "R2 stopped-never-readmitted",
				"AllocateResources is called only for the container being created, an element of Sync's add list, or the subject of an update", e.InstrPos(in), fn, kind != "", kind, true)
		})
	}
	r.MinInstances("AllocateResources call sites", na, 3)
}
