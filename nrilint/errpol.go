package main

import (
	"fmt"
	"go/token"
	"go/types"
	"sort"
	"strings"

	"golang.org/x/tools/go/ssa"
)

// Error polarity (R14): on the branch where an error value is known to be nil
// it is never reported as a failure (wrapped into a new error, or logged at
// warning/error level). A check `if err != nil { return wrap(err) }` whose
// sense is inverted turns every success into a failure and lets every failure
// continue; this rule makes the inversion visible at the site. The rule has no
// instance on a correct tree; a stored mutant keeps it honest.

func sameErrValue(a, b ssa.Value) bool {
	if a == b {
		return true
	}
	ua, ok1 := a.(*ssa.UnOp)
	ub, ok2 := b.(*ssa.UnOp)
	if ok1 && ok2 && ua.Op == token.MUL && ub.Op == token.MUL && ua.X == ub.X {
		if al, ok := ua.X.(*ssa.Alloc); ok {
			sa, sb := reachingStores(al, ua), reachingStores(al, ub)
			if len(sa) != len(sb) || len(sa) == 0 {
				return false
			}
			for i := range sa {
				if sa[i] != sb[i] {
					return false
				}
			}
			return true
		}
	}
	return false
}

func isFailureReport(e *Engine, in ssa.Instruction) (ssa.CallInstruction, bool) {
	ci, ok := in.(ssa.CallInstruction)
	if !ok {
		return nil, false
	}
	cc := ci.Common()
	// constructs an error
	if v := ci.Value(); v != nil && isErrorType(v.Type()) {
		return ci, true
	}
	name := ""
	if o := callObj(cc); o != nil {
		name = o.Name()
	}
	for _, p := range []string{"Error", "Errorf", "Warn", "Warnf", "Warning", "Warningf", "Fatal", "Fatalf", "Panic", "Panicf"} {
		if name == p {
			return ci, true
		}
	}
	return nil, false
}

func callMentions(ci ssa.CallInstruction, errV ssa.Value) bool {
	for _, a := range ci.Common().Args {
		if sameErrValue(a, errV) {
			return true
		}
		// variadic ...interface{}: elements of the slice literal
		for _, el := range sliceLiteralElems(a) {
			if mi, ok := el.(*ssa.MakeInterface); ok {
				el = mi.X
			}
			if ct, ok := el.(*ssa.ChangeInterface); ok {
				el = ct.X
			}
			if sameErrValue(el, errV) {
				return true
			}
		}
		if mi, ok := a.(*ssa.MakeInterface); ok && sameErrValue(mi.X, errV) {
			return true
		}
	}
	return false
}

// checkErrorPolarity scans the functions of the given packages.
func checkErrorPolarity(e *Engine, r *Report, rule string, pkgs ...string) {
	nChecks := 0
	for _, fn := range e.funcsInPkg(pkgs...) {
		for _, b := range fn.Blocks {
			ifi, ok := lastInstr(b).(*ssa.If)
			if !ok {
				continue
			}
			cond := ifi.Cond
			neg := false
			for {
				u, ok := cond.(*ssa.UnOp)
				if !ok || u.Op != token.NOT {
					break
				}
				neg = !neg
				cond = u.X
			}
			bo, ok := cond.(*ssa.BinOp)
			if !ok || (bo.Op != token.EQL && bo.Op != token.NEQ) {
				continue
			}
			var errV ssa.Value
			for _, pr := range [][2]ssa.Value{{bo.X, bo.Y}, {bo.Y, bo.X}} {
				if k, isK := pr[1].(*ssa.Const); isK && k.IsNil() && isErrorType(pr[0].Type()) {
					errV = pr[0]
				}
			}
			if errV == nil {
				continue
			}
			if _, isParam := errV.(*ssa.Parameter); isParam {
				continue
			}
			nChecks++
			nilOnTrue := (bo.Op == token.EQL) != neg
			nilSucc, otherSucc := b.Succs[0], b.Succs[1]
			if !nilOnTrue {
				nilSucc, otherSucc = b.Succs[1], b.Succs[0]
			}
			if nilSucc == otherSucc || len(nilSucc.Preds) != 1 {
				continue // the nil branch merges with other paths at once: nothing is known there
			}
			for _, d := range fn.Blocks {
				if !nilSucc.Dominates(d) {
					continue
				}
				for _, in := range d.Instrs {
					ci, ok := isFailureReport(e, in)
					if !ok || !callMentions(ci, errV) {
						continue
					}
					name := "call"
					if o := callObj(ci.Common()); o != nil {
						name = o.Name()
					}
					r.Check("R14:nil-error-reported-as-failure@"+FnName(TopParent(fn)), rule, "an error value that is known to be nil on this branch is not wrapped or logged as a failure (the sense of the error check is not inverted)", e.InstrPos(in), fn, false,
						"`"+name+"(… err …)` on the branch where that err == nil (test at "+e.InstrPos(ifi)+")", true)
				}
			}
		}
	}
	r.Check("R14:error-polarity-scanned@"+strings.Join(shortAll(pkgs), "+"), rule, "error checks scanned for inverted polarity", "-", nil, nChecks > 0, "", false)
}

func shortAll(pkgs []string) []string {
	var out []string
	for _, p := range pkgs {
		out = append(out, short(p))
	}
	return out
}

var _ = types.Typ

// ---- R14b: failures that are propagated stay propagated --------------------------------------------------------
//
// errorPropagations lists, for the functions of the given packages that return an error, the calls after whose failure
// (err != nil) no path reaches a return that may report success: the failure is propagated. The instances found on the
// reviewed tree are frozen in propagatedFailures; the rule checks that each still propagates.
type propagation struct {
	Fn     *ssa.Function
	Call   ssa.CallInstruction
	Callee string
	Path   []ssa.Instruction // nil when it propagates
}

func (e *Engine) errorPropagations(pkgs ...string) []propagation {
	var out []propagation
	for _, fn := range e.funcsInPkg(pkgs...) {
		res := fn.Signature.Results()
		if res.Len() == 0 || !isErrorType(res.At(res.Len()-1).Type()) {
			continue
		}
		AllInstrs(fn, func(in ssa.Instruction) {
			ci, ok := in.(ssa.CallInstruction)
			if !ok || ci.Value() == nil {
				return
			}
			if _, isDefer := in.(*ssa.Defer); isDefer {
				return
			}
			var t types.Type = ci.Value().Type()
			if tup, ok := t.(*types.Tuple); ok {
				if tup.Len() == 0 {
					return
				}
				t = tup.At(tup.Len() - 1).Type()
			}
			if !isErrorType(t) {
				return
			}
			name := "?"
			if o := callObj(ci.Common()); o != nil {
				name = o.Name()
				if sig, ok := o.Type().(*types.Signature); ok && sig.Recv() != nil {
					if n := namedOf(sig.Recv().Type()); n != nil {
						name = n.Obj().Name() + "." + name
					}
				} else if o.Pkg() != nil {
					name = o.Pkg().Name() + "." + name
				}
			}
			failed := func(cond ssa.Value) (bool, bool) {
				k, v := callSucceeded(ci.Value())(cond)
				return k, !v
			}
			p := FindPath(PathQuery{Fn: fn, From: in, Assume: failed, Target: func(x ssa.Instruction) bool {
				ret, ok := x.(*ssa.Return)
				if !ok {
					return false
				}
				v := retValue(ret, len(ret.Results)-1)
				derived := false
				Origins(v, func(o ssa.Value) bool {
					if isErrOf(o, ci.Value()) {
						derived = true
					}
					return derived
				})
				return !derived && e.ClassifyReturn(ret) != retNonNilErr
			}})
			out = append(out, propagation{fn, ci, name, p})
		})
	}
	return out
}

func isErrorConstructor(callee string) bool {
	for _, suf := range []string{"fmt.Errorf", "errors.New", "errors.Join", "Error", "Errorf"} {
		if callee == suf || strings.HasSuffix(callee, "."+suf) || strings.HasSuffix(callee, "Error") {
			return true
		}
	}
	return false
}

func propagationKey(pr propagation) string {
	return FnName(TopParent(pr.Fn)) + " <- " + pr.Callee
}

// checkErrorPropagation (R14b): for the (function <- callee) pairs frozen in propagatedFailures — confirmed on the
// reviewed tree: after that call fails, the function cannot return success — every present call site of a pair all of
// whose sites propagated still propagates, and a pair with mixed sites has at least as many propagating sites as
// before. A pair whose calls have disappeared is not an alarm (the code was restructured); the vacuity guard watches
// the total.
func checkErrorPropagation(e *Engine, r *Report, rule string, pkgs ...string) {
	type acc struct {
		ok, total int
		bad       []propagation
	}
	cur := map[string]*acc{}
	for _, pr := range e.errorPropagations(pkgs...) {
		if isErrorConstructor(pr.Callee) {
			continue
		}
		k := propagationKey(pr)
		if _, frozen := propagatedFailures[k]; !frozen {
			continue
		}
		a := cur[k]
		if a == nil {
			a = &acc{}
			cur[k] = a
		}
		a.total++
		if pr.Path == nil {
			a.ok++
		} else {
			a.bad = append(a.bad, pr)
		}
	}
	n := 0
	keys := make([]string, 0, len(cur))
	for k := range cur {
		keys = append(keys, k)
	}
	sort.Strings(keys)
	for _, k := range keys {
		a := cur[k]
		want := propagatedFailures[k]
		n += a.ok
		if want[0] == want[1] { // all sites propagated when reviewed
			for _, pr := range a.bad {
				r.Check("R14:failure-propagated@"+k, rule, "a failure of this call makes the function fail (as on the reviewed tree): no path after `err != nil` reaches a return that reports success", e.InstrPos(pr.Call), pr.Fn, false,
					"after the call failed: "+e.pathString(pr.Path), true)
			}
		} else if a.ok < want[0] && a.total >= want[1] {
			pr := a.bad[0]
			r.Check("R14:failure-propagated@"+k, rule, "as many of these calls propagate their failure as on the reviewed tree", e.InstrPos(pr.Call), pr.Fn, false,
				fmt.Sprintf("%d of %d sites propagate (reviewed: %d of %d); e.g. %s", a.ok, a.total, want[0], want[1], e.pathString(pr.Path)), true)
		}
	}
	r.Check("R14:failure-propagation-scanned@"+strings.Join(shortAll(pkgs), "+"), rule, "calls whose failure must fail the caller re-examined", "-", nil, true, fmt.Sprintf("%d propagating sites of %d frozen pairs present", n, len(cur)), false)
	r.MinInstances("propagating call sites in "+strings.Join(shortAll(pkgs), "+"), n, 3)
}
