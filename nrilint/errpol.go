package main

import (
	"go/token"
	"go/types"
	"strings"

	"golang.org/x/tools/go/ssa"
)

// Error polarity (R14): on the branch where an error value is known to be nil
// it is never reported as a failure (wrapped into a new error, or logged at
// warning/error level). A check `if err != nil { return wrap(err) }` whose
// sense is inverted turns every success into a failure and lets every failure
// continue; this rule makes the inversion visible at the site. The rule has no
// instance on a correct tree; a stored mutant keeps it honest.

func sameErrValue(a, b ssa.Value) bool {
	if a == b {
		return true
	}
	ua, ok1 := a.(*ssa.UnOp)
	ub, ok2 := b.(*ssa.UnOp)
	if ok1 && ok2 && ua.Op == token.MUL && ub.Op == token.MUL && ua.X == ub.X {
		if al, ok := ua.X.(*ssa.Alloc); ok {
			sa, sb := reachingStores(al, ua), reachingStores(al, ub)
			if len(sa) != len(sb) || len(sa) == 0 {
				return false
			}
			for i := range sa {
				if sa[i] != sb[i] {
					return false
				}
			}
			return true
		}
	}
	return false
}

func isFailureReport(e *Engine, in ssa.Instruction) (ssa.CallInstruction, bool) {
	ci, ok := in.(ssa.CallInstruction)
	if !ok {
		return nil, false
	}
	cc := ci.Common()
	// constructs an error
	if v := ci.Value(); v != nil && isErrorType(v.Type()) {
		return ci, true
	}
	name := ""
	if o := callObj(cc); o != nil {
		name = o.Name()
	}
	for _, p := range []string{"Error", "Errorf", "Warn", "Warnf", "Warning", "Warningf", "Fatal", "Fatalf", "Panic", "Panicf"} {
		if name == p {
			return ci, true
		}
	}
	return nil, false
}

func callMentions(ci ssa.CallInstruction, errV ssa.Value) bool {
	for _, a := range ci.Common().Args {
		if sameErrValue(a, errV) {
			return true
		}
		// variadic ...interface{}: elements of the slice literal
		for _, el := range sliceLiteralElems(a) {
			if mi, ok := el.(*ssa.MakeInterface); ok {
				el = mi.X
			}
			if ct, ok := el.(*ssa.ChangeInterface); ok {
				el = ct.X
			}
			if sameErrValue(el, errV) {
				return true
			}
		}
		if mi, ok := a.(*ssa.MakeInterface); ok && sameErrValue(mi.X, errV) {
			return true
		}
	}
	return false
}

// checkErrorPolarity scans the functions of the given packages.
func checkErrorPolarity(e *Engine, r *Report, rule string, pkgs ...string) {
	nChecks := 0
	for _, fn := range e.funcsInPkg(pkgs...) {
		for _, b := range fn.Blocks {
			ifi, ok := lastInstr(b).(*ssa.If)
			if !ok {
				continue
			}
			cond := ifi.Cond
			neg := false
			for {
				u, ok := cond.(*ssa.UnOp)
				if !ok || u.Op != token.NOT {
					break
				}
				neg = !neg
				cond = u.X
			}
			bo, ok := cond.(*ssa.BinOp)
			if !ok || (bo.Op != token.EQL && bo.Op != token.NEQ) {
				continue
			}
			var errV ssa.Value
			for _, pr := range [][2]ssa.Value{{bo.X, bo.Y}, {bo.Y, bo.X}} {
				if k, isK := pr[1].(*ssa.Const); isK && k.IsNil() && isErrorType(pr[0].Type()) {
					errV = pr[0]
				}
			}
			if errV == nil {
				continue
			}
			if _, isParam := errV.(*ssa.Parameter); isParam {
				continue
			}
			nChecks++
			nilOnTrue := (bo.Op == token.EQL) != neg
			nilSucc, otherSucc := b.Succs[0], b.Succs[1]
			if !nilOnTrue {
				nilSucc, otherSucc = b.Succs[1], b.Succs[0]
			}
			if nilSucc == otherSucc || len(nilSucc.Preds) != 1 {
				continue // the nil branch merges with other paths at once: nothing is known there
			}
			for _, d := range fn.Blocks {
				if !nilSucc.Dominates(d) {
					continue
				}
				for _, in := range d.Instrs {
					ci, ok := isFailureReport(e, in)
					if !ok || !callMentions(ci, errV) {
						continue
					}
					name := "call"
					if o := callObj(ci.Common()); o != nil {
						name = o.Name()
					}
					r.Check("R14:nil-error-reported-as-failure@"+FnName(TopParent(fn)), rule, "an error value that is known to be nil on this branch is not wrapped or logged as a failure (the sense of the error check is not inverted)", e.InstrPos(in), fn, false,
						"`"+name+"(… err …)` on the branch where that err == nil (test at "+e.InstrPos(ifi)+")", true)
				}
			}
		}
	}
	r.Check("R14:error-polarity-scanned@"+strings.Join(shortAll(pkgs), "+"), rule, "error checks scanned for inverted polarity", "-", nil, nChecks > 0, "", false)
}

func shortAll(pkgs []string) []string {
	var out []string
	for _, p := range pkgs {
		out = append(out, short(p))
	}
	return out
}

var _ = types.Typ
