package main

import (
	"fmt"
	"go/token"
	"go/types"
	"strings"

	"golang.org/x/tools/go/ssa"
)

// Subset typing of CPU sets in the balloons CPU-tree resizers (C02).
//
// Every cpuset value gets a type T ⊆ {F, C, O}: the value is a subset of the
// union of the named origins — F: the resizer's freeCpus argument, C: its
// currentCpus argument, O: anything else (topology hints, node CPUs). The
// rules are those of set inclusion:
//
//	Union(a,b) : Ta ∪ Tb      Intersection(a,b) : Ta ∩ Tb      Difference(a,b), Clone(a) : Ta
//	New(x…) : ∪ T(x)          an element of X.List()/UnsortedList() : TX          New() : ∅
//	results of a nested resizer call (free', cur') : (T(free'), T(cur')) — the induction hypothesis
//	parameters of helpers : ∪ over call sites      struct fields : ∪ over all stores      phi : ∪ (least fixpoint)
//
// The contract "addFrom ⊆ freeCpus" holds if every first result returned by a
// resizer has type ⊆ {F}.

type subT uint8

const (
	stF subT = 1 << iota
	stC
	stO
)

func (t subT) String() string {
	var p []string
	if t&stF != 0 {
		p = append(p, "free")
	}
	if t&stC != 0 {
		p = append(p, "current")
	}
	if t&stO != 0 {
		p = append(p, "other")
	}
	if len(p) == 0 {
		return "∅"
	}
	return strings.Join(p, "∪")
}

type subsetTyper struct {
	e        *Engine
	pkg      string
	resizer  func(*ssa.Function) (curIdx, freeIdx int, ok bool)
	memo     map[ssa.Value]subT
	inProg   map[ssa.Value]bool
	fieldMem map[*types.Var]subT
	fieldIn  map[*types.Var]bool
	changed  bool
}

func (st *subsetTyper) isSet(v ssa.Value) bool { return isCPUSetType(v.Type()) }

func (st *subsetTyper) typeOf(v ssa.Value) subT {
	if t, ok := st.memo[v]; ok && !st.inProg[v] {
		return t
	}
	if st.inProg[v] {
		return st.memo[v] // partial (fixpoint iteration re-runs until stable)
	}
	st.inProg[v] = true
	t := st.compute(v)
	delete(st.inProg, v)
	if old, ok := st.memo[v]; !ok || old != t {
		st.changed = true
	}
	st.memo[v] = t
	return t
}

func (st *subsetTyper) elemType(v ssa.Value) subT {
	// an int CPU id (or a slice of them) taken from a set's List()/UnsortedList(), possibly through locals, phis,
	// conversions, append and slice literals. Any leaf of another origin makes the result unknown (top).
	t := subT(0)
	unknown := false
	seen := map[ssa.Value]bool{}
	var walk func(x ssa.Value, d int)
	walk = func(x ssa.Value, d int) {
		if seen[x] {
			return
		}
		if d > 16 {
			unknown = true
			return
		}
		seen[x] = true
		switch y := x.(type) {
		case *ssa.UnOp:
			if y.Op == token.MUL {
				switch a := y.X.(type) {
				case *ssa.IndexAddr:
					walk(a.X, d+1)
					return
				case *ssa.Alloc:
					for _, s := range reachingStores(a, y) {
						walk(s.Val, d+1)
					}
					return
				}
			}
		case *ssa.Index:
			walk(y.X, d+1)
			return
		case *ssa.Phi:
			for _, ed := range y.Edges {
				walk(ed, d+1)
			}
			return
		case *ssa.Convert:
			walk(y.X, d+1)
			return
		case *ssa.Extract:
			walk(y.Tuple, d+1)
			return
		case *ssa.Next:
			if rg, ok := y.Iter.(*ssa.Range); ok {
				walk(rg.X, d+1)
				return
			}
		case *ssa.Const:
			if y.Value == nil { // nil slice: no elements
				return
			}
		case *ssa.Call:
			if o := callObj(y.Common()); o != nil && (o.Name() == "List" || o.Name() == "UnsortedList") && len(callArgs(y)) > 0 && st.isSet(callArgs(y)[0]) {
				t |= st.typeOf(callArgs(y)[0])
				return
			}
			if bi, ok := y.Common().Value.(*ssa.Builtin); ok && bi.Name() == "append" {
				for _, a := range y.Common().Args {
					walk(a, d+1)
				}
				return
			}
		case *ssa.Slice:
			walk(y.X, d+1)
			return
		case *ssa.Alloc:
			// a backing array (slice literal, append's variadic argument): every element stored into it
			var elT types.Type = y.Type()
			if pt, ok := elT.Underlying().(*types.Pointer); ok {
				elT = pt.Elem()
			}
			if _, isArr := elT.Underlying().(*types.Array); isArr {
				for _, ref := range *y.Referrers() {
					if ia, ok := ref.(*ssa.IndexAddr); ok {
						for _, r2 := range *ia.Referrers() {
							if s, ok := r2.(*ssa.Store); ok && s.Addr == ssa.Value(ia) {
								walk(s.Val, d+1)
							}
						}
					}
				}
				return
			}
		}
		unknown = true
	}
	walk(v, 0)
	if unknown {
		return stF | stC | stO
	}
	return t
}

func (st *subsetTyper) compute(v ssa.Value) subT {
	top := stF | stC | stO
	switch x := v.(type) {
	case *ssa.Parameter:
		fn := x.Parent()
		pi := paramIndex(x)
		if cur, free, ok := st.resizer(fn); ok {
			switch pi {
			case cur:
				return stC
			case free:
				return stF
			}
		}
		cs := st.e.Callers(fn)
		if len(cs) == 0 {
			return top
		}
		t := subT(0)
		for _, c := range cs {
			a := callArgs(c.Call)
			if pi < len(a) {
				t |= st.typeOf(a[pi])
			} else {
				t = top
			}
		}
		return t
	case *ssa.FreeVar:
		cz := &canonizer{e: st.e}
		if b, mk := cz.closureBinding(x); b != nil {
			if al, ok := b.(*ssa.Alloc); ok {
				t := subT(0)
				for _, s := range reachingStores(al, mk) {
					t |= st.typeOf(s.Val)
				}
				// later stores in the parent also flow in (captured by reference)
				for _, ref := range *al.Referrers() {
					if s, ok := ref.(*ssa.Store); ok && s.Addr == ssa.Value(al) {
						t |= st.typeOf(s.Val)
					}
				}
				return t
			}
			return st.typeOf(b)
		}
		return top
	case *ssa.Global:
		if x.Name() == "emptyCpuSet" {
			return 0
		}
		return top
	case *ssa.Phi:
		t := subT(0)
		for _, ed := range x.Edges {
			t |= st.typeOf(ed)
		}
		return t
	case *ssa.UnOp:
		if x.Op != token.MUL {
			return top
		}
		switch a := x.X.(type) {
		case *ssa.Alloc:
			t := subT(0)
			sts := reachingStores(a, x)
			if len(sts) == 0 {
				return 0 // zero value: the empty set
			}
			for _, s := range sts {
				t |= st.typeOf(s.Val)
			}
			return t
		case *ssa.FreeVar:
			return st.typeOf(a)
		case *ssa.Global:
			return st.typeOf(a)
		case *ssa.FieldAddr:
			return st.fieldType(fieldOfAddr(a))
		case *ssa.IndexAddr:
			// element of a slice of sets (hint lists): unknown origin
			return top
		}
		return top
	case *ssa.Extract:
		call, ok := x.Tuple.(*ssa.Call)
		if !ok {
			return top
		}
		// nested resizer call: resizers[0](remaining, cur, free, delta) or a static resizer / nextCpuResizer
		args := call.Common().Args
		var cur, free ssa.Value
		if callee := call.Common().StaticCallee(); callee != nil {
			if ci, fi, ok := st.resizer(callee); ok && fi < len(args) {
				cur, free = args[ci], args[fi]
			}
		} else if sig, ok := call.Common().Value.Type().Underlying().(*types.Signature); ok && sig.Params().Len() == 4 && len(args) == 4 && st.isSet(args[1]) && st.isSet(args[2]) {
			cur, free = args[1], args[2]
		}
		if free == nil {
			return top
		}
		switch x.Index {
		case 0:
			return st.typeOf(free)
		case 1:
			return st.typeOf(cur)
		}
		return top
	case *ssa.Call:
		if isCpusetNewCall(x) {
			if emptyVariadic(x) {
				return 0
			}
			t := subT(0)
			for _, a := range x.Common().Args {
				els := sliceLiteralElems(a)
				if els == nil {
					t |= st.elemType(a)
				}
				for _, el := range els {
					t |= st.elemType(el)
				}
			}
			return t
		}
		if f := x.Common().StaticCallee(); f != nil && f.Pkg != nil && f.Pkg.Pkg.Path() == pkgK8sCpuset {
			a := x.Common().Args
			switch f.Name() {
			case "Clone", "Difference":
				return st.typeOf(a[0])
			case "Intersection":
				return st.typeOf(a[0]) & st.typeOf(a[1])
			case "Union":
				t := st.typeOf(a[0])
				if s := variadicSingle(a[1]); s != a[1] {
					return t | st.typeOf(s)
				}
				for _, el := range sliceLiteralElems(a[1]) {
					t |= st.typeOf(el)
				}
				if sliceLiteralElems(a[1]) == nil {
					return top
				}
				return t
			}
		}
		return top
	}
	return top
}

func (st *subsetTyper) fieldType(f *types.Var) subT {
	if t, ok := st.fieldMem[f]; ok && !st.fieldIn[f] {
		return t
	}
	if st.fieldIn[f] {
		return st.fieldMem[f]
	}
	st.fieldIn[f] = true
	t := subT(0)
	n := 0
	for _, fn := range st.e.funcsInPkg(st.pkg) {
		AllInstrsOf(fn, func(in ssa.Instruction) {
			if s, ok := in.(*ssa.Store); ok && fieldOfAddr(s.Addr) == f {
				n++
				t |= st.typeOf(s.Val)
			}
		})
	}
	delete(st.fieldIn, f)
	if n == 0 {
		t = stF | stC | stO
	}
	if old, ok := st.fieldMem[f]; !ok || old != t {
		st.changed = true
	}
	st.fieldMem[f] = t
	return t
}

// checkResizerSubsets decides addFrom ⊆ freeCpus for every resizer of the CPU tree allocator.
func checkResizerSubsets(e *Engine, r *Report) {
	rule := "R11 partition frame lemmas"
	top := r.Anchor(pkgBL, "cpuTreeAllocator.ResizeCpus")
	if top == nil {
		return
	}
	resizer := func(fn *ssa.Function) (int, int, bool) {
		if fn == nil || fn.Signature.Recv() == nil || !strings.Contains(fn.Signature.Recv().Type().String(), "cpuTreeAllocator") {
			return 0, 0, false
		}
		res := fn.Signature.Results()
		if res.Len() != 3 || !isCPUSetType(res.At(0).Type()) || !isCPUSetType(res.At(1).Type()) {
			return 0, 0, false
		}
		// parameters: (recv, [resizers,] currentCpus, freeCpus, delta)
		var idx []int
		for i, p := range fn.Params {
			if isCPUSetType(p.Type()) {
				idx = append(idx, i)
			}
		}
		if len(idx) != 2 {
			return 0, 0, false
		}
		return idx[0], idx[1], true
	}
	st := &subsetTyper{e: e, pkg: pkgBL, resizer: resizer, memo: map[ssa.Value]subT{}, inProg: map[ssa.Value]bool{}, fieldMem: map[*types.Var]subT{}, fieldIn: map[*types.Var]bool{}}
	var fns []*ssa.Function
	for _, fn := range e.funcsInPkg(pkgBL) {
		if _, _, ok := resizer(fn); ok && fn.Parent() == nil {
			fns = append(fns, fn)
		}
	}
	// least fixpoint
	for iter := 0; iter < 10; iter++ {
		st.changed = false
		for _, fn := range fns {
			for _, ret := range Returns(fn) {
				st.typeOf(retValue(ret, 0))
			}
		}
		if !st.changed {
			break
		}
		// re-evaluate everything with the current approximations
		old := st.memo
		st.memo = map[ssa.Value]subT{}
		for k, v := range old {
			st.memo[k] = v
		}
		for k := range old {
			delete(st.memo, k)
			st.inProg = map[ssa.Value]bool{}
			st.memo[k] = old[k] | st.compute(k)
		}
	}
	n := 0
	for _, fn := range fns {
		for _, ret := range Returns(fn) {
			n++
			t := st.typeOf(retValue(ret, 0))
			r.Check("R11:resizer-add-from-within-free@"+fn.Name(), rule, "the candidate set a CPU-tree resizer offers for inflating a balloon is a subset of the free CPUs it was given (subset typing of the cpuset expressions, nested resizers by induction)", e.InstrPos(ret), fn, t&^stF == 0,
				fmt.Sprintf("the returned set may contain CPUs of: %s", t), true)
		}
	}
	r.MinInstances("returns of CPU-tree resizers", n, 8)
}
