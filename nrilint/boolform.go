package main

import (
	"fmt"
	"go/token"
	"sort"

	"golang.org/x/tools/go/ssa"
)

// Boolean path formulas: for a loop-free computation of a bool result, every
// CFG path (under an assumption that decides some branches) yields a
// conjunction of atom literals and a result expression over atoms. Two such
// computations can then be compared by truth table over the atoms (atoms are
// canonicalised SSA expressions, so "the same test" in two arms of a switch is
// the same atom).

type bexpr struct {
	op   string // const | atom | not
	val  bool
	atom string
	x    *bexpr
}

func (b *bexpr) eval(v map[string]bool) bool {
	switch b.op {
	case "const":
		return b.val
	case "atom":
		return v[b.atom]
	}
	return !b.x.eval(v)
}

type blit struct {
	atom string
	val  bool
}

type bpath struct {
	lits   []blit
	result *bexpr
}

type boolFormula struct {
	paths []bpath
	atoms map[string]bool
}

func (f *boolFormula) eval(v map[string]bool) (bool, bool) {
	for _, p := range f.paths {
		ok := true
		for _, l := range p.lits {
			if v[l.atom] != l.val {
				ok = false
				break
			}
		}
		if ok {
			return p.result.eval(v), true
		}
	}
	return false, false
}

// boolFormulaOf computes the formula of result #idx of fn under assumption a.
func boolFormulaOf(e *Engine, fn *ssa.Function, idx int, a Assumption) (*boolFormula, error) {
	cz := &canonizer{e: e, seen: map[ssa.Value]bool{}}
	out := &boolFormula{atoms: map[string]bool{}}
	var err error
	type frame struct {
		preds map[*ssa.BasicBlock]*ssa.BasicBlock
		lits  []blit
	}
	var toExpr func(v ssa.Value, fr *frame, d int) *bexpr
	toExpr = func(v ssa.Value, fr *frame, d int) *bexpr {
		if d > 20 {
			err = fmt.Errorf("expression too deep")
			return &bexpr{op: "const"}
		}
		switch x := v.(type) {
		case *ssa.Const:
			if x.Value != nil {
				return &bexpr{op: "const", val: x.Value.ExactString() == "true"}
			}
		case *ssa.UnOp:
			if x.Op == token.NOT {
				return &bexpr{op: "not", x: toExpr(x.X, fr, d+1)}
			}
		case *ssa.Phi:
			pred := fr.preds[x.Block()]
			for i, p := range x.Block().Preds {
				if p == pred {
					return toExpr(x.Edges[i], fr, d+1)
				}
			}
			err = fmt.Errorf("phi without a recorded predecessor")
			return &bexpr{op: "const"}
		case *ssa.BinOp:
			if x.Op == token.NEQ {
				at := cz.str(&ssa.BinOp{Op: token.EQL, X: x.X, Y: x.Y})
				out.atoms[at] = true
				return &bexpr{op: "not", x: &bexpr{op: "atom", atom: at}}
			}
		}
		at := cz.str(v)
		out.atoms[at] = true
		return &bexpr{op: "atom", atom: at}
	}
	var walk func(b, pred *ssa.BasicBlock, fr *frame, onPath map[*ssa.BasicBlock]bool)
	walk = func(b, pred *ssa.BasicBlock, fr *frame, onPath map[*ssa.BasicBlock]bool) {
		if err != nil {
			return
		}
		if onPath[b] {
			err = fmt.Errorf("loop at block %d", b.Index)
			return
		}
		if fn.Recover != nil && b == fn.Recover {
			return
		}
		onPath[b] = true
		defer delete(onPath, b)
		fr.preds[b] = pred
		last := lastInstr(b)
		switch t := last.(type) {
		case *ssa.Jump:
			walk(b.Succs[0], b, fr, onPath)
		case *ssa.If:
			if known, val := EvalCond(t.Cond, a); known {
				if val {
					walk(b.Succs[0], b, fr, onPath)
				} else {
					walk(b.Succs[1], b, fr, onPath)
				}
				return
			}
			ex := toExpr(t.Cond, fr, 0)
			// reduce to a literal
			neg := false
			for ex.op == "not" {
				neg = !neg
				ex = ex.x
			}
			for bi, want := range []bool{true, false} {
				fr2 := &frame{preds: map[*ssa.BasicBlock]*ssa.BasicBlock{}, lits: append([]blit{}, fr.lits...)}
				for k, v := range fr.preds {
					fr2.preds[k] = v
				}
				switch ex.op {
				case "const":
					if ex.val != (want != neg) {
						continue
					}
				case "atom":
					lv := want != neg
					conflict := false
					for _, l := range fr2.lits {
						if l.atom == ex.atom && l.val != lv {
							conflict = true
						}
					}
					if conflict {
						continue
					}
					fr2.lits = append(fr2.lits, blit{ex.atom, lv})
				}
				walk(b.Succs[bi], b, fr2, onPath)
			}
		case *ssa.Return:
			if idx < len(t.Results) {
				out.paths = append(out.paths, bpath{lits: fr.lits, result: toExpr(t.Results[idx], fr, 0)})
			}
		case *ssa.Panic:
		default:
			err = fmt.Errorf("unsupported terminator %T", last)
		}
	}
	walk(fn.Blocks[0], nil, &frame{preds: map[*ssa.BasicBlock]*ssa.BasicBlock{}}, map[*ssa.BasicBlock]bool{})
	if err != nil {
		return nil, err
	}
	if len(out.paths) == 0 {
		return nil, fmt.Errorf("no path")
	}
	return out, nil
}

// negationOf decides whether g is the pointwise negation of f over all valuations of their atoms.
func negationOf(f, g *boolFormula) (bool, string) {
	set := map[string]bool{}
	for a := range f.atoms {
		set[a] = true
	}
	for a := range g.atoms {
		set[a] = true
	}
	var atoms []string
	for a := range set {
		atoms = append(atoms, a)
	}
	sort.Strings(atoms)
	if len(atoms) > 12 {
		return false, fmt.Sprintf("too many atoms (%d)", len(atoms))
	}
	for m := 0; m < 1<<uint(len(atoms)); m++ {
		v := map[string]bool{}
		for i, a := range atoms {
			v[a] = m&(1<<uint(i)) != 0
		}
		fv, ok1 := f.eval(v)
		gv, ok2 := g.eval(v)
		if !ok1 || !ok2 {
			continue // valuation infeasible on one side (contradictory literals)
		}
		if fv == gv {
			var desc []string
			for _, a := range atoms {
				desc = append(desc, fmt.Sprintf("%s=%v", a, v[a]))
			}
			return false, fmt.Sprintf("both evaluate to %v when %v", fv, desc)
		}
	}
	return true, ""
}
