package main

import (
	"fmt"
	"go/token"
	"go/types"
	"strings"

	"golang.org/x/tools/go/ssa"
)

// C03 — topology-aware: pool CPU capacity is never oversubscribed; grants match requests.
func init() { register("C03", "topology-aware: capacity and eligibility", checkC03) }

func checkC03(e *Engine, r *Report) {
	r.Rules = []string{
		"R2 admission guards dominate the ledger: in AllocateCPU and Reserve every increment of grantedShared/grantedReserved and every slicing of CPUs from the sharable/isolated sets is unreachable when the corresponding capacity test fails",
		"R5 ledger symmetry (shared with C09): increments and the matching decrement use the same amount/accessor",
		"R6 ancestor capping: AllocatableSharedCPU and AllocatableReservedCPU start from 1000*|own set| minus the subtree's grants and take the minimum with the same quantity of every ancestor; node.Granted…CPU sums its own and all children's grants",
		"R2 eligibility table: cpuAllocationPreferences returns exclusive cores only for Guaranteed containers that are not preserve/reserved/sub-core/shared-preferring (and for >= 2 cores with a fraction only when explicitly annotated unshared); BestEffort gets no capacity; isolated CPUs are taken only when all requested cores can be isolated",
		"data-flow cpu.shares: applyGrant sets the CPU weight to MilliCPUToShares of the granted portion (or 1000 per exclusive CPU when there is no portion), using the reserved portion for reserved-class grants",
		"round 4: six capacity scenarios through compareScores; score capacities are the allocatable capacities less the request; reserved-class requests never reach takeCPUs (sign abstraction); cpu.shares encode the portion of the grant's own class; annotation lookups: absent value unused, present value used",
	}
	r.NotDecided = []string{"the inequality 'granted <= 1000 mCPU per CPU' itself over all histories (an inductive value invariant)", "non-emptiness of the allowed CPU set of every pinned container"}
	r.Assumptions = []string{"the pool tree is finite and acyclic (Parent() chains end in a nil node)"}

	fShared := e.Field(pkgTA, "supply", "grantedShared")
	fReserved := e.Field(pkgTA, "supply", "grantedReserved")
	fIso := e.Field(pkgTA, "supply", "isolated")
	fSha := e.Field(pkgTA, "supply", "sharable")
	allocCPU := r.Anchor(pkgTA, "supply.AllocateCPU")
	reserve := r.Anchor(pkgTA, "supply.Reserve")
	allocShared := r.Anchor(pkgTA, "supply.AllocatableSharedCPU")
	allocRes := r.Anchor(pkgTA, "supply.AllocatableReservedCPU")
	take := r.Anchor(pkgTA, "supply.takeCPUs")
	if fShared == nil || fReserved == nil || allocCPU == nil || reserve == nil || allocShared == nil || allocRes == nil || take == nil {
		return
	}
	// ---- rule 1c: a pool with insufficient capacity loses the comparison before any other criterion ------------
	if cs := r.Anchor(pkgTA, "policy.compareScores"); cs != nil && len(cs.Params) >= 7 {
		which := func(recv ssa.Value) int {
			w := 0
			Origins(recv, func(v ssa.Value) bool {
				var idx ssa.Value
				switch x := v.(type) {
				case *ssa.Lookup:
					idx = x.Index
				case *ssa.Extract:
					if lk, ok := x.Tuple.(*ssa.Lookup); ok {
						idx = lk.Index
					}
				}
				if idx == nil {
					return false
				}
				Origins(idx, func(y ssa.Value) bool {
					c, ok := y.(*ssa.Call)
					if !ok || callObj(c.Common()) == nil || callObj(c.Common()).Name() != "NodeID" {
						return false
					}
					Origins(callArgs(c)[0], func(z ssa.Value) bool {
						if u, ok := z.(*ssa.UnOp); ok {
							if ia, ok := u.X.(*ssa.IndexAddr); ok {
								switch paramIndex(ia.Index) {
								case 5:
									w = 1
								case 6:
									w = 2
								}
							}
						}
						return w != 0
					})
					return true
				})
				return true
			})
			return w
		}
		normalK, _ := e.TypesPkg(pkgTA).Scope().Lookup("cpuNormal").(*types.Const)
		reservedK, _ := e.TypesPkg(pkgTA).Scope().Lookup("cpuReserved").(*types.Const)
		type scen struct {
			name   string
			class  *types.Const
			vals   map[string][3]int64 // capacity accessor -> [_, value for pool 1, value for pool 2]
			expect bool
		}
		scens := []scen{
			{"shared-exhausted-2", normalK, map[string][3]int64{"IsolatedCapacity": {0, 0, 0}, "SharedCapacity": {0, 1, 0}}, true},
			{"shared-exhausted-1", normalK, map[string][3]int64{"IsolatedCapacity": {0, 0, 0}, "SharedCapacity": {0, 0, 1}}, false},
			{"isolated-short-2", normalK, map[string][3]int64{"IsolatedCapacity": {0, 0, -1}, "SharedCapacity": {0, 1, 1}}, true},
			{"isolated-short-1", normalK, map[string][3]int64{"IsolatedCapacity": {0, -1, 0}, "SharedCapacity": {0, 1, 1}}, false},
			{"reserved-short-2", reservedK, map[string][3]int64{"ReservedCapacity": {0, 0, -1}}, true},
			{"reserved-short-1", reservedK, map[string][3]int64{"ReservedCapacity": {0, -1, 0}}, false},
		}
		for _, sc := range scens {
			sc := sc
			asm := func(cond ssa.Value) (bool, bool) {
				b, ok := cond.(*ssa.BinOp)
				if !ok {
					return false, false
				}
				// class
				if (b.Op == token.EQL || b.Op == token.NEQ) && (isConstEq(b.Y, normalK) || isConstEq(b.Y, reservedK)) {
					return true, isConstEq(b.Y, sc.class) == (b.Op == token.EQL)
				}
				c, ok := b.X.(*ssa.Call)
				if !ok || callObj(c.Common()) == nil || !isConstInt(b.Y, 0) {
					return false, false
				}
				vals, have := sc.vals[callObj(c.Common()).Name()]
				w := which(callArgs(c)[0])

				if !have || w == 0 {
					return false, false
				}
				x := vals[w]
				switch b.Op {
				case token.LSS:
					return true, x < 0
				case token.LEQ:
					return true, x <= 0
				case token.GTR:
					return true, x > 0
				case token.GEQ:
					return true, x >= 0
				case token.EQL:
					return true, x == 0
				case token.NEQ:
					return true, x != 0
				}
				return false, false
			}
			p := FindPath(PathQuery{Fn: cs, Assume: asm, Target: func(in ssa.Instruction) bool {
				ret, ok := in.(*ssa.Return)
				if !ok {
					return false
				}
				k, isK := ret.Results[0].(*ssa.Const)
				return !isK || k.Value == nil || (k.Value.ExactString() == "true") != sc.expect
			}})
			r.Check("R2:insufficient-pool-loses#"+sc.name, "R2 eligibility table", "in the pool ranking a pool without the needed capacity (shared capacity exhausted at 0, isolated or reserved capacity short) loses against one that has it, before any other criterion is consulted", e.Pos(cs.Pos()), cs, p == nil,
				"scenario "+sc.name+": "+e.pathString(p), true)
		}
	}
	checkAnnotationPolarity(e, r, "R2 eligibility table")
	checkSettersStore(e, r, "R5 ledger symmetry", pkgTA, "grant", "request")
	// ---- rule 1d: the capacities the ranking compares are the pool's allocatable capacities minus the request ----
	if getScore := r.Anchor(pkgTA, "supply.GetScore"); getScore != nil {
		fIsoSet := e.Field(pkgTA, "supply", "isolated")
		for _, t := range []struct {
			field string
			base  func(v ssa.Value) bool
			what  string
		}{
			{"shared", func(v ssa.Value) bool {
				c, ok := v.(*ssa.Call)
				return ok && e.IsCallTo(c, fset(allocShared)) && paramIndex(callArgs(c)[0]) == 0
			}, "AllocatableSharedCPU() of the scored pool"},
			{"reserved", func(v ssa.Value) bool {
				c, ok := v.(*ssa.Call)
				return ok && e.IsCallTo(c, fset(allocRes)) && paramIndex(callArgs(c)[0]) == 0
			}, "AllocatableReservedCPU() of the scored pool"},
			{"isolated", func(v ssa.Value) bool {
				c, ok := v.(*ssa.Call)
				if !ok || callObj(c.Common()) == nil || callObj(c.Common()).Name() != "Size" {
					return false
				}
				f, b := loadedField(callArgs(c)[0])
				return f == fIsoSet && paramIndex(b) == 0
			}, "the size of the scored pool's isolated set"},
		} {
			f := e.Field(pkgTA, "score", t.field)
			if f == nil {
				r.Undecided("R9:score-capacity-source#"+t.field, "R2 eligibility table", "score."+t.field+" exists", "-", nil, "field not found")
				continue
			}
			// every store: its value is base - amounts, or (the field's current value) - amounts
			var baseStores []ssa.Instruction
			okAll, why := true, ""
			n := 0
			AllInstrs(getScore, func(in ssa.Instruction) {
				st, ok := in.(*ssa.Store)
				if !ok || fieldOfAddr(st.Addr) != f {
					return
				}
				n++
				// the minuend chain, through locals and merges: every leaf is the base or the field's current value
				hasBase, bad := false, ""
				seen := map[ssa.Value]bool{}
				var walk func(v ssa.Value, d int)
				walk = func(v ssa.Value, d int) {
					if seen[v] || d > 30 {
						return
					}
					seen[v] = true
					switch x := v.(type) {
					case *ssa.BinOp:
						if x.Op == token.SUB {
							walk(x.X, d+1)
							return
						}
					case *ssa.Phi:
						for _, ed := range x.Edges {
							walk(ed, d+1)
						}
						return
					case *ssa.UnOp:
						if al, ok := x.X.(*ssa.Alloc); ok && x.Op == token.MUL {
							for _, s2 := range reachingStores(al, x) {
								walk(s2.Val, d+1)
							}
							return
						}
					}
					switch {
					case t.base(v):
						hasBase = true
					case isFieldLoad(v, f): // accumulates on the stored value
					default:
						bad = v.String()
					}
				}
				walk(st.Val, 0)
				if bad != "" {
					okAll, why = false, "stored from "+bad+" at "+e.InstrPos(in)
				} else if hasBase {
					baseStores = append(baseStores, in)
				}
			})
			if n == 0 || len(baseStores) == 0 {
				okAll, why = false, "no store of "+t.what
			}
			if okAll && t.field != "isolated" {
				// … and the base store is on every path (isolated capacity matters only for isolation-preferring requests)
				if p := FindPath(PathQuery{Fn: getScore, Target: isRet, Block: func(in ssa.Instruction) bool {
					for _, b := range baseStores {
						if b == in {
							return true
						}
					}
					return false
				}}); p != nil {
					okAll, why = false, "a score is returned without it: "+e.pathString(p)
				}
			}
			r.Check("R9:score-capacity-source#"+t.field, "R2 eligibility table", "the "+t.field+" capacity a pool is ranked by is "+t.what+" less what the request asks for", e.Pos(getScore.Pos()), getScore, okAll, why, true)
		}
	}
	// ---- rule 1b: an admitted fraction is entered in the ledger ------------------------------------------
	for _, t := range []struct {
		f        *types.Var
		cls      string
		notCls   string
		capacity *ssa.Function
	}{{fShared, "cpuNormal", "cpuReserved", allocShared}, {fReserved, "cpuReserved", "cpuNormal", allocRes}} {
		t := t
		clsK, _ := e.TypesPkg(pkgTA).Scope().Lookup(t.cls).(*types.Const)
		notK, _ := e.TypesPkg(pkgTA).Scope().Lookup(t.notCls).(*types.Const)
		enabled := func(cond ssa.Value) (bool, bool) {
			b, ok := cond.(*ssa.BinOp)
			if !ok {
				return false, false
			}
			// class tests
			if b.Op == token.EQL || b.Op == token.NEQ {
				if isConstEq(b.Y, clsK) {
					return true, b.Op == token.EQL
				}
				if isConstEq(b.Y, notK) {
					return true, b.Op == token.NEQ
				}
			}
			// capacity suffices
			isA := func(v ssa.Value) bool { call, ok := v.(*ssa.Call); return ok && e.IsCallTo(call, fset(t.capacity)) }
			if isA(b.X) {
				switch b.Op {
				case token.LSS, token.LEQ:
					return true, false
				case token.GTR, token.GEQ:
					return true, true
				}
			}
			// a fraction is requested: `fraction > 0` where fraction derives from the request's fraction field
			if isConstInt(b.Y, 0) {
				isFrac := false
				Origins(b.X, func(v ssa.Value) bool {
					if f, _ := loadedField(v); f != nil && f.Name() == "fraction" {
						isFrac = true
					}
					return isFrac
				})
				if isFrac {
					switch b.Op {
					case token.GTR, token.NEQ:
						return true, true
					case token.EQL, token.LEQ:
						return true, false
					}
				}
			}
			return false, false
		}
		r.MustPass("R1:fraction-entered-in-ledger@"+t.f.Name(), "R5 ledger symmetry (shared with C09)", "whenever AllocateCPU admits a "+t.cls+" request with a fraction (capacity suffices), "+t.f.Name()+" is increased on every successful return", allocCPU, nil,
			func(ret *ssa.Return) bool { return e.maySucceed(ret) && !isNilConstV(ret.Results[0]) },
			func(in ssa.Instruction) bool { st, ok := in.(*ssa.Store); return ok && fieldOfAddr(st.Addr) == t.f }, enabled)
	}
	// ---- rule 1 -------------------------------------------------------------------------
	// "capacity insufficient": any comparison `Allocatable…CPU() < X` is true, `> X` / `>= X` false
	insufficient := func(fnAlloc *ssa.Function) Assumption {
		return func(cond ssa.Value) (bool, bool) {
			b, ok := cond.(*ssa.BinOp)
			if !ok {
				return false, false
			}
			isA := func(v ssa.Value) bool {
				call, ok := v.(*ssa.Call)
				return ok && e.IsCallTo(call, fset(fnAlloc))
			}
			switch {
			case isA(b.X) && (b.Op == token.LSS || b.Op == token.LEQ):
				return true, true
			case isA(b.X) && (b.Op == token.GTR || b.Op == token.GEQ):
				return true, false
			case isA(b.Y) && (b.Op == token.GTR || b.Op == token.GEQ):
				return true, true
			case isA(b.Y) && (b.Op == token.LSS || b.Op == token.LEQ):
				return true, false
			}
			return false, false
		}
	}
	for _, t := range []struct {
		fn    *ssa.Function
		f     *types.Var
		alloc *ssa.Function
		name  string
	}{{allocCPU, fShared, allocShared, "shared"}, {allocCPU, fReserved, allocRes, "reserved"}, {reserve, fShared, allocShared, "shared"}, {reserve, fReserved, allocRes, "reserved"}} {
		n := 0
		AllInstrs(t.fn, func(in ssa.Instruction) {
			st, ok := in.(*ssa.Store)
			if !ok || fieldOfAddr(st.Addr) != t.f {
				return
			}
			n++
			// the guard must compare the capacity with (at least) the amount added
			p := FindPath(PathQuery{Fn: t.fn, Assume: insufficient(t.alloc), Target: func(x ssa.Instruction) bool { return x == in }})
			hasTest := len(e.callsTo(t.fn, t.alloc)) > 0
			what := fmt.Sprintf("%s promises more %s capacity only after Allocatable%sCPU() was found sufficient", t.fn.Name(), t.name, map[string]string{"shared": "Shared", "reserved": "Reserved"}[t.name])
			w := e.pathString(p)
			// Reserve's reserved arm tests only when the amount is positive: adding 0 needs no capacity
			if p != nil && t.fn == reserve && t.name == "reserved" {
				p2 := FindPath(PathQuery{Fn: t.fn, Assume: andAssume(insufficient(t.alloc), func(cond ssa.Value) (bool, bool) {
					b, ok := cond.(*ssa.BinOp)
					if ok && b.Op == token.GTR && isConstInt(b.Y, 0) {
						return true, true // the amount is positive
					}
					return false, false
				}), Target: func(x ssa.Instruction) bool { return x == in }})
				if p2 == nil {
					p, w = nil, "guarded whenever the amount is positive"
				}
			}
			r.Check("R2:admission-guard@"+t.fn.Name()+"#"+t.name, "R2 admission guards", what, e.InstrPos(in), t.fn, p == nil && hasTest, w, true)
		})
		r.MinInstances("increments of "+t.f.Name()+" in "+t.fn.Name(), n, 1)
		// freshness: the capacity compared in a guard is read after every change this function makes to the supply
		// (CPUs sliced off a set through its address, a store to a supply field) that precedes the comparison
		{
			supplyT := e.Named(pkgTA, "supply")
			isSupplyFieldAddr := func(v ssa.Value) bool {
				fa, ok := v.(*ssa.FieldAddr)
				if !ok {
					return false
				}
				pt, ok := fa.X.Type().Underlying().(*types.Pointer)
				return ok && supplyT != nil && types.Identical(pt.Elem(), supplyT)
			}
			var writers []ssa.Instruction
			AllInstrs(t.fn, func(in ssa.Instruction) {
				switch x := in.(type) {
				case *ssa.Store:
					if isSupplyFieldAddr(x.Addr) {
						writers = append(writers, in)
					}
				case *ssa.Call:
					for _, a := range x.Common().Args {
						if isSupplyFieldAddr(a) {
							writers = append(writers, in)
							break
						}
					}
				}
			})
			nCmp := 0
			AllInstrs(t.fn, func(in ssa.Instruction) {
				b, ok := in.(*ssa.BinOp)
				if !ok {
					return
				}
				switch b.Op {
				case token.LSS, token.LEQ, token.GTR, token.GEQ:
				default:
					return
				}
				for _, opd := range []ssa.Value{b.X, b.Y} {
					call, ok := unspill(opd).(*ssa.Call)
					if !ok || !e.IsCallTo(call, fset(t.alloc)) {
						continue
					}
					stale := ""
					for _, w := range writers {
						w := w
						if w == ssa.Instruction(call) {
							continue
						}
						p1 := FindPath(PathQuery{Fn: t.fn, From: call, Target: func(x ssa.Instruction) bool { return x == w }})
						if p1 == nil {
							continue
						}
						if p2 := FindPath(PathQuery{Fn: t.fn, From: w, Target: func(x ssa.Instruction) bool { return x == in }}); p2 != nil {
							stale = "the supply is changed at " + e.InstrPos(w) + " between the read at " + e.InstrPos(call) + " and the comparison"
						}
					}
					nCmp++
					r.Check(fmt.Sprintf("R2:admission-guard-fresh@%s#%s#%d", t.fn.Name(), t.name, nCmp), "R2 admission guards",
						"the Allocatable"+map[string]string{"shared": "Shared", "reserved": "Reserved"}[t.name]+"CPU() value a guard of "+t.fn.Name()+" compares was read after every earlier change the function makes to the supply", e.InstrPos(in), t.fn, stale == "", stale, true)
				}
			})
		}
	}
	// a reserved-class request never gets exclusive CPUs: its whole-CPU part is served as a fraction of the reserved pool.
	// Decided by path search under "the request's class is cpuReserved", for a positive and for a zero whole-CPU part,
	// with the sign abstraction following the `full` local through its re-assignment.
	{
		fFull := e.Field(pkgTA, "request", "full")
		fCls := e.Field(pkgTA, "request", "cpuType")
		reservedK, _ := e.TypesPkg(pkgTA).Scope().Lookup("cpuReserved").(*types.Const)
		if fFull == nil || fCls == nil || reservedK == nil {
			r.Undecided("R2:eligibility#reserved-class-no-exclusive", "R2 admission guards", "request.full, request.cpuType and cpuReserved resolve", e.Pos(allocCPU.Pos()), allocCPU, "not found")
		} else {
			for _, sc := range []struct {
				name string
				full signSet
			}{{"whole-cpus-requested", sgPos}, {"no-whole-cpus", sgZero}} {
				sc := sc
				base := func(v ssa.Value) (signSet, bool) {
					if f, _ := loadedField(v); f == fFull {
						return sc.full, true
					}
					return 0, false
				}
				var asm Assumption
				nest := 0
				asm = func(cond ssa.Value) (bool, bool) {
					b, ok := cond.(*ssa.BinOp)
					if !ok {
						return false, false
					}
					if nest > 3 { // evaluating a phi's feasibility asks about earlier branches, which may ask again
						return false, false
					}
					nest++
					defer func() { nest-- }()
					// the request's class (read from the request, not the local that a fallback may rewrite)
					if (b.Op == token.EQL || b.Op == token.NEQ) && isFieldLoad(b.X, fCls) {
						if k, isK := b.Y.(*ssa.Const); isK && k.Value != nil && types.Identical(k.Type(), reservedK.Type()) {
							return true, isConstEq(b.Y, reservedK) == (b.Op == token.EQL)
						}
					}
					if isConstInt(b.Y, 0) {
						if bt, ok := b.X.Type().Underlying().(*types.Basic); ok && bt.Info()&types.IsInteger != 0 {
							return cmpZero(signOf(allocCPU, b.X, base, asm, 0), b.Op)
						}
					}
					return false, false
				}
				p := FindPath(PathQuery{Fn: allocCPU, Assume: asm, Target: func(x ssa.Instruction) bool { return e.IsCallTo(x, fset(take)) }})
				r.Check("R2:eligibility#reserved-class-no-exclusive#"+sc.name, "R2 admission guards", "a reserved-class request is never given exclusive CPUs (its whole-CPU part is granted as a portion of the reserved CPUs)", e.Pos(allocCPU.Pos()), allocCPU, p == nil, e.pathString(p), true)
			}
		}
	}
	// slicing exclusive CPUs from the sharable set needs Allocatable > 1000*full; from the isolated set needs Size >= full && isolate
	nt := 0
	for _, c := range e.callsTo(allocCPU, take) {
		a := callArgs(c)
		f := fieldOfAddr(a[1])
		nt++
		switch f {
		case fSha:
			p := FindPath(PathQuery{Fn: allocCPU, Assume: insufficient(allocShared), Target: func(x ssa.Instruction) bool { return x == c.(ssa.Instruction) }})
			r.Check("R2:slice-guard#sharable", "R2 admission guards", "exclusive CPUs are sliced off the sharable set only when the remaining shared capacity exceeds them", e.InstrPos(c), allocCPU, p == nil, e.pathString(p), true)
		case fIso:
			// (a) enough isolated CPUs for ALL requested cores, (b) isolation requested
			notEnough := func(cond ssa.Value) (bool, bool) {
				_, _, op, ok := cmpOriented(cond, func(v ssa.Value) bool {
					call, ok := v.(*ssa.Call)
					if !ok || callObj(call.Common()) == nil || callObj(call.Common()).Name() != "Size" {
						return false
					}
					g, _ := loadedField(callArgs(call)[0])
					return g == fIso
				})
				if !ok {
					return false, false
				}
				switch op {
				case token.GEQ, token.GTR:
					return true, false
				case token.LSS, token.LEQ:
					return true, true
				}
				return false, false
			}
			p := FindPath(PathQuery{Fn: allocCPU, Assume: notEnough, Target: func(x ssa.Instruction) bool { return x == c.(ssa.Instruction) }})
			r.Check("R2:slice-guard#isolated-all-or-nothing", "R2 admission guards", "isolated CPUs are taken only when all requested full CPUs can be isolated", e.InstrPos(c), allocCPU, p == nil, e.pathString(p), true)
			fIsolate := e.Field(pkgTA, "request", "isolate")
			notIsolate := func(cond ssa.Value) (bool, bool) {
				if g, _ := loadedField(cond); g == fIsolate {
					return true, false
				}
				return false, false
			}
			p = FindPath(PathQuery{Fn: allocCPU, Assume: notIsolate, Target: func(x ssa.Instruction) bool { return x == c.(ssa.Instruction) }})
			r.Check("R2:slice-guard#isolated-on-request", "R2 admission guards", "isolated CPUs are taken only for requests that prefer isolation", e.InstrPos(c), allocCPU, p == nil, e.pathString(p), true)
		default:
			r.Check("R2:slice-guard#unknown-source", "R2 admission guards", "exclusive CPUs are taken only from the isolated or sharable set", e.InstrPos(c), allocCPU, false, "", true)
		}
		// the count taken is the request's full-CPU count
	}
	r.MinInstances("takeCPUs sites in AllocateCPU", nt, 2)
	// Reserve: CPU sets are updated only after the three guards passed (error returns precede)
	{
		n := 0
		AllInstrs(reserve, func(in ssa.Instruction) {
			st, ok := in.(*ssa.Store)
			if !ok {
				return
			}
			f := fieldOfAddr(st.Addr)
			if f != fIso && f != fSha {
				return
			}
			n++
			// unreachable if either Equals test failed
			failedEq := func(cond ssa.Value) (bool, bool) {
				if call, ok := cond.(*ssa.Call); ok && callObj(call.Common()) != nil && callObj(call.Common()).Name() == "Equals" {
					return true, false
				}
				return false, false
			}
			p := FindPath(PathQuery{Fn: reserve, Assume: failedEq, Target: func(x ssa.Instruction) bool { return x == in }})
			r.Check("R2:reserve-guard#"+f.Name(), "R2 admission guards", "Reserve takes CPUs out of the free sets only after verifying they are still free there", e.InstrPos(in), reserve, p == nil, e.pathString(p), true)
		})
		r.MinInstances("set updates in Reserve", n, 2)
	}

	// ---- rule 2 -------------------------------------------------------------------------
	checkLedgerSymmetry(e, r)

	// ---- rule 3 -------------------------------------------------------------------------
	for _, t := range []struct {
		fn             *ssa.Function
		own            string
		granted, cpusM string
	}{{allocShared, "sharable", "GrantedSharedCPU", "SharableCPUs"}, {allocRes, "reserved", "GrantedReservedCPU", "ReservedCPUs"}} {
		fOwn := e.Field(pkgTA, "supply", t.own)
		// find `1000*Size(X) - Granted()` expressions
		type capx struct {
			in        ssa.Instruction
			ownField  bool
			viaMethod bool
		}
		var caps []capx
		AllInstrs(t.fn, func(in ssa.Instruction) {
			b, ok := in.(*ssa.BinOp)
			if !ok || b.Op != token.SUB {
				return
			}
			mul, ok := b.X.(*ssa.BinOp)
			if !ok || mul.Op != token.MUL {
				return
			}
			var sz *ssa.Call
			for _, pr := range [][2]ssa.Value{{mul.X, mul.Y}, {mul.Y, mul.X}} {
				if isConstInt(pr[0], 1000) {
					if c, ok := pr[1].(*ssa.Call); ok && callObj(c.Common()) != nil && callObj(c.Common()).Name() == "Size" {
						sz = c
					}
				}
			}
			gc, ok := b.Y.(*ssa.Call)
			if sz == nil || !ok || callObj(gc.Common()) == nil || callObj(gc.Common()).Name() != t.granted {
				return
			}
			set := callArgs(sz)[0]
			cx := capx{in: in}
			if f, _ := loadedField(set); f == fOwn {
				cx.ownField = true
			}
			if c, ok := set.(*ssa.Call); ok && callObj(c.Common()) != nil && callObj(c.Common()).Name() == t.cpusM {
				cx.viaMethod = true
			}
			caps = append(caps, cx)
		})
		hasOwn, hasAnc := false, false
		for _, c := range caps {
			if c.ownField {
				hasOwn = true
			}
			if c.viaMethod {
				hasAnc = true
			}
		}
		r.Check("R6:capping-own@"+t.fn.Name(), "R6 ancestor capping", t.fn.Name()+" starts from 1000*|"+t.own+"| - "+t.granted+"() of its own node", e.Pos(t.fn.Pos()), t.fn, hasOwn, "", true)
		r.Check("R6:capping-ancestor@"+t.fn.Name(), "R6 ancestor capping", t.fn.Name()+" computes 1000*|"+t.cpusM+"()| - "+t.granted+"() for ancestors", e.Pos(t.fn.Pos()), t.fn, hasAnc, "", true)
		// ancestor loop: Parent() until IsNil(), minimum taken
		parent := e.objs(pkgTA, "Node.Parent", "node.Parent")
		isNil := e.objs(pkgTA, "Node.IsNil", "node.IsNil")
		loopOK := len(allCallsOfObj(t.fn, parent)) >= 2 && len(allCallsOfObj(t.fn, isNil)) >= 1
		// the minimum: a loop-carried value P is replaced by the ancestor's capacity C exactly on the branch where C is the smaller one
		minOK := false
		AllInstrs(t.fn, func(in ssa.Instruction) {
			ifi, ok := in.(*ssa.If)
			if !ok {
				return
			}
			condV, negated := ifi.Cond, false
			for {
				u, isU := condV.(*ssa.UnOp)
				if !isU || u.Op != token.NOT {
					break
				}
				negated, condV = !negated, u.X
			}
			b, ok := condV.(*ssa.BinOp)
			if !ok {
				return
			}
			for _, c := range caps {
				if !c.viaMethod {
					continue
				}
				C := c.in.(ssa.Value)
				var P *ssa.Phi
				cSmallerOnTrue, matched := false, false
				switch {
				case b.X == C && (b.Op == token.LSS || b.Op == token.LEQ), b.Y == C && (b.Op == token.GTR || b.Op == token.GEQ):
					cSmallerOnTrue, matched = true, true
				case b.X == C && (b.Op == token.GTR || b.Op == token.GEQ), b.Y == C && (b.Op == token.LSS || b.Op == token.LEQ):
					cSmallerOnTrue, matched = false, true
				}
				if !matched {
					continue
				}
				if b.X == C {
					P, _ = b.Y.(*ssa.Phi)
				} else {
					P, _ = b.X.(*ssa.Phi)
				}
				if P == nil {
					continue
				}
				if negated {
					cSmallerOnTrue = !cSmallerOnTrue
				}
				smallerSucc := ifi.Block().Succs[0]
				if !cSmallerOnTrue {
					smallerSucc = ifi.Block().Succs[1]
				}
				// C flows back into P only together with P itself (P' = φ(P, C)), taken from the true branch
				flows, clean := false, true
				seen := map[ssa.Value]bool{}
				var walk func(v ssa.Value, d int)
				walk = func(v ssa.Value, d int) {
					if seen[v] || d > 6 {
						return
					}
					seen[v] = true
					switch {
					case v == C:
						flows = true
					case v == ssa.Value(P):
					default:
						if ph, ok := v.(*ssa.Phi); ok {
							for _, ed := range ph.Edges {
								walk(ed, d+1)
							}
						} else {
							clean = false
						}
					}
				}
				for i, ed := range P.Edges {
					// only the loop's back edges (predecessors dominated by the header)
					if P.Block().Dominates(P.Block().Preds[i]) {
						walk(ed, 0)
					}
				}
				// the replacement happens on the branch where the ancestor's capacity is the smaller one
				onSmaller := true
				var chk func(v ssa.Value, d int)
				seen2 := map[ssa.Value]bool{}
				chk = func(v ssa.Value, d int) {
					ph, isPhi := v.(*ssa.Phi)
					if !isPhi || seen2[v] || d > 6 {
						return
					}
					seen2[v] = true
					for i, ed := range ph.Edges {
						if ed == C {
							pred := ph.Block().Preds[i]
							if !(smallerSucc == pred || smallerSucc.Dominates(pred)) || len(smallerSucc.Preds) != 1 {
								onSmaller = false
							}
						} else if ed != ssa.Value(P) {
							chk(ed, d+1)
						}
					}
				}
				for i, ed := range P.Edges {
					if P.Block().Dominates(P.Block().Preds[i]) {
						chk(ed, 0)
					}
				}
				if flows && clean && onSmaller {
					minOK = true
				}
			}
		})
		// or the built-in min()
		AllInstrs(t.fn, func(in ssa.Instruction) {
			if call, ok := in.(*ssa.Call); ok {
				if bi, ok := call.Common().Value.(*ssa.Builtin); ok && bi.Name() == "min" {
					for _, c := range caps {
						for _, a := range call.Common().Args {
							if c.viaMethod && a == c.in.(ssa.Value) {
								minOK = true
							}
						}
					}
				}
			}
		})
		r.Check("R6:capping-loop@"+t.fn.Name(), "R6 ancestor capping", t.fn.Name()+" walks every ancestor (Parent() until IsNil()) and keeps the minimum", e.Pos(t.fn.Pos()), t.fn, loopOK && minOK, "", true)
		// the value returned is that running minimum
		okRet := false
		for _, ret := range Returns(t.fn) {
			if _, isPhi := ret.Results[0].(*ssa.Phi); isPhi {
				okRet = true
			}
		}
		r.Check("R6:capping-returns-min@"+t.fn.Name(), "R6 ancestor capping", t.fn.Name()+" returns the running minimum", e.Pos(t.fn.Pos()), t.fn, okRet, "", true)
	}
	for _, name := range []string{"GrantedSharedCPU", "GrantedReservedCPU"} {
		fn := r.Anchor(pkgTA, "node."+name)
		if fn == nil {
			continue
		}
		own := map[string]string{"GrantedSharedCPU": "GrantedShared", "GrantedReservedCPU": "GrantedReserved"}[name]
		hasOwn, hasKids := false, false
		AllInstrs(fn, func(in ssa.Instruction) {
			if call, ok := in.(*ssa.Call); ok && callObj(call.Common()) != nil {
				switch callObj(call.Common()).Name() {
				case own:
					hasOwn = true
				case name:
					// recursive call on a child inside a loop over n.children
					if u, ok := callArgs(call)[0].(*ssa.UnOp); ok {
						if ia, ok := u.X.(*ssa.IndexAddr); ok {
							if f, _ := loadedField(ia.X); f != nil && f.Name() == "children" {
								hasKids = true
							}
						}
					}
				}
			}
		})
		r.Check("R6:subtree-sum@"+name, "R6 ancestor capping", "node."+name+" adds its own grants and, recursively, those of all children", e.Pos(fn.Pos()), fn, hasOwn && hasKids, "", true)
	}

	// ---- rule 4: eligibility ----------------------------------------------------------------
	if fn := r.Anchor(pkgTA, "cpuAllocationPreferences"); fn != nil {
		preserve := e.objs(pkgCA, "Container.PreserveCpuResources")
		annot := e.Fn(pkgTA, "checkReservedCPUsAnnotations")
		nsCheck := e.Fn(pkgTA, "checkReservedPoolNamespaces")
		sharedPref := e.Fn(pkgTA, "sharedCPUsPreference")
		getsCores := func(in ssa.Instruction) bool {
			ret, ok := in.(*ssa.Return)
			if !ok {
				return false
			}
			return !isConstInt(ret.Results[0], 0)
		}
		qosIs := func(name string) Assumption {
			return func(cond ssa.Value) (bool, bool) {
				b, ok := cond.(*ssa.BinOp)
				if !ok || b.Op != token.EQL {
					return false, false
				}
				s, isS := constString(b.Y)
				if !isS {
					return false, false
				}
				if call, ok := b.X.(*ssa.Call); ok && callObj(call.Common()) != nil && callObj(call.Common()).Name() == "GetQOSClass" {
					return true, s == name
				}
				return false, false
			}
		}
		cases := []struct {
			key, what string
			a         Assumption
		}{
			{"preserve", "a cpu.preserve container gets no exclusive CPUs", func(cond ssa.Value) (bool, bool) {
				if call, ok := cond.(*ssa.Call); ok && isCallOfObj(call, preserve) {
					return true, true
				}
				return false, false
			}},
			{"prefer-reserved", "a container annotated for reserved CPUs gets no exclusive CPUs", func(cond ssa.Value) (bool, bool) {
				if ex, ok := cond.(*ssa.Extract); ok && ex.Index == 0 {
					if call, ok := ex.Tuple.(*ssa.Call); ok && e.IsCallTo(call, fset(annot)) {
						return true, true
					}
				}
				return false, false
			}},
			{"reserved-namespace", "a container in a reserved namespace (without an explicit opt-out) gets no exclusive CPUs", func(cond ssa.Value) (bool, bool) {
				if call, ok := cond.(*ssa.Call); ok && e.IsCallTo(call, fset(nsCheck)) {
					return true, true
				}
				if ex, ok := cond.(*ssa.Extract); ok && ex.Index == 1 {
					if call, ok := ex.Tuple.(*ssa.Call); ok && e.IsCallTo(call, fset(annot)) {
						return true, false // no explicit reservation annotation
					}
				}
				if ex, ok := cond.(*ssa.Extract); ok && ex.Index == 0 {
					if call, ok := ex.Tuple.(*ssa.Call); ok && e.IsCallTo(call, fset(annot)) {
						return true, false
					}
				}
				return false, false
			}},
			{"burstable", "a Burstable container gets no exclusive CPUs", qosIs("Burstable")},
			{"besteffort", "a BestEffort container gets no exclusive CPUs", qosIs("BestEffort")},
			{"shared-preferring", "a container that prefers shared CPUs gets no exclusive CPUs", func(cond ssa.Value) (bool, bool) {
				if ex, ok := cond.(*ssa.Extract); ok && ex.Index == 0 {
					if call, ok := ex.Tuple.(*ssa.Call); ok && e.IsCallTo(call, fset(sharedPref)) {
						return true, true
					}
				}
				return false, false
			}},
		}
		for _, c := range cases {
			p := FindPath(PathQuery{Fn: fn, Assume: c.a, Target: getsCores})
			decides := false
			AllInstrs(fn, func(in ssa.Instruction) {
				if ifi, ok := in.(*ssa.If); ok {
					if k, _ := EvalCond(ifi.Cond, c.a); k {
						decides = true
					}
				}
			})
			r.Check("R2:eligibility#"+c.key, "R2 eligibility table", c.what, e.Pos(fn.Pos()), fn, p == nil && decides, e.pathString(p), true)
		}
		// sub-core: cores == 0 -> no exclusive CPUs ; BestEffort: fraction 0
		p := FindPath(PathQuery{Fn: fn, Assume: func(cond ssa.Value) (bool, bool) {
			b, ok := cond.(*ssa.BinOp)
			if ok && b.Op == token.EQL && isConstInt(b.Y, 0) {
				if q, ok := b.X.(*ssa.BinOp); ok && q.Op == token.QUO && isConstInt(q.Y, 1000) {
					return true, true
				}
			}
			return false, false
		}, Target: getsCores})
		checkReservedOptOut(e, r, fn, "R2 eligibility table")
		r.Check("R2:eligibility#sub-core", "R2 eligibility table", "a request below one full CPU gets no exclusive CPUs", e.Pos(fn.Pos()), fn, p == nil, e.pathString(p), true)
		beOnly := andAssume(qosIs("BestEffort"), func(cond ssa.Value) (bool, bool) {
			// none of the earlier special cases applies
			if call, ok := cond.(*ssa.Call); ok && (isCallOfObj(call, preserve) || e.IsCallTo(call, fset(nsCheck))) {
				return true, false
			}
			if ex, ok := cond.(*ssa.Extract); ok && ex.Index == 0 {
				if call, ok := ex.Tuple.(*ssa.Call); ok && e.IsCallTo(call, fset(annot)) {
					return true, false
				}
			}
			return false, false
		})
		p = FindPath(PathQuery{Fn: fn, Assume: beOnly, Target: func(in ssa.Instruction) bool {
			ret, ok := in.(*ssa.Return)
			return ok && !isConstInt(ret.Results[1], 0)
		}})
		r.Check("R2:eligibility#besteffort-no-capacity", "R2 eligibility table", "a BestEffort container is granted no CPU capacity at all", e.Pos(fn.Pos()), fn, p == nil, e.pathString(p), true)
		// exclusive cores = request / 1000 : every non-zero first result is the quotient
		okCores := true
		for _, ret := range Returns(fn) {
			v := ret.Results[0]
			if isConstInt(v, 0) {
				continue
			}
			q, ok := v.(*ssa.BinOp)
			if !ok || q.Op != token.QUO || !isConstInt(q.Y, 1000) {
				okCores = false
			}
		}
		r.Check("R2:eligibility#whole-cpu-part", "R2 eligibility table", "the number of exclusive CPUs granted is the whole-CPU part of the CPU request (request / 1000)", e.Pos(fn.Pos()), fn, okCores, "", true)
		// mixed allocation for >= 2 cores with a fraction only when annotated: returns with cores and a non-zero fraction under cores>=2 need sharedPrefKind == prefAnnotated
		prefAnnotated, _ := e.TypesPkg(pkgTA).Scope().Lookup("prefAnnotated").(*types.Const)
		notAnnotated := func(cond ssa.Value) (bool, bool) {
			b, ok := cond.(*ssa.BinOp)
			if ok && (b.Op == token.EQL || b.Op == token.NEQ) && prefAnnotated != nil && isConstEq(b.Y, prefAnnotated) {
				if ex, ok := b.X.(*ssa.Extract); ok && ex.Index == 1 {
					if call, ok := ex.Tuple.(*ssa.Call); ok && e.IsCallTo(call, fset(sharedPref)) {
						return true, b.Op == token.NEQ
					}
				}
			}
			// cores >= 2 : `cores < 2` is false, `cores == 0` is false
			if ok && b.Op == token.LSS && isConstInt(b.Y, 2) {
				return true, false
			}
			if ok && b.Op == token.EQL && isConstInt(b.Y, 0) {
				if q, ok := b.X.(*ssa.BinOp); ok && q.Op == token.QUO {
					return true, false
				}
			}
			// fraction > 0
			if ok && b.Op == token.GTR && isConstInt(b.Y, 0) {
				if q, ok := b.X.(*ssa.BinOp); ok && q.Op == token.REM {
					return true, true
				}
			}
			return false, false
		}
		p = FindPath(PathQuery{Fn: fn, Assume: notAnnotated, Target: getsCores})
		r.Check("R2:eligibility#multi-core-mixed-needs-annotation", "R2 eligibility table", "two or more CPUs plus a fraction are split into exclusive + shared only when explicitly annotated as unshared", e.Pos(fn.Pos()), fn, p == nil, e.pathString(p), true)
	}

	// ---- rule 5: cpu.shares ------------------------------------------------------------------
	if ag := r.Anchor(pkgTA, "policy.applyGrant"); ag != nil {
		setShares := e.objs(pkgCA, "Container.SetCPUShares")
		toShares := e.Fn(pkgKube, "MilliCPUToShares")
		isToShares := func(call *ssa.Call) bool {
			if e.IsCallTo(call, fset(toShares)) {
				return true
			}
			// through the alias variable cache.MilliCPUToShares
			if u, ok := call.Common().Value.(*ssa.UnOp); ok && u.Op == token.MUL {
				if g, ok := u.X.(*ssa.Global); ok && g.Name() == "MilliCPUToShares" {
					return true
				}
			}
			return false
		}
		n := 0
		for _, c := range allCallsOfObj(ag, setShares) {
			n++
			arg := callArgs(c)[1]
			var ms *ssa.Call
			Origins(arg, func(v ssa.Value) bool {
				if call, ok := v.(*ssa.Call); ok && isToShares(call) {
					ms = call
					return true
				}
				return false
			})
			okEnc := ms != nil
			r.Check("R5:shares-encoding", "data-flow cpu.shares", "the CPU weight told is the kubelet encoding MilliCPUToShares(granted milli-CPUs)", e.InstrPos(c), ag, okEnc, "", true)
			if !okEnc {
				continue
			}
			// sources of the milli-CPU amount
			okSrc, any := true, false
			var srcs []string
			Origins(ms.Common().Args[0], func(v ssa.Value) bool {
				switch x := v.(type) {
				case *ssa.Phi, *ssa.Convert:
					return false
				case *ssa.Call:
					if ns := portionCall(x, 0); ns != nil && len(callArgs(x)) > 0 && paramIndex(callArgs(x)[0]) == 1 {
						any = true
						srcs = append(srcs, ns...)
						return true
					}
				case *ssa.BinOp:
					if x.Op == token.MUL {
						var sz ssa.Value
						if isConstInt(x.X, 1000) {
							sz = x.Y
						} else if isConstInt(x.Y, 1000) {
							sz = x.X
						}
						if c2, ok := sz.(*ssa.Call); ok && callObj(c2.Common()) != nil && callObj(c2.Common()).Name() == "Size" {
							if c3, ok := callArgs(c2)[0].(*ssa.Call); ok && callObj(c3.Common()) != nil && callObj(c3.Common()).Name() == "ExclusiveCPUs" {
								any = true
								srcs = append(srcs, "1000*|exclusive|")
								return true
							}
						}
					}
				case *ssa.UnOp:
					if _, isAlloc := x.X.(*ssa.Alloc); isAlloc {
						return false
					}
				}
				okSrc = false
				return true
			})
			r.Check("R5:shares-amount", "data-flow cpu.shares", "the encoded amount is the grant's portion, or 1000 per exclusive CPU when there is no portion", e.InstrPos(c), ag, okSrc && any, fmt.Sprint(srcs), true)
			// ... and it is the portion of the grant's own class: the reserved portion for a reserved-class
			// grant, the shared portion for a normal one (a reserved grant has no shared portion: the amount
			// would be 0 and the weight the minimum one).
			for _, cl := range []struct{ cls, want, other string }{{"cpuNormal", "SharedPortion", "ReservedPortion"}, {"cpuReserved", "ReservedPortion", "SharedPortion"}} {
				clsK, _ := e.TypesPkg(pkgTA).Scope().Lookup(cl.cls).(*types.Const)
				if clsK == nil {
					r.Undecided("R5:shares-amount-of-own-class#"+cl.cls, "data-flow cpu.shares under a class assumption", "class constant resolves", e.InstrPos(c), ag, "constant "+cl.cls+" not found")
					continue
				}
				asm := func(v ssa.Value) (bool, bool) {
					b, ok := v.(*ssa.BinOp)
					if !ok || (b.Op != token.EQL && b.Op != token.NEQ) {
						return false, false
					}
					k, isK := b.Y.(*ssa.Const)
					if !isK || k.Value == nil || !types.Identical(k.Type(), clsK.Type()) {
						return false, false
					}
					return true, isConstEq(b.Y, clsK) == (b.Op == token.EQL)
				}
				got := map[string]bool{}
				var walk func(fn *ssa.Function, v ssa.Value, d int)
				walk = func(fn *ssa.Function, v ssa.Value, d int) {
					if d > 12 {
						return
					}
					OriginsUnder(fn, v, asm, func(o ssa.Value) bool {
						switch x := o.(type) {
						case *ssa.Call:
							ob := callObj(x.Common())
							if ob != nil && (ob.Name() == "SharedPortion" || ob.Name() == "ReservedPortion") {
								got[ob.Name()] = true
								return true
							}
							// a repository helper computing the amount: its results, under the same class assumption
							if callee := x.Common().StaticCallee(); callee != nil && callee.Pkg != nil && callee.Pkg.Pkg.Path() == pkgTA && len(callee.Blocks) > 0 {
								for _, b := range callee.Blocks {
									if ret, ok := lastInstr(b).(*ssa.Return); ok && len(ret.Results) > 0 && reachableBlock(callee, b, asm) {
										walk(callee, ret.Results[0], d+1)
									}
								}
							}
							return true
						case *ssa.UnOp:
							if al, isAlloc := x.X.(*ssa.Alloc); isAlloc && x.Op == token.MUL {
								for _, st := range reachingStores(al, x) {
									if reachableBlock(fn, st.Block(), asm) {
										walk(fn, st.Val, d+1)
									}
								}
								return true
							}
						}
						return false
					})
				}
				walk(ag, ms.Common().Args[0], 0)
				r.Check("R5:shares-amount-of-own-class#"+cl.cls, "data-flow cpu.shares under a class assumption", "the portion encoded in the CPU weight is the portion of the grant's own class (reserved portion for cpuReserved, shared portion for cpuNormal)", e.InstrPos(c), ag,
					got[cl.want] && !got[cl.other], fmt.Sprintf("under cpuType == %s the amount derives from %v", cl.cls, sortedKeys(got)), true)
			}
		}
		r.MinInstances("SetCPUShares in applyGrant", n, 1)
		// the "1000 per exclusive CPU" replacement applies exactly when the portion is zero: with a non-zero portion the
		// multiplication is not what reaches SetCPUShares
		for _, c := range allCallsOfObj(ag, setShares) {
			var ms *ssa.Call
			Origins(callArgs(c)[1], func(v ssa.Value) bool {
				if c2, ok := v.(*ssa.Call); ok && callObj(c2.Common()) != nil && strings.HasSuffix(callObj(c2.Common()).Name(), "MilliCPUToShares") {
					ms = c2
					return true
				}
				if c2, ok := v.(*ssa.Call); ok {
					if u, ok := c2.Common().Value.(*ssa.UnOp); ok {
						if g, ok := u.X.(*ssa.Global); ok && g.Name() == "MilliCPUToShares" {
							ms = c2
							return true
						}
					}
				}
				return false
			})
			if ms == nil {
				continue
			}
			portionNonZero := func(cond ssa.Value) (bool, bool) {
				b, ok := cond.(*ssa.BinOp)
				if !ok || !isConstInt(b.Y, 0) {
					return false, false
				}
				// the tested amount is the (phi of the) portion
				isPortion := false
				Origins(b.X, func(v ssa.Value) bool {
					if c2, ok := v.(*ssa.Call); ok && portionCall(c2, 0) != nil {
						isPortion = true
					}
					return isPortion
				})
				if !isPortion {
					return false, false
				}
				switch b.Op {
				case token.EQL, token.LEQ:
					return true, false
				case token.NEQ, token.GTR:
					return true, true
				}
				return false, false
			}
			var amount ssa.Value = ms.Common().Args[0]
			usesMul := false
			OriginsUnder(ag, amount, portionNonZero, func(v ssa.Value) bool {
				if b, ok := v.(*ssa.BinOp); ok && b.Op == token.MUL {
					usesMul = true
					return true
				}
				return false
			})
			r.Check("R5:shares-exclusive-count-only-without-portion", "data-flow cpu.shares", "with a non-zero granted portion the CPU weight encodes that portion; 1000 per exclusive CPU is used only when the portion is zero", e.InstrPos(c), ag, !usesMul, "", true)
		}
	}
}

// portionCall: the grant-portion accessors a call yields — SharedPortion/ReservedPortion themselves, or a helper of the
// topology-aware package each of whose results derives only from those accessors. nil when the call is not one.
func portionCall(x *ssa.Call, depth int) []string {
	ob := callObj(x.Common())
	if ob != nil && (ob.Name() == "SharedPortion" || ob.Name() == "ReservedPortion") {
		return []string{ob.Name()}
	}
	callee := x.Common().StaticCallee()
	if callee == nil || depth > 3 || callee.Pkg == nil || callee.Pkg.Pkg.Path() != pkgTA || len(callee.Blocks) == 0 || len(callee.Blocks) > 16 {
		return nil
	}
	ok, names := true, map[string]bool{}
	for _, b := range callee.Blocks {
		ret, isRet := lastInstr(b).(*ssa.Return)
		if !isRet {
			continue
		}
		if len(ret.Results) != 1 {
			return nil
		}
		Origins(ret.Results[0], func(v ssa.Value) bool {
			switch y := v.(type) {
			case *ssa.Phi, *ssa.Convert:
				return false
			case *ssa.UnOp:
				if _, isAlloc := y.X.(*ssa.Alloc); isAlloc {
					return false
				}
			case *ssa.Call:
				if ns := portionCall(y, depth+1); ns != nil {
					for _, n := range ns {
						names[n] = true
					}
					return true
				}
			}
			ok = false
			return true
		})
	}
	if !ok || len(names) == 0 {
		return nil
	}
	return sortedKeys(names)
}

// checkAnnotationPolarity: the preference helpers of the topology-aware policy read an effective annotation with a
// comma-ok lookup. When it is absent its (empty) value plays no part in the result; when it is present it is what the
// result is computed from — the lookup's ok is not read the wrong way round.
func checkAnnotationPolarity(e *Engine, r *Report, rule string) {
	n := 0
	for _, fn := range e.funcsInPkg(pkgTA) {
		if fn.Parent() != nil {
			continue
		}
		var calls []ssa.CallInstruction
		AllInstrs(fn, func(in ssa.Instruction) {
			if c, ok := in.(ssa.CallInstruction); ok && callObj(c.Common()) != nil && callObj(c.Common()).Name() == "GetEffectiveAnnotation" && c.Value() != nil {
				calls = append(calls, c)
			}
		})
		for _, c := range calls {
			var okV, valV ssa.Value
			if c.Value().Referrers() == nil {
				continue
			}
			for _, ref := range *c.Value().Referrers() {
				if ex, ok := ref.(*ssa.Extract); ok {
					if ex.Index == 1 {
						okV = ex
					} else if ex.Index == 0 {
						valV = ex
					}
				}
			}
			if okV == nil || valV == nil {
				continue
			}
			n++
			isLog := func(ci ssa.CallInstruction) bool {
				o := callObj(ci.Common())
				if o == nil {
					return false
				}
				switch o.Name() {
				case "Debug", "Info", "Warn", "Error", "Debugf", "Infof", "Warnf", "Errorf", "Sprintf":
					return true
				}
				return strings.HasSuffix(o.Name(), "Error")
			}
			uses := func(in ssa.Instruction) bool {
				switch x := in.(type) {
				case ssa.CallInstruction:
					if isLog(x) {
						return false
					}
					for _, a := range x.Common().Args {
						if unspill(a) == valV {
							return true
						}
						if cv, ok := a.(*ssa.Convert); ok && unspill(cv.X) == valV {
							return true
						}
					}
				case *ssa.BinOp:
					return unspill(x.X) == valV || unspill(x.Y) == valV
				case *ssa.Return:
					for _, res := range x.Results {
						if unspill(res) == valV {
							return true
						}
					}
				}
				return false
			}
			present := func(val bool) Assumption {
				return func(cond ssa.Value) (bool, bool) {
					if unspill(cond) == okV {
						return true, val
					}
					return false, false
				}
			}
			p1 := FindPath(PathQuery{Fn: fn, From: c.(ssa.Instruction), Assume: present(false), Target: uses})
			p2 := FindPath(PathQuery{Fn: fn, From: c.(ssa.Instruction), Assume: present(true), Block: uses, Target: isRet})
			why := ""
			if p1 != nil {
				why = "the value of an absent annotation is used: " + e.pathString(p1)
			} else if p2 != nil {
				why = "a present annotation is ignored: " + e.pathString(p2)
			}
			r.Check("R2:annotation-polarity@"+fn.Name(), rule, "an absent annotation plays no part in the preference and a present one is what the preference is computed from", e.InstrPos(c), fn, p1 == nil && p2 == nil, why, true)
		}
	}
	r.MinInstances("comma-ok annotation lookups in the topology-aware policy", n, 4)
}
