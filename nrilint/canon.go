package main

import (
	"fmt"
	"go/token"
	"sort"
	"strings"

	"golang.org/x/tools/go/ssa"
)

// canonizer renders SSA values as position-independent symbolic expressions so
// that two computations of "the same thing" in sibling code (a filter closure
// and the loop that consumes what it picked) can be compared. CPU-set algebra
// becomes sx nodes; everything else becomes a base named by its canonical text.
type canonizer struct {
	e    *Engine
	unit func(ssa.Value) bool // values standing for "the unit being considered"
	seen map[ssa.Value]bool
}

func (c *canonizer) closureBinding(fv *ssa.FreeVar) (ssa.Value, *ssa.MakeClosure) {
	fn := fv.Parent()
	idx := -1
	for i, f := range fn.FreeVars {
		if f == fv {
			idx = i
		}
	}
	if idx < 0 || fn.Parent() == nil {
		return nil, nil
	}
	var out ssa.Value
	var mk *ssa.MakeClosure
	AllInstrsOf(fn.Parent(), func(in ssa.Instruction) {
		if mc, ok := in.(*ssa.MakeClosure); ok && mc.Fn == fn {
			out, mk = mc.Bindings[idx], mc
		}
	})
	return out, mk
}

// AllInstrsOf visits the instructions of fn only (not of its closures).
func AllInstrsOf(fn *ssa.Function, f func(ssa.Instruction)) {
	for _, b := range fn.Blocks {
		for _, in := range b.Instrs {
			f(in)
		}
	}
}

func (c *canonizer) str(v ssa.Value) string {
	if v == nil {
		return "nil"
	}
	if c.unit != nil && c.unit(v) {
		return "·unit"
	}
	switch x := v.(type) {
	case *ssa.Parameter:
		return x.Name()
	case *ssa.Const:
		if x.Value == nil {
			return "nil"
		}
		return x.Value.ExactString()
	case *ssa.FreeVar:
		if b, _ := c.closureBinding(x); b != nil {
			return c.str(b)
		}
		return "fv:" + x.Name()
	case *ssa.Alloc:
		// the address of a cell holding a parameter or a single definition
		return "&" + c.cellStr(x, nil)
	case *ssa.UnOp:
		if x.Op == token.MUL {
			switch a := x.X.(type) {
			case *ssa.Alloc:
				return c.cellStr(a, x)
			case *ssa.FreeVar:
				if b, mk := c.closureBinding(a); b != nil {
					if al, ok := b.(*ssa.Alloc); ok {
						return c.cellStr(al, mk)
					}
					return "*" + c.str(b)
				}
			case *ssa.FieldAddr:
				return c.str(a.X) + "." + fieldOfAddr(a).Name()
			case *ssa.IndexAddr:
				return c.str(a.X) + "[" + c.str(a.Index) + "]"
			}
			return "*" + c.str(x.X)
		}
		return x.Op.String() + c.str(x.X)
	case *ssa.FieldAddr:
		return c.str(x.X) + "." + fieldOfAddr(x).Name()
	case *ssa.Field:
		return c.str(x.X) + "." + fmt.Sprint(x.Field)
	case *ssa.IndexAddr:
		return c.str(x.X) + "[" + c.str(x.Index) + "]"
	case *ssa.Lookup:
		return c.str(x.X) + "[" + c.str(x.Index) + "]"
	case *ssa.BinOp:
		return "(" + c.str(x.X) + x.Op.String() + c.str(x.Y) + ")"
	case *ssa.Convert:
		return c.str(x.X)
	case *ssa.ChangeType:
		return c.str(x.X)
	case *ssa.Call:
		name := "call"
		if o := callObj(x.Common()); o != nil {
			name = o.Name()
		} else if b, ok := x.Common().Value.(*ssa.Builtin); ok {
			name = b.Name()
		}
		var as []string
		for _, a := range callArgs(x) {
			as = append(as, c.str(variadicSingle(a)))
		}
		return name + "(" + strings.Join(as, ",") + ")"
	case *ssa.Extract:
		return c.str(x.Tuple) + "#" + fmt.Sprint(x.Index)
	case *ssa.Phi:
		if c.seen[x] {
			return "φ…"
		}
		c.seen[x] = true
		defer delete(c.seen, x)
		var es []string
		for _, ed := range x.Edges {
			es = append(es, c.str(ed))
		}
		sort.Strings(es)
		cond := ""
		if d := x.Block().Idom(); d != nil {
			if ifi, ok := lastInstr(d).(*ssa.If); ok {
				cond = c.str(ifi.Cond)
			}
		}
		return "φ{" + strings.Join(es, " | ") + " if " + cond + "}"
	}
	return fmt.Sprintf("%T", v)
}

func (c *canonizer) cellStr(a *ssa.Alloc, at ssa.Instruction) string {
	if at != nil {
		if sts := reachingStores(a, at); len(sts) == 1 {
			return c.str(sts[0].Val)
		}
	}
	// a cell with exactly one store in the whole function
	var only *ssa.Store
	n := 0
	for _, ref := range *a.Referrers() {
		if st, ok := ref.(*ssa.Store); ok && st.Addr == a {
			only = st
			n++
		}
	}
	if n == 1 && !cellWrittenInClosures(a) {
		return c.str(only.Val)
	}
	return "cell:" + a.Comment
}

// set renders a CPUSet-typed value as a set expression over canonical bases.
func (c *canonizer) set(v ssa.Value) *sx {
	switch x := v.(type) {
	case *ssa.Call:
		if isCpusetNewCall(x) && emptyVariadic(x) {
			return sxEmpty()
		}
		if f := x.Common().StaticCallee(); f != nil && f.Pkg != nil && f.Pkg.Pkg.Path() == pkgK8sCpuset {
			a := x.Common().Args
			switch f.Name() {
			case "Clone":
				return c.set(a[0])
			case "Union":
				if s := variadicSingle(a[1]); s != a[1] {
					return sxOr(c.set(a[0]), c.set(s))
				}
			case "Intersection":
				return sxAnd(c.set(a[0]), c.set(a[1]))
			case "Difference":
				return sxDiff(c.set(a[0]), c.set(a[1]))
			}
		}
	case *ssa.UnOp:
		if x.Op == token.MUL {
			switch a := x.X.(type) {
			case *ssa.Alloc:
				if sts := reachingStores(a, x); len(sts) == 1 {
					return c.set(sts[0].Val)
				}
			case *ssa.FreeVar:
				if b, mk := c.closureBinding(a); b != nil {
					if al, ok := b.(*ssa.Alloc); ok {
						if sts := reachingStores(al, mk); len(sts) == 1 && !cellWrittenInClosures(al) {
							return c.set(sts[0].Val)
						}
					}
				}
			}
		}
	}
	return sxBase(c.str(v))
}
