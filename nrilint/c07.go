package main

import (
	"fmt"
	"go/constant"
	"go/token"
	"go/types"

	"golang.org/x/tools/go/ssa"
)

// C07 — memory allocator placement rules: fit, types, monotone moves, exact updates.
func init() { register("C07", "libmem placement rules", checkC07) }

func checkC07(e *Engine, r *Report) {
	r.Rules = []string{
		"R6 reservations-never-move (priority limits handed to zoneShrinkUsage are constants below Reservation; candidates come only from RequestsWithMaxPriority(limit); filter compares Priority() <= limit)",
		"value-shape monotone-moves (every internal zoneMove destination is `current zone | …`; realloc only ORs into Request.zone)",
		"R1 exact-updates (journaled primitives; commitJournal removes only the requester; Allocate/realloc return it unmodified)",
		"R1 fit+normal-memory (allocate succeeds only through handleOvercommit()==nil after ensureNormalMemory; nil returns of overcommit handling are dominated by an empty checkOvercommit result; zoneFree = capacity - usage; usage sums sub-zones)",
		"R2 strict-types (findInitialZone masks by requested types under IsStrict; zoneShrinkUsage never moves a strict request to a zone of other types)",
	}
	r.NotDecided = []string{
		"capacity arithmetic over histories", "expansion order / closeness of chosen nodes", "behaviour of user-supplied custom functions",
	}
	r.Assumptions = []string{"custom ExpandZone/HandleOvercommit callbacks are outside the default placement rules"}
	c := newLMCtx(e, r)
	shrink := r.Anchor(pkgLM, "Allocator.zoneShrinkUsage")
	defOC := r.Anchor(pkgLM, "Allocator.defaultHandleOvercommit")
	checkOC := r.Anchor(pkgLM, "Allocator.checkOvercommit")
	sortReq := r.Anchor(pkgLM, "SortRequests")
	withMax := r.Anchor(pkgLM, "RequestsWithMaxPriority")
	ensure := r.Anchor(pkgLM, "Allocator.ensureNormalMemory")
	findInit := r.Anchor(pkgLM, "Allocator.findInitialZone")
	zoneFree := r.Anchor(pkgLM, "Allocator.zoneFree")
	zoneCap := r.Anchor(pkgLM, "Allocator.zoneCapacity")
	zoneUsage := r.Anchor(pkgLM, "Allocator.zoneUsage")
	pubAlloc := r.Anchor(pkgLM, "Allocator.Allocate")
	moveReq := r.Anchor(pkgLM, "customAllocator.MoveRequest")
	if c.zoneMove == nil || shrink == nil || defOC == nil || checkOC == nil || sortReq == nil || withMax == nil ||
		ensure == nil || findInit == nil || zoneFree == nil || c.realloc == nil || c.allocate == nil || pubAlloc == nil {
		return
	}
	prioT := e.Named(pkgLM, "Priority")
	resv, _ := e.TypesPkg(pkgLM).Scope().Lookup("Reservation").(*types.Const)
	if prioT == nil || resv == nil {
		r.Undecided("anchor:Reservation", "anchor", "Priority and Reservation must exist", "-", nil, "not found")
		return
	}
	resvVal, _ := constant.Int64Val(resv.Val())

	// ---- rule 1: reservations never move ---------------------------------
	// (a) who may call zoneMove
	owners := set(FnName(c.realloc), FnName(shrink), FnName(c.commit))
	if moveReq != nil {
		owners[FnName(moveReq)] = true
	}
	nm := 0
	for _, cs := range e.Callers(c.zoneMove) {
		nm++
		top := FnName(TopParent(cs.Fn))
		r.Check("R3:caller[zoneMove]@"+top, "R6 reservations-never-move", "zoneMove is called only from "+fmt.Sprint(sortedKeys(owners)),
			e.InstrPos(cs.Call), cs.Fn, owners[top], "", false)
	}
	r.MinInstances("zoneMove callers", nm, 2)
	// (b) in zoneShrinkUsage the moved request comes from SortRequests(z.users, RequestsWithMaxPriority(limit), …)
	for _, mc := range e.callsTo(shrink, c.zoneMove) {
		a := callArgs(mc)
		var src *ssa.Call
		okSrc := len(a) == 3 && originAll(a[2], func(v ssa.Value) bool {
			u, ok := v.(*ssa.UnOp)
			if !ok || u.Op != token.MUL {
				return false
			}
			ia, ok := u.X.(*ssa.IndexAddr)
			if !ok {
				return false
			}
			call, ok := ia.X.(*ssa.Call)
			if !ok || !e.IsCallTo(call, fset(sortReq)) {
				return false
			}
			src = call
			return true
		})
		r.Check("R6:shrink-candidates", "R6 reservations-never-move", "requests moved by zoneShrinkUsage are elements of a SortRequests(…) result",
			e.InstrPos(mc), shrink, okSrc, "", true)
		if src != nil {
			sa := src.Common().Args
			okF := false
			if len(sa) >= 2 {
				if fc, ok := sa[1].(*ssa.Call); ok && e.IsCallTo(fc, fset(withMax)) && paramIndex(fc.Common().Args[0]) == 3 {
					okF = true
				}
			}
			r.Check("R6:shrink-filter", "R6 reservations-never-move", "the candidate filter is RequestsWithMaxPriority(limit) with zoneShrinkUsage's own limit parameter",
				e.InstrPos(src), shrink, okF, "", true)
			// candidates are the users of the zone being shrunk
			okU := false
			if len(sa) >= 1 {
				if f, base := loadedField(sa[0]); f == c.fZoneUsers {
					if ex, ok := base.(*ssa.Extract); ok && ex.Index == 0 {
						if lk, ok := ex.Tuple.(*ssa.Lookup); ok {
							zf, _ := loadedField(lk.X)
							okU = zf == c.fZones && paramIndex(lk.Index) == 1
						}
					}
				}
			}
			r.Check("R6:shrink-source", "value-shape monotone-moves", "candidates are the users of a.zones[zone] for the zone parameter",
				e.InstrPos(src), shrink, okU, "", true)
		}
		// (rule 2) destination = zone | nodes
		okD := false
		if len(a) == 3 {
			if b, ok := a[1].(*ssa.BinOp); ok && b.Op == token.OR && (paramIndex(b.X) == 1 || paramIndex(b.Y) == 1) {
				okD = true
			}
		}
		r.Check("R5:monotone@"+FnName(shrink), "value-shape monotone-moves", "zoneShrinkUsage moves requests to `zone | extra nodes` (a superset of their current zone)",
			e.InstrPos(mc), shrink, okD, "", true)
		// (rule 5) strict requests move only into zones of their own types: decided in the
		// mask algebra. D = types added by the expansion; the zone a strict request sits in
		// already has only requested types (invariant, established by findInitialZone).
		typesObj := e.FuncObj(pkgLM, "Request.Types")
		strictObj := e.FuncObj(pkgLM, "Request.IsStrict")
		expandFn := e.Fn(pkgLM, "Allocator.expand")
		me := newMaskEval(e, shrink)
		var addedTypes, reqTypes, zoneTypes *sx
		fZT := e.Field(pkgLM, "Zone", "types")
		AllInstrs(shrink, func(in ssa.Instruction) {
			switch x := in.(type) {
			case *ssa.Extract:
				if c, ok := x.Tuple.(*ssa.Call); ok && x.Index == 1 && c.Common().StaticCallee() == expandFn {
					addedTypes = me.eval(x)
				}
			case *ssa.Call:
				if callObj(x.Common()) == typesObj && sameValue(callArgs(x)[0], callArgs(mc)[2]) {
					reqTypes = me.eval(x)
				}
			case *ssa.UnOp:
				if f, _ := loadedField(x); f != nil && f == fZT {
					zoneTypes = me.eval(x)
				}
			}
		})
		if addedTypes == nil || expandFn == nil {
			r.Undecided("R2:strict-move@"+FnName(shrink), "R2 strict-types", "zoneShrinkUsage expands with a.expand()", e.Pos(shrink.Pos()), shrink, "no expand() result found")
		} else if reqTypes == nil {
			// the moved request's types are never consulted: only non-strict requests may reach the move
			r.Unreachable("R2:strict-move@"+FnName(shrink), "R2 strict-types",
				"a strict request is moved only into a zone whose added types are all among its requested types", shrink, nil,
				func(in ssa.Instruction) bool { return in == mc.(ssa.Instruction) }, func(cond ssa.Value) (bool, bool) {
					if call, ok := isCallToObj(cond, strictObj); ok && call != nil {
						return true, true
					}
					return false, false
				})
		} else {
			var given []vennFact
			if zoneTypes != nil {
				given = append(given, subset(zoneTypes, reqTypes))
			}
			goal := []vennFact{subset(addedTypes, reqTypes)}
			guard := me.guardAssumption(given, goal)
			assume := func(cond ssa.Value) (bool, bool) {
				if call, ok := isCallToObj(cond, strictObj); ok && call != nil {
					return true, true
				}
				return guard(cond)
			}
			target := mc.(ssa.Instruction)
			r.Unreachable("R2:strict-move@"+FnName(shrink), "R2 strict-types",
				"a strict request is moved only when a dominating comparison implies (types added by the expansion) ⊆ (its requested types)", shrink, nil,
				func(in ssa.Instruction) bool { return in == target }, assume)
		}
	}
	// (c) filter semantics
	{
		okCmp := false
		prioObj := e.FuncObj(pkgLM, "Request.Priority")
		for _, cl := range withMax.AnonFuncs {
			for _, ret := range Returns(cl) {
				if b, ok := ret.Results[0].(*ssa.BinOp); ok && b.Op == token.LEQ {
					_, isP := isCallToObj(b.X, prioObj)
					u, isL := b.Y.(*ssa.UnOp)
					if isP && isL {
						if fv, ok := u.X.(*ssa.FreeVar); ok && fv.Name() == "limit" {
							okCmp = true
						}
					}
					if fv, ok := b.Y.(*ssa.FreeVar); ok && isP && fv.Name() == "limit" {
						okCmp = true
					}
				}
			}
		}
		r.Check("R6:filter-semantics", "R6 reservations-never-move", "RequestsWithMaxPriority(limit) accepts exactly requests with Priority() <= limit",
			e.Pos(withMax.Pos()), withMax, okCmp, "", true)
		// SortRequests appends only accepted requests
		assumeRejected := func(cond ssa.Value) (bool, bool) {
			if b, ok := cond.(*ssa.BinOp); ok && b.Op == token.EQL && (paramIndex(b.X) == 1 || paramIndex(b.Y) == 1) {
				return true, false // f == nil is false
			}
			if call, ok := cond.(*ssa.Call); ok && !call.Common().IsInvoke() && paramIndex(call.Common().Value) == 1 {
				return true, false // f(req) is false
			}
			return false, false
		}
		r.Unreachable("R6:sort-respects-filter", "R6 reservations-never-move", "SortRequests never includes a request its filter rejected", sortReq, nil,
			func(in ssa.Instruction) bool {
				call, ok := in.(*ssa.Call)
				if !ok {
					return false
				}
				b, ok := call.Common().Value.(*ssa.Builtin)
				return ok && b.Name() == "append"
			}, assumeRejected)
	}
	// (d) every limit handed to zoneShrinkUsage is a constant < Reservation
	nl := 0
	for _, cs := range e.Callers(shrink) {
		a := callArgs(cs.Call)
		if len(a) != 5 {
			continue
		}
		nl++
		ok, why := limitBelow(cs.Fn, a[3], prioT, resvVal)
		r.Check("R6:limit<Reservation@"+FnName(cs.Fn), "R6 reservations-never-move",
			"the priority limit passed to zoneShrinkUsage is drawn from constants strictly below Reservation", e.InstrPos(cs.Call), cs.Fn, ok, why, true)
	}
	r.MinInstances("zoneShrinkUsage callers", nl, 1)
	// Reservation is the top priority (so `<= limit` with limit < Reservation excludes exactly reservations and above)
	{
		maxOther := int64(-1 << 62)
		sc := e.TypesPkg(pkgLM).Scope()
		for _, n := range sc.Names() {
			if k, ok := sc.Lookup(n).(*types.Const); ok && types.Identical(k.Type(), prioT) && k != resv {
				if v, ok := constant.Int64Val(k.Val()); ok && v > maxOther {
					maxOther = v
				}
			}
		}
		r.Check("R6:reservation-is-top", "R6 reservations-never-move", "Reservation is the greatest Priority constant",
			e.Pos(resv.Pos()), nil, maxOther < resvVal, fmt.Sprintf("Reservation=%d, max other=%d", resvVal, maxOther), false)
	}

	// ---- rule 2: monotone moves (realloc) ----------------------------------
	for _, mc := range e.callsTo(c.realloc, c.zoneMove) {
		a := callArgs(mc)
		ok := len(a) == 3 && orIncludesFieldOf(a[1], c.fReqZone, a[2])
		r.Check("R5:monotone@"+FnName(c.realloc), "value-shape monotone-moves", "realloc moves the request to `req.zone | …` (a superset)",
			e.InstrPos(mc), c.realloc, ok, "", true)
	}
	AllInstrs(c.realloc, func(in ssa.Instruction) {
		st, ok := in.(*ssa.Store)
		if !ok || fieldOfAddr(st.Addr) != c.fReqZone {
			return
		}
		base := st.Addr.(*ssa.FieldAddr).X
		okV := orIncludesFieldOf(st.Val, c.fReqZone, base)
		if !okV {
			// the failure-path restore from the authoritative users map
			if lk, isLk := st.Val.(*ssa.Lookup); isLk {
				f, _ := loadedField(lk.X)
				okV = f == c.fUsers
			}
		}
		r.Check("R5:realloc-only-adds", "value-shape monotone-moves", "realloc writes Request.zone only as `req.zone | …` (or restores it from Allocator.users on failure)",
			e.InstrPos(in), c.realloc, okV, "", true)
	})
	// Commit moves other requests only to the zones recorded in the offer (computed by the same journaled algorithm)
	for _, mc := range e.callsTo(c.commit, c.zoneMove, c.zoneAssign) {
		a := callArgs(mc)
		ok := len(a) == 3 && originAll(a[1], func(v ssa.Value) bool {
			ex, ok := v.(*ssa.Extract)
			if !ok {
				return false
			}
			nx, ok := ex.Tuple.(*ssa.Next)
			if !ok {
				return false
			}
			rg, ok := nx.Iter.(*ssa.Range)
			if !ok {
				return false
			}
			f, _ := loadedField(rg.X)
			return f == c.fOUpdates && ex.Index == 2
		})
		r.Check("R5:commit-replays-offer", "value-shape monotone-moves", "Commit moves requests exactly to the zones recorded in the offer's updates",
			e.InstrPos(mc), c.commit, ok, "", true)
	}

	// ---- rule 3: exact updates ---------------------------------------------
	c.checkJournaling(r)
	if c.commitJournal != nil && c.fUpdates != nil {
		fn := c.commitJournal
		nd := 0
		AllInstrs(fn, func(in ssa.Instruction) {
			if !isMapWriteOf(in, c.fUpdates) {
				return
			}
			if ci, ok := in.(ssa.CallInstruction); ok {
				nd++
				key := ci.Common().Args[1]
				okK := originAll(key, func(v ssa.Value) bool {
					call, ok := v.(*ssa.Call)
					if !ok {
						return false
					}
					o := callObj(call.Common())
					a := callArgs(call)
					return o != nil && o.Name() == "ID" && len(a) == 1 && paramIndex(a[0]) == 1
				})
				r.Check("R1:commit-removes-requester-only", "R1 exact-updates", "commitJournal deletes only the requester's own id from the reported updates",
					e.InstrPos(in), fn, okK, "", true)
			} else {
				r.Check("R1:commit-no-update-edits", "R1 exact-updates", "commitJournal never rewrites recorded updates", e.InstrPos(in), fn, false, "", true)
			}
		})
		r.MinInstances("commitJournal deletes", nd, 1)
		for _, ret := range Returns(fn) {
			okR := originAll(ret.Results[0], func(v ssa.Value) bool {
				if k, ok := v.(*ssa.Const); ok && k.IsNil() {
					return true
				}
				f, _ := loadedField(v)
				return f == c.fUpdates
			})
			r.Check("R1:commit-returns-journal", "R1 exact-updates", "commitJournal returns the journal's recorded updates", e.InstrPos(ret), fn, okR, "", true)
		}
		for _, fn := range []*ssa.Function{pubAlloc, c.realloc} {
			for _, ret := range Returns(fn) {
				if !e.maySucceed(ret) || len(ret.Results) != 3 {
					continue
				}
				v := retValue(ret, 1)
				okR := originAll(v, func(x ssa.Value) bool {
					if k, ok := x.(*ssa.Const); ok && k.IsNil() {
						// only a path without any mutation may report no updates without consulting the journal
						return !mutationBefore(c, fn, ret)
					}
					call, ok := x.(*ssa.Call)
					return ok && e.IsCallTo(call, fset(c.commitJournal))
				})
				r.Check("R1:updates-passthrough@"+FnName(fn), "R1 exact-updates",
					fn.Name()+" returns commitJournal's updates unmodified on success (nil only on a path without any mutation)", e.InstrPos(ret), fn, okR, "", true)
			}
		}
	}

	checkLibmemFit(e, r, c, ensure, defOC, checkOC, zoneFree, zoneCap, zoneUsage)
	checkFinalZoneReturned(e, r, c, pubAlloc)
	checkExpansionTypePurity(e, r)
	checkLibmemStrictNormalMemory(e, r, c)
	checkLibmemOfferCommit(e, r, c)

	for p, n := range map[string]int{"R6:shrink-": 2, "R5:monotone@": 2, "R5:commit-replays-offer": 1,
		"R1:updates-passthrough@": 2, "R1:allocate-success-is-fit": 1, "R1:fit-checks-new-zone@": 1, "R1:normal-memory-guard": 2,
		"R1:resolved-means-no-overcommit@": 2, "R2:strict-move@": 1, "R1:commit-returns-journal": 1} {
		r.MinKeys(p, n)
	}

	// ---- rule 5: strict types in findInitialZone ---------------------------
	{
		fn := findInit
		strictObj := e.FuncObj(pkgLM, "Request.IsStrict")
		strict := func(val bool) Assumption {
			return func(cond ssa.Value) (bool, bool) {
				if _, ok := isCallToObj(cond, strictObj); ok {
					return true, val
				}
				return false, false
			}
		}
		ns := 0
		AllInstrs(fn, func(in ssa.Instruction) {
			st, ok := in.(*ssa.Store)
			if !ok || fieldOfAddr(st.Addr) != c.fReqZone {
				return
			}
			ns++
			masked, any := true, false
			OriginsUnder(fn, st.Val, strict(true), func(v ssa.Value) bool {
				if _, isPhi := v.(*ssa.Phi); isPhi {
					return false
				}
				any = true
				b, ok := v.(*ssa.BinOp)
				if !ok || b.Op != token.AND {
					masked = false
					return true
				}
				isByTypes := func(x ssa.Value) bool {
					lk, ok := x.(*ssa.Lookup)
					if !ok {
						return false
					}
					f, _ := loadedField(lk.X)
					return f != nil && f.Name() == "byTypes"
				}
				if !isByTypes(b.X) && !isByTypes(b.Y) {
					masked = false
				}
				return true
			})
			r.Check("R2:strict-mask@"+FnName(fn), "R2 strict-types", "for a strict request the initial zone stored is masked with nodes.byTypes[req.types]",
				e.InstrPos(in), fn, masked && any, "", true)
		})
		r.MinInstances("findInitialZone zone stores", ns, 1)
		// a strict request with a missing type fails: an error return exists that is reachable only for strict requests
		okErr := false
		for _, ret := range Returns(fn) {
			if e.ClassifyReturn(ret) != retNonNilErr {
				continue
			}
			tgt := func(in ssa.Instruction) bool { return in == ssa.Instruction(ret) }
			if FindPath(PathQuery{Fn: fn, Assume: strict(true), Target: tgt}) != nil &&
				FindPath(PathQuery{Fn: fn, Assume: strict(false), Target: tgt}) == nil {
				okErr = true
			}
		}
		r.Check("R2:strict-missing-type-fails", "R2 strict-types", "findInitialZone has a failure exit taken only by strict requests (missing requested type)",
			e.Pos(fn.Pos()), fn, okErr, "", true)
	}
}

// limitBelow: is the priority value v drawn from constants < bound?
func limitBelow(fn *ssa.Function, v ssa.Value, prioT types.Type, bound int64) (bool, string) {
	switch x := v.(type) {
	case *ssa.Const:
		if x.Value == nil {
			return false, "non-integer constant"
		}
		return x.Int64() < bound, fmt.Sprintf("constant %d", x.Int64())
	case *ssa.UnOp:
		if x.Op != token.MUL {
			return false, "unrecognised"
		}
		ia, ok := x.X.(*ssa.IndexAddr)
		if !ok {
			return false, "not an element of a literal"
		}
		// the indexed slice/array must be a local literal: Slice(Alloc) or Alloc
		var alloc *ssa.Alloc
		switch b := ia.X.(type) {
		case *ssa.Slice:
			alloc, _ = b.X.(*ssa.Alloc)
		case *ssa.Alloc:
			alloc = b
		}
		if alloc == nil {
			return false, "limit is not read from a local literal"
		}
		n := 0
		ok = true
		var vals []int64
		for _, ref := range *alloc.Referrers() {
			ia2, isIA := ref.(*ssa.IndexAddr)
			if !isIA {
				continue
			}
			for _, r2 := range *ia2.Referrers() {
				st, isSt := r2.(*ssa.Store)
				if !isSt || st.Addr != ia2 {
					continue
				}
				k, isK := st.Val.(*ssa.Const)
				if !isK || k.Value == nil {
					ok = false
					continue
				}
				n++
				vals = append(vals, k.Int64())
				if k.Int64() >= bound {
					ok = false
				}
			}
		}
		return ok && n > 0, fmt.Sprintf("literal elements %v, bound %d", vals, bound)
	case *ssa.Parameter:
		return false, "limit is a parameter (callers not analysed at this depth)"
	}
	return false, "unrecognised limit expression"
}

// orIncludesFieldOf: v is an |-expression one of whose leaves is a load of
// field f of the object `base` denotes.
func orIncludesFieldOf(v ssa.Value, f *types.Var, base ssa.Value) bool {
	// look through a local (or named result) holding the expression
	if u, ok := v.(*ssa.UnOp); ok && u.Op == token.MUL {
		if al, ok := u.X.(*ssa.Alloc); ok {
			sts := reachingStores(al, u)
			if len(sts) == 0 {
				return false
			}
			for _, st := range sts {
				if !orIncludesFieldOf(st.Val, f, base) {
					return false
				}
			}
			return true
		}
	}
	b, ok := v.(*ssa.BinOp)
	if ok && b.Op == token.OR {
		return orIncludesFieldOf(b.X, f, base) || orIncludesFieldOf(b.Y, f, base)
	}
	g, bs := loadedField(v)
	return g == f && sameObject(bs, base)
}

func sameObject(a, b ssa.Value) bool {
	return a == b || unspill(a) == unspill(b)
}

// unspill looks through a load of a local cell that is stored exactly once and never written by a closure (a parameter or
// local that go/ssa keeps in memory because a closure or defer captures it): the cell's only value.
func unspill(v ssa.Value) ssa.Value {
	for i := 0; i < 4; i++ {
		u, ok := v.(*ssa.UnOp)
		if !ok || u.Op != token.MUL {
			return v
		}
		al, ok := u.X.(*ssa.Alloc)
		if !ok || cellWrittenInClosures(al) {
			return v
		}
		var only ssa.Value
		n := 0
		for _, r := range *al.Referrers() {
			if st, ok := r.(*ssa.Store); ok && st.Addr == ssa.Value(al) {
				n++
				only = st.Val
			}
		}
		if n != 1 {
			// re-assigned local: the value at this load is still determined when exactly one store reaches it
			if sts := reachingStores(al, u); len(sts) == 1 {
				v = sts[0].Val
				continue
			}
			return v
		}
		v = only
	}
	return v
}

func findFieldByName(e *Engine, pkg, name string) *types.Var {
	return nil
}

// mutationBefore: is some mutation reachable on a path to ret?
func mutationBefore(c *lmCtx, fn *ssa.Function, ret *ssa.Return) bool {
	found := false
	AllInstrs(fn, func(in ssa.Instruction) {
		if found || !c.isMutation(in) {
			return
		}
		if FindPath(PathQuery{Fn: fn, From: in, Target: func(x ssa.Instruction) bool { return x == ssa.Instruction(ret) }}) != nil {
			found = true
		}
	})
	return found
}

// checkLibmemFit (C07 rule 4, C04 rule 4): a successful admission is the
// verdict of a fresh overcommit check on the zone just assigned, after normal
// memory was ensured.
func checkLibmemFit(e *Engine, r *Report, c *lmCtx, ensure, defOC, checkOC, zoneFree, zoneCap, zoneUsage *ssa.Function) {
	// ---- rule 4: fit and normal memory --------------------------------------
	{
		fn := c.allocate
		for _, ret := range Returns(fn) {
			if !e.maySucceed(ret) {
				continue
			}
			v := retValue(ret, 0)
			okV := originAll(v, func(x ssa.Value) bool {
				call, ok := x.(*ssa.Call)
				return ok && e.IsCallTo(call, fset(c.handleOvercommit))
			})
			r.Check("R1:allocate-success-is-fit", "R1 fit+normal-memory", "allocate succeeds only with the verdict of handleOvercommit(req.zone)",
				e.InstrPos(ret), fn, okV, "", true)
		}
		ec := e.callsTo(fn, ensure)
		if len(ec) == 1 {
			start := ec[0].(ssa.Instruction)
			p := FindPath(PathQuery{Fn: fn, Block: func(in ssa.Instruction) bool { return in == start },
				Target: func(in ssa.Instruction) bool { return c.isMutation(in) }})
			r.Check("R1:normal-before-assign", "R1 fit+normal-memory", "allocate assigns a zone only after ensureNormalMemory", e.InstrPos(start), fn, p == nil, e.pathString(p), true)
			r.Unreachable("R1:normal-must-succeed", "R1 fit+normal-memory", "allocate assigns a zone only if ensureNormalMemory succeeded", fn, start,
				c.isMutation, func(cond ssa.Value) (bool, bool) {
					k, v := callSucceeded(ec[0].Value())(cond)
					return k, !v
				})
		} else {
			r.Undecided("R1:normal-before-assign", "R1 fit+normal-memory", "allocate calls ensureNormalMemory exactly once", e.Pos(fn.Pos()), fn, fmt.Sprintf("%d calls", len(ec)))
		}
		// handleOvercommit argument in allocate/realloc covers the request's new zone
		for _, hc := range e.callsTo(fn, c.handleOvercommit) {
			a := callArgs(hc)
			f, _ := loadedField(a[1])
			r.Check("R1:fit-checks-new-zone@"+FnName(fn), "R1 fit+normal-memory", "allocate checks overcommit for the zone it just assigned (req.zone)",
				e.InstrPos(hc), fn, f == c.fReqZone, "", true)
		}
	}
	// ensureNormalMemory: nil returns are dominated by (zone & normal) != 0 for the zone that is (or gets) stored
	fNormal := e.Field(pkgLM, "nodeMasks", "normal")
	if fNormal == nil {
		// the field lives in an anonymous/inner struct; look it up structurally
		fNormal = findFieldByName(e, pkgLM, "normal")
	}
	for _, ret := range Returns(ensure) {
		if e.ClassifyReturn(ret) == retNonNilErr {
			continue
		}
		ok := false
		for _, cf := range dominatingConds(ret.Block()) {
			b, isB := cf.Cond.(*ssa.BinOp)
			if !isB || !cf.Val || b.Op != token.NEQ {
				continue
			}
			and, isA := b.X.(*ssa.BinOp)
			if !isA || and.Op != token.AND || !isConstInt(b.Y, 0) {
				continue
			}
			var x ssa.Value
			if f, _ := loadedField(and.Y); f != nil && f.Name() == "normal" {
				x = and.X
			} else if f, _ := loadedField(and.X); f != nil && f.Name() == "normal" {
				x = and.Y
			}
			if x == nil {
				continue
			}
			// x is req.zone itself, or is stored into req.zone before the return
			if f, _ := loadedField(x); f == c.fReqZone {
				ok = true
			}
			for _, in := range ret.Block().Instrs {
				if st, isS := in.(*ssa.Store); isS && fieldOfAddr(st.Addr) == c.fReqZone && st.Val == x {
					ok = true
				}
			}
		}
		r.Check("R1:normal-memory-guard", "R1 fit+normal-memory",
			"ensureNormalMemory succeeds only when the zone it leaves in the request intersects the normal-memory nodes", e.InstrPos(ret), ensure, ok, "", true)
	}
	// handleOvercommit / defaultHandleOvercommit: nil only when checkOvercommit reports nothing
	for _, fn := range []*ssa.Function{c.handleOvercommit, defOC} {
		if fn == nil {
			continue
		}
		for _, ret := range Returns(fn) {
			k, isConst := ret.Results[0].(*ssa.Const)
			if !isConst || !k.IsNil() {
				continue
			}
			ok := false
			for _, cf := range dominatingConds(ret.Block()) {
				b, isB := cf.Cond.(*ssa.BinOp)
				if !isB || b.Op != token.EQL || !cf.Val || !isConstInt(b.Y, 0) {
					continue
				}
				call, isC := b.X.(*ssa.Call)
				if !isC {
					continue
				}
				if bi, isBi := call.Common().Value.(*ssa.Builtin); isBi && bi.Name() == "len" {
					if originAll(call.Common().Args[0], func(v ssa.Value) bool {
						ex, ok := v.(*ssa.Extract)
						if !ok || ex.Index != 0 {
							return false
						}
						cc, ok := ex.Tuple.(*ssa.Call)
						return ok && e.IsCallTo(cc, fset(checkOC))
					}) {
						ok = true
					}
				}
			}
			r.Check("R1:resolved-means-no-overcommit@"+FnName(fn), "R1 fit+normal-memory",
				fn.Name()+" returns nil only when a fresh checkOvercommit() reported no overcommitted zone", e.InstrPos(ret), fn, ok, "", true)
		}
	}
	// checkOvercommit flags zones with zoneFree < 0; zoneFree = capacity - usage; usage sums all sub-zones
	{
		okSub := false
		for _, ret := range Returns(zoneFree) {
			if b, ok := ret.Results[0].(*ssa.BinOp); ok && b.Op == token.SUB {
				cx, okx := b.X.(*ssa.Call)
				cy, oky := b.Y.(*ssa.Call)
				if okx && oky && e.IsCallTo(cx, fset(zoneCap)) && e.IsCallTo(cy, fset(zoneUsage)) &&
					paramIndex(cx.Common().Args[1]) == 1 && paramIndex(cy.Common().Args[1]) == 1 {
					okSub = true
				}
			}
		}
		r.Check("R1:free=capacity-usage", "R1 fit+normal-memory", "zoneFree(z) = zoneCapacity(z) - zoneUsage(z)", e.Pos(zoneFree.Pos()), zoneFree, okSub, "", true)
		checkLibmemOvercommitDetection(e, r, c)
	}

}

// checkFinalZoneReturned (shared by C04 and C07): the zone handed back to the
// caller after a mutation is the request's recorded zone read AFTER overcommit
// handling, which may have moved the request itself further.
func checkFinalZoneReturned(e *Engine, r *Report, c *lmCtx, pubAlloc *ssa.Function) {
	movers := fset(c.zoneAssign, c.zoneMove)
	zoneAcc := e.Fn(pkgLM, "Request.Zone")
	n := 0
	for _, fn := range []*ssa.Function{pubAlloc, c.realloc} {
		if fn == nil {
			continue
		}
		for _, ret := range Returns(fn) {
			if !e.maySucceed(ret) || len(ret.Results) != 3 {
				continue
			}
			n++
			v := retValue(ret, 0)
			var loads []ssa.Instruction
			okSrc := originAll(v, func(x ssa.Value) bool {
				if f, b := loadedField(x); f == c.fReqZone && paramIndex(b) == 1 {
					loads = append(loads, x.(ssa.Instruction))
					return true
				}
				if call, ok := x.(*ssa.Call); ok && zoneAcc != nil && call.Common().StaticCallee() == zoneAcc && paramIndex(callArgs(call)[0]) == 1 {
					loads = append(loads, call)
					return true
				}
				return false
			})
			why := "the returned zone is not read from the request's recorded zone (Request.zone)"
			if okSrc {
				for _, ld := range loads {
					p := FindPath(PathQuery{Fn: fn, From: ld, Target: func(x ssa.Instruction) bool {
						if _, isCall := x.(ssa.CallInstruction); !isCall {
							return false
						}
						return e.CallReaches(x, movers, 6)
					}})
					if p != nil {
						okSrc, why = false, "the recorded zone is read before a call that may still move the request: "+e.pathString(p)
					}
				}
			}
			if okSrc {
				why = ""
			}
			r.Check("R1:returns-final-zone@"+FnName(fn), "R1 exact-updates", fn.Name()+" returns the request's recorded zone as it is after overcommit handling (the resolver may move the requester itself), so the caller pins to what the allocator holds",
				e.InstrPos(ret), fn, okSrc, why, true)
		}
	}
	r.MinInstances("success returns of Allocate/realloc", n, 2)

	// no lost update of the recorded zone / types: a store computed from the field's own earlier value must not be
	// separated from that read by anything that may write the field (overcommit handling moves the requester itself)
	nSt := 0
	for _, f := range []*types.Var{c.fReqZone, e.Field(pkgLM, "Request", "types")} {
		if f == nil {
			continue
		}
		for _, fn := range e.funcsInPkg(pkgLM) {
			lus, k := e.lostUpdates(fn, f)
			nSt += k
			for _, lu := range lus {
				r.Check("R15:no-lost-update#Request."+f.Name()+"@"+FnName(TopParent(fn)), "R15 no lost update", "a new value of Request."+f.Name()+" computed from its old value is stored before anything else may write the field (the recorded zone is what overcommit handling left, plus the additions)",
					e.InstrPos(lu.Store), fn, false, "read at "+e.InstrPos(lu.Load)+", possibly rewritten at "+e.InstrPos(lu.Writer)+", then overwritten from the stale read", true)
			}
			if k > 0 && len(lus) == 0 {
				r.Check("R15:no-lost-update#Request."+f.Name()+"@"+FnName(TopParent(fn)), "R15 no lost update", "a new value of Request."+f.Name()+" computed from its old value is stored before anything else may write the field (the recorded zone is what overcommit handling left, plus the additions)",
					e.Pos(fn.Pos()), fn, true, fmt.Sprintf("%d stores", k), true)
			}
		}
	}
	r.MinInstances("stores to Request.zone/types", nSt, 3)
}

// ---- expansion type purity ---------------------------------------------------------------------------------
//
// newCloseNodesOfType(zone, t) may only return nodes of type t: defaultExpand reports the expansion as "of type t" and
// the strict-type test of zoneShrinkUsage (and ensureNormalMemory) trusts that report. Decided as containment in the
// mask algebra: the returned accumulator cell, and every value stored into it (in the function or any nested closure),
// is ⊆ byTypes[t.Mask()] — built by &-ing with that table entry; | of contained values; &^ of a contained value; 0.

// cellOf resolves a (possibly nested) captured variable to the cell allocated in the outermost function.
func cellOf(v ssa.Value) *ssa.Alloc {
	cz := &canonizer{}
	for i := 0; i < 6; i++ {
		switch x := v.(type) {
		case *ssa.Alloc:
			return x
		case *ssa.FreeVar:
			b, _ := cz.closureBinding(x)
			if b == nil {
				return nil
			}
			v = b
		default:
			return nil
		}
	}
	return nil
}

// cellStores: every store into the cell, in the allocating function and in all closures that capture it.
func cellStores(al *ssa.Alloc) []*ssa.Store {
	var out []*ssa.Store
	var visit func(addr ssa.Value, d int)
	visit = func(addr ssa.Value, d int) {
		if d > 6 {
			return
		}
		refs := addr.Referrers()
		if refs == nil {
			return
		}
		for _, r := range *refs {
			switch x := r.(type) {
			case *ssa.Store:
				if x.Addr == addr {
					out = append(out, x)
				}
			case *ssa.MakeClosure:
				fn, _ := x.Fn.(*ssa.Function)
				if fn == nil {
					continue
				}
				for i, b := range x.Bindings {
					if b == addr && i < len(fn.FreeVars) {
						visit(fn.FreeVars[i], d+1)
					}
				}
			}
		}
	}
	visit(al, 0)
	return out
}

func checkExpansionTypePurity(e *Engine, r *Report) {
	fn := r.Anchor(pkgLM, "Allocator.newCloseNodesOfType")
	if fn == nil {
		return
	}
	var tParam *ssa.Parameter
	for _, p := range fn.Params {
		if n := namedOf(p.Type()); n != nil && n.Obj().Name() == "Type" && n.Obj().Pkg() != nil && n.Obj().Pkg().Path() == pkgLM {
			tParam = p
		}
	}
	if tParam == nil {
		r.Undecided("R6:expansion-type-pure", "R6 expansion type purity", "the type parameter of newCloseNodesOfType resolves", e.Pos(fn.Pos()), fn, "no parameter of type Type")
		return
	}
	// does v denote the function's type parameter (through spilled / captured cells)?
	isT := func(v ssa.Value) bool {
		if u, ok := v.(*ssa.UnOp); ok && u.Op == token.MUL {
			if al := cellOf(u.X); al != nil {
				sts := cellStores(al)
				return len(sts) == 1 && sts[0].Val == ssa.Value(tParam)
			}
		}
		return v == ssa.Value(tParam)
	}
	isTypeTable := func(v ssa.Value) bool { // byTypes[t.Mask()]
		lk, ok := v.(*ssa.Lookup)
		if !ok {
			return false
		}
		if f, _ := loadedField(lk.X); f == nil || f.Name() != "byTypes" {
			return false
		}
		call, ok := lk.Index.(*ssa.Call)
		if !ok || callObj(call.Common()) == nil || callObj(call.Common()).Name() != "Mask" || len(callArgs(call)) != 1 {
			return false
		}
		return isT(callArgs(call)[0])
	}
	inProg := map[ssa.Value]bool{}
	cellIn := map[*ssa.Alloc]bool{}
	why := ""
	var typed func(v ssa.Value, d int) bool
	typed = func(v ssa.Value, d int) bool {
		if d > 40 {
			return false
		}
		if inProg[v] {
			return true // coinductive
		}
		inProg[v] = true
		defer delete(inProg, v)
		if isTypeTable(v) {
			return true
		}
		switch x := v.(type) {
		case *ssa.Const:
			if k, ok := constIntVal(x); ok && k == 0 {
				return true
			}
		case *ssa.BinOp:
			switch x.Op {
			case token.AND:
				return typed(x.X, d+1) || typed(x.Y, d+1)
			case token.AND_NOT:
				return typed(x.X, d+1)
			case token.OR:
				return typed(x.X, d+1) && typed(x.Y, d+1)
			}
		case *ssa.Phi:
			for _, ed := range x.Edges {
				if !typed(ed, d+1) {
					return false
				}
			}
			return true
		case *ssa.ChangeType:
			return typed(x.X, d+1)
		case *ssa.Convert:
			return typed(x.X, d+1)
		case *ssa.UnOp:
			if x.Op == token.MUL {
				if al := cellOf(x.X); al != nil {
					if cellIn[al] {
						return true
					}
					cellIn[al] = true
					defer delete(cellIn, al)
					for _, st := range cellStores(al) {
						if !typed(st.Val, d+1) {
							if why == "" {
								why = "stored at " + e.InstrPos(st) + ": " + st.Val.String()
							}
							return false
						}
					}
					return true // incl. the zero value
				}
			}
		}
		if why == "" {
			why = "value of unknown type origin: " + v.String() + " at " + e.Pos(v.Pos())
		}
		return false
	}
	n := 0
	for _, ret := range Returns(fn) {
		n++
		why = ""
		ok := typed(retValue(ret, 0), 0)
		r.Check("R6:expansion-type-pure", "R6 expansion type purity", "the nodes newCloseNodesOfType(zone, t) returns are nodes of type t (every value accumulated into the result is masked with byTypes[t.Mask()]), as defaultExpand reports them to the strict-type tests",
			e.InstrPos(ret), fn, ok, why, true)
	}
	r.MinInstances("returns of newCloseNodesOfType", n, 1)
}
