package main

import (
	"fmt"
	"go/types"
	"sort"
	"strings"

	"golang.org/x/tools/go/ssa"
)

// C14 — no request or annotation can crash a plugin.
func init() { register("C14", "no request or annotation can crash a plugin", checkC14) }

var c14PluginPkgs = []string{pkgMemQoS, pkgMemtd, pkgSgx}

func checkC14(e *Engine, r *Report) {
	r.Rules = []string{
		"R4 nil-safety for repository-specific nil sources, over every function reachable from an NRI handler of the resource manager (incl. both policy backends) and of the memory-qos, memtierd and sgx-epc plugins: S1 first result of a comma-ok call/lookup/type-assertion used while ok is false or unchecked; S2 first result of a (value, error) call used on its error path; S3 optional sub-messages of NRI messages (raw field loads and results of nil-safe getters) dereferenced without a nil test on the same access path (fresh stores and `ensure…` helpers establish non-nil); S4 nilable plugin configuration; S5 elements of unmarshalled pointer collections; P parameters that callers may pass nil (UpdateContainer's resources, and every pointer parameter some caller passes a literal nil for) — inter-procedural through 2 levels of parameter summaries; S9 local interface/pointer variables that are still nil (a phi with a nil-constant edge) dereferenced on a path from that edge on which every nil test of the variable says nil",
		"S7 explicit process exits: every panic / log.Fatal / log.Panic / os.Exit / Must* call reachable from a handler is in the reviewed table",
		"S6 (shared with C19) match expressions: for every operator under which Evaluate indexes Values[k], Validate rejects expressions with too few values, every Evaluate call site takes validated or internally built expressions, and an expression built in code gets as many values as its operator reads",
	}
	r.NotDecided = []string{"integer overflow, unbounded recursion or allocation", "panics inside third-party packages on odd inputs", "slice bounds with non-constant indices",
		"nil values from origins other than the listed sources (assumed non-nil)"}
	r.Assumptions = []string{"well-formed NRI events carry non-nil top-level pod and container messages", "method receivers of the plugin objects are non-nil"}

	// the match expressions evaluated on the request path index Values[k]: that is safe because expressions are
	// validated or built with the arity their operator reads — the S6 obligations of the C19 check, adopted here
	{
		sub := NewReport(e, "C19")
		checkC19(e, sub)
		n := 0
		for _, o := range sub.Obls {
			if strings.HasPrefix(o.Key, "S6:") {
				n++
				cp := *o
				r.add(&cp)
			}
		}
		r.MinInstances("expression-arity obligations (S6, shared with C19)", n, 4)
	}
	c := newNilCtx(e)
	pluginTypes := map[*types.Named]bool{}
	for _, p := range c14PluginPkgs {
		if n := e.Named(p, "plugin"); n != nil {
			pluginTypes[n] = true
		}
	}
	c.optionalOwner = func(n *types.Named) bool {
		if n.Obj().Pkg() == nil {
			return false
		}
		if n.Obj().Pkg().Path() == pkgNRIAPI {
			return true
		}
		return pluginTypes[n]
	}

	// ---- scope: functions reachable from the handlers -----------------------------
	var roots []*ssa.Function
	nh := 0
	addHandlers := func(pkg, typ string) {
		n := e.Named(pkg, typ)
		if n == nil {
			r.Undecided("anchor:"+short(pkg)+"."+typ, "anchor", "handler type exists", "-", nil, "not found")
			return
		}
		ms := e.Prog.MethodSets.MethodSet(types.NewPointer(n))
		for i := 0; i < ms.Len(); i++ {
			o := ms.At(i).Obj().(*types.Func)
			if !o.Exported() {
				continue
			}
			if fn := e.Prog.FuncValue(o); fn != nil && fn.Blocks != nil {
				roots = append(roots, fn)
				nh++
			}
		}
	}
	addHandlers(pkgRM, "nriPlugin")
	for _, p := range c14PluginPkgs {
		addHandlers(p, "plugin")
	}
	r.MinInstances("handler entry points", nh, 8)
	if up := e.Fn(pkgRM, "nriPlugin.UpdateContainer"); up != nil {
		// (p, ctx, pod, container, res): the resources of an update may be absent
		c.nilableParams[up] = map[int]bool{4: true}
	}
	reach := e.Reach(roots, 0)
	var scope []*ssa.Function
	for fn := range reach {
		if fn.Blocks == nil {
			continue
		}
		t := TopParent(fn)
		if t.Origin() != nil {
			t = t.Origin()
		}
		if t.Pkg == nil || !isRepoPath(t.Pkg.Pkg.Path()) {
			continue
		}
		path := t.Pkg.Pkg.Path()
		if strings.Contains(path, "/mock") || strings.HasSuffix(path, "/testutils") {
			continue
		}
		scope = append(scope, fn)
	}
	sort.Slice(scope, func(i, j int) bool {
		if scope[i].String() != scope[j].String() {
			return scope[i].String() < scope[j].String()
		}
		return scope[i].Pos() < scope[j].Pos()
	})
	r.MinInstances("functions reachable from handlers", len(scope), 300)

	// a literal nil passed for a pointer parameter of a repository function makes that parameter nilable (`takeCPUs(&set,
	// nil, …)`): the callee must test it before dereferencing it
	nLit := 0
	for _, fn := range e.RepoFuncs { // callers anywhere (set-up and reconfiguration paths pass nil too)
		if t := TopParent(fn); t.Pkg != nil && (strings.Contains(t.Pkg.Pkg.Path(), "/mock") || strings.HasSuffix(t.Pkg.Pkg.Path(), "/testutils")) {
			continue
		}
		AllInstrs(fn, func(in ssa.Instruction) {
			ci, ok := in.(ssa.CallInstruction)
			if !ok || ci.Common().IsInvoke() {
				return
			}
			g := ci.Common().StaticCallee()
			if g == nil || g.Blocks == nil || !isRepoFn(g) {
				return
			}
			args := callArgs(ci)
			if len(args) != len(g.Params) {
				return
			}
			for j, a := range args {
				k, isK := a.(*ssa.Const)
				if !isK || !k.IsNil() {
					continue
				}
				if _, isPtr := g.Params[j].Type().Underlying().(*types.Pointer); !isPtr {
					continue
				}
				if c.nilableParams[g] == nil {
					c.nilableParams[g] = map[int]bool{}
				}
				if !c.nilableParams[g][j] {
					nLit++
				}
				c.nilableParams[g][j] = true
			}
		})
	}
	_ = nLit
	// propagate nilable parameters two levels: a nilable value passed on as an argument
	for round := 0; round < 3; round++ {
		for _, fn := range scope {
			np := c.nilableParams[fn]
			if np == nil {
				continue
			}
			AllInstrs(fn, func(in ssa.Instruction) {
				ci, ok := in.(ssa.CallInstruction)
				if !ok {
					return
				}
				args := callArgs(ci)
				for j, a := range args {
					if pi := paramIndex(a); pi >= 0 && np[pi] {
						// only if the call is reachable with the parameter nil
						src := c.pathSource(fn, a, "P", "")
						if FindPath(PathQuery{Fn: fn, Assume: src.Assume, Target: func(t ssa.Instruction) bool { return t == in }}) == nil {
							continue
						}
						for _, g := range e.Callees(ci) {
							if g.Blocks == nil || !isRepoFn(g) {
								continue
							}
							if c.nilableParams[g] == nil {
								c.nilableParams[g] = map[int]bool{}
							}
							c.nilableParams[g][j] = true
						}
					}
				}
			})
		}
	}

	// ---- R4 ---------------------------------------------------------------------
	examined := 0
	byKind := map[string]int{}
	nviol := 0
	for _, fn := range scope {
		fs, n := c.checkFunction(fn)
		examined += n
		fs9, n9 := c.checkZeroLocals(fn)
		fs = append(fs, fs9...)
		examined += n9
		r.touch(fn)
		seen := map[string]bool{}
		for _, f := range fs {
			key := fmt.Sprintf("R4:%s@%s#%s<-%s", f.Src.Kind, FnName(fn), shortWhat(f.Site.What), f.Src.Desc)
			if seen[key] {
				continue
			}
			seen[key] = true
			nviol++
			byKind[f.Src.Kind]++
			r.add(&Obligation{Key: key, Rule: "R4 nil-safety " + f.Src.Kind,
				What: fmt.Sprintf("%s of a value that may be nil (%s) must be unreachable while it is nil", f.Site.What, f.Src.Desc),
				Pos:  e.InstrPos(f.Site.In), Fn: FnName(fn), Verdict: Violated,
				Witness: "reachable with the value nil via " + e.pathString(f.Path), Nontrivial: true})
		}
	}
	// one discharged obligation per function that had source-derived dereferences, for the evidence
	r.add(&Obligation{Key: "R4:examined", Rule: "R4 nil-safety", What: fmt.Sprintf("%d dereferences of values from known nil sources examined in %d functions; %d reachable while nil", examined, len(scope), nviol),
		Pos: "-", Verdict: Discharged, Nontrivial: true})
	r.MinInstances("source-derived dereferences examined", examined, 75)
	// record the guarded ones individually too (discharged obligations), so that evidence shows what was decided
	for _, fn := range scope {
		for _, ds := range c.derefSites(fn) {
			src := c.classify(fn, ds.Val)
			if src == nil {
				continue
			}
			q := PathQuery{Fn: fn, From: src.At, Assume: src.Assume, Target: func(in ssa.Instruction) bool { return in == ds.In }}
			if src.Path != "" {
				q.Block = func(in ssa.Instruction) bool { return in != ds.In && c.establishes(in, src.Path, 0) }
			}
			if FindPath(q) == nil {
				r.add(&Obligation{Key: fmt.Sprintf("R4:%s@%s#%s<-%s", src.Kind, FnName(fn), shortWhat(ds.What), src.Desc), Rule: "R4 nil-safety " + src.Kind,
					What: ds.What + " of a value that may be nil (" + src.Desc + ") is unreachable while it is nil", Pos: e.InstrPos(ds.In), Fn: FnName(fn),
					Verdict: Discharged, Nontrivial: true})
			}
		}
	}

	// ---- S6: constant indexing/slicing ---------------------------------------------
	{
		bc := &boundsCtx{e: e}
		nb := 0
		for _, fn := range scope {
			for _, bs := range boundsSites(fn) {
				if !parsedInputSeq(bs.X) {
					continue // only strings and pieces of split strings (parsed input) are in scope
				}
				nb++
				got := bc.minLenAt(bs.X, bs.In, 0)
				key := fmt.Sprintf("S6:bounds@%s#%s", FnName(fn), shortWhat(bs.What))
				why, allowed := c14BoundsAllow[FnName(TopParent(fn))+"#"+bs.What]
				ok := got >= bs.Need || allowed
				w := fmt.Sprintf("proven minimal length %d, needed %d", got, bs.Need)
				if allowed && got < bs.Need {
					w = "reviewed: " + why
				}
				r.add(&Obligation{Key: key, Rule: "S6 constant bounds", What: bs.What + " on a string/slice must be covered by a proven minimal length (construction or dominating length test)",
					Pos: e.InstrPos(bs.In), Fn: FnName(fn), Verdict: map[bool]Verdict{true: Discharged, false: Violated}[ok], Witness: w, Nontrivial: true})
			}
		}
		r.MinInstances("constant index/slice sites on parsed input examined", nb, 2)
	}

	// ---- S7 -----------------------------------------------------------------------
	allowed := map[string]string{}
	for _, a := range c14ExitAllow {
		allowed[a[0]] = a[1]
	}
	nexit := 0
	for _, fn := range scope {
		AllInstrs(fn, func(in ssa.Instruction) {
			kind := ""
			switch x := in.(type) {
			case *ssa.Panic:
				kind = "panic"
			case ssa.CallInstruction:
				if f := x.Common().StaticCallee(); f != nil {
					full := f.String()
					switch {
					case full == "os.Exit":
						kind = "os.Exit"
					case strings.HasSuffix(full, "/pkg/log.logger).Fatal") || strings.HasSuffix(full, "/pkg/log.logger).Fatalf") ||
						strings.HasSuffix(full, "/pkg/log.logger).Panic") || strings.HasSuffix(full, "/pkg/log.logger).Panicf"):
						kind = "log." + f.Name()
					case f.Pkg != nil && isRepoPath(f.Pkg.Pkg.Path()) && strings.HasPrefix(f.Name(), "Must"):
						kind = f.Name()
					}
				} else if x.Common().IsInvoke() {
					m := x.Common().Method
					if m.Pkg() != nil && strings.HasSuffix(m.Pkg().Path(), "/pkg/log") && (strings.HasPrefix(m.Name(), "Fatal") || strings.HasPrefix(m.Name(), "Panic")) {
						kind = "log." + m.Name()
					}
				}
			}
			if kind == "" {
				return
			}
			// the sinks themselves (the logger's Fatal/Panic, cpuset.MustParse) are not sites
			if tp := TopParent(fn); tp.Pkg != nil && (strings.HasSuffix(tp.Pkg.Pkg.Path(), "/pkg/log") || (tp.Pkg.Pkg.Path() == pkgCpuset && strings.HasPrefix(tp.Name(), "Must"))) {
				return
			}
			nexit++
			key := "S7:exit@" + FnName(fn) + "#" + kind
			why, ok := allowed[FnName(TopParent(fn))+"#"+kind]
			r.Check(key, "S7 explicit process exits", kind+" reachable from a handler must be in the reviewed table (it must not be triggerable by request or annotation data)",
				e.InstrPos(in), fn, ok, why, false)
		})
	}
	r.MinInstances("explicit exit sites reachable from handlers", nexit, 1)
	_ = byKind
}

func isRepoFn(fn *ssa.Function) bool {
	t := TopParent(fn)
	if t.Origin() != nil {
		t = t.Origin()
	}
	return t.Pkg != nil && isRepoPath(t.Pkg.Pkg.Path())
}

func shortWhat(s string) string {
	if len(s) > 60 {
		s = s[:60]
	}
	return strings.ReplaceAll(s, " ", "_")
}

// c14ExitAllow: explicit process exits reachable from handlers, reviewed.
// {function#kind, reason}
var c14ExitAllow = [][2]string{
	{"(*cmd/plugins/balloons/policy.balloons).GetTopologyZones#MustParse", "parses the cached container's cpuset string, which is either reported by the runtime (a kernel cpuset) or was produced by the policy's own CPUSet.String()"},
	{"(*cmd/plugins/balloons/policy.cpuTreeAllocator).topologyHintCpus#MustParse", "parses topology-hint CPU lists read from sysfs device files (kernel-formatted), not request or annotation data"},
	{"(*cmd/plugins/balloons/policy.cpuTreeNode).NewAllocator#log.Fatalf", "internal invariant of the CPU tree (classifier asked about a CPU that is not in the tree it was built from); independent of request data"},
	{"(*cmd/plugins/topology-aware/policy.cachedGrant).ToGrant#MustParse", "parses the exclusive cpuset the policy itself serialised into its cache entry"},
	{"(*cmd/plugins/topology-aware/policy.grant).UnmarshalJSON#MustParse", "parses the exclusive cpuset the policy itself serialised into its cache entry"},
	{"(*pkg/resmgr/cache.cache).GetPolicyEntry#log.Fatal", "fails only on a corrupt policy entry that the plugin itself marshalled; not influenced by requests or annotations"},
	{"(*pkg/resmgr/cache.cache).checkPerm#log.Panic", "guards a programming error in the constant permission tables (non-permission bits), independent of input"},
}

// c14BoundsAllow: constant index/slice sites whose minimal length is guaranteed
// by something this rule does not model, reviewed one by one.
// {function#site description: reason}
var c14BoundsAllow = map[string]string{}

// parsedInputSeq: x is a string, or a slice produced by splitting a string.
func parsedInputSeq(x ssa.Value) bool {
	if b, ok := x.Type().Underlying().(*types.Basic); ok && b.Info()&types.IsString != 0 {
		return true
	}
	found := false
	Origins(x, func(v ssa.Value) bool {
		if call, ok := v.(*ssa.Call); ok {
			if f := call.Common().StaticCallee(); f != nil {
				switch f.String() {
				case "strings.Split", "strings.SplitN", "strings.Fields", "strings.SplitAfter", "strings.FieldsFunc":
					found = true
				}
			}
		}
		if sl, ok := v.(*ssa.Slice); ok {
			if parsedInputSeq(sl.X) && sl.X != x {
				found = true
			}
		}
		return false
	})
	return found
}
