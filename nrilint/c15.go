package main

import (
	"fmt"
	"go/token"
	"go/types"
	"sort"
	"strings"

	"golang.org/x/tools/go/ssa"
)

// C15 — request processing is serialized: concurrent delivery is race-free.
func init() { register("C15", "request processing is serialized", checkC15) }

type lockCtx struct {
	e         *Engine
	fMutex    *types.Var // resmgr.RWMutex (embedded)
	protected map[*types.Var]string
	held      map[*ssa.Function]map[ssa.Instruction]bool // memo of local lock analysis
}

// isLockCall: call of (*sync.RWMutex).<name> on resmgr's embedded mutex.
func (c *lockCtx) isMutexCall(in ssa.Instruction, names ...string) bool {
	ci, ok := in.(ssa.CallInstruction)
	if !ok {
		return false
	}
	f := ci.Common().StaticCallee()
	if f == nil || f.Signature.Recv() == nil {
		return false
	}
	okName := false
	for _, n := range names {
		if f.Name() == n {
			okName = true
		}
	}
	if !okName || f.Pkg == nil || f.Pkg.Pkg.Path() != "sync" {
		return false
	}
	args := ci.Common().Args
	return len(args) >= 1 && fieldOfAddr(args[0]) == c.fMutex
}

// lockedAt: on every path from fn's entry to `at`, the resmgr lock has been
// taken and not released by a non-deferred Unlock.
func (c *lockCtx) lockedAt(fn *ssa.Function, at ssa.Instruction) (bool, []ssa.Instruction) {
	isLock := func(in ssa.Instruction) bool {
		if _, isDefer := in.(*ssa.Defer); isDefer {
			return false
		}
		return c.isMutexCall(in, "Lock")
	}
	if p := FindPath(PathQuery{Fn: fn, Block: isLock, Target: func(in ssa.Instruction) bool { return in == at }}); p != nil {
		return false, p
	}
	// an explicit (non-deferred) Unlock between the lock and the use
	var bad []ssa.Instruction
	AllInstrs(fn, func(in ssa.Instruction) {
		if bad != nil {
			return
		}
		if _, isDefer := in.(*ssa.Defer); isDefer {
			return
		}
		if c.isMutexCall(in, "Unlock") {
			if p := FindPath(PathQuery{Fn: fn, From: in, Block: isLock, Target: func(x ssa.Instruction) bool { return x == at }}); p != nil {
				bad = p
			}
		}
	})
	return bad == nil, bad
}

func checkC15(e *Engine, r *Report) {
	r.Rules = []string{
		"R7 lock order: over all repository functions, with per-function summaries (locks acquired transitively, locks still held on return, locks released), an edge A→B is recorded wherever B may be acquired while A may be held; the edge relation is acyclic (no lock-order inversion between the resource-manager lock, the metrics gatherer lock, the instrumentation lock, …)",
		"R7 lockset: every use of resmgr.cache / resmgr.policy / resmgr.control / nriPlugin.byname in pkg/resmgr code reachable from an NRI handler, from updateConfig/reconfigure or from Stop happens with the resmgr lock held on all paths (helpers get a requires-lock summary discharged at every call site, up to the entry points)",
		"R7 no-self-deadlock: nothing called from a handler re-acquires the (non re-entrant) lock; every Lock is released on all paths (defer Unlock)",
		"R3 single entry: cache.Cache / policy backends are called only from the resource manager, the policy layer, the policies and the controllers; goroutines and timers spawned in those packages reach no cache mutator, policy method or container setter",
		"R8 publish-before-spawn: the rendezvous fields GetPodResources tests are stored before the fetch goroutine is spawned; the goroutine stores only PodResources and closes the channel; readers load PodResources only after the receive",
	}
	r.NotDecided = []string{"data races inside third-party code", "liveness while an agent call blocks under the lock", "linearizability is implied by mutual exclusion and not separately checked"}
	r.Assumptions = []string{"resmgr.start runs before the NRI stub is started (no handler can run concurrently with it)",
		"Prometheus collectors that read policy state outside the lock are outside the property's scope"}

	c := &lockCtx{e: e, protected: map[*types.Var]string{}}
	c.fMutex = e.Field(pkgRM, "resmgr", "RWMutex")
	for _, f := range []string{"cache", "policy", "control"} {
		if v := e.Field(pkgRM, "resmgr", f); v != nil {
			c.protected[v] = "resmgr." + f
		}
	}
	if v := e.Field(pkgRM, "nriPlugin", "byname"); v != nil {
		c.protected[v] = "nriPlugin.byname"
	}
	if c.fMutex == nil || len(c.protected) != 4 {
		r.Undecided("anchor:resmgr-fields", "anchor", "resmgr.{RWMutex,cache,policy,control} and nriPlugin.byname exist", "-", nil, "not found")
		return
	}

	// ---- entry points ----------------------------------------------------------
	var entries []*ssa.Function
	nriT := e.Named(pkgRM, "nriPlugin")
	if nriT == nil {
		r.Undecided("anchor:nriPlugin", "anchor", "nriPlugin exists", "-", nil, "not found")
		return
	}
	ms := e.Prog.MethodSets.MethodSet(types.NewPointer(nriT))
	nHandlers := 0
	for i := 0; i < ms.Len(); i++ {
		o := ms.At(i).Obj().(*types.Func)
		if !o.Exported() {
			continue
		}
		if fn := e.Prog.FuncValue(o); fn != nil && fn.Blocks != nil {
			entries = append(entries, fn)
			nHandlers++
		}
	}
	r.MinInstances("NRI handler methods", nHandlers, 5)
	for _, n := range []string{"resmgr.updateConfig", "resmgr.Stop", "resmgr.SendEvent"} {
		if fn := r.Anchor(pkgRM, n); fn != nil {
			entries = append(entries, fn)
		}
	}
	isEntry := fset(entries...)
	startFn := e.Fn(pkgRM, "resmgr.start")

	// functions of pkg/resmgr reachable from the entries (closures included)
	inRM := func(fn *ssa.Function) bool {
		t := TopParent(fn)
		return t.Pkg != nil && t.Pkg.Pkg.Path() == pkgRM
	}
	scope := map[*ssa.Function]bool{}
	var q []*ssa.Function
	for _, en := range entries {
		scope[en] = true
		q = append(q, en)
	}
	for len(q) > 0 {
		f := q[0]
		q = q[1:]
		for _, g := range e.Edges(f) {
			if g.Blocks != nil && inRM(g) && !scope[g] && g != startFn {
				scope[g] = true
				q = append(q, g)
			}
		}
	}

	// ---- rule 1: lockset with requires-lock summaries ---------------------------
	// protectedUse: a load of one of the protected fields
	protectedUse := func(in ssa.Instruction) string {
		u, ok := in.(*ssa.UnOp)
		if !ok || u.Op != token.MUL {
			return ""
		}
		if f := fieldOfAddr(u.X); f != nil {
			return c.protected[f]
		}
		return ""
	}
	// callers restricted to scope
	type need struct {
		fn   *ssa.Function
		at   ssa.Instruction
		what string
	}
	var violations []string
	seenReq := map[string]bool{}
	var require func(fn *ssa.Function, at ssa.Instruction, what string, chain []string, depth int) (bool, string)
	require = func(fn *ssa.Function, at ssa.Instruction, what string, chain []string, depth int) (bool, string) {
		ok, p := c.lockedAt(fn, at)
		if ok {
			return true, ""
		}
		here := fmt.Sprintf("FRAME[%s|%s|%s] %s reaches %s at %s without the lock (path %s)", FnName(fn), what, e.InstrPos(at), FnName(fn), what, e.InstrPos(at), e.pathString(p))
		// closures: the frame continues at their call sites (call / defer); a closure that is
		// only handed out as a value is taken to run where it is created
		if fn.Parent() != nil {
			if depth > 6 {
				return false, here
			}
			sites := e.Callers(fn)
			if len(sites) > 0 {
				for _, cs := range sites {
					if _, isGo := cs.Call.(*ssa.Go); isGo {
						return false, here + " (spawned as a goroutine at " + e.InstrPos(cs.Call) + ")"
					}
					// a deferred closure runs at return; it still holds the lock iff it was
					// registered after Lock() (the matching `defer Unlock()` then runs later, LIFO)
					if ok, w := require(cs.Fn, cs.Call.(ssa.Instruction), what, append(chain, FnName(fn)), depth+1); !ok {
						return false, w
					}
				}
				return true, ""
			}
			var site ssa.Instruction
			AllInstrs(fn.Parent(), func(in ssa.Instruction) {
				if mc, ok := in.(*ssa.MakeClosure); ok && mc.Fn == fn {
					site = in
				}
			})
			if site == nil {
				return false, here
			}
			return require(fn.Parent(), site, what, append(chain, FnName(fn)), depth+1)
		}
		if isEntry[fn] {
			return false, here
		}
		if depth > 6 {
			return false, here + " (depth bound)"
		}
		callers := 0
		for _, cs := range e.Callers(fn) {
			if !scope[cs.Fn] {
				continue
			}
			callers++
			if ok, w := require(cs.Fn, cs.Call.(ssa.Instruction), "call of "+fn.Name()+" (requires lock: "+what+")", append(chain, FnName(fn)), depth+1); !ok {
				return false, w
			}
		}
		if callers == 0 {
			return false, here + " (no caller supplies the lock)"
		}
		return true, ""
	}
	var scoped []*ssa.Function
	for f := range scope {
		scoped = append(scoped, f)
	}
	sort.Slice(scoped, func(i, j int) bool { return scoped[i].String() < scoped[j].String() })
	nUses := 0
	for _, fn := range scoped {
		perField := map[string]bool{}
		AllInstrs(fn, func(in ssa.Instruction) {
			what := protectedUse(in)
			if what == "" {
				return
			}
			nUses++
			key := "R7:lockset@" + FnName(fn) + "#" + what
			if perField[what] && seenReq[key+"ok"] {
				// one obligation per (function, field) when all uses agree; still check each use
			}
			ok, w := require(fn, in, what, nil, 0)
			if ok {
				if !perField[what] {
					perField[what] = true
					r.Check(key, "R7 lockset", "every use of "+what+" in "+fn.Name()+" happens with the resource-manager lock held (locally or by all callers)",
						e.InstrPos(in), fn, true, "", true)
				}
				return
			}
			// attribute the failure to the frame in which the lock is missing
			frameFn, frameWhat, framePos := FnName(fn), what, e.InstrPos(in)
			if i := strings.LastIndex(w, "FRAME["); i >= 0 {
				if j := strings.Index(w[i:], "]"); j > 0 {
					parts := strings.SplitN(w[i+6:i+j], "|", 3)
					if len(parts) == 3 {
						frameFn, frameWhat, framePos = parts[0], parts[1], parts[2]
					}
				}
				w = w[i+strings.Index(w[i:], "]")+2:]
			}
			fkey := "R7:unlocked@" + frameFn + "#" + frameWhat
			if !seenReq[fkey] {
				seenReq[fkey] = true
				r.add(&Obligation{Key: fkey, Rule: "R7 lockset", What: frameFn + " uses shared state (" + frameWhat + ") without holding the resource-manager lock on some path",
					Pos: framePos, Fn: frameFn, Verdict: Violated, Witness: w, Nontrivial: true})
			}
		})
	}
	r.MinInstances("protected uses", nUses, 15)

	// ---- rule 2: no self-deadlock; locks are released ---------------------------
	lockers := map[*ssa.Function]bool{}
	for _, fn := range e.funcsInPkg(pkgRM) {
		AllInstrs(fn, func(in ssa.Instruction) {
			if c.isMutexCall(in, "Lock", "RLock") {
				if _, isDefer := in.(*ssa.Defer); !isDefer {
					lockers[fn] = true
				}
			}
		})
	}
	checkLockOrder(e, r, nil)
	r.MinInstances("functions taking the resmgr lock", len(lockers), 4)
	var lockerList []*ssa.Function
	for f := range lockers {
		lockerList = append(lockerList, f)
	}
	sort.Slice(lockerList, func(i, j int) bool { return lockerList[i].String() < lockerList[j].String() })
	for _, fn := range lockerList {
		// released on all paths
		AllInstrs(fn, func(in ssa.Instruction) {
			if !c.isMutexCall(in, "Lock") {
				return
			}
			if _, isDefer := in.(*ssa.Defer); isDefer {
				return
			}
			r.MustPass("R7:released@"+FnName(fn), "R7 no-self-deadlock", "after Lock() every return passes Unlock() (deferred or explicit)", fn, in, nil,
				func(x ssa.Instruction) bool { return c.isMutexCall(x, "Unlock") }, nil)
			// nothing called while the lock is held takes it again
			var hit string
			for _, f2 := range WithAnon(fn) {
				AllInstrs(f2, func(x ssa.Instruction) {
					if hit != "" {
						return
					}
					ci, ok := x.(ssa.CallInstruction)
					if !ok || c.isMutexCall(x, "Lock", "RLock", "Unlock", "RUnlock") {
						return
					}
					for _, callee := range e.Callees(ci) {
						if callee == fn {
							continue
						}
						for g := range e.Reach([]*ssa.Function{callee}, 0) {
							if lockers[g] && g != fn {
								hit = fmt.Sprintf("%s calls %s which reaches %s (takes the lock again)", e.InstrPos(x), FnName(callee), FnName(g))
								return
							}
						}
					}
				})
			}
			r.Check("R7:no-relock@"+FnName(fn), "R7 no-self-deadlock", "nothing "+fn.Name()+" calls re-acquires the resmgr lock", e.InstrPos(in), fn, hit == "", hit, true)
		})
	}

	// ---- rule 3: single entry ------------------------------------------------------
	cacheIface := e.Named(pkgCA, "Cache")
	allowedPkgs := map[string]string{
		pkgRM: "resource manager (under its lock, rule 1)", pkgPolicy: "policy layer, entered from the resource manager",
		pkgTA: "policy backend", pkgBL: "policy backend", modPath + "/cmd/plugins/template/policy": "policy backend",
		pkgCA: "the cache itself",
	}
	if cacheIface != nil {
		it := cacheIface.Underlying().(*types.Interface)
		ncalls := 0
		offenders := map[string]string{}
		for _, fn := range e.RepoFuncs {
			top := TopParent(fn)
			if top.Pkg == nil {
				continue
			}
			path := top.Pkg.Pkg.Path()
			AllInstrs(fn, func(in ssa.Instruction) {
				ci, ok := in.(ssa.CallInstruction)
				if !ok || !ci.Common().IsInvoke() {
					return
				}
				m := ci.Common().Method
				isCacheMethod := false
				for i := 0; i < it.NumMethods(); i++ {
					if it.Method(i) == m {
						isCacheMethod = true
					}
				}
				if !isCacheMethod {
					return
				}
				ncalls++
				if _, ok := allowedPkgs[path]; !ok && !strings.HasPrefix(path, modPath+"/pkg/resmgr/control") {
					offenders[path] = e.InstrPos(in) + " " + m.Name()
				}
			})
		}
		var offs []string
		for p, w := range offenders {
			offs = append(offs, short(p)+" ("+w+")")
		}
		sort.Strings(offs)
		r.Check("R3:cache-callers", "R3 single entry", "cache.Cache methods are invoked only from the resource manager, the policy layer, the policies and the controllers",
			"-", nil, len(offs) == 0, strings.Join(offs, "; "), true)
		r.MinInstances("cache.Cache invoke sites", ncalls, 20)
	}
	// spawned code must not touch shared state
	{
		sensitive := map[*ssa.Function]bool{}
		for _, fn := range e.funcsInPkg(pkgCA) {
			if fn.Signature.Recv() == nil {
				continue
			}
			rt := fn.Signature.Recv().Type().String()
			name := fn.Name()
			if strings.HasSuffix(rt, "cache.cache") && fn.Parent() == nil {
				sensitive[fn] = true
			}
			if strings.HasSuffix(rt, "cache.container") && (strings.HasPrefix(name, "Set") || name == "markPending" || name == "UpdateState") {
				sensitive[fn] = true
			}
		}
		for _, pkg := range []string{pkgTA, pkgBL} {
			for _, fn := range e.funcsInPkg(pkg) {
				if fn.Signature.Recv() != nil && fn.Parent() == nil {
					n := fn.Name()
					switch n {
					case "AllocateResources", "ReleaseResources", "UpdateResources", "Sync", "Reconfigure", "HandleEvent", "Setup":
						sensitive[fn] = true
					}
				}
			}
		}
		nsp := 0
		for _, fn := range e.funcsInPkg(pkgRM, pkgCA, pkgTA, pkgBL, pkgPolicy) {
			AllInstrs(fn, func(in ssa.Instruction) {
				var spawned []*ssa.Function
				kind := ""
				switch x := in.(type) {
				case *ssa.Go:
					spawned = e.Callees(x)
					kind = "go"
				case *ssa.Call:
					if f := x.Common().StaticCallee(); f != nil && f.String() == "time.AfterFunc" {
						spawned = e.funcValues(x.Common().Args[1], 0)
						kind = "time.AfterFunc"
					}
				}
				if kind == "" {
					return
				}
				nsp++
				var hit string
				for g := range e.Reach(spawned, 0) {
					if sensitive[g] {
						hit = FnName(g)
					}
				}
				r.Check("R3:spawn@"+FnName(fn)+"#"+kind, "R3 single entry",
					"code spawned by "+kind+" in "+fn.Name()+" reaches no cache method, container setter or policy entry point (it would run outside the lock)",
					e.InstrPos(in), fn, hit == "", hit, true)
			})
		}
		r.MinInstances("spawn sites (go / time.AfterFunc)", nsp, 2)
	}

	// ---- rule 4: publish before spawn ------------------------------------------------
	{
		fetch := r.Anchor(pkgCA, "pod.goFetchPodResources")
		get := r.Anchor(pkgCA, "pod.GetPodResources")
		fWait := e.Field(pkgCA, "pod", "waitResCh")
		fCh := e.Field(pkgCA, "pod", "podResCh")
		fRes := e.Field(pkgCA, "pod", "PodResources")
		if fetch != nil && get != nil && fWait != nil && fCh != nil && fRes != nil {
			var goIn ssa.Instruction
			var spawned []*ssa.Function
			AllInstrs(fetch, func(in ssa.Instruction) {
				if g, ok := in.(*ssa.Go); ok {
					goIn = in
					spawned = e.Callees(g)
				}
			})
			if goIn == nil {
				r.Undecided("R8:spawn-site", "R8 publish-before-spawn", "goFetchPodResources spawns the fetch goroutine", e.Pos(fetch.Pos()), fetch, "no go statement found")
			} else {
				// rendezvous fields: fields of pod the goroutine stores and some other function loads
				inSpawn := map[*ssa.Function]bool{}
				for _, sp := range spawned {
					for _, g := range WithAnon(sp) {
						inSpawn[g] = true
					}
				}
				podT := e.Named(pkgCA, "pod")
				stored := map[*types.Var]ssa.Instruction{}
				for g := range inSpawn {
					AllInstrs(g, func(in ssa.Instruction) {
						if st, ok := in.(*ssa.Store); ok {
							if f := fieldOfAddr(st.Addr); f != nil && fieldOwner(st.Addr.(*ssa.FieldAddr)) == podT {
								stored[f] = in
							}
						}
					})
				}
				loadedOutside := map[*types.Var]bool{}
				for _, g := range e.funcsInPkg(pkgCA) {
					if inSpawn[g] {
						continue
					}
					AllInstrs(g, func(in ssa.Instruction) {
						if u, ok := in.(*ssa.UnOp); ok && u.Op == token.MUL {
							if f := fieldOfAddr(u.X); f != nil && stored[f] != nil {
								loadedOutside[f] = true
							}
						}
					})
				}
				nr := 0
				for f, at := range stored {
					if f == fRes || !loadedOutside[f] {
						continue // PodResources is ordered by the channel close (checked below); private fields are not shared
					}
					nr++
					r.Check("R8:no-store-in-goroutine#"+f.Name(), "R8 publish-before-spawn",
						"pod."+f.Name()+" is read by other functions, so it must not be written by the spawned goroutine (unsynchronised with readers)", e.InstrPos(at), at.Parent(), false, "", true)
				}
				// fields the goroutine writes must not be read reflectively by the cache snapshot
				// (json.Marshal of the pod reads every exported, non-excluded field without any rendezvous)
				if st, ok := podT.Underlying().(*types.Struct); ok {
					for f, at := range stored {
						for i := 0; i < st.NumFields(); i++ {
							if st.Field(i) != f {
								continue
							}
							tag := reflectTagJSON(st.Tag(i))
							serialized := f.Exported() && tag != "-"
							r.Check("R8:serialized-while-fetching#"+f.Name(), "R8 publish-before-spawn",
								"pod."+f.Name()+" is written by the fetch goroutine, so it must not be part of what cache.Snapshot marshals (exported and not json:\"-\"), which reads it without waiting for the fetch",
								e.InstrPos(at), at.Parent(), !serialized, "", true)
						}
					}
				}
				// the wait channel is stored before the go statement on every path
				p := FindPath(PathQuery{Fn: fetch, Target: func(in ssa.Instruction) bool { return in == goIn },
					Block: func(in ssa.Instruction) bool { st, ok := in.(*ssa.Store); return ok && fieldOfAddr(st.Addr) == fWait }})
				r.Check("R8:published-before-go#waitResCh", "R8 publish-before-spawn",
					"pod.waitResCh (read by GetPodResources to decide whether to wait) is stored before the fetch goroutine is spawned",
					e.InstrPos(goIn), fetch, p == nil, "a path reaches the go statement without storing it: "+e.pathString(p), true)
				_ = fCh
				// what is fetched is what readers get: the source channel handed to goFetchPodResources is recorded before
				// the goroutine starts, the goroutine stores what it receives from that channel as the pod's resources
				// whenever there is a channel, and createPod starts the fetch
				if fCh != nil && len(fetch.Params) >= 2 {
					chP := ssa.Value(fetch.Params[1])
					pRec := FindPath(PathQuery{Fn: fetch, Target: func(in ssa.Instruction) bool { return in == goIn },
						Block: func(in ssa.Instruction) bool {
							st, ok := in.(*ssa.Store)
							return ok && fieldOfAddr(st.Addr) == fCh && sameObject(st.Val, chP)
						}})
					r.Check("R8:fetch-source-recorded", "R8 publish-before-spawn", "the channel the pod's resources arrive on is recorded before the fetch goroutine is spawned", e.InstrPos(goIn), fetch, pRec == nil, e.pathString(pRec), true)
					fPR := e.Field(pkgCA, "pod", "PodResources")
					for _, sp := range spawned {
						hasCh := func(cond ssa.Value) (bool, bool) {
							b, ok := cond.(*ssa.BinOp)
							if !ok || (b.Op != token.EQL && b.Op != token.NEQ) {
								return false, false
							}
							for _, pr := range [][2]ssa.Value{{b.X, b.Y}, {b.Y, b.X}} {
								if k, isK := pr[1].(*ssa.Const); isK && k.IsNil() && isFieldLoad(pr[0], fCh) {
									return true, b.Op == token.NEQ
								}
							}
							return false, false
						}
						publishes := func(in ssa.Instruction) bool {
							st, ok := in.(*ssa.Store)
							if !ok || fieldOfAddr(st.Addr) != fPR {
								return false
							}
							u, ok := st.Val.(*ssa.UnOp)
							return ok && u.Op == token.ARROW && isFieldLoad(u.X, fCh)
						}
						pp := FindPath(PathQuery{Fn: sp, Assume: hasCh, Block: publishes, Target: func(in ssa.Instruction) bool {
							if _, ok := in.(*ssa.Return); ok {
								return true
							}
							_, isRD := in.(*ssa.RunDefers)
							return isRD
						}})
						r.Check("R8:fetched-value-published", "R8 publish-before-spawn", "the fetch goroutine stores what it receives from the source channel as the pod's resources before it signals completion", e.Pos(sp.Pos()), sp, pp == nil && fPR != nil, e.pathString(pp), true)
					}
					if cp := e.Fn(pkgCA, "cache.createPod"); cp != nil {
						pc := FindPath(PathQuery{Fn: cp, Block: func(in ssa.Instruction) bool {
							if !e.callOf(in, fetch) {
								return false
							}
							a := callArgs(in.(ssa.CallInstruction))
							return len(a) == 2 && paramIndex(a[1]) >= 0
						}, Target: isRet})
						r.Check("R8:fetch-started-at-creation", "R8 publish-before-spawn", "creating a pod starts the fetch of its resources from the channel it was given", e.Pos(cp.Pos()), cp, pc == nil, e.pathString(pc), true)
					}
				}
				// the goroutine closes the wait channel on every path after storing PodResources
				for _, sp := range spawned {
					r.MustPass("R8:close-after-fetch", "R8 publish-before-spawn", "the fetch goroutine closes waitResCh on every path (deferred close)", sp, nil, nil,
						func(in ssa.Instruction) bool {
							ci, ok := in.(ssa.CallInstruction)
							if !ok {
								return false
							}
							b, ok := ci.Common().Value.(*ssa.Builtin)
							return ok && b.Name() == "close"
						}, nil)
				}
			}
			// the producers of the source channel: the agent's asynchronous getters hand out a channel and must close it
			// on every exit of their goroutine — the cache's fetch goroutine blocks on it, and a reader holding the
			// resource manager's lock blocks on that goroutine
			for _, name := range []string{"Agent.GoGetPodResources", "Agent.GoListPodResources"} {
				prod := e.Fn(pkgAgent, name)
				if prod == nil || prod.Blocks == nil {
					r.Undecided("R8:source-channel-closed@"+name, "R8 publish-before-spawn", "the asynchronous getter exists", "-", nil, "not found")
					continue
				}
				var chans []*ssa.MakeChan
				AllInstrs(prod, func(in ssa.Instruction) {
					if mc, ok := in.(*ssa.MakeChan); ok {
						chans = append(chans, mc)
					}
				})
				var gos []*ssa.Function
				AllInstrs(prod, func(in ssa.Instruction) {
					if g, ok := in.(*ssa.Go); ok {
						gos = append(gos, e.Callees(g)...)
					}
				})
				if len(chans) != 1 || len(gos) == 0 {
					r.Undecided("R8:source-channel-closed@"+name, "R8 publish-before-spawn", "the getter makes one channel and spawns its producer", e.Pos(prod.Pos()), prod,
						fmt.Sprintf("%d channels, %d goroutines", len(chans), len(gos)))
					continue
				}
				for _, g := range gos {
					g := g
					closesIt := func(in ssa.Instruction) bool {
						ci, ok := in.(ssa.CallInstruction)
						if !ok {
							return false
						}
						b, ok := ci.Common().Value.(*ssa.Builtin)
						if !ok || b.Name() != "close" {
							return false
						}
						// the closed channel is the captured one (a free variable bound to the MakeChan, possibly through a cell)
						a := unspill(ci.Common().Args[0])
						if u, ok := a.(*ssa.UnOp); ok && u.Op == token.MUL {
							a = u.X
						}
						fv, ok := a.(*ssa.FreeVar)
						if !ok {
							return false
						}
						for _, site := range *g.Referrers() {
							mk, ok := site.(*ssa.MakeClosure)
							if !ok {
								continue
							}
							for i, b := range mk.Bindings {
								if g.FreeVars[i] != fv {
									continue
								}
								if b == ssa.Value(chans[0]) {
									return true
								}
								if al, ok := b.(*ssa.Alloc); ok {
									for _, st := range cellStores(al) {
										if st.Val == ssa.Value(chans[0]) {
											return true
										}
									}
								}
							}
						}
						return false
					}
					r.MustPass("R8:source-channel-closed@"+name, "R8 publish-before-spawn", name+": the goroutine that produces the result closes the channel handed to the consumer on every exit, also when the query fails (otherwise the cache's fetch goroutine, and every reader waiting for it under the lock, blocks forever)",
						g, nil, nil, closesIt, nil)
				}
			}
			// readers: with waitResCh != nil the load of PodResources is preceded by a receive
			assumeWait := func(cond ssa.Value) (bool, bool) {
				b, ok := cond.(*ssa.BinOp)
				if !ok || (b.Op != token.NEQ && b.Op != token.EQL) {
					return false, false
				}
				f, _ := loadedField(b.X)
				if f == fWait {
					if k, ok := b.Y.(*ssa.Const); ok && k.IsNil() {
						return true, b.Op == token.NEQ
					}
				}
				return false, false
			}
			p := FindPath(PathQuery{Fn: get, Assume: assumeWait,
				Block: func(in ssa.Instruction) bool {
					u, ok := in.(*ssa.UnOp)
					if !ok || u.Op != token.ARROW {
						return false
					}
					f, _ := loadedField(u.X)
					return f == fWait
				},
				Target: func(in ssa.Instruction) bool {
					u, ok := in.(*ssa.UnOp)
					return ok && u.Op == token.MUL && fieldOfAddr(u.X) == fRes
				}})
			r.Check("R8:reader-waits", "R8 publish-before-spawn", "GetPodResources reads PodResources only after receiving from waitResCh when a fetch is in progress",
				e.Pos(get.Pos()), get, p == nil, e.pathString(p), true)
		}
	}
	_ = violations
}

// fieldOwner: the named struct type a FieldAddr selects from.
func fieldOwner(fa *ssa.FieldAddr) *types.Named {
	t := fa.X.Type()
	if p, ok := t.Underlying().(*types.Pointer); ok {
		t = p.Elem()
	}
	n, _ := t.(*types.Named)
	return n
}

// reflectTagJSON extracts the name part of a `json:"…"` struct tag.
func reflectTagJSON(tag string) string {
	i := strings.Index(tag, `json:"`)
	if i < 0 {
		return ""
	}
	rest := tag[i+6:]
	j := strings.Index(rest, `"`)
	if j < 0 {
		return ""
	}
	name := rest[:j]
	if k := strings.Index(name, ","); k >= 0 {
		name = name[:k]
	}
	return name
}
