package main

import (
	"fmt"
	"go/token"
	"go/types"
	"sort"
	"strings"

	"golang.org/x/tools/go/ssa"
)

// ---------------------------------------------------------------------------
// small helpers shared by the per-property rule files

// callsTo lists the call instructions (call/defer/go) in fn whose callee set
// contains target.
func (e *Engine) callsTo(fn *ssa.Function, targets ...*ssa.Function) []ssa.CallInstruction {
	ts := fset(targets...)
	var out []ssa.CallInstruction
	AllInstrs(fn, func(in ssa.Instruction) {
		if e.IsCallTo(in, ts) {
			out = append(out, in.(ssa.CallInstruction))
		}
	})
	return out
}

// callsToObj lists call instructions in fn that call the given function or
// interface-method object (static calls and invokes).
func callsToObj(fn *ssa.Function, objs ...*types.Func) []ssa.CallInstruction {
	var out []ssa.CallInstruction
	AllInstrs(fn, func(in ssa.Instruction) {
		c, ok := in.(ssa.CallInstruction)
		if !ok {
			return
		}
		o := callObj(c.Common())
		if o == nil {
			return
		}
		for _, t := range objs {
			if t != nil && t == o {
				out = append(out, c)
				return
			}
		}
	})
	return out
}

// callArgs returns the actual arguments of a call with the receiver first
// for both static method calls and invokes.
func callArgs(c ssa.CallInstruction) []ssa.Value {
	cc := c.Common()
	if cc.IsInvoke() {
		return append([]ssa.Value{cc.Value}, cc.Args...)
	}
	return cc.Args
}

// isNilErrAssumption builds an assumption "this (value, error)-returning call
// succeeded": comparisons of its error result with nil evaluate accordingly.
func callSucceeded(call ssa.Value) Assumption {
	return func(cond ssa.Value) (bool, bool) {
		b, ok := cond.(*ssa.BinOp)
		if !ok || (b.Op != token.NEQ && b.Op != token.EQL) {
			return false, false
		}
		var v, other ssa.Value
		if isErrOf(b.X, call) {
			v, other = b.X, b.Y
		} else if isErrOf(b.Y, call) {
			v, other = b.Y, b.X
		}
		if v == nil {
			return false, false
		}
		if c, ok := other.(*ssa.Const); !ok || !c.IsNil() {
			return false, false
		}
		return true, b.Op == token.EQL // err == nil is true, err != nil is false
	}
}

// isErrOf: is v the error result of call (the call value itself when it
// returns a single error, or the Extract of its last component)?
func isErrOf(v, call ssa.Value) bool {
	if v == call {
		return isErrorType(v.Type())
	}
	if ex, ok := v.(*ssa.Extract); ok && ex.Tuple == call {
		tup := call.Type().(*types.Tuple)
		return ex.Index == tup.Len()-1 && isErrorType(tup.At(ex.Index).Type())
	}
	// value spilled into a local cell and reloaded: `err = f(); if err != nil`
	if u, ok := v.(*ssa.UnOp); ok && u.Op == token.MUL {
		if a, ok := u.X.(*ssa.Alloc); ok {
			if st := reachingStoreInBlock(a, u); st != nil {
				return isErrOf(st.Val, call)
			}
		}
	}
	return false
}

func andAssume(as ...Assumption) Assumption {
	return func(c ssa.Value) (bool, bool) {
		for _, a := range as {
			if a == nil {
				continue
			}
			if k, v := a(c); k {
				return k, v
			}
		}
		return false, false
	}
}

// maySucceed: a return that is not provably an error return.
func (e *Engine) maySucceed(r *ssa.Return) bool {
	if errResultIndex(r.Parent()) < 0 {
		return true
	}
	return e.ClassifyReturn(r) != retNonNilErr
}

func (e *Engine) mayFail(r *ssa.Return) bool {
	if errResultIndex(r.Parent()) < 0 {
		return false
	}
	return e.ClassifyReturn(r) != retNilErr
}

// MustPass checks: every CFG path of fn from `from` (nil = entry) to a return
// accepted by retOK passes an instruction accepted by pass. Records one
// obligation; returns true if it holds.
func (r *Report) MustPass(key, rule, what string, fn *ssa.Function, from ssa.Instruction,
	retOK func(*ssa.Return) bool, pass func(ssa.Instruction) bool, assume Assumption) bool {
	e := r.e
	p := FindPath(PathQuery{Fn: fn, From: from, Assume: assume,
		Block: pass,
		Target: func(in ssa.Instruction) bool {
			ret, ok := in.(*ssa.Return)
			return ok && (retOK == nil || retOK(ret))
		}})
	pos := e.Pos(fn.Pos())
	if from != nil {
		pos = e.InstrPos(from)
	}
	w := ""
	if p != nil {
		w = "path avoiding the required call: " + e.pathString(p)
	}
	return r.Check(key, rule, what, pos, fn, p == nil, w, true)
}

// Unreachable checks that no instruction accepted by target is reachable from
// `from` under the assumption.
func (r *Report) Unreachable(key, rule, what string, fn *ssa.Function, from ssa.Instruction,
	target func(ssa.Instruction) bool, assume Assumption) bool {
	e := r.e
	p := FindPath(PathQuery{Fn: fn, From: from, Assume: assume, Target: target})
	w := ""
	pos := e.Pos(fn.Pos())
	if p != nil {
		w = "reachable via: " + e.pathString(p)
		pos = e.InstrPos(p[len(p)-1])
	}
	return r.Check(key, rule, what, pos, fn, p == nil, w, true)
}

// WhoMayWrite checks that every write to field occurs in one of the owner
// functions (closures count with their top-level parent).
func (r *Report) WhoMayWrite(rule string, field *types.Var, fieldName string, owners map[string]bool, scope []*ssa.Function) int {
	e := r.e
	if field == nil {
		r.Undecided("anchor:field:"+fieldName, "anchor", "field "+fieldName+" must exist", "-", nil, "field named in the rule table not found")
		return 0
	}
	ws := e.FieldWrites(field, scope)
	n := 0
	for _, w := range ws {
		top := TopParent(w.Fn)
		name := FnName(top)
		ok := owners[name]
		n++
		r.Check(fmt.Sprintf("%s:writer[%s]@%s#%s", rule, fieldName, name, w.Kind), rule,
			fmt.Sprintf("%s of %s only in owners {%s}", w.Kind, fieldName, strings.Join(sortedKeys(owners), ", ")),
			e.InstrPos(w.Instr), w.Fn, ok, "writer: "+name, false)
	}
	return n
}

func sortedKeys(m map[string]bool) []string {
	out := make([]string, 0, len(m))
	for k := range m {
		out = append(out, k)
	}
	sort.Strings(out)
	return out
}

func set(names ...string) map[string]bool {
	m := map[string]bool{}
	for _, n := range names {
		m[n] = true
	}
	return m
}

// funcsInPkg returns all repository functions (incl. closures) declared in pkg.
func (e *Engine) funcsInPkg(pkgs ...string) []*ssa.Function {
	want := map[string]bool{}
	for _, p := range pkgs {
		want[p] = true
	}
	var out []*ssa.Function
	for _, fn := range e.RepoFuncs {
		t := TopParent(fn)
		if t.Origin() != nil {
			t = t.Origin()
		}
		if t.Pkg != nil && want[t.Pkg.Pkg.Path()] {
			out = append(out, fn)
		}
	}
	return out
}

// mapFieldUpdate: is `in` a MapUpdate / delete() on the map stored in field?
func isMapWriteOf(in ssa.Instruction, field *types.Var) bool {
	switch x := in.(type) {
	case *ssa.MapUpdate:
		f, _ := loadedField(x.Map)
		return f == field
	case ssa.CallInstruction:
		cc := x.Common()
		if b, ok := cc.Value.(*ssa.Builtin); ok && b.Name() == "delete" && len(cc.Args) == 2 {
			f, _ := loadedField(cc.Args[0])
			return f == field
		}
	}
	return false
}

// paramIndex returns the index of v if it is a parameter of its function,
// looking through the cell a captured parameter is spilled into
// (`t0 = new T (p); *t0 = p; … *t0`) when that cell is never reassigned.
func paramIndex(v ssa.Value) int {
	if u, ok := v.(*ssa.UnOp); ok && u.Op == token.MUL {
		if a, ok := u.X.(*ssa.Alloc); ok {
			var only ssa.Value
			n := 0
			for _, r := range *a.Referrers() {
				if st, ok := r.(*ssa.Store); ok && st.Addr == a {
					n++
					only = st.Val
				}
			}
			if n == 1 && !cellWrittenInClosures(a) {
				v = only
			}
		}
	}
	p, ok := v.(*ssa.Parameter)
	if !ok {
		return -1
	}
	for i, q := range p.Parent().Params {
		if q == p {
			return i
		}
	}
	return -1
}

// cellWrittenInClosures: does any closure capturing the cell store to it?
func cellWrittenInClosures(a *ssa.Alloc) bool {
	for _, r := range *a.Referrers() {
		mc, ok := r.(*ssa.MakeClosure)
		if !ok {
			continue
		}
		fn, _ := mc.Fn.(*ssa.Function)
		if fn == nil {
			continue
		}
		for i, b := range mc.Bindings {
			if b != a {
				continue
			}
			fv := fn.FreeVars[i]
			for _, rr := range *fv.Referrers() {
				if st, ok := rr.(*ssa.Store); ok && st.Addr == fv {
					return true
				}
			}
		}
	}
	return false
}

// originIs reports whether every origin of v satisfies pred (looking through
// phis/conversions/local cells); pred is only asked about leaves.
func originAll(v ssa.Value, pred func(ssa.Value) bool) bool {
	ok := true
	any := false
	Origins(v, func(x ssa.Value) bool {
		switch x.(type) {
		case *ssa.Phi, *ssa.ChangeType, *ssa.Convert, *ssa.ChangeInterface, *ssa.MakeInterface:
			return false
		case *ssa.UnOp:
			u := x.(*ssa.UnOp)
			if u.Op == token.MUL {
				if _, isAlloc := u.X.(*ssa.Alloc); isAlloc {
					return false
				}
				if _, isFV := u.X.(*ssa.FreeVar); isFV {
					return false
				}
			}
		}
		any = true
		if !pred(x) {
			ok = false
		}
		return true
	})
	return ok && any
}

func originAny(v ssa.Value, pred func(ssa.Value) bool) bool {
	found := false
	Origins(v, func(x ssa.Value) bool {
		if pred(x) {
			found = true
			return true
		}
		return false
	})
	return found
}

// ---- R15: no lost update ---------------------------------------------------------------------------------
//
// A store `x.f = g(… x.f …)` reads the field it writes. If something that may write x.f (a store, or a call that
// transitively reaches one) lies on a path between the read and the store, the store overwrites that write with a
// value computed from the stale read. lostUpdates reports such (load, writer, store) triples in fn.

// mayWriteField: may calling g (transitively, within the repository) store into field f?
func (e *Engine) mayWriteField(g *ssa.Function, f *types.Var) bool {
	if e.fieldWriters == nil {
		e.fieldWriters = map[*types.Var]map[*ssa.Function]int{}
	}
	memo := e.fieldWriters[f]
	if memo == nil {
		memo = map[*ssa.Function]int{}
		e.fieldWriters[f] = memo
	}
	var rec func(g *ssa.Function) bool
	rec = func(g *ssa.Function) bool {
		if v, ok := memo[g]; ok {
			return v == 2
		}
		memo[g] = 1
		w := false
		for _, h := range WithAnon(g) {
			for _, b := range h.Blocks {
				for _, in := range b.Instrs {
					switch x := in.(type) {
					case *ssa.Store:
						if fieldOfAddr(x.Addr) == f {
							w = true
						}
					case ssa.CallInstruction:
						for _, c := range e.Callees(x) {
							if !w && rec(c) {
								w = true
							}
						}
					}
				}
			}
		}
		if w {
			memo[g] = 2
		}
		return w
	}
	return rec(g)
}

type lostUpdate struct {
	Load, Writer ssa.Instruction
	Store        *ssa.Store
}

func (e *Engine) lostUpdates(fn *ssa.Function, f *types.Var) (found []lostUpdate, stores int) {
	fresh := func(v ssa.Value) bool { // an object created in this function
		switch y := unspill(v).(type) {
		case *ssa.Alloc:
			return true
		case *ssa.Call:
			_ = y
			return true
		}
		return false
	}
	var curBase ssa.Value
	isWriter := func(in ssa.Instruction) bool {
		switch x := in.(type) {
		case *ssa.Store:
			if fieldOfAddr(x.Addr) != f {
				return false
			}
			// a store into the same field of a provably different object (one of the two was created here, the other was
			// not, or both were created by different instructions) does not count
			ob := x.Addr.(*ssa.FieldAddr).X
			if curBase != nil && !sameObject(ob, curBase) && (fresh(ob) || fresh(curBase)) {
				return false
			}
			return true
		case ssa.CallInstruction:
			for _, c := range e.Callees(x) {
				if e.mayWriteField(c, f) {
					return true
				}
			}
		}
		return false
	}
	AllInstrs(fn, func(in ssa.Instruction) {
		st, ok := in.(*ssa.Store)
		if !ok || fieldOfAddr(st.Addr) != f {
			return
		}
		stores++
		base := st.Addr.(*ssa.FieldAddr).X
		curBase = base
		// loads of the same field of the same object contributing to the stored value
		var loads []ssa.Instruction
		seen := map[ssa.Value]bool{}
		var walk func(v ssa.Value, d int)
		walk = func(v ssa.Value, d int) {
			if v == nil || seen[v] || d > 30 {
				return
			}
			seen[v] = true
			if g, b := loadedField(v); g == f {
				if sameObject(b, base) {
					if li, ok := v.(ssa.Instruction); ok {
						loads = append(loads, li)
					}
				}
				return
			}
			switch x := v.(type) {
			case *ssa.BinOp:
				walk(x.X, d+1)
				walk(x.Y, d+1)
			case *ssa.Phi:
				for _, ed := range x.Edges {
					walk(ed, d+1)
				}
			case *ssa.Convert:
				walk(x.X, d+1)
			case *ssa.ChangeType:
				walk(x.X, d+1)
			case *ssa.Call:
				if g := x.Common().StaticCallee(); g != nil && g.Pkg != nil && g.Pkg.Pkg.Path() == pkgK8sCpuset {
					for _, a := range x.Common().Args {
						walk(variadicSingle(a), d+1)
					}
				}
			case *ssa.UnOp:
				if al, ok := x.X.(*ssa.Alloc); ok && x.Op == token.MUL {
					for _, s := range reachingStores(al, x) {
						walk(s.Val, d+1)
					}
				} else if x.Op != token.MUL {
					walk(x.X, d+1)
				}
			}
		}
		walk(st.Val, 0)
		for _, ld := range loads {
			if ld.Block() == nil || ld.Parent() != fn {
				continue
			}
			var ws []ssa.Instruction
			AllInstrs(fn, func(w ssa.Instruction) {
				if w != ssa.Instruction(st) && isWriter(w) {
					ws = append(ws, w)
				}
			})
			for _, w := range ws {
				w := w
				p1 := FindPath(PathQuery{Fn: fn, From: ld, Target: func(x ssa.Instruction) bool { return x == w }, Block: func(x ssa.Instruction) bool { return x == ssa.Instruction(st) }})
				if p1 == nil {
					continue
				}
				p2 := FindPath(PathQuery{Fn: fn, From: w, Target: func(x ssa.Instruction) bool { return x == ssa.Instruction(st) }, Block: func(x ssa.Instruction) bool { return x == ld }})
				if p2 != nil {
					found = append(found, lostUpdate{ld, w, st})
					break
				}
			}
		}
	})
	return
}

// ---- R16: atomic update groups -------------------------------------------------------------------------------
//
// Several representations of one fact (a request's zone: Request.zone, Allocator.users[id], Zone.users[id], the
// journal) are kept in agreement by updating all of them in the same primitive. AtomicGroup checks, inside one
// function: every kind of update of the group occurs, and no path from entry to a return performs an update of one
// kind without performing one of every other kind.
type groupKind struct {
	Name string
	Is   func(ssa.Instruction) bool
}

func (r *Report) AtomicGroup(key, what string, fn *ssa.Function, kinds []groupKind) {
	e := r.e
	rule := "R16 atomic update group"
	if fn == nil {
		return
	}
	inst := make([][]ssa.Instruction, len(kinds))
	AllInstrs(fn, func(in ssa.Instruction) {
		for i, k := range kinds {
			if k.Is(in) {
				inst[i] = append(inst[i], in)
			}
		}
	})
	isRet := func(in ssa.Instruction) bool { _, ok := in.(*ssa.Return); return ok }
	for i, k := range kinds {
		if len(inst[i]) == 0 {
			r.Check(key+"#"+k.Name, rule, what+": "+k.Name+" is updated", e.Pos(fn.Pos()), fn, false, "no "+k.Name+" update in "+fn.Name(), true)
			continue
		}
		ok, why := true, ""
		for j, k2 := range kinds {
			if i == j || len(inst[j]) == 0 {
				continue
			}
			isJ := func(in ssa.Instruction) bool {
				for _, x := range inst[j] {
					if x == in {
						return true
					}
				}
				return false
			}
			for _, a := range inst[i] {
				a := a
				p1 := FindPath(PathQuery{Fn: fn, Target: func(in ssa.Instruction) bool { return in == a }, Block: isJ})
				if p1 == nil {
					continue
				}
				if p2 := FindPath(PathQuery{Fn: fn, From: a, Target: isRet, Block: isJ}); p2 != nil {
					ok, why = false, k.Name+" at "+e.InstrPos(a)+" can be updated on a path that does not update "+k2.Name+": "+e.pathString(p2)
				}
			}
		}
		r.Check(key+"#"+k.Name, rule, what+": "+k.Name+" is updated together with the other representations (all or none on every path)", e.InstrPos(inst[i][0]), fn, ok, why, true)
	}
}

// cmpOriented views a comparison with the operand satisfying `left` on the left-hand side (`a < b` and `b > a` are the
// same test; rules must not depend on which way the source spells it).
func cmpOriented(cond ssa.Value, left func(ssa.Value) bool) (x, y ssa.Value, op token.Token, ok bool) {
	b, isB := cond.(*ssa.BinOp)
	if !isB {
		return nil, nil, 0, false
	}
	switch b.Op {
	case token.EQL, token.NEQ, token.LSS, token.LEQ, token.GTR, token.GEQ:
	default:
		return nil, nil, 0, false
	}
	if left(b.X) {
		return b.X, b.Y, b.Op, true
	}
	if left(b.Y) {
		return b.Y, b.X, flipCmp(b.Op), true
	}
	return nil, nil, 0, false
}

// negCmp: the comparison that holds exactly when `a op b` does not.
func negCmp(op token.Token) token.Token {
	switch op {
	case token.EQL:
		return token.NEQ
	case token.NEQ:
		return token.EQL
	case token.LSS:
		return token.GEQ
	case token.GEQ:
		return token.LSS
	case token.GTR:
		return token.LEQ
	case token.LEQ:
		return token.GTR
	}
	return op
}

// eventContainer: how a handler obtains the cached container its event refers to — a direct comma-ok
// Cache.LookupContainer, or a helper of the same package that wraps that lookup and returns the container (nil when it
// is unknown). It returns the instruction after which the container is available, its value, and the assumption "the
// container is known".
func (e *Engine) eventContainer(fn *ssa.Function) (at ssa.Instruction, val ssa.Value, known Assumption) {
	lookup := e.objs(pkgCA, "Cache.LookupContainer")
	if lc := firstCallOfObj(fn, lookup); lc != nil {
		var v ssa.Value
		if lc.Value() != nil && lc.Value().Referrers() != nil {
			for _, ref := range *lc.Value().Referrers() {
				if ex, ok := ref.(*ssa.Extract); ok && ex.Index == 0 {
					v = ex
				}
			}
		}
		return lc.(ssa.Instruction), v, okOf(lc.Value(), true)
	}
	var hit ssa.CallInstruction
	AllInstrs(fn, func(in ssa.Instruction) {
		ci, ok := in.(ssa.CallInstruction)
		if !ok || hit != nil || ci.Value() == nil {
			return
		}
		g := ci.Common().StaticCallee()
		if g == nil || g.Pkg == nil || fn.Pkg == nil || g.Pkg != fn.Pkg || g.Signature.Results().Len() != 1 {
			return
		}
		inner := firstCallOfObj(g, lookup)
		if inner == nil {
			return
		}
		okAll := true
		for _, ret := range Returns(g) {
			if !originAll(ret.Results[0], func(v ssa.Value) bool {
				if k, ok := v.(*ssa.Const); ok && k.IsNil() {
					return true
				}
				if ex, ok := v.(*ssa.Extract); ok && ex.Tuple == inner.Value() && ex.Index == 0 {
					return true
				}
				if mi, ok := v.(*ssa.MakeInterface); ok {
					_ = mi
					return false
				}
				return false
			}) {
				okAll = false
			}
		}
		if okAll {
			hit = ci
		}
	})
	if hit == nil {
		return nil, nil, nil
	}
	return hit.(ssa.Instruction), hit.Value(), nilnessOf(hit.Value(), false)
}

// checkSettersStore: a one-parameter method named Set<X>/Add<X> of the given types that consists of stores only must
// store its argument (a setter that silently does nothing is invisible to the rules that follow the setter CALLS).
func checkSettersStore(e *Engine, r *Report, rule, pkg string, typeNames ...string) {
	n := 0
	for _, fn := range e.funcsInPkg(pkg) {
		if fn.Parent() != nil || fn.Signature.Recv() == nil || len(fn.Params) != 2 {
			continue
		}
		tn := namedOf(fn.Signature.Recv().Type())
		if tn == nil {
			continue
		}
		match := false
		for _, t := range typeNames {
			if tn.Obj().Name() == t {
				match = true
			}
		}
		if !match || !(strings.HasPrefix(fn.Name(), "Set") || strings.HasPrefix(fn.Name(), "Add")) || fn.Signature.Results().Len() != 0 {
			continue
		}
		// plain setters only: no calls except logging
		plain := true
		AllInstrs(fn, func(in ssa.Instruction) {
			if ci, ok := in.(ssa.CallInstruction); ok {
				if o := callObj(ci.Common()); o == nil || !(strings.HasPrefix(o.Name(), "Debug") || strings.HasPrefix(o.Name(), "Info") || strings.HasPrefix(o.Name(), "Warn")) {
					plain = false
				}
			}
		})
		if !plain {
			continue
		}
		n++
		argP := ssa.Value(fn.Params[1])
		stores := func(in ssa.Instruction) bool {
			st, ok := in.(*ssa.Store)
			if !ok || fieldOfAddr(st.Addr) == nil {
				return false
			}
			hit := false
			Origins(st.Val, func(v ssa.Value) bool {
				if sameObject(v, argP) {
					hit = true
				}
				return hit
			})
			return hit
		}
		p := FindPath(PathQuery{Fn: fn, Target: isRet, Block: stores})
		r.Check("R9:setter-stores-argument@"+tn.Obj().Name()+"."+fn.Name(), rule, tn.Obj().Name()+"."+fn.Name()+" stores the value it is given", e.Pos(fn.Pos()), fn, p == nil, e.pathString(p), true)
	}
	r.MinInstances("plain setters of "+strings.Join(typeNames, "/"), n, 2)
}

// skippedOnSuccess returns a witness path from fn's entry to a return that may succeed which passes none of the given
// instructions (nil when every successful path passes at least one of them). Existence rules ("the function stores X")
// use it to require that the matched statement is not merely present but unavoidable.
func (e *Engine) skippedOnSuccess(fn *ssa.Function, must ...ssa.Instruction) []ssa.Instruction {
	set := map[ssa.Instruction]bool{}
	for _, m := range must {
		if m != nil && m.Parent() == fn {
			set[m] = true
		}
	}
	if len(set) == 0 {
		return nil
	}
	return FindPath(PathQuery{Fn: fn, Block: func(in ssa.Instruction) bool { return set[in] }, Target: func(in ssa.Instruction) bool {
		ret, ok := in.(*ssa.Return)
		return ok && e.maySucceed(ret)
	}})
}
