package main

import (
	"fmt"
	"go/token"
	"go/types"
	"sort"
	"strings"

	"golang.org/x/tools/go/ssa"
)

// R11 — Venn abstract interpretation of cpuset algebra.
//
// CPU sets are manipulated only through Union/Intersection/Difference/Clone
// and cpuset.New(). A value is therefore a Boolean combination of a small
// number of symbolic base sets (field values at function entry, results of
// pure accessor calls, parameters). Over k bases the algebra has 2^k Venn
// regions; an assertion such as `A ∩ B = ∅` or `A ⊆ B` holds for ALL values
// of the bases iff it holds in every region (optionally restricted by
// assumptions of the same form). This is a complete decision procedure for
// the quantifier-free fragment; no path enumeration and no solver is involved.

type sx struct {
	op   string // base | empty | or | and | diff
	a, b *sx
	name string
}

func sxBase(n string) *sx { return &sx{op: "base", name: n} }
func sxEmpty() *sx        { return &sx{op: "empty"} }
func sxOr(a, b *sx) *sx   { return &sx{op: "or", a: a, b: b} }
func sxAnd(a, b *sx) *sx  { return &sx{op: "and", a: a, b: b} }
func sxDiff(a, b *sx) *sx { return &sx{op: "diff", a: a, b: b} }
func (s *sx) String() string {
	switch s.op {
	case "base":
		return s.name
	case "empty":
		return "∅"
	case "or":
		return "(" + s.a.String() + " ∪ " + s.b.String() + ")"
	case "and":
		return "(" + s.a.String() + " ∩ " + s.b.String() + ")"
	case "diff":
		return "(" + s.a.String() + " ∖ " + s.b.String() + ")"
	}
	return "?"
}

func (s *sx) bases(out map[string]bool) {
	if s == nil {
		return
	}
	if s.op == "base" {
		out[s.name] = true
	}
	s.a.bases(out)
	s.b.bases(out)
}

func (s *sx) in(region uint, idx map[string]int) bool {
	switch s.op {
	case "base":
		return region&(1<<uint(idx[s.name])) != 0
	case "empty":
		return false
	case "or":
		return s.a.in(region, idx) || s.b.in(region, idx)
	case "and":
		return s.a.in(region, idx) && s.b.in(region, idx)
	case "diff":
		return s.a.in(region, idx) && !s.b.in(region, idx)
	}
	return false
}

// vennFact: "lhs ⊆ rhs" (disjointness A∩B=∅ is (A∩B) ⊆ ∅; equality is two facts).
type vennFact struct{ lhs, rhs *sx }

func subset(a, b *sx) vennFact   { return vennFact{a, b} }
func disjoint(a, b *sx) vennFact { return vennFact{sxAnd(a, b), sxEmpty()} }

// vennHolds decides whether every goal follows from the assumptions for all
// values of the base sets. It returns a counterexample region description.
func vennHolds(assume []vennFact, goals []vennFact) (bool, string) {
	bs := map[string]bool{}
	for _, f := range append(append([]vennFact{}, assume...), goals...) {
		f.lhs.bases(bs)
		f.rhs.bases(bs)
	}
	names := make([]string, 0, len(bs))
	for n := range bs {
		names = append(names, n)
	}
	sort.Strings(names)
	if len(names) > 14 {
		return false, fmt.Sprintf("too many base sets (%d)", len(names))
	}
	idx := map[string]int{}
	for i, n := range names {
		idx[n] = i
	}
	for region := uint(0); region < 1<<uint(len(names)); region++ {
		ok := true
		for _, a := range assume {
			if a.lhs.in(region, idx) && !a.rhs.in(region, idx) {
				ok = false // this region is empty by assumption
				break
			}
		}
		if !ok {
			continue
		}
		for _, g := range goals {
			if g.lhs.in(region, idx) && !g.rhs.in(region, idx) {
				var in, out []string
				for _, n := range names {
					if region&(1<<uint(idx[n])) != 0 {
						in = append(in, n)
					} else {
						out = append(out, n)
					}
				}
				return false, fmt.Sprintf("a CPU that is in {%s} and not in {%s} violates %s ⊆ %s", strings.Join(in, ","), strings.Join(out, ","), g.lhs, g.rhs)
			}
		}
	}
	return true, ""
}

// vennEval turns SSA values of cpuset type into set expressions.
type vennEval struct {
	e      *Engine
	fn     *ssa.Function
	naming func(v ssa.Value) string // optional: names for recognised bases
	memo   map[ssa.Value]*sx
	undec  []string
	// byAddrCalls: a local whose address is handed to a call is a fresh base
	// after that call (the callee may have rewritten it), named by the cell and
	// the latest such call that dominates the load.
	byAddrCalls bool
}

// evalBefore evaluates v; field loads inside v resolve to the latest store
// dominating the load itself, so expressions computed before `at` see the
// values the fields had then.
func (ve *vennEval) evalBefore(v ssa.Value, at ssa.Instruction) *sx { return ve.eval(v) }

// addrCallsBefore: calls that take the address of cell a and may execute before load.
func (ve *vennEval) addrCallsBefore(a *ssa.Alloc, load ssa.Instruction) (latest ssa.Instruction, unordered bool) {
	for _, ref := range *a.Referrers() {
		ci, ok := ref.(ssa.CallInstruction)
		if !ok {
			continue
		}
		in := ref
		if dominatesInstr(in, load) {
			if latest == nil || dominatesInstr(latest, in) {
				latest = in
			}
			continue
		}
		_ = ci
		if p := FindPath(PathQuery{Fn: ve.fn, From: in, Target: func(x ssa.Instruction) bool { return x == load }}); p != nil {
			unordered = true
		}
	}
	return
}

func newVennEval(e *Engine, fn *ssa.Function, naming func(ssa.Value) string) *vennEval {
	return &vennEval{e: e, fn: fn, naming: naming, memo: map[ssa.Value]*sx{}}
}

func isCPUSetType(t types.Type) bool {
	n, ok := t.(*types.Named)
	if !ok {
		if a, ok := t.(*types.Alias); ok {
			return isCPUSetType(types.Unalias(a))
		}
		return false
	}
	return n.Obj().Name() == "CPUSet" && n.Obj().Pkg() != nil && strings.HasSuffix(n.Obj().Pkg().Path(), "cpuset")
}

// priorFieldStore: the store to the same field of the same object that
// dominates and most closely precedes `at` (nil if the field still has its
// entry value there).
func (ve *vennEval) priorFieldStore(fa *ssa.FieldAddr, at ssa.Instruction) *ssa.Store {
	f := fieldOfAddr(fa)
	var best *ssa.Store
	AllInstrs(ve.fn, func(in ssa.Instruction) {
		st, ok := in.(*ssa.Store)
		if !ok {
			return
		}
		fa2, ok := st.Addr.(*ssa.FieldAddr)
		if !ok || fieldOfAddr(fa2) != f || !(fa2.X == fa.X || sameValue(fa2.X, fa.X)) {
			return
		}
		if !dominatesInstr(st, at) {
			return
		}
		if best == nil || dominatesInstr(best, st) {
			best = st
		}
	})
	return best
}

func (ve *vennEval) eval(v ssa.Value) *sx {
	if s, ok := ve.memo[v]; ok {
		return s
	}
	s := ve.eval1(v)
	ve.memo[v] = s
	return s
}

func (ve *vennEval) baseFor(v ssa.Value, fallback string) *sx {
	if ve.naming != nil {
		if n := ve.naming(v); n != "" {
			return sxBase(n)
		}
	}
	return sxBase(fallback)
}

func (ve *vennEval) eval1(v ssa.Value) *sx {
	switch x := v.(type) {
	case *ssa.Call:
		cc := x.Common()
		if isCpusetNewCall(x) {
			if emptyVariadic(x) {
				return sxEmpty()
			}
			return ve.baseFor(v, fmt.Sprintf("new@%s", ve.e.InstrPos(x)))
		}
		if f := cc.StaticCallee(); f != nil && f.Pkg != nil && f.Pkg.Pkg.Path() == pkgK8sCpuset {
			switch f.Name() {
			case "Clone":
				return ve.eval(cc.Args[0])
			case "Union":
				out := ve.eval(cc.Args[0])
				arg := variadicSingle(cc.Args[1])
				if arg == cc.Args[1] {
					// several or non-literal operands
					ve.undec = append(ve.undec, "Union with a non-literal operand list at "+ve.e.InstrPos(x))
					return ve.baseFor(v, fmt.Sprintf("union@%s", ve.e.InstrPos(x)))
				}
				return sxOr(out, ve.eval(arg))
			case "Intersection":
				return sxAnd(ve.eval(cc.Args[0]), ve.eval(cc.Args[1]))
			case "Difference":
				return sxDiff(ve.eval(cc.Args[0]), ve.eval(cc.Args[1]))
			}
		}
		// accessor or other call: a base named by callee and receiver
		name := "call"
		if o := callObj(cc); o != nil {
			name = o.Name()
		}
		recv := ""
		if a := callArgs(x); len(a) > 0 {
			recv = ve.objName(a[0])
		}
		return ve.baseFor(v, fmt.Sprintf("%s(%s)", name, recv))
	case *ssa.UnOp:
		if x.Op == token.MUL {
			switch a := x.X.(type) {
			case *ssa.FieldAddr:
				if st := ve.priorFieldStore(a, x); st != nil {
					return ve.eval(st.Val)
				}
				return ve.baseFor(v, ve.objName(a.X)+"."+fieldOfAddr(a).Name())
			case *ssa.Alloc:
				sts := reachingStores(a, x)
				if ve.byAddrCalls {
					latest, unordered := ve.addrCallsBefore(a, x)
					if unordered {
						ve.undec = append(ve.undec, "local rewritten through its address on some paths only at "+ve.e.InstrPos(x))
					}
					if latest != nil && (len(sts) != 1 || dominatesInstr(sts[0], latest)) {
						return ve.baseFor(v, fmt.Sprintf("%s@after:%s", a.Comment, ve.e.InstrPos(latest)))
					}
				}
				if len(sts) == 1 {
					return ve.eval(sts[0].Val)
				}
				ve.undec = append(ve.undec, "local with several definitions at "+ve.e.InstrPos(x))
				return ve.baseFor(v, fmt.Sprintf("local@%s", ve.e.InstrPos(x)))
			case *ssa.Parameter:
				// *from (by-address CPUSet parameter)
				return ve.baseFor(v, "*"+a.Name())
			}
		}
	case *ssa.Parameter:
		return ve.baseFor(v, x.Name())
	case *ssa.Phi:
		ve.undec = append(ve.undec, "merge of alternatives at "+ve.e.InstrPos(x))
		return ve.baseFor(v, fmt.Sprintf("phi@%s", ve.e.InstrPos(x)))
	case *ssa.Extract:
		return ve.baseFor(v, fmt.Sprintf("result%d@%s", x.Index, ve.e.InstrPos(x)))
	}
	return ve.baseFor(v, fmt.Sprintf("value@%p", v))
}

// objName gives a short stable name for the object a value denotes.
func (ve *vennEval) objName(v ssa.Value) string {
	if pi := paramIndex(v); pi >= 0 {
		if fn := valueFn(v); fn != nil {
			return fn.Params[pi].Name()
		}
	}
	switch x := v.(type) {
	case *ssa.Call:
		name := "call"
		if o := callObj(x.Common()); o != nil {
			name = o.Name()
		}
		recv := ""
		if a := callArgs(x); len(a) > 0 {
			recv = ve.objName(a[0])
		}
		return name + "(" + recv + ")"
	case *ssa.UnOp:
		if x.Op == token.MUL {
			if fa, ok := x.X.(*ssa.FieldAddr); ok {
				return ve.objName(fa.X) + "." + fieldOfAddr(fa).Name()
			}
			if al, ok := x.X.(*ssa.Alloc); ok {
				sts := reachingStores(al, x)
				if len(sts) == 1 {
					return ve.objName(sts[0].Val)
				}
			}
			if fv, ok := x.X.(*ssa.FreeVar); ok {
				return fv.Name()
			}
		}
	case *ssa.FreeVar:
		return x.Name()
	case *ssa.Extract:
		return fmt.Sprintf("r%d", x.Index)
	case *ssa.TypeAssert:
		return ve.objName(x.X)
	}
	return "?"
}

// finalStoreValue: the expression stored by the last store (in dominance
// order) to field f of object `obj` inside the given set of blocks (nil = all).
func (ve *vennEval) storedValues(f *types.Var) []*ssa.Store {
	var out []*ssa.Store
	AllInstrs(ve.fn, func(in ssa.Instruction) {
		if st, ok := in.(*ssa.Store); ok && fieldOfAddr(st.Addr) == f {
			out = append(out, st)
		}
	})
	return out
}

func isCpusetNewCall(call *ssa.Call) bool { return isCpusetNew(call) }

// ---- bit masks as sets ---------------------------------------------------------
//
// NodeMask / TypeMask values are sets of small integers manipulated with
// | & &^; the same Venn decision procedure applies. maskEval maps an
// integer-typed SSA value to a set expression.
type maskEval struct {
	e    *Engine
	fn   *ssa.Function
	memo map[ssa.Value]*sx
	ve   *vennEval // for objName
}

func newMaskEval(e *Engine, fn *ssa.Function) *maskEval {
	return &maskEval{e: e, fn: fn, memo: map[ssa.Value]*sx{}, ve: newVennEval(e, fn, nil)}
}

func (m *maskEval) eval(v ssa.Value) *sx {
	if s, ok := m.memo[v]; ok {
		return s
	}
	s := m.eval1(v)
	m.memo[v] = s
	return s
}

func (m *maskEval) eval1(v ssa.Value) *sx {
	switch x := v.(type) {
	case *ssa.Const:
		if k, ok := constIntVal(x); ok {
			if k == 0 {
				return sxEmpty()
			}
			return sxBase(fmt.Sprintf("const:%d", k))
		}
	case *ssa.BinOp:
		switch x.Op {
		case token.OR:
			return sxOr(m.eval(x.X), m.eval(x.Y))
		case token.AND:
			return sxAnd(m.eval(x.X), m.eval(x.Y))
		case token.AND_NOT:
			return sxDiff(m.eval(x.X), m.eval(x.Y))
		}
	case *ssa.Call:
		name := "call"
		if o := callObj(x.Common()); o != nil {
			name = o.Name()
		}
		args := []string{}
		for _, a := range callArgs(x) {
			args = append(args, m.ve.objName(a))
		}
		return sxBase(name + "(" + strings.Join(args, ",") + ")")
	case *ssa.Extract:
		if c, ok := x.Tuple.(*ssa.Call); ok {
			name := "call"
			if o := callObj(c.Common()); o != nil {
				name = o.Name()
			}
			return sxBase(fmt.Sprintf("%s#%d@%s", name, x.Index, m.e.InstrPos(c)))
		}
	case *ssa.UnOp:
		if x.Op == token.MUL {
			switch a := x.X.(type) {
			case *ssa.FieldAddr:
				return sxBase(m.ve.objName(a.X) + "." + fieldOfAddr(a).Name())
			case *ssa.Alloc:
				sts := reachingStores(a, x)
				if len(sts) == 1 {
					return m.eval(sts[0].Val)
				}
			}
		}
	case *ssa.Parameter:
		return sxBase(x.Name())
	case *ssa.ChangeType:
		return m.eval(x.X)
	case *ssa.Convert:
		return m.eval(x.X)
	}
	return sxBase(fmt.Sprintf("value@%s#%p", m.e.Pos(v.Pos()), v))
}

// condFacts: the set-algebra facts implied by `cond == val` (equalities only).
func (m *maskEval) condFacts(cond ssa.Value, val bool) []vennFact {
	b, ok := cond.(*ssa.BinOp)
	if !ok {
		return nil
	}
	if (b.Op == token.EQL && val) || (b.Op == token.NEQ && !val) {
		l, r := m.eval(b.X), m.eval(b.Y)
		return []vennFact{subset(l, r), subset(r, l)}
	}
	return nil
}

// guardAssumption builds the adversarial assumption for "goal holds whenever
// target is reached": a comparison whose one outcome implies the goal (given
// `given`) is assumed to have the other outcome; everything else stays open.
func (m *maskEval) guardAssumption(given []vennFact, goal []vennFact) Assumption {
	return func(cond ssa.Value) (bool, bool) {
		b, ok := cond.(*ssa.BinOp)
		if !ok || (b.Op != token.EQL && b.Op != token.NEQ) {
			return false, false
		}
		if bt, ok := b.X.Type().Underlying().(*types.Basic); !ok || bt.Info()&types.IsInteger == 0 {
			return false, false
		}
		implT, implF := false, false
		if f := m.condFacts(cond, true); f != nil {
			implT, _ = vennHolds(append(append([]vennFact{}, given...), f...), goal)
		}
		if f := m.condFacts(cond, false); f != nil {
			implF, _ = vennHolds(append(append([]vennFact{}, given...), f...), goal)
		}
		switch {
		case implT && !implF:
			return true, false
		case implF && !implT:
			return true, true
		}
		return false, false
	}
}
