package main

import (
	"fmt"
	"go/token"
	"go/types"
	"sort"
	"strings"

	"golang.org/x/tools/go/ssa"
)

// R11 — Venn abstract interpretation of cpuset algebra.
//
// CPU sets are manipulated only through Union/Intersection/Difference/Clone
// and cpuset.New(). A value is therefore a Boolean combination of a small
// number of symbolic base sets (field values at function entry, results of
// pure accessor calls, parameters). Over k bases the algebra has 2^k Venn
// regions; an assertion such as `A ∩ B = ∅` or `A ⊆ B` holds for ALL values
// of the bases iff it holds in every region (optionally restricted by
// assumptions of the same form). This is a complete decision procedure for
// the quantifier-free fragment; no path enumeration and no solver is involved.

type sx struct {
	op   string // base | empty | or | and | diff
	a, b *sx
	name string
}

func sxBase(n string) *sx  { return &sx{op: "base", name: n} }
func sxEmpty() *sx         { return &sx{op: "empty"} }
func sxOr(a, b *sx) *sx    { return &sx{op: "or", a: a, b: b} }
func sxAnd(a, b *sx) *sx   { return &sx{op: "and", a: a, b: b} }
func sxDiff(a, b *sx) *sx  { return &sx{op: "diff", a: a, b: b} }
func (s *sx) String() string {
	switch s.op {
	case "base":
		return s.name
	case "empty":
		return "∅"
	case "or":
		return "(" + s.a.String() + " ∪ " + s.b.String() + ")"
	case "and":
		return "(" + s.a.String() + " ∩ " + s.b.String() + ")"
	case "diff":
		return "(" + s.a.String() + " ∖ " + s.b.String() + ")"
	}
	return "?"
}

func (s *sx) bases(out map[string]bool) {
	if s == nil {
		return
	}
	if s.op == "base" {
		out[s.name] = true
	}
	s.a.bases(out)
	s.b.bases(out)
}

func (s *sx) in(region uint, idx map[string]int) bool {
	switch s.op {
	case "base":
		return region&(1<<uint(idx[s.name])) != 0
	case "empty":
		return false
	case "or":
		return s.a.in(region, idx) || s.b.in(region, idx)
	case "and":
		return s.a.in(region, idx) && s.b.in(region, idx)
	case "diff":
		return s.a.in(region, idx) && !s.b.in(region, idx)
	}
	return false
}

// vennFact: "lhs ⊆ rhs" (disjointness A∩B=∅ is (A∩B) ⊆ ∅; equality is two facts).
type vennFact struct{ lhs, rhs *sx }

func subset(a, b *sx) vennFact   { return vennFact{a, b} }
func disjoint(a, b *sx) vennFact { return vennFact{sxAnd(a, b), sxEmpty()} }

// vennHolds decides whether every goal follows from the assumptions for all
// values of the base sets. It returns a counterexample region description.
func vennHolds(assume []vennFact, goals []vennFact) (bool, string) {
	bs := map[string]bool{}
	for _, f := range append(append([]vennFact{}, assume...), goals...) {
		f.lhs.bases(bs)
		f.rhs.bases(bs)
	}
	names := make([]string, 0, len(bs))
	for n := range bs {
		names = append(names, n)
	}
	sort.Strings(names)
	if len(names) > 14 {
		return false, fmt.Sprintf("too many base sets (%d)", len(names))
	}
	idx := map[string]int{}
	for i, n := range names {
		idx[n] = i
	}
	for region := uint(0); region < 1<<uint(len(names)); region++ {
		ok := true
		for _, a := range assume {
			if a.lhs.in(region, idx) && !a.rhs.in(region, idx) {
				ok = false // this region is empty by assumption
				break
			}
		}
		if !ok {
			continue
		}
		for _, g := range goals {
			if g.lhs.in(region, idx) && !g.rhs.in(region, idx) {
				var in, out []string
				for _, n := range names {
					if region&(1<<uint(idx[n])) != 0 {
						in = append(in, n)
					} else {
						out = append(out, n)
					}
				}
				return false, fmt.Sprintf("a CPU that is in {%s} and not in {%s} violates %s ⊆ %s", strings.Join(in, ","), strings.Join(out, ","), g.lhs, g.rhs)
			}
		}
	}
	return true, ""
}

// vennEval turns SSA values of cpuset type into set expressions.
type vennEval struct {
	e      *Engine
	fn     *ssa.Function
	naming func(v ssa.Value) string // optional: names for recognised bases
	memo   map[ssa.Value]*sx
	undec  []string
}

func newVennEval(e *Engine, fn *ssa.Function, naming func(ssa.Value) string) *vennEval {
	return &vennEval{e: e, fn: fn, naming: naming, memo: map[ssa.Value]*sx{}}
}

func isCPUSetType(t types.Type) bool {
	n, ok := t.(*types.Named)
	if !ok {
		if a, ok := t.(*types.Alias); ok {
			return isCPUSetType(types.Unalias(a))
		}
		return false
	}
	return n.Obj().Name() == "CPUSet" && n.Obj().Pkg() != nil && strings.HasSuffix(n.Obj().Pkg().Path(), "cpuset")
}

// priorFieldStore: the store to the same field of the same object that
// dominates and most closely precedes `at` (nil if the field still has its
// entry value there).
func (ve *vennEval) priorFieldStore(fa *ssa.FieldAddr, at ssa.Instruction) *ssa.Store {
	f := fieldOfAddr(fa)
	var best *ssa.Store
	AllInstrs(ve.fn, func(in ssa.Instruction) {
		st, ok := in.(*ssa.Store)
		if !ok {
			return
		}
		fa2, ok := st.Addr.(*ssa.FieldAddr)
		if !ok || fieldOfAddr(fa2) != f || !(fa2.X == fa.X || sameValue(fa2.X, fa.X)) {
			return
		}
		if !dominatesInstr(st, at) {
			return
		}
		if best == nil || dominatesInstr(best, st) {
			best = st
		}
	})
	return best
}

func (ve *vennEval) eval(v ssa.Value) *sx {
	if s, ok := ve.memo[v]; ok {
		return s
	}
	s := ve.eval1(v)
	ve.memo[v] = s
	return s
}

func (ve *vennEval) baseFor(v ssa.Value, fallback string) *sx {
	if ve.naming != nil {
		if n := ve.naming(v); n != "" {
			return sxBase(n)
		}
	}
	return sxBase(fallback)
}

func (ve *vennEval) eval1(v ssa.Value) *sx {
	switch x := v.(type) {
	case *ssa.Call:
		cc := x.Common()
		if isCpusetNewCall(x) {
			if emptyVariadic(x) {
				return sxEmpty()
			}
			return ve.baseFor(v, fmt.Sprintf("new@%s", ve.e.InstrPos(x)))
		}
		if f := cc.StaticCallee(); f != nil && f.Pkg != nil && f.Pkg.Pkg.Path() == pkgK8sCpuset {
			switch f.Name() {
			case "Clone":
				return ve.eval(cc.Args[0])
			case "Union":
				out := ve.eval(cc.Args[0])
				arg := variadicSingle(cc.Args[1])
				if arg == cc.Args[1] {
					// several or non-literal operands
					ve.undec = append(ve.undec, "Union with a non-literal operand list at "+ve.e.InstrPos(x))
					return ve.baseFor(v, fmt.Sprintf("union@%s", ve.e.InstrPos(x)))
				}
				return sxOr(out, ve.eval(arg))
			case "Intersection":
				return sxAnd(ve.eval(cc.Args[0]), ve.eval(cc.Args[1]))
			case "Difference":
				return sxDiff(ve.eval(cc.Args[0]), ve.eval(cc.Args[1]))
			}
		}
		// accessor or other call: a base named by callee and receiver
		name := "call"
		if o := callObj(cc); o != nil {
			name = o.Name()
		}
		recv := ""
		if a := callArgs(x); len(a) > 0 {
			recv = ve.objName(a[0])
		}
		return ve.baseFor(v, fmt.Sprintf("%s(%s)", name, recv))
	case *ssa.UnOp:
		if x.Op == token.MUL {
			switch a := x.X.(type) {
			case *ssa.FieldAddr:
				if st := ve.priorFieldStore(a, x); st != nil {
					return ve.eval(st.Val)
				}
				return ve.baseFor(v, ve.objName(a.X)+"."+fieldOfAddr(a).Name())
			case *ssa.Alloc:
				sts := reachingStores(a, x)
				if len(sts) == 1 {
					return ve.eval(sts[0].Val)
				}
				ve.undec = append(ve.undec, "local with several definitions at "+ve.e.InstrPos(x))
				return ve.baseFor(v, fmt.Sprintf("local@%s", ve.e.InstrPos(x)))
			case *ssa.Parameter:
				// *from (by-address CPUSet parameter)
				return ve.baseFor(v, "*"+a.Name())
			}
		}
	case *ssa.Parameter:
		return ve.baseFor(v, x.Name())
	case *ssa.Phi:
		ve.undec = append(ve.undec, "merge of alternatives at "+ve.e.InstrPos(x))
		return ve.baseFor(v, fmt.Sprintf("phi@%s", ve.e.InstrPos(x)))
	case *ssa.Extract:
		return ve.baseFor(v, fmt.Sprintf("result%d@%s", x.Index, ve.e.InstrPos(x)))
	}
	return ve.baseFor(v, fmt.Sprintf("value@%p", v))
}

// objName gives a short stable name for the object a value denotes.
func (ve *vennEval) objName(v ssa.Value) string {
	if pi := paramIndex(v); pi >= 0 {
		if fn := valueFn(v); fn != nil {
			return fn.Params[pi].Name()
		}
	}
	switch x := v.(type) {
	case *ssa.Call:
		name := "call"
		if o := callObj(x.Common()); o != nil {
			name = o.Name()
		}
		recv := ""
		if a := callArgs(x); len(a) > 0 {
			recv = ve.objName(a[0])
		}
		return name + "(" + recv + ")"
	case *ssa.UnOp:
		if x.Op == token.MUL {
			if fa, ok := x.X.(*ssa.FieldAddr); ok {
				return ve.objName(fa.X) + "." + fieldOfAddr(fa).Name()
			}
			if al, ok := x.X.(*ssa.Alloc); ok {
				sts := reachingStores(al, x)
				if len(sts) == 1 {
					return ve.objName(sts[0].Val)
				}
			}
			if fv, ok := x.X.(*ssa.FreeVar); ok {
				return fv.Name()
			}
		}
	case *ssa.FreeVar:
		return x.Name()
	case *ssa.Extract:
		return fmt.Sprintf("r%d", x.Index)
	case *ssa.TypeAssert:
		return ve.objName(x.X)
	}
	return "?"
}

// finalStoreValue: the expression stored by the last store (in dominance
// order) to field f of object `obj` inside the given set of blocks (nil = all).
func (ve *vennEval) storedValues(f *types.Var) []*ssa.Store {
	var out []*ssa.Store
	AllInstrs(ve.fn, func(in ssa.Instruction) {
		if st, ok := in.(*ssa.Store); ok && fieldOfAddr(st.Addr) == f {
			out = append(out, st)
		}
	})
	return out
}

func isCpusetNewCall(call *ssa.Call) bool { return isCpusetNew(call) }
