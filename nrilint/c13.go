package main

import (
	"fmt"
	"go/token"
	"go/types"
	"sort"
	"strings"

	"golang.org/x/tools/go/ssa"
)

// C13 — reconfiguration: idempotent, atomic when rejected, invariant-preserving.
func init() { register("C13", "reconfiguration", checkC13) }

// accessorField: if fn is a method that returns, on every path, exactly one
// field of its receiver, return that field.
func accessorField(fn *ssa.Function) *types.Var {
	if fn == nil || fn.Blocks == nil || fn.Signature.Recv() == nil || fn.Signature.Results().Len() != 1 {
		return nil
	}
	var field *types.Var
	for _, ret := range Returns(fn) {
		f, base := loadedField(ret.Results[0])
		if f == nil || paramIndex(base) != 0 {
			return nil
		}
		if field != nil && field != f {
			return nil
		}
		field = f
	}
	return field
}

// fieldSourceOf: which receiver field does value v (inside a method whose
// receiver is parameter 0, or a function given `recv`) faithfully carry?
// v may be a direct field load, a call of an accessor that returns exactly
// one field, or either of those wrapped in Clone()/String()-like unary calls.
func fieldSourceOf(e *Engine, v ssa.Value, recv func(ssa.Value) bool, depth int) *types.Var {
	if depth > 5 {
		return nil
	}
	if f, base := loadedField(v); f != nil && recv(base) {
		return f
	}
	switch x := v.(type) {
	case *ssa.Call:
		args := callArgs(x)
		if len(args) == 0 {
			return nil
		}
		if recv(args[0]) {
			// accessor on the source object (static or through the interface)
			for _, g := range e.Callees(x) {
				if af := accessorField(g); af != nil && isRepoFn(g) {
					return af
				}
			}
			return nil
		}
		// a unary conversion of something that carries the field: X.Clone(), X.String(), MustParse(X)
		if len(args) == 1 {
			return fieldSourceOf(e, args[0], recv, depth+1)
		}
	case *ssa.ChangeType:
		return fieldSourceOf(e, x.X, recv, depth+1)
	case *ssa.Convert:
		return fieldSourceOf(e, x.X, recv, depth+1)
	case *ssa.MakeInterface:
		return fieldSourceOf(e, x.X, recv, depth+1)
	}
	return nil
}

// structInitStores: the stores that initialise fields of the struct allocated by `al`.
func structInitStores(fn *ssa.Function, al *ssa.Alloc) map[*types.Var]ssa.Value {
	out := map[*types.Var]ssa.Value{}
	for _, ref := range *al.Referrers() {
		fa, ok := ref.(*ssa.FieldAddr)
		if !ok {
			continue
		}
		for _, r2 := range *fa.Referrers() {
			if st, ok := r2.(*ssa.Store); ok && st.Addr == fa {
				out[fieldOfAddr(fa)] = st.Val
			}
		}
	}
	return out
}

func allocOfType(fn *ssa.Function, n *types.Named) *ssa.Alloc {
	var out *ssa.Alloc
	AllInstrs(fn, func(in ssa.Instruction) {
		if al, ok := in.(*ssa.Alloc); ok {
			if p, ok := al.Type().(*types.Pointer); ok && types.Identical(p.Elem(), n) {
				out = al
			}
		}
	})
	return out
}

func checkC13(e *Engine, r *Report) {
	r.Rules = []string{
		"R2 idempotence short-circuit (balloons): setConfig and Sync are unreachable when changesBalloons() is false, and nothing reachable in that case marks a container pending",
		"R9 faithful clone (topology-aware): grant.Clone, supply.Clone/newSupply, allocations.clone and the cachedGrant marshal/restore pair carry every non-transient field through unchanged (directly or through an accessor that returns exactly that field)",
		"R12 rollback (topology-aware Reconfigure): after the first change of policy state every error exit restores the saved policy, with one reasoned exception whose preconditions are checked; the resource manager re-applies the previous configuration on failure and records the new one only on success",
		"R1 failure is reported (balloons): a setConfig error is returned by Reconfigure, so the resource manager reverts",
		"R1 changed resources are pushed (shared with C05); R2 stopped containers are not re-admitted (shared with C09)",
		"R14b propagated failures (resource manager and policy front-end): every call whose failure made its caller fail on the reviewed tree still does (frozen table of caller/callee pairs)",
	}
	r.NotDecided = []string{"that two futures are identical after a rejected update (differential, value-level)", "invariants under the new configuration (C01-C04 value parts)",
		"topology-aware idempotence (an unchanged configuration is re-applied by rebuilding and re-instating every grant; equality of the result is value-level)"}
	r.Assumptions = []string{"balloons: the resource manager's re-application of the previous configuration restores p.allowed/p.reserved changed by a rejected setConfig (demonstrated in round 0, DESIGN.md section 4 C13)"}

	// a rejected update is seen as rejected: the failures that made the resource manager / policy front-end fail on the
	// reviewed tree still do (R14b, frozen pairs)
	checkErrorPropagation(e, r, "R1 failure is reported", pkgRM, pkgPolicy)

	// ------------------------------------------------------------- A: balloons short-circuit
	blReconf := r.Anchor(pkgBL, "balloons.Reconfigure")
	setConfig := r.Anchor(pkgBL, "balloons.setConfig")
	blSync := r.Anchor(pkgBL, "balloons.Sync")
	changes := r.Anchor(pkgBL, "changesBalloons")
	markPending := e.Fn(pkgCA, "container.markPending")
	if blReconf != nil && setConfig != nil && blSync != nil && changes != nil {
		unchanged := func(cond ssa.Value) (bool, bool) {
			if call, ok := cond.(*ssa.Call); ok && e.IsCallTo(call, fset(changes)) {
				return true, false
			}
			return false, false
		}
		cc := e.callsTo(blReconf, changes)
		okArgs := len(cc) == 1
		if okArgs {
			a := callArgs(cc[0])
			f, _ := loadedField(a[0])
			okArgs = len(a) == 2 && f == e.Field(pkgBL, "balloons", "bpoptions")
		}
		r.Check("R2:bl-idempotent#compares-current", "R2 idempotence short-circuit", "Reconfigure compares the incoming options with the options currently in force", e.Pos(blReconf.Pos()), blReconf, okArgs, "", true)
		r.Unreachable("R2:bl-idempotent#no-rebuild", "R2 idempotence short-circuit", "with changesBalloons() false neither setConfig nor Sync is reachable", blReconf, nil,
			func(in ssa.Instruction) bool { return e.IsCallTo(in, fset(setConfig, blSync)) }, unchanged)
		var hit ssa.Instruction
		AllInstrs(blReconf, func(in ssa.Instruction) {
			if hit != nil {
				return
			}
			if _, ok := in.(ssa.CallInstruction); !ok || markPending == nil {
				return
			}
			if !e.CallReaches(in, fset(markPending), 0) {
				return
			}
			if FindPath(PathQuery{Fn: blReconf, Assume: unchanged, Target: func(x ssa.Instruction) bool { return x == in }}) != nil {
				hit = in
			}
		})
		w := ""
		if hit != nil {
			w = e.InstrPos(hit) + " " + describeCallShort(e, hit)
		}
		r.Check("R2:bl-idempotent#no-container-touched", "R2 idempotence short-circuit", "with changesBalloons() false nothing reachable marks a container pending (no resource changes)", e.Pos(blReconf.Pos()), blReconf, hit == nil, w, true)

		// D: a setConfig error is returned
		sc := e.callsTo(blReconf, setConfig)
		if len(sc) == 1 {
			failed := func(cond ssa.Value) (bool, bool) {
				k, v := callSucceeded(sc[0].Value())(cond)
				return k, !v
			}
			p := FindPath(PathQuery{Fn: blReconf, From: sc[0].(ssa.Instruction), Assume: failed, Target: func(in ssa.Instruction) bool {
				ret, ok := in.(*ssa.Return)
				if !ok {
					return false
				}
				v := retValue(ret, 0)
				return !isErrOf(v, sc[0].Value()) && e.ClassifyReturn(ret) != retNonNilErr
			}})
			r.Check("R1:bl-setconfig-error-returned", "R1 failure is reported", "when setConfig fails Reconfigure returns an error (the resource manager then re-applies the previous configuration)",
				e.InstrPos(sc[0]), blReconf, p == nil, e.pathString(p), true)
			r.Unreachable("R1:bl-no-sync-after-failed-setconfig", "R1 failure is reported", "no re-synchronisation of containers happens after a failed setConfig", blReconf, sc[0].(ssa.Instruction),
				func(in ssa.Instruction) bool { return e.IsCallTo(in, fset(blSync)) }, failed)
		} else {
			r.Undecided("R1:bl-setconfig-error-returned", "R1 failure is reported", "Reconfigure calls setConfig once", e.Pos(blReconf.Pos()), blReconf, fmt.Sprintf("%d calls", len(sc)))
		}
		// E: a successful setConfig has made the new options the ones in force (the idempotence test of the next update and
		// every later allocation decision read them)
		if fOpts := e.Field(pkgBL, "balloons", "bpoptions"); fOpts != nil && len(setConfig.Params) >= 2 {
			optP := ssa.Value(setConfig.Params[1])
			installs := func(in ssa.Instruction) bool {
				st, ok := in.(*ssa.Store)
				if !ok || fieldOfAddr(st.Addr) != fOpts {
					return false
				}
				// the parameter itself or a copy of it
				return originAll(st.Val, func(v ssa.Value) bool {
					if sameObject(v, optP) {
						return true
					}
					if c, ok := v.(*ssa.Call); ok && callObj(c.Common()) != nil && strings.HasPrefix(callObj(c.Common()).Name(), "DeepCopy") {
						a := callArgs(c)
						return len(a) >= 1 && sameObject(a[0], optP)
					}
					return false
				})
			}
			p := FindPath(PathQuery{Fn: setConfig, Block: installs, Target: func(in ssa.Instruction) bool {
				ret, ok := in.(*ssa.Return)
				return ok && e.maySucceed(ret)
			}})
			r.Check("R1:bl-success-installs", "R12 rollback", "every successful setConfig(options) has installed those options as the ones in force", e.Pos(setConfig.Pos()), setConfig, p == nil, e.pathString(p), true)
		}
	}

	// ------------------------------------------------------------- G: the fallback covers every saved grant
	// restoreAllocations first tries to re-instate the saved grants verbatim and otherwise re-allocates their containers.
	// Both steps must work from the saved allocations it was given — the policy's own table has just been emptied and
	// holds only what the failed re-instatement got to
	if fn := r.Anchor(pkgTA, "policy.restoreAllocations"); fn != nil && len(fn.Params) == 2 {
		savedP := ssa.Value(fn.Params[1])
		fGrants := e.Field(pkgTA, "allocations", "grants")
		realloc := e.Fn(pkgTA, "policy.reallocateResources")
		reinstate := e.Fn(pkgTA, "policy.reinstateGrants")
		okRe, nRe := true, 0
		for _, c := range e.callsTo(fn, reinstate) {
			nRe++
			a := callArgs(c)
			f, b := loadedField(a[len(a)-1])
			if f != fGrants || !sameObject(b, savedP) {
				okRe = false
			}
		}
		r.Check("R9:restore-works-from-saved#reinstate", "R12 rollback", "restoreAllocations re-instates the grants of the saved allocations it was given", e.Pos(fn.Pos()), fn, okRe && nRe > 0, "", true)
		okFb, nFb := true, 0
		for _, c := range e.callsTo(fn, realloc) {
			nFb++
			a := callArgs(c)
			for _, arg := range a[1:] {
				if !originAll(arg, func(v ssa.Value) bool {
					ex, ok := v.(*ssa.Extract)
					if !ok {
						return false
					}
					call, ok := ex.Tuple.(*ssa.Call)
					if !ok || callObj(call.Common()) == nil || callObj(call.Common()).Name() != "getContainerPoolHints" {
						return false
					}
					return sameObject(callArgs(call)[0], savedP)
				}) {
					okFb = false
				}
			}
		}
		r.Check("R9:restore-works-from-saved#fallback", "R12 rollback", "the fallback re-allocation takes its containers and pool hints from the saved allocations (every saved grant's container is re-allocated), not from the policy's partly refilled table", e.Pos(fn.Pos()), fn, okFb && nFb > 0, "", true)
	}

	// ------------------------------------------------------------- F: the states re-admission goes by are recorded
	// Reconfiguration (and Synchronize) re-admit exactly the containers recorded as created or running: the handlers must
	// record those states on their success paths
	for _, t := range []struct{ handler, state string }{{"nriPlugin.CreateContainer", "ContainerStateCreated"}, {"nriPlugin.StartContainer", "ContainerStateRunning"}} {
		fn := r.Anchor(pkgRM, t.handler)
		k, _ := e.TypesPkg(pkgCA).Scope().Lookup(t.state).(*types.Const)
		if fn == nil || k == nil {
			if fn != nil {
				r.Undecided("R6:lifecycle-state-recorded@"+t.handler, "R2 re-admission", "constant "+t.state+" exists", "-", nil, "not found")
			}
			continue
		}
		var lookedUp []ssa.Value // the cached container of the event (InsertContainer / LookupContainer result)
		AllInstrs(fn, func(in ssa.Instruction) {
			if c, ok := in.(ssa.CallInstruction); ok && callObj(c.Common()) != nil && (callObj(c.Common()).Name() == "InsertContainer" || callObj(c.Common()).Name() == "LookupContainer") && c.Value() != nil && c.Value().Referrers() != nil {
				for _, ref := range *c.Value().Referrers() {
					if ex, ok := ref.(*ssa.Extract); ok && ex.Index == 0 {
						lookedUp = append(lookedUp, ex)
					}
				}
			}
		})
		var knownH Assumption
		if _, v, kn := e.eventContainer(fn); v != nil {
			lookedUp = append(lookedUp, v)
			knownH = kn
		}
		records := func(in ssa.Instruction) bool {
			c, ok := in.(ssa.CallInstruction)
			if !ok || callObj(c.Common()) == nil || callObj(c.Common()).Name() != "UpdateState" {
				return false
			}
			a := callArgs(c)
			if len(a) != 2 || !isConstEq(a[1], k) {
				return false
			}
			for _, lu := range lookedUp {
				if unspill(a[0]) == lu {
					return true
				}
			}
			return false
		}
		found := func(cond ssa.Value) (bool, bool) { // the container is known
			if knownH != nil {
				if k, v := knownH(cond); k {
					return k, v
				}
			}
			if ex, ok := unspill(cond).(*ssa.Extract); ok && ex.Index == 1 {
				if c, ok := ex.Tuple.(ssa.CallInstruction); ok && callObj(c.Common()) != nil && callObj(c.Common()).Name() == "LookupContainer" {
					return true, true
				}
			}
			return false, false
		}
		p := FindPath(PathQuery{Fn: fn, Assume: found, Block: records, Target: func(in ssa.Instruction) bool {
			ret, ok := in.(*ssa.Return)
			return ok && e.maySucceed(ret)
		}})
		r.Check("R6:lifecycle-state-recorded@"+t.handler, "R2 re-admission", "a successful "+strings.TrimPrefix(t.handler, "nriPlugin.")+" of a known container records it as "+strings.TrimPrefix(t.state, "ContainerState")+" (the state re-admission after a configuration update goes by)", e.Pos(fn.Pos()), fn, p == nil && len(lookedUp) > 0, e.pathString(p), true)
	}

	// … and UpdateState really records: it stores its argument as the container's state
	if fn := r.Anchor(pkgCA, "container.UpdateState"); fn != nil && len(fn.Params) == 2 {
		stP := ssa.Value(fn.Params[1])
		stores := func(in ssa.Instruction) bool {
			st, ok := in.(*ssa.Store)
			if !ok || !sameObject(st.Val, stP) {
				return false
			}
			f := fieldOfAddr(st.Addr)
			return f != nil && f.Name() == "State"
		}
		p := FindPath(PathQuery{Fn: fn, Target: isRet, Block: stores})
		r.Check("R6:lifecycle-state-recorded@container.UpdateState", "R2 re-admission", "UpdateState(state) stores that state as the container's state", e.Pos(fn.Pos()), fn, p == nil, e.pathString(p), true)
	}

	// ------------------------------------------------------------- B: faithful clones
	grantT := e.Named(pkgTA, "grant")
	transient := map[string]string{"coldStartTimer": "a running timer belongs to the original grant only"}
	if fn := r.Anchor(pkgTA, "grant.Clone"); fn != nil && grantT != nil {
		al := allocOfType(fn, grantT)
		if al == nil {
			r.Undecided("R9:grant.Clone", "R9 faithful clone", "grant.Clone builds a new grant", e.Pos(fn.Pos()), fn, "no grant allocation found")
		} else {
			init := structInitStores(fn, al)
			st := grantT.Underlying().(*types.Struct)
			isRecv := func(v ssa.Value) bool { return paramIndex(v) == 0 }
			for i := 0; i < st.NumFields(); i++ {
				f := st.Field(i)
				if why, ok := transient[f.Name()]; ok {
					_, set := init[f]
					r.Check("R9:grant.Clone#"+f.Name(), "R9 faithful clone", "transient field "+f.Name()+" is not copied ("+why+")", e.Pos(fn.Pos()), fn, !set, "", false)
					continue
				}
				v, ok := init[f]
				src := (*types.Var)(nil)
				if ok {
					src = fieldSourceOf(e, v, isRecv, 0)
				}
				w := "not initialised"
				if ok {
					w = "initialised from " + fieldName(src)
				}
				r.Check("R9:grant.Clone#"+f.Name(), "R9 faithful clone", "the clone's "+f.Name()+" is the original's "+f.Name()+" (directly or through an accessor returning exactly that field)",
					e.Pos(fn.Pos()), fn, ok && src == f, w, true)
			}
		}
	}
	supplyT := e.Named(pkgTA, "supply")
	if clone, ns := r.Anchor(pkgTA, "supply.Clone"), r.Anchor(pkgTA, "newSupply"); clone != nil && ns != nil && supplyT != nil {
		al := allocOfType(ns, supplyT)
		calls := e.callsTo(clone, ns)
		if al == nil || len(calls) != 1 {
			r.Undecided("R9:supply.Clone", "R9 faithful clone", "supply.Clone goes through newSupply", e.Pos(clone.Pos()), clone, "shape not recognised")
		} else {
			init := structInitStores(ns, al)
			args := callArgs(calls[0])
			st := supplyT.Underlying().(*types.Struct)
			isRecv := func(v ssa.Value) bool { return paramIndex(v) == 0 }
			for i := 0; i < st.NumFields(); i++ {
				f := st.Field(i)
				v, ok := init[f]
				var src *types.Var
				if ok {
					// which parameter of newSupply feeds the field (possibly through Clone())?
					pi := -1
					Origins(v, func(x ssa.Value) bool {
						if paramIndex(x) >= 0 {
							pi = paramIndex(x)
							return true
						}
						if c, isC := x.(*ssa.Call); isC && len(callArgs(c)) == 1 {
							if p := paramIndex(callArgs(c)[0]); p >= 0 {
								pi = p
								return true
							}
						}
						return false
					})
					if pi >= 0 && pi < len(args) {
						src = fieldSourceOf(e, args[pi], isRecv, 0)
					}
				}
				r.Check("R9:supply.Clone#"+f.Name(), "R9 faithful clone", "the cloned supply's "+f.Name()+" is the original's "+f.Name(), e.Pos(clone.Pos()), clone, ok && src == f, "initialised from "+fieldName(src), true)
			}
		}
	}
	if fn := r.Anchor(pkgTA, "allocations.clone"); fn != nil {
		cloneM := e.objs(pkgTA, "Grant.Clone", "grant.Clone")
		fGrants := e.Field(pkgTA, "allocations", "grants")
		fPolicy := e.Field(pkgTA, "allocations", "policy")
		okEach := false
		AllInstrs(fn, func(in ssa.Instruction) {
			if mu, ok := in.(*ssa.MapUpdate); ok {
				if call, ok := mu.Value.(*ssa.Call); ok && isCallOfObj(call, cloneM) {
					// key and value come from the same range over the receiver's grants
					if ex, ok := callArgs(call)[0].(*ssa.Extract); ok {
						if kx, ok := mu.Key.(*ssa.Extract); ok && kx.Tuple == ex.Tuple {
							if nx, ok := ex.Tuple.(*ssa.Next); ok {
								if rg, ok := nx.Iter.(*ssa.Range); ok {
									if f, base := loadedField(rg.X); f == fGrants && paramIndex(base) == 0 {
										okEach = true
									}
								}
							}
						}
					}
				}
			}
		})
		r.Check("R9:allocations.clone#grants", "R9 faithful clone", "allocations.clone stores, under each id of the original, a Clone() of that id's grant", e.Pos(fn.Pos()), fn, okEach, "", true)
		okPol := false
		if al := allocOfType(fn, e.Named(pkgTA, "allocations")); al != nil {
			if v, ok := structInitStores(fn, al)[fPolicy]; ok {
				f, base := loadedField(v)
				okPol = f == fPolicy && paramIndex(base) == 0
			}
		}
		r.Check("R9:allocations.clone#policy", "R9 faithful clone", "allocations.clone keeps the policy back-pointer", e.Pos(fn.Pos()), fn, okPol, "", true)
	}
	// cachedGrant marshal/restore agreement
	if mk, to, ng := r.Anchor(pkgTA, "newCachedGrant"), r.Anchor(pkgTA, "cachedGrant.ToGrant"), r.Anchor(pkgTA, "newGrant"); mk != nil && to != nil && ng != nil && grantT != nil {
		ccgT := e.Named(pkgTA, "cachedGrant")
		// write side: cachedGrant field K <- grant field f
		kFrom := map[*types.Var]*types.Var{}
		kSkipped := map[*types.Var]string{} // cachedGrant field -> a path of newCachedGrant that does not fill it
		fSkipped := map[*types.Var]string{} // grant field -> a successful path of ToGrant that does not restore it
		isSrc := func(v ssa.Value) bool { return paramIndex(v) == 0 }
		AllInstrs(mk, func(in ssa.Instruction) {
			st, ok := in.(*ssa.Store)
			if !ok {
				return
			}
			fa, ok := st.Addr.(*ssa.FieldAddr)
			if !ok || fieldOwner(fa) != ccgT {
				return
			}
			if src := fieldSourceOf(e, st.Val, isSrc, 0); src != nil {
				kFrom[fieldOfAddr(fa)] = src
				if sp := e.skippedOnSuccess(mk, in); sp != nil { // saved on every path, not only on some
					kSkipped[fieldOfAddr(fa)] = e.pathString(sp)
				}
			}
		})
		// read side: grant field f <- cachedGrant field K  (through newGrant parameters and setters)
		fFrom := map[*types.Var]*types.Var{}
		ngInit := map[int]*types.Var{} // newGrant param -> grant field
		if al := allocOfType(ng, grantT); al != nil {
			for f, v := range structInitStores(ng, al) {
				if pi := paramIndex(v); pi >= 0 {
					ngInit[pi] = f
				}
			}
		}
		isCcg := func(v ssa.Value) bool { return paramIndex(v) == 0 }
		AllInstrs(to, func(in ssa.Instruction) {
			call, ok := in.(*ssa.Call)
			if !ok {
				return
			}
			if e.IsCallTo(call, fset(ng)) {
				for i, a := range callArgs(call) {
					if k := fieldSourceOf(e, a, isCcg, 0); k != nil && ngInit[i] != nil {
						fFrom[ngInit[i]] = k
					}
				}
				return
			}
			// setter on the new grant: g.SetX(ccg.K) where SetX stores its parameter into one field
			args := callArgs(call)
			if len(args) == 2 {
				for _, g := range e.Callees(call) {
					if g.Blocks == nil || !isRepoFn(g) {
						continue
					}
					var target *types.Var
					AllInstrs(g, func(x ssa.Instruction) {
						if st, ok := x.(*ssa.Store); ok && paramIndex(st.Val) == 1 {
							if fa, ok := st.Addr.(*ssa.FieldAddr); ok && fieldOwner(fa) == grantT {
								target = fieldOfAddr(fa)
							}
						}
					})
					if target != nil {
						if k := fieldSourceOf(e, args[1], isCcg, 0); k != nil {
							fFrom[target] = k
							if sp := e.skippedOnSuccess(to, in); sp != nil {
								fSkipped[target] = e.pathString(sp)
							}
						}
					}
				}
			}
		})
		st := grantT.Underlying().(*types.Struct)
		byRef := map[string]string{"container": "restored by id lookup in the cache", "node": "restored by name lookup in the pool tree"}
		for i := 0; i < st.NumFields(); i++ {
			f := st.Field(i)
			if _, ok := transient[f.Name()]; ok {
				continue
			}
			if why, ok := byRef[f.Name()]; ok {
				r.Check("R9:cachedGrant#"+f.Name(), "R9 faithful clone", "grant."+f.Name()+" is "+why, e.Pos(to.Pos()), to, true, "", false)
				continue
			}
			k := fFrom[f]
			ok := k != nil && kFrom[k] == f
			wcg := "restored from " + fieldName(k) + ", which is saved from " + fieldName(kFrom[k])
			if ok && kSkipped[k] != "" {
				ok, wcg = false, "newCachedGrant can leave "+fieldName(k)+" unfilled: "+kSkipped[k]
			}
			if ok && fSkipped[f] != "" {
				ok, wcg = false, "a successful ToGrant can leave it unrestored: "+fSkipped[f]
			}
			r.Check("R9:cachedGrant#"+f.Name(), "R9 faithful clone", "grant."+f.Name()+" is saved into a cachedGrant field by newCachedGrant on every path and restored from the same field by every successful ToGrant",
				e.Pos(to.Pos()), to, ok, wcg, true)
		}
	}

	// ------------------------------------------------------------- C: rollback in TA Reconfigure
	if fn := r.Anchor(pkgTA, "policy.Reconfigure"); fn != nil {
		initialize := e.Fn(pkgTA, "policy.initialize")
		regAff := e.Fn(pkgTA, "policy.registerImplicitAffinities")
		polT := e.Named(pkgTA, "policy")
		// the rollback store: *p = <saved policy value>
		isRollback := func(in ssa.Instruction) bool {
			st, ok := in.(*ssa.Store)
			if !ok || paramIndex(st.Addr) != 0 {
				return false
			}
			return types.Identical(st.Val.Type(), polT)
		}
		// the saved copy is taken before any change
		var firstChange ssa.Instruction
		fCfg := e.Field(pkgTA, "policy", "cfg")
		AllInstrs(fn, func(in ssa.Instruction) {
			if firstChange != nil {
				return
			}
			if st, ok := in.(*ssa.Store); ok {
				if fieldOfAddr(st.Addr) == fCfg {
					firstChange = in
				}
				if g, ok := st.Addr.(*ssa.Global); ok && g.Name() == "opt" {
					firstChange = in
				}
			}
			if e.IsCallTo(in, fset(initialize)) {
				firstChange = in
			}
		})
		if firstChange == nil {
			r.Undecided("R12:ta-rollback", "R12 rollback", "Reconfigure changes policy state", e.Pos(fn.Pos()), fn, "no state change found")
		} else {
			var saveLoad ssa.Instruction
			AllInstrs(fn, func(in ssa.Instruction) {
				if u, ok := in.(*ssa.UnOp); ok && u.Op == token.MUL && paramIndex(u.X) == 0 && types.Identical(u.Type(), polT) && saveLoad == nil {
					saveLoad = in
				}
			})
			r.Check("R12:ta-saved-before-change", "R12 rollback", "the policy is copied (savedPolicy := *p) before the first change of its state", e.InstrPos(firstChange), fn,
				saveLoad != nil && dominatesInstr(saveLoad, firstChange), "", true)
			// every error exit after the first change passes the rollback, except the reasoned one
			nExits := 0
			for _, ret := range Returns(fn) {
				if e.ClassifyReturn(ret) == retNilErr {
					continue
				}
				if FindPath(PathQuery{Fn: fn, From: firstChange, Target: func(in ssa.Instruction) bool { return in == ssa.Instruction(ret) }}) == nil {
					continue
				}
				nExits++
				p := FindPath(PathQuery{Fn: fn, From: firstChange, Block: isRollback, Target: func(in ssa.Instruction) bool { return in == ssa.Instruction(ret) }})
				key := "R12:ta-rollback@exit"
				if p == nil {
					r.Check(key, "R12 rollback", "an error exit of Reconfigure after the state change restores the saved policy", e.InstrPos(ret), fn, true, "", true)
					continue
				}
				// is this the exit taken when registerImplicitAffinities failed?
				isAffExit := false
				for _, cf := range dominatingConds(ret.Block()) {
					if b, ok := cf.Cond.(*ssa.BinOp); ok && b.Op == token.NEQ && cf.Val {
						if call, ok := b.X.(*ssa.Call); ok && e.IsCallTo(call, fset(regAff)) {
							isAffExit = true
						}
					}
				}
				if isAffExit && regAff != nil {
					okEx, why := implicitAffinityFailureInfeasible(e, regAff)
					r.Check("R12:ta-rollback@exit-registerImplicitAffinities", "R12 rollback",
						"reasoned exception: the exit after registerImplicitAffinities needs no rollback because that call cannot fail (it deletes exactly the names it then adds)",
						e.InstrPos(ret), fn, okEx, why, true)
					continue
				}
				r.Check(key, "R12 rollback", "an error exit of Reconfigure after the state change restores the saved policy", e.InstrPos(ret), fn, false,
					"path without `*p = savedPolicy`: "+e.pathString(p), true)
			}
			r.MinInstances("error exits of TA Reconfigure after the state change", nExits, 2)
		}
		// success installs the given configuration: the revert by re-application (and every later decision,
		// which reads the package-level options) depends on Reconfigure(cfg) == nil ⇒ options == cfg
		// latest store to the same global / the same field of the receiver that dominates a load
		priorStore := func(ld *ssa.UnOp) *ssa.Store {
			var best *ssa.Store
			AllInstrsOf(fn, func(in ssa.Instruction) {
				st, ok := in.(*ssa.Store)
				if !ok || !dominatesInstr(st, ld) {
					return
				}
				same := false
				if g, isG := ld.X.(*ssa.Global); isG {
					same = st.Addr == ssa.Value(g)
				} else if fa, isFA := ld.X.(*ssa.FieldAddr); isFA {
					if fb, isFB := st.Addr.(*ssa.FieldAddr); isFB {
						same = fieldOfAddr(fa) == fieldOfAddr(fb) && (fa.X == fb.X || sameValue(fa.X, fb.X))
					}
				}
				if same && (best == nil || dominatesInstr(best, st)) {
					best = st
				}
			})
			return best
		}
		var cfgParamDerived func(v ssa.Value) bool
		cfgParamDerived = func(v ssa.Value) bool {
			ok := false
			Origins(v, func(x ssa.Value) bool {
				if ld, isLd := x.(*ssa.UnOp); isLd && ld.Op == token.MUL {
					if st := priorStore(ld); st != nil && st.Val != v && cfgParamDerived(st.Val) {
						ok = true
						return true
					}
				}
				if ta, isTA := x.(*ssa.TypeAssert); isTA && paramIndex(ta.X) == 1 {
					ok = true
					return true
				}
				if ex, isEx := x.(*ssa.Extract); isEx {
					if ta, isTA := ex.Tuple.(*ssa.TypeAssert); isTA && paramIndex(ta.X) == 1 {
						ok = true
						return true
					}
				}
				return false
			})
			return ok
		}
		for _, gname := range []string{"opt", "defaultPrio"} {
			g := e.Global(pkgTA, gname)
			if g == nil {
				r.Undecided("R1:ta-success-installs#"+gname, "R12 rollback", "the topology-aware options global exists", e.Pos(fn.Pos()), fn, "global "+gname+" not found")
				continue
			}
			installs := func(in ssa.Instruction) bool {
				st, ok := in.(*ssa.Store)
				if !ok || st.Addr != ssa.Value(g) {
					return false
				}
				if gname == "opt" {
					return cfgParamDerived(st.Val)
				}
				// defaultPrio = cfg.DefaultCPUPriority.Value()
				okv := false
				Origins(st.Val, func(x ssa.Value) bool {
					if c, isC := x.(*ssa.Call); isC {
						for _, a := range callArgs(c) {
							if f, base := loadedField(a); f != nil && cfgParamDerived(base) {
								okv = true
							}
							if fa, isFA := a.(*ssa.FieldAddr); isFA && cfgParamDerived(fa.X) {
								okv = true
							}
						}
					}
					return okv
				})
				return okv
			}
			r.MustPass("R1:ta-success-installs#"+gname, "R12 rollback", "every successful return of Reconfigure(cfg) has installed cfg as the effective "+gname+" (no shortcut may skip it: the resource manager reverts a rejected update by re-applying the previous configuration)",
				fn, nil, e.maySucceed, installs, nil)
		}
		if initialize != nil {
			r.MustPass("R1:ta-success-rebuilds", "R12 rollback", "every successful return of Reconfigure has rebuilt the pools (initialize) from the given configuration", fn, nil, e.maySucceed,
				func(in ssa.Instruction) bool { return e.IsCallTo(in, fset(initialize)) }, nil)
		}
	}
	// resource manager: revert on failure, record on success
	if rec := r.Anchor(pkgRM, "resmgr.reconfigure"); rec != nil {
		fCfg := e.Field(pkgRM, "resmgr", "cfg")
		var apply *ssa.Function
		for _, a := range rec.AnonFuncs {
			if len(callsToObj(a, e.FuncObj(pkgPolicy, "Policy.Reconfigure"))) > 0 {
				apply = a
			}
		}
		calls := []ssa.CallInstruction{}
		if apply != nil {
			calls = e.callsTo(rec, apply)
		}
		if apply == nil || len(calls) != 2 {
			r.Undecided("R12:rm-revert", "R12 rollback", "resmgr.reconfigure has an apply step it runs for the new and, on failure, the previous configuration", e.Pos(rec.Pos()), rec,
				fmt.Sprintf("apply closure found=%v, %d calls", apply != nil, len(calls)))
		} else {
			first, second := calls[0], calls[1]
			if !dominatesInstr(first, second) {
				first, second = second, first
			}
			a1, a2 := callArgs(first), callArgs(second)
			okNew := paramIndex(a1[len(a1)-1]) == 1
			f2, _ := loadedField(a2[len(a2)-1])
			r.Check("R12:rm-apply-new", "R12 rollback", "the first apply runs with the configuration being delivered", e.InstrPos(first), rec, okNew, "", true)
			r.Check("R12:rm-revert-old", "R12 rollback", "the second apply re-applies the previously active configuration (m.cfg)", e.InstrPos(second), rec, f2 == fCfg, "", true)
			failed := func(cond ssa.Value) (bool, bool) { k, v := callSucceeded(first.Value())(cond); return k, !v }
			r.MustPass("R12:rm-revert-on-failure", "R12 rollback", "when applying the new configuration fails, the previous one is re-applied on every path", rec, first.(ssa.Instruction), nil,
				func(in ssa.Instruction) bool { return in == second.(ssa.Instruction) }, failed)
			r.Unreachable("R12:rm-record-only-on-success", "R12 rollback", "m.cfg is replaced only when applying the new configuration succeeded", rec, first.(ssa.Instruction),
				func(in ssa.Instruction) bool { st, ok := in.(*ssa.Store); return ok && fieldOfAddr(st.Addr) == fCfg }, failed)
			p := FindPath(PathQuery{Fn: rec, From: first.(ssa.Instruction), Assume: failed, Target: func(in ssa.Instruction) bool {
				ret, ok := in.(*ssa.Return)
				return ok && e.ClassifyReturn(ret) == retNilErr
			}})
			// the apply step configures everything from the configuration it is GIVEN: what reaches Policy.Reconfigure (and every
			// other consumer inside the closure) derives from the closure's own parameter, never from a captured variable
			{
				polRec := e.FuncObj(pkgPolicy, "Policy.Reconfigure")
				var fromParam func(v ssa.Value, d int) (param, free bool)
				fromParam = func(v ssa.Value, d int) (bool, bool) {
					if d > 8 {
						return false, false
					}
					switch x := v.(type) {
					case *ssa.Parameter:
						return x.Parent() == apply, false
					case *ssa.FreeVar:
						return false, true
					case *ssa.UnOp:
						if al, ok := x.X.(*ssa.Alloc); ok && x.Op == token.MUL {
							p, f := false, false
							for _, st := range reachingStores(al, x) {
								p2, f2 := fromParam(st.Val, d+1)
								p, f = p || p2, f || f2
							}
							return p, f
						}
						return fromParam(x.X, d+1)
					case *ssa.Call:
						a := callArgs(x)
						if len(a) > 0 {
							return fromParam(a[0], d+1)
						}
					case *ssa.MakeInterface:
						return fromParam(x.X, d+1)
					case *ssa.ChangeInterface:
						return fromParam(x.X, d+1)
					case *ssa.ChangeType:
						return fromParam(x.X, d+1)
					case *ssa.Phi:
						p, f := false, false
						for _, ed := range x.Edges {
							p2, f2 := fromParam(ed, d+1)
							p, f = p || p2, f || f2
						}
						return p, f
					}
					return false, false
				}
				nRec := 0
				for _, c := range callsToObj(apply, polRec) {
					nRec++
					a := callArgs(c)
					fp, fr := fromParam(a[len(a)-1], 0)
					r.Check("R12:rm-apply-uses-its-argument", "R12 rollback", "the apply step hands the policy the configuration it was called with (so the revert really re-applies the previous configuration)", e.InstrPos(c), apply, fp && !fr,
						map[bool]string{true: "the configuration handed to Policy.Reconfigure comes from a captured variable, not from the closure's parameter", false: ""}[fr || !fp], true)
				}
				r.MinInstances("Policy.Reconfigure calls in the apply step", nRec, 1)
			}
			r.Check("R12:rm-failure-reported", "R12 rollback", "a failed configuration update is reported to the agent as an error", e.Pos(rec.Pos()), rec, p == nil, e.pathString(p), true)
		}
	}

	// ------------------------------------------------------------- E/F shared clauses
	checkReconfigurePush(e, r)
	checkReadmission(e, r)
	_ = sort.Strings
	_ = strings.Join
}

func fieldName(f *types.Var) string {
	if f == nil {
		return "<nothing recognisable>"
	}
	return f.Name()
}

// implicitAffinityFailureInfeasible checks the preconditions of the reasoned
// exception in TA Reconfigure: registerImplicitAffinities can fail only in
// AddImplicitAffinities, which reports a collision with an existing name, and
// every name added was deleted just before.
func implicitAffinityFailureInfeasible(e *Engine, fn *ssa.Function) (bool, string) {
	add := e.objs(pkgCA, "Cache.AddImplicitAffinities")
	del := e.objs(pkgCA, "Cache.DeleteImplicitAffinities")
	ac := firstCallOfObj(fn, add)
	dc := firstCallOfObj(fn, del)
	if ac == nil || dc == nil {
		return false, "AddImplicitAffinities/DeleteImplicitAffinities calls not found"
	}
	// (a) all error returns come from AddImplicitAffinities failing
	p := FindPath(PathQuery{Fn: fn, Assume: callSucceeded(ac.Value()), Target: func(in ssa.Instruction) bool {
		ret, ok := in.(*ssa.Return)
		return ok && e.ClassifyReturn(ret) != retNilErr
	}})
	if p != nil {
		return false, "registerImplicitAffinities has another error source: " + e.pathString(p)
	}
	// (b) the delete precedes the add
	if !dominatesInstr(dc, ac) {
		return false, "DeleteImplicitAffinities does not precede AddImplicitAffinities"
	}
	// (c) every key inserted into the add map is appended to the delete list
	okKeys, n := true, 0
	AllInstrs(fn, func(in ssa.Instruction) {
		mu, ok := in.(*ssa.MapUpdate)
		if !ok {
			return
		}
		// is this the map handed to AddImplicitAffinities?
		if !sameValue(mu.Map, callArgs(ac)[1]) && mu.Map != callArgs(ac)[1] {
			return
		}
		n++
		appended := false
		AllInstrs(fn, func(x ssa.Instruction) {
			call, ok := x.(*ssa.Call)
			if !ok {
				return
			}
			if b, ok := call.Common().Value.(*ssa.Builtin); ok && b.Name() == "append" {
				if sliceLiteralContains(call.Common().Args[1], mu.Key) && dominatesInstr(x, mu) {
					appended = true
				}
			}
		})
		if !appended {
			okKeys = false
		}
	})
	if !okKeys || n == 0 {
		return false, "a name is added that was not put on the delete list first"
	}
	// AddImplicitAffinities itself fails only on an existing name
	for _, g := range e.impls(add[0]) {
		bad := FindPath(PathQuery{Fn: g, Assume: func(cond ssa.Value) (bool, bool) {
			// the comma-ok lookup in the implicit map finds nothing
			if ex, ok := cond.(*ssa.Extract); ok && ex.Index == 1 {
				if lk, ok := ex.Tuple.(*ssa.Lookup); ok && lk.CommaOk {
					return true, false
				}
			}
			return false, false
		}, Target: func(in ssa.Instruction) bool {
			ret, ok := in.(*ssa.Return)
			return ok && e.ClassifyReturn(ret) != retNilErr
		}})
		if bad != nil {
			return false, "AddImplicitAffinities can fail for a reason other than a name collision"
		}
	}
	return true, "all error returns originate in AddImplicitAffinities (name collision only); the names added are exactly those deleted just before"
}
