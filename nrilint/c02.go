package main

import (
	"fmt"
	"go/token"
	"go/types"
	"strings"

	"golang.org/x/tools/go/ssa"
)

// C02 — balloons: balloons partition CPUs and confine their containers.
func init() { register("C02", "balloons partition CPUs and confine containers", checkC02) }

func checkC02(e *Engine, r *Report) {
	r.Rules = []string{
		"R3 ownership: Balloon.Cpus / SharedIdleCpus / PodIDs and the policy's freeCpus / balloons list are written only by their owner functions",
		"R11 partition frame lemmas (Venn algebra): every step that changes freeCpus and a balloon's Cpus together moves one set X between them (inflate: X ⊆ free leaves free; deflate: X ⊆ balloon returns), so disjointness and the union are preserved; deleting a balloon returns exactly its CPUs",
		"idle sharing: CPUs offered for sharing are reduced by the kernel-isolated CPUs before they can enter any SharedIdleCpus; CPUs taken into a balloon are removed from every balloon's SharedIdleCpus; every growth of a balloon is followed by un-sharing those CPUs and every growth of the free set by re-sharing them",
		"confinement: updatePinning tells each member container exactly Cpus ∪ SharedIdleCpus of its balloon (or one thread per core of exactly that set) and pinCpuMem passes the set on unchanged; assignContainer and every successful resize re-pin the balloon; balloons returned by shareIdleCpus are always re-pinned; membership is only created by assignContainer, called once per successful AllocateResources",
		"R2 limits: resizeBalloon clamps the CPU count to [MinCpus, MaxCpus] on every path (with the limit set and the count beyond it, whatever other conditions hold, CPUs are moved only after the count was replaced by the limit); validateConfig refuses min > max; newBalloon refuses to exceed MaxBalloons; freeBalloon deletes only above MinBalloons; a container is assigned only if the balloon already has, or was successfully resized to, max(1, requested) milli-CPUs",
		"R1 CPU class bracket: a balloon's CPUs are set to the idle class before and to the balloon's class after every change of its CPU set; deleting a balloon idles its CPUs; applying a configuration resets all CPUs and then applies every balloon's class; cpu.Assign adds CPUs to the named class and removes them from every other class",
		"round 4: subset typing of the CPU-tree resizers (addFrom within the free CPUs); resize direction (Union only under target > size, Difference only under target <= size); balloonByContainer returns a balloon only under equality of one of its listed ids with the container's id; deleteBalloon keeps every other balloon and drops that one; setConfig empties the balloon list and resets the free set before the first applyBalloonDef",
	}
	r.NotDecided = []string{"that the sizes chosen equal the containers' requests", "the CPU tree allocator's choices", "that cputree.ResizeCpus honours its documented contract (assumption)"}
	r.Assumptions = []string{"cputree ResizeCpus: removeFromCpus ⊆ the balloon's CPUs (addFromCpus ⊆ free CPUs is decided by subset typing)", "cpuallocator (C08): AllocateCpus returns a subset of the set it is given; ReleaseCpus leaves a subset of it behind", "free CPUs and balloon CPUs are disjoint at function entry (established by setConfig, preserved by the frame lemmas)"}

	blFns := e.funcsInPkg(pkgBL)
	B := "(*" + short(pkgBL) + ".balloons)."
	fCpus := e.Field(pkgBL, "Balloon", "Cpus")
	fShared := e.Field(pkgBL, "Balloon", "SharedIdleCpus")
	fPod := e.Field(pkgBL, "Balloon", "PodIDs")
	fFree := e.Field(pkgBL, "balloons", "freeCpus")
	fBlns := e.Field(pkgBL, "balloons", "balloons")
	if fCpus == nil || fShared == nil || fPod == nil || fFree == nil || fBlns == nil {
		r.Undecided("anchor:balloons-fields", "anchor", "balloon state fields exist", "-", nil, "anchor drift")
		return
	}
	resize := r.Anchor(pkgBL, "balloons.resizeBalloon")
	share := r.Anchor(pkgBL, "balloons.shareIdleCpus")
	updPin := r.Anchor(pkgBL, "balloons.updatePinning")
	pinCpuMem := r.Anchor(pkgBL, "balloons.pinCpuMem")
	assign := r.Anchor(pkgBL, "balloons.assignContainer")
	alloc := r.Anchor(pkgBL, "balloons.AllocateResources")
	delBln := r.Anchor(pkgBL, "balloons.deleteBalloon")
	freeBln := r.Anchor(pkgBL, "balloons.freeBalloon")
	newBln := r.Anchor(pkgBL, "balloons.newBalloon")
	setConfig := r.Anchor(pkgBL, "balloons.setConfig")
	fillable := r.Anchor(pkgBL, "balloons.fillableBalloonInstances")
	if resize == nil || share == nil || updPin == nil || pinCpuMem == nil || assign == nil || alloc == nil || delBln == nil || freeBln == nil || newBln == nil || setConfig == nil || fillable == nil {
		return
	}

	// ---- rule 1: ownership -------------------------------------------------------------------
	n := 0
	n += r.WhoMayWrite("R3", fCpus, "Balloon.Cpus", set(B+"newBalloon", B+"resizeBalloon", B+"deleteBalloon"), blFns)
	n += r.WhoMayWrite("R3", fShared, "Balloon.SharedIdleCpus", set(B+"newBalloon", B+"shareIdleCpus"), blFns)
	n += r.WhoMayWrite("R3", fPod, "Balloon.PodIDs", set(B+"newBalloon", B+"freeBalloon", B+"assignContainer", B+"dismissContainer"), blFns)
	n += r.WhoMayWrite("R3", fFree, "balloons.freeCpus", set(B+"setConfig", B+"resizeBalloon", B+"deleteBalloon", B+"fillableBalloonInstances"), blFns)
	n += r.WhoMayWrite("R3", fBlns, "balloons.balloons", set(B+"setConfig", B+"fillableBalloonInstances", B+"deleteBalloon", B+"applyBalloonDef"), blFns)
	r.MinInstances("R3 writers (balloons state)", n, 8)

	// ---- rule 2: partition frame lemmas ----------------------------------------------------------
	naming := func(ve **vennEval) func(ssa.Value) string {
		return func(v ssa.Value) string {
			if f, _ := loadedField(v); f == fFree {
				return "free"
			}
			if f, base := loadedField(v); f == fCpus {
				return "Cpus(" + (*ve).objName(base) + ")"
			}
			return ""
		}
	}
	nFrames := 0
	for _, fn := range blFns {
		for _, b := range fn.Blocks {
			var sFree, sCpus *ssa.Store
			for _, in := range b.Instrs {
				if st, ok := in.(*ssa.Store); ok {
					switch fieldOfAddr(st.Addr) {
					case fFree:
						sFree = st
					case fCpus:
						sCpus = st
					}
				}
			}
			if sFree == nil && sCpus == nil {
				continue
			}
			top := TopParent(fn)
			site := FnName(top)
			if top == setConfig || (top == newBln && sFree == nil) {
				continue // bulk initialisation: freeCpus = allowed.Clone(); a new balloon starts with an empty set
			}
			nFrames++
			var ve *vennEval
			ve = newVennEval(e, fn, naming(&ve))
			ve.byAddrCalls = true
			F := sxBase("free")
			switch {
			case sFree != nil && sCpus != nil:
				Bn := "Cpus(" + ve.objName(sCpus.Addr.(*ssa.FieldAddr).X) + ")"
				Bx := sxBase(Bn)
				// loads in the stored expressions must refer to the entry values of both sets: evaluate before either store
				Fp, Bp := ve.evalBefore(sFree.Val, firstOf(sFree, sCpus)), ve.evalBefore(sCpus.Val, firstOf(sFree, sCpus))
				// assumptions from the shape: a set subtracted from free is taken from free; a set subtracted from the balloon is the balloon's
				var assume []vennFact
				assume = append(assume, disjoint(F, Bx))
				for _, x := range subtrahends(Fp, "free") {
					assume = append(assume, subset(x, F))
				}
				for _, x := range subtrahends(Bp, Bn) {
					assume = append(assume, subset(x, Bx))
				}
				goals := []vennFact{disjoint(Fp, Bp), subset(sxOr(Fp, Bp), sxOr(F, Bx)), subset(sxOr(F, Bx), sxOr(Fp, Bp))}
				if len(ve.undec) > 0 {
					r.Undecided("R11:partition@"+site, "R11 partition frame lemmas", "free and balloon CPU sets stay a partition", e.InstrPos(sFree), fn, strings.Join(ve.undec, "; "))
					continue
				}
				ok, w := vennHolds(assume, goals)
				r.Check("R11:partition@"+site, "R11 partition frame lemmas", "a step that changes freeCpus and a balloon's Cpus together moves one CPU set between them: the two stay disjoint and their union is unchanged", e.InstrPos(sFree), fn, ok,
					w+fmt.Sprintf(" [free'=%s, cpus'=%s]", Fp, Bp), true)
			case sFree != nil:
				// free grows by a balloon's whole CPU set (delete / undo)
				Fp := ve.eval(sFree.Val)
				bs := map[string]bool{}
				Fp.bases(bs)
				var blnBase *sx
				for bn := range bs {
					if strings.HasPrefix(bn, "Cpus(") {
						blnBase = sxBase(bn)
					}
				}
				ok, w := blnBase != nil && len(ve.undec) == 0, "free CPUs are not extended by a balloon's CPU set"
				if ok {
					ok, w = vennHolds(nil, []vennFact{subset(Fp, sxOr(F, blnBase)), subset(sxOr(F, blnBase), Fp)})
				}
				r.Check("R11:free-grows-by-balloon@"+site, "R11 partition frame lemmas", "when only freeCpus changes it becomes exactly free ∪ (the CPUs of the balloon being dropped)", e.InstrPos(sFree), fn, ok, w, true)
			default:
				r.Check("R11:unpaired-cpus-store@"+site, "R11 partition frame lemmas", "a balloon's CPU set never changes without the matching change of freeCpus in the same step", e.InstrPos(sCpus), fn, false, "", true)
			}
		}
	}
	r.MinInstances("steps changing free/balloon CPU sets", nFrames, 2)
	checkResizerSubsets(e, r)
	// setConfig starts from freeCpus = allowed
	{
		ok := false
		AllInstrs(setConfig, func(in ssa.Instruction) {
			if st, isSt := in.(*ssa.Store); isSt && fieldOfAddr(st.Addr) == fFree {
				if call, isC := st.Val.(*ssa.Call); isC && callObj(call.Common()) != nil && callObj(call.Common()).Name() == "Clone" {
					if f, _ := loadedField(callArgs(call)[0]); f != nil && f.Name() == "allowed" {
						ok = true
					}
				}
			}
		})
		r.Check("R11:initial-free-is-allowed", "R11 partition frame lemmas", "a configuration starts with all available CPUs free (freeCpus = allowed)", e.Pos(setConfig.Pos()), setConfig, ok, "", true)
	}

	// … and from an empty balloon list: before the first balloon of the new configuration is created (applyBalloonDef)
	// every path has reset both the free set and the list of balloons, so no balloon of the previous configuration
	// keeps CPUs that are free again
	{
		applyDef := e.Fn(pkgBL, "balloons.applyBalloonDef")
		isApply := func(in ssa.Instruction) bool { return applyDef != nil && e.callOf(in, applyDef) }
		resetsList := func(in ssa.Instruction) bool {
			st, ok := in.(*ssa.Store)
			if !ok || fieldOfAddr(st.Addr) != fBlns {
				return false
			}
			// an empty slice literal / make / nil
			switch v := st.Val.(type) {
			case *ssa.Slice:
				return len(sliceLiteralElems(v)) == 0
			case *ssa.MakeSlice:
				return isConstInt(v.Len, 0)
			case *ssa.Const:
				return v.IsNil()
			}
			return false
		}
		resetsFree := func(in ssa.Instruction) bool {
			st, ok := in.(*ssa.Store)
			return ok && fieldOfAddr(st.Addr) == fFree
		}
		if applyDef == nil {
			r.Undecided("R11:initial-balloon-list-empty", "R11 partition frame lemmas", "applyBalloonDef exists", "-", nil, "not found")
		} else {
			p1 := FindPath(PathQuery{Fn: setConfig, Target: isApply, Block: resetsList})
			r.Check("R11:initial-balloon-list-empty", "R11 partition frame lemmas", "a configuration starts with no balloons: the list is emptied before the first balloon of the new configuration is created", e.Pos(setConfig.Pos()), setConfig, p1 == nil, e.pathString(p1), true)
			p2 := FindPath(PathQuery{Fn: setConfig, Target: isApply, Block: resetsFree})
			r.Check("R11:initial-free-before-first-balloon", "R11 partition frame lemmas", "the free set is reset before the first balloon of the new configuration is created", e.Pos(setConfig.Pos()), setConfig, p2 == nil, e.pathString(p2), true)
		}
	}
	// a balloon created on demand is registered in the policy's list before it is handed out for a container
	{
		newBalloonFn := e.Fn(pkgBL, "balloons.newBalloon")
		nb := e.callsTo(fillable, newBalloonFn)
		for _, c := range nb {
			var nbV ssa.Value
			if c.Value() != nil && c.Value().Referrers() != nil {
				for _, ref := range *c.Value().Referrers() {
					if ex, ok := ref.(*ssa.Extract); ok && ex.Index == 0 {
						nbV = ex
					}
				}
			}
			if nbV == nil {
				continue
			}
			isNew := func(v ssa.Value) bool {
				if unspill(v) == nbV {
					return true
				}
				if u, ok := v.(*ssa.UnOp); ok && u.Op == token.MUL {
					if al := cellOf(u.X); al != nil {
						for _, st := range cellStores(al) {
							if st.Val == nbV {
								return true
							}
						}
					}
				}
				return false
			}
			registers := func(in ssa.Instruction) bool {
				st, ok := in.(*ssa.Store)
				if !ok || fieldOfAddr(st.Addr) != fBlns {
					return false
				}
				call, ok := st.Val.(*ssa.Call)
				if !ok {
					return false
				}
				bi, ok := call.Common().Value.(*ssa.Builtin)
				if !ok || bi.Name() != "append" {
					return false
				}
				for _, el := range sliceLiteralElems(call.Common().Args[1]) {
					if isNew(el) {
						return true
					}
				}
				return false
			}
			p := FindPath(PathQuery{Fn: fillable, From: c.(ssa.Instruction), Block: registers, Target: func(in ssa.Instruction) bool {
				ret, ok := in.(*ssa.Return)
				if !ok {
					return false
				}
				for _, el := range sliceLiteralElems(retValue(ret, 0)) {
					if isNew(el) {
						return true
					}
				}
				return false
			}})
			r.Check("R3:new-balloon-registered-before-use", "ownership", "a balloon created for a container is in the policy's list of balloons before it is returned as the container's balloon", e.InstrPos(c), fillable, p == nil, e.pathString(p), true)
		}
		r.MinInstances("newBalloon calls in fillableBalloonInstances", len(nb), 1)
	}
	// a container is looked up in the balloon that lists its own id; a balloon is deleted alone
	if fn := r.Anchor(pkgBL, "balloons.balloonByContainer"); fn != nil && len(fn.Params) == 2 {
		cP := ssa.Value(fn.Params[1])
		okL, nRet := true, 0
		for _, ret := range Returns(fn) {
			if k, isK := ret.Results[0].(*ssa.Const); isK && k.IsNil() {
				continue
			}
			nRet++
			dom := false
			for _, cf := range dominatingConds(ret.Block()) {
				_, y, op, ok := cmpOriented(cf.Cond, func(v ssa.Value) bool {
					c, ok := unspill(v).(*ssa.Call)
					return ok && callObj(c.Common()) != nil && callObj(c.Common()).Name() == "GetID" && sameObject(callArgs(c)[0], cP)
				})
				if !ok {
					continue
				}
				if !cf.Val {
					op = negCmp(op)
				}
				// the other side: an element of the returned balloon's PodIDs lists
				isMember := false
				if u, ok := unspill(y).(*ssa.UnOp); ok && u.Op == token.MUL {
					if ia, ok := u.X.(*ssa.IndexAddr); ok {
						Origins(ia.X, func(o ssa.Value) bool {
							if lk, ok := o.(*ssa.Lookup); ok {
								if f, b := loadedField(lk.X); f == fPod && sameObject(b, ret.Results[0]) {
									isMember = true
								}
							}
							return isMember
						})
					}
				}
				if op == token.EQL && isMember {
					dom = true
				}
			}
			if !dom {
				okL = false
			}
		}
		r.Check("R11:lookup-by-own-id", "confinement", "balloonByContainer returns a balloon only where one of that balloon's listed container ids equals the container's id", e.Pos(fn.Pos()), fn, okL && nRet > 0, "", true)
	}
	{
		bP := ssa.Value(delBln.Params[1])
		loops := sliceLoops(delBln)
		nKeep := 0
		for _, lp := range loops {
			lp := lp
			if f, _ := loadedField(rangedSlice(lp)); f != fBlns {
				continue
			}
			nKeep++
			same := func(val bool) Assumption {
				return func(cond ssa.Value) (bool, bool) {
					x, y, op, ok := cmpOriented(cond, lp.elem)
					_ = x
					if !ok || !sameObject(y, bP) || (op != token.EQL && op != token.NEQ) {
						return false, false
					}
					return true, (op == token.EQL) == val
				}
			}
			keeps := func(in ssa.Instruction) bool {
				call, ok := in.(*ssa.Call)
				if !ok {
					return false
				}
				bi, ok := call.Common().Value.(*ssa.Builtin)
				if !ok || bi.Name() != "append" {
					return false
				}
				for _, el := range sliceLiteralElems(call.Common().Args[1]) {
					if lp.elem(el) {
						return true
					}
				}
				return false
			}
			p1 := lp.skips(same(false), keeps, true)
			r.Check("R3:delete-keeps-other-balloons", "ownership", "deleting a balloon keeps every other balloon in the list", e.InstrPos(lp.start), delBln, p1 == nil, e.pathString(p1), true)
			p2 := FindPath(PathQuery{Fn: delBln, From: lp.start, Assume: same(true), Target: keeps, Block: func(in ssa.Instruction) bool { return in == lp.head.Instrs[0] }})
			r.Check("R3:delete-drops-that-balloon", "ownership", "deleting a balloon removes it from the list", e.InstrPos(lp.start), delBln, p2 == nil && !keeps(lp.start), e.pathString(p2), true)
		}
		r.MinInstances("loop over balloons in deleteBalloon", nKeep, 1)
	}

	// ---- rule 3: idle sharing ----------------------------------------------------------------------
	{
		// reduction by Isolated() before any use in the add phase
		var reduce *ssa.Store
		AllInstrs(share, func(in ssa.Instruction) {
			st, ok := in.(*ssa.Store)
			if !ok {
				return
			}
			al, ok := st.Addr.(*ssa.Alloc)
			if !ok || al.Comment != "addCpus" {
				// identify the cell of parameter 1 by its initial store instead of its name
				if ok {
					isParamCell := false
					for _, ref := range *al.Referrers() {
						if s2, ok := ref.(*ssa.Store); ok && s2.Addr == al && paramIndex(s2.Val) == 1 {
							isParamCell = true
						}
					}
					if !isParamCell {
						return
					}
				} else {
					return
				}
			}
			if call, ok := st.Val.(*ssa.Call); ok && callObj(call.Common()) != nil && callObj(call.Common()).Name() == "Difference" {
				if c2, ok := callArgs(call)[1].(*ssa.Call); ok && callObj(c2.Common()) != nil && callObj(c2.Common()).Name() == "Isolated" {
					reduce = st
				}
			}
		})
		okRed := reduce != nil
		w := "no `addCpus = addCpus.Difference(System.Isolated())`"
		if okRed {
			// every Union into SharedIdleCpus (and the closure creation that computes the shared set) comes after the reduction
			AllInstrs(share, func(in ssa.Instruction) {
				if st, ok := in.(*ssa.Store); ok && fieldOfAddr(st.Addr) == fShared {
					if call, ok := st.Val.(*ssa.Call); ok && callObj(call.Common()) != nil && callObj(call.Common()).Name() == "Union" {
						if !dominatesInstr(reduce, in) {
							okRed, w = false, "a union into SharedIdleCpus is not preceded by the reduction: "+e.InstrPos(in)
						}
					}
				}
				if mc, ok := in.(*ssa.MakeClosure); ok {
					// a closure capturing the cell sees whatever the cell holds when it RUNS (captured by reference): every
					// use of the closure value (call, argument, store) must come after the reduction; a deferred one runs at
					// exit, which is after the reduction when that dominates every return
					captures := false
					for _, b := range mc.Bindings {
						if b == reduce.Addr {
							captures = true
						}
					}
					if captures && mc.Referrers() != nil {
						for _, use := range *mc.Referrers() {
							if _, isDefer := use.(*ssa.Defer); isDefer {
								for _, ret := range Returns(share) {
									if !dominatesInstr(reduce, ret) {
										okRed, w = false, "a deferred closure reading the offered CPUs may run on a path without the reduction: "+e.InstrPos(use)
									}
								}
								continue
							}
							if !dominatesInstr(reduce, use) {
								okRed, w = false, "a closure reading the offered CPUs is used before the reduction: "+e.InstrPos(use)
							}
						}
					}
				}
			})
			// nothing else rewrites the cell afterwards
			for _, ref := range *reduce.Addr.(*ssa.Alloc).Referrers() {
				if st, ok := ref.(*ssa.Store); ok && st != reduce && dominatesInstr(reduce, st) {
					okRed, w = false, "addCpus is rewritten after the reduction: "+e.InstrPos(st)
				}
			}
		}
		if okRed {
			w = ""
		}
		r.Check("R11:isolated-never-shared", "idle sharing", "CPUs offered for idle sharing are reduced by the kernel-isolated CPUs before anything is added to a SharedIdleCpus set", e.Pos(share.Pos()), share, okRed, w, true)
		// what is added is an intersection with the (reduced) offered CPUs
		okSrc := false
		for _, cl := range share.AnonFuncs {
			AllInstrs(cl, func(in ssa.Instruction) {
				if call, ok := in.(*ssa.Call); ok && callObj(call.Common()) != nil && callObj(call.Common()).Name() == "Intersection" {
					if u, ok := callArgs(call)[1].(*ssa.UnOp); ok {
						if fv, ok := u.X.(*ssa.FreeVar); ok && reduce != nil {
							for i, f := range cl.FreeVars {
								if f == fv {
									AllInstrs(share, func(x ssa.Instruction) {
										if mc, ok := x.(*ssa.MakeClosure); ok && mc.Fn == cl && mc.Bindings[i] == reduce.Addr {
											okSrc = true
										}
									})
								}
							}
						}
					}
				}
			})
		}
		r.Check("R11:shared-from-offered-only", "idle sharing", "the CPUs added to a balloon's SharedIdleCpus are an intersection with the offered (reduced) CPUs", e.Pos(share.Pos()), share, okSrc, "", true)
		// removal: Difference(removeCpus) applied inside a loop over all balloons with no break
		okRem := false
		AllInstrs(share, func(in ssa.Instruction) {
			if st, ok := in.(*ssa.Store); ok && fieldOfAddr(st.Addr) == fShared {
				if call, ok := st.Val.(*ssa.Call); ok && callObj(call.Common()) != nil && callObj(call.Common()).Name() == "Difference" && paramIndex(callArgs(call)[1]) == 2 {
					// the balloon is an element of p.balloons
					base := st.Addr.(*ssa.FieldAddr).X
					Origins(base, func(v ssa.Value) bool {
						if u, ok := v.(*ssa.UnOp); ok {
							if ia, ok := u.X.(*ssa.IndexAddr); ok {
								if f, _ := loadedField(ia.X); f == fBlns {
									okRem = true
								}
							}
						}
						return false
					})
				}
			}
		})
		r.Check("R11:taken-cpus-unshared", "idle sharing", "CPUs taken into a balloon are removed from the SharedIdleCpus of the balloons in the policy's list", e.Pos(share.Pos()), share, okRem, "", true)
	}
	// when there is something to un-share / share, it happens for every balloon concerned: with all tested sets non-empty and
	// the sharing level defined, every iteration of the two loops passes the update of SharedIdleCpus, and the walk handler
	// accumulates the node's idle CPUs
	{
		nonEmpty := func(extra func(cond ssa.Value) (bool, bool)) Assumption {
			return func(cond ssa.Value) (bool, bool) {
				if extra != nil {
					if k, v := extra(cond); k {
						return true, v
					}
				}
				b, ok := cond.(*ssa.BinOp)
				if !ok {
					return false, false
				}
				if c, isC := b.X.(*ssa.Call); isC && callObj(c.Common()) != nil && callObj(c.Common()).Name() == "Size" && isConstInt(b.Y, 0) {
					switch b.Op {
					case token.GTR, token.NEQ:
						return true, true
					case token.EQL, token.LEQ:
						return true, false
					}
				}
				// the sharing level is defined / the node is at that level
				if b.Op == token.EQL || b.Op == token.NEQ {
					fieldName := ""
					for _, side := range []ssa.Value{b.X, b.Y} {
						Origins(side, func(v ssa.Value) bool {
							if f, _ := loadedField(v); f != nil && (f.Name() == "ShareIdleCpusInSame" || f.Name() == "level") {
								if fieldName != "level" {
									fieldName = f.Name()
								}
								return true
							}
							if u, ok := v.(*ssa.UnOp); ok {
								if fv, ok := u.X.(*ssa.FreeVar); ok && fv.Name() == "topoLevel" && fieldName == "" {
									fieldName = "ShareIdleCpusInSame"
								}
							}
							return false
						})
					}
					switch fieldName {
					case "level":
						return true, b.Op == token.EQL // t.level == topoLevel
					case "ShareIdleCpusInSame":
						return true, b.Op == token.NEQ // topoLevel != undefined
					}
				}
				return false, false
			}
		}
		nLoops := 0
		AllInstrsOf(share, func(in ssa.Instruction) {
			st, ok := in.(*ssa.Store)
			if !ok || fieldOfAddr(st.Addr) != fShared {
				return
			}
			// enclosing index loop: the nearest dominating block that starts with a #rangeindex phi
			var head *ssa.BasicBlock
			for b := st.Block(); b != nil; b = b.Idom() {
				if len(b.Instrs) > 0 {
					if ph, ok := b.Instrs[0].(*ssa.Phi); ok && ph.Comment == "rangeindex" {
						head = b
						break
					}
				}
			}
			if head == nil {
				return
			}
			nLoops++
			hIf, _ := lastInstr(head).(*ssa.If)
			inLoop := func(cond ssa.Value) (bool, bool) {
				if hIf != nil && cond == hIf.Cond {
					return true, true
				}
				return false, false
			}
			kind := "un-shared from"
			if c, ok := st.Val.(*ssa.Call); ok && callObj(c.Common()) != nil && callObj(c.Common()).Name() == "Union" {
				kind = "shared to"
			}
			bp := FindPath(PathQuery{Fn: share, From: hIf, Assume: nonEmpty(inLoop), Block: func(x ssa.Instruction) bool { return x == in },
				Target: func(x ssa.Instruction) bool { return x == head.Instrs[0] }})
			r.Check("R1:share-update-per-balloon#"+strings.ReplaceAll(kind, " ", "-"), "idle sharing", "when the CPUs concerned are non-empty (and the sharing level is defined) they are "+kind+" every balloon of the loop: no iteration ends without the SharedIdleCpus update", e.InstrPos(in), share, bp == nil && hIf != nil,
				"an iteration can skip the update: "+e.pathString(bp), true)
		})
		r.MinInstances("SharedIdleCpus update loops", nLoops, 2)
		// both kinds of update exist, and their loops are entered whenever the sets concerned are non-empty
		kinds := map[string]*ssa.BasicBlock{}
		AllInstrsOf(share, func(in ssa.Instruction) {
			st, ok := in.(*ssa.Store)
			if !ok || fieldOfAddr(st.Addr) != fShared {
				return
			}
			c, ok := st.Val.(*ssa.Call)
			if !ok || callObj(c.Common()) == nil {
				return
			}
			for b := st.Block(); b != nil; b = b.Idom() {
				if len(b.Instrs) > 0 {
					if ph, ok := b.Instrs[0].(*ssa.Phi); ok && ph.Comment == "rangeindex" {
						kinds[callObj(c.Common()).Name()] = b
						break
					}
				}
			}
		})
		for _, k := range []struct{ op, what string }{{"Difference", "taken CPUs are removed from the balloons' shared idle CPUs"}, {"Union", "idle CPUs are added to the sharing balloons' shared idle CPUs"}} {
			head := kinds[k.op]
			okK, why := head != nil, "no SharedIdleCpus = SharedIdleCpus."+k.op+"(…) inside a loop over the balloons"
			if okK {
				bp := FindPath(PathQuery{Fn: share, Assume: nonEmpty(nil), Block: func(x ssa.Instruction) bool { return x == head.Instrs[0] }, Target: func(x ssa.Instruction) bool { _, ok := x.(*ssa.Return); return ok }})
				okK, why = bp == nil, "with non-empty sets the loop can be bypassed: "+e.pathString(bp)
			}
			r.Check("R1:share-loop-entered#"+k.op, "idle sharing", "shareIdleCpus: "+k.what+" whenever there is something to remove/add", e.Pos(share.Pos()), share, okK, why, true)
		}
		// the walk handler
		for _, cl := range share.AnonFuncs {
			var acc ssa.Instruction
			AllInstrsOf(cl, func(in ssa.Instruction) {
				if st, ok := in.(*ssa.Store); ok {
					if _, isFV := st.Addr.(*ssa.FreeVar); isFV {
						if c, ok := st.Val.(*ssa.Call); ok && callObj(c.Common()) != nil && callObj(c.Common()).Name() == "Union" {
							acc = in
						}
					}
				}
			})
			if acc == nil {
				continue
			}
			r.MustPass("R1:walk-accumulates-level-nodes", "idle sharing", "at a node of the sharing level that holds CPUs of the balloon, the handler adds the node's offered CPUs to the balloon's share", cl, nil, nil,
				func(x ssa.Instruction) bool { return x == acc }, nonEmpty(nil))
		}
		r.MinKeys("R1:walk-accumulates-level-nodes", 1)
	}
	// the walk that collects the idle CPUs of a balloon's sharing scope visits every node of that level
	{
		walk := e.Fn(pkgBL, "cpuTreeNode.DepthFirstWalk")
		stop := e.Global(pkgBL, "WalkStop")
		nWalk := 0
		for _, c := range e.callsTo(share, walk) {
			nWalk++
			var cb *ssa.Function
			Origins(callArgs(c)[1], func(v ssa.Value) bool {
				if mc, ok := v.(*ssa.MakeClosure); ok {
					cb, _ = mc.Fn.(*ssa.Function)
					return true
				}
				return false
			})
			ok, why := cb != nil && stop != nil, "handler closure or WalkStop not found"
			if ok {
				why = ""
				for _, ret := range Returns(cb) {
					Origins(ret.Results[0], func(v ssa.Value) bool {
						if u, isU := v.(*ssa.UnOp); isU && u.X == ssa.Value(stop) {
							ok, why = false, "the handler returns WalkStop at "+e.InstrPos(ret)+": nodes of the sharing level after the first match are never visited"
							return true
						}
						return false
					})
				}
			}
			r.Check("R6:share-scope-walk-complete", "idle sharing", "the topology walk collecting a balloon's shareable idle CPUs never stops early, so every node of the configured level that holds CPUs of the balloon contributes its idle CPUs", e.InstrPos(c), share, ok, why, true)
		}
		r.MinInstances("topology walks in shareIdleCpus", nWalk, 1)
	}
	// every growth followed by (un)sharing
	for _, fn := range blFns {
		top := TopParent(fn)
		if top == setConfig {
			continue
		}
		AllInstrs(fn, func(in ssa.Instruction) {
			st, ok := in.(*ssa.Store)
			if !ok {
				return
			}
			f := fieldOfAddr(st.Addr)
			if f != fCpus && f != fFree {
				return
			}
			call, ok := st.Val.(*ssa.Call)
			if !ok || callObj(call.Common()) == nil || callObj(call.Common()).Name() != "Union" {
				return
			}
			x := variadicSingle(call.Common().Args[1])
			argIdx := map[*types.Var]int{fCpus: 2, fFree: 1}[f]
			what := map[*types.Var]string{fCpus: "CPUs added to a balloon are removed from shared idle CPUs (shareIdleCpus(_, X)) on every path", fFree: "CPUs returned to the free set are offered for idle sharing again (shareIdleCpus(X, _)) on every path"}[f]
			passes := func(x2 ssa.Instruction) bool {
				if !e.IsCallTo(x2, fset(share)) {
					return false
				}
				a := callArgs(x2.(ssa.CallInstruction))
				return cpusetSameOrClone(a[argIdx], x, f == fFree, fFree)
			}
			// the sharing call lives in the same function (closures: the closure body)
			r.MustPass("R1:share-after-growth@"+FnName(top)+"#"+f.Name(), "idle sharing", what, fn, in, nil, passes, nil)
		})
	}
	r.MinKeys("R1:share-after-growth@", 2)

	// ---- rule 4: confinement ------------------------------------------------------------------------
	{
		// updatePinning: the set handed to pinCpuMem
		singleThread := e.objs(pkgSysfs, "System.SingleThreadForCPUs")
		for _, c := range e.callsTo(updPin, pinCpuMem) {
			arg := callArgs(c)[2]
			okSet, any := true, false
			var pinnable ssa.Value
			// the balloon being pinned in this iteration: the base of the Cpus load
			var blnDef ssa.Instruction
			AllInstrsOf(updPin, func(in ssa.Instruction) {
				if u, ok := in.(*ssa.UnOp); ok {
					if f, b := loadedField(u); f == fCpus {
						if bi, ok := b.(ssa.Instruction); ok && blnDef == nil {
							blnDef = bi
						}
					}
				}
			})
			crossIter := ""
			Origins(arg, func(v ssa.Value) bool {
				switch x := v.(type) {
				case *ssa.Phi:
					// a merge point that is not inside the current balloon's iteration carries a value computed for another balloon
					if blnDef != nil && !blnDef.Block().Dominates(x.Block()) {
						crossIter = e.InstrPos(x)
						if crossIter == "" || strings.HasSuffix(crossIter, ":0") {
							crossIter = "loop header of the balloon loop"
						}
					}
					return false
				case *ssa.UnOp:
					if _, isAlloc := x.X.(*ssa.Alloc); isAlloc && x.Op == token.MUL {
						return false
					}
				case *ssa.Call:
					if callObj(x.Common()) != nil && callObj(x.Common()).Name() == "Union" {
						f1, b1 := loadedField(callArgs(x)[0])
						f2, b2 := loadedField(variadicSingle(callArgs(x)[1]))
						if f1 == fShared && f2 == fCpus {
							f1, f2 = f2, f1
						}
						if f1 == fCpus && f2 == fShared && (b1 == b2 || sameValue(b1, b2)) {
							any = true
							pinnable = x
							return true
						}
					}
					if isCallOfObj(x, singleThread) {
						// of exactly the pinnable set
						inner := callArgs(x)[1]
						innerOK := false
						Origins(inner, func(w ssa.Value) bool {
							if c2, ok := w.(*ssa.Call); ok && callObj(c2.Common()) != nil && callObj(c2.Common()).Name() == "Union" {
								f1, _ := loadedField(callArgs(c2)[0])
								f2, _ := loadedField(variadicSingle(callArgs(c2)[1]))
								if f1 == fCpus && f2 == fShared || f1 == fShared && f2 == fCpus {
									innerOK = true
								}
							}
							return false
						})
						if innerOK {
							any = true
							return true
						}
					}
					if isCpusetNewCall(x) && emptyVariadic(x) {
						return true // zero value of the loop-carried cache variable
					}
				case *ssa.Const:
					return true
				}
				okSet = false
				return true
			})
			_ = pinnable
			r.Check("R11:pinned-set", "confinement", "each member container is told exactly the balloon's Cpus ∪ SharedIdleCpus, or one thread per core of exactly that set", e.InstrPos(c), updPin, okSet && any, "", true)
			// hyperthreads: the reduced set is told exactly to the containers that ask to run without hyperthreads, and it
			// has been computed (not left at its empty zero value) when it is told
			{
				var htCall ssa.Value
				AllInstrs(updPin, func(in ssa.Instruction) {
					if cc, ok := in.(*ssa.Call); ok && callObj(cc.Common()) != nil && callObj(cc.Common()).Name() == "runWithoutHyperthreads" {
						htCall = cc
					}
				})
				isSingle := func(v ssa.Value) bool {
					cc, ok := v.(*ssa.Call)
					return ok && callObj(cc.Common()) != nil && callObj(cc.Common()).Name() == "SingleThreadForCPUs"
				}
				if htCall == nil {
					r.Undecided("R11:pinned-set-hyperthreads", "confinement", "updatePinning consults runWithoutHyperthreads", e.InstrPos(c), updPin, "call not found")
				} else {
					ht := func(val bool) Assumption {
						return func(cond ssa.Value) (bool, bool) {
							if unspill(cond) == htCall {
								return true, val
							}
							return false, false
						}
					}
					okHT, whyHT := true, ""
					// without the wish: nothing reduced reaches the call
					OriginsUnder(updPin, arg, ht(false), func(v ssa.Value) bool {
						if isSingle(v) {
							okHT, whyHT = false, "a container that does not ask for it is told the one-thread-per-core set"
						}
						if u, ok := v.(*ssa.UnOp); ok && u.Op == token.MUL {
							if al, isAl := u.X.(*ssa.Alloc); isAl {
								for _, st := range reachingStores(al, u) {
									if reachableBlock(updPin, st.Block(), ht(false)) && isSingle(st.Val) {
										okHT, whyHT = false, "a container that does not ask for it is told the one-thread-per-core set"
									}
								}
								return true
							}
						}
						return false
					})
					// with the wish: the full set does not reach the call, and an empty (not yet computed) reduced set is
					// computed before it is told
					emptyStill := func(cond ssa.Value) (bool, bool) {
						if k, v := ht(true)(cond); k {
							return k, v
						}
						_, y, op, ok := cmpOriented(cond, func(v ssa.Value) bool {
							cc, ok := v.(*ssa.Call)
							return ok && callObj(cc.Common()) != nil && callObj(cc.Common()).Name() == "Size"
						})
						if ok && isConstInt(y, 0) {
							return cmpZero(sgZero, op)
						}
						return false, false
					}
					computes := func(in ssa.Instruction) bool {
						v, ok := in.(ssa.Value)
						return ok && isSingle(v)
					}
					if p := FindPath(PathQuery{Fn: updPin, From: htCall.(ssa.Instruction), Assume: emptyStill, Block: computes, Target: func(in ssa.Instruction) bool { return in == c.(ssa.Instruction) }}); p != nil {
						okHT, whyHT = false, "a container asking to run without hyperthreads can be told a set that was never reduced/computed: "+e.pathString(p)
					}
					r.Check("R11:pinned-set-hyperthreads", "confinement", "the one-thread-per-core set is told exactly to the containers that ask to run without hyperthreads, and it is computed before it is told", e.InstrPos(c), updPin, okHT, whyHT, true)
				}
			}
			r.Check("R11:pinned-set-same-balloon", "confinement", "the set told is computed for the balloon being pinned in this iteration (no value is carried over from the previous balloon of the loop)", e.InstrPos(c), updPin, crossIter == "" && blnDef != nil,
				"the set reaches pinCpuMem through a merge outside the current balloon's iteration: "+crossIter, true)
			// the container pinned is a member of that balloon: looked up by an id ranging over bln.ContainerIDs()
			member := false
			cids := e.FuncObj(pkgBL, "Balloon.ContainerIDs")
			Origins(callArgs(c)[1], func(v ssa.Value) bool {
				ex, ok := v.(*ssa.Extract)
				if !ok {
					return false
				}
				call, ok := ex.Tuple.(*ssa.Call)
				if !ok || callObj(call.Common()) == nil || callObj(call.Common()).Name() != "LookupContainer" {
					return false
				}
				Origins(callArgs(call)[1], func(w ssa.Value) bool {
					if u, ok := w.(*ssa.UnOp); ok {
						if ia, ok := u.X.(*ssa.IndexAddr); ok {
							Origins(ia.X, func(z ssa.Value) bool {
								if cc, ok := z.(*ssa.Call); ok && callObj(cc.Common()) == cids && blnDef != nil {
									recv := callArgs(cc)[0]
									if u, ok := recv.(*ssa.UnOp); ok && u.Op == token.MUL {
										recv = u.X // value receiver: ContainerIDs(*bln)
									}
									if recv == blnDef.(ssa.Value) || sameValue(recv, blnDef.(ssa.Value)) {
										member = true
									}
								}
								return member
							})
						}
					}
					return member
				})
				return true
			})
			r.Check("R11:pinned-container-is-member", "confinement", "the containers told a balloon's set are that balloon's own members (ids from bln.ContainerIDs())", e.InstrPos(c), updPin, member, "", true)
		}
		// pinCpuMem passes cpus on unchanged
		setCpus := e.objs(pkgCA, "Container.SetCpusetCpus")
		for _, c := range allCallsOfObj(pinCpuMem, setCpus) {
			a := callArgs(c)
			ok := false
			if sc, isC := a[1].(*ssa.Call); isC && callObj(sc.Common()) != nil && callObj(sc.Common()).Name() == "String" && paramIndex(callArgs(sc)[0]) == 2 {
				ok = paramIndex(a[0]) == 1
			}
			r.Check("R11:pinCpuMem-passes-set", "confinement", "pinCpuMem tells the container the CPU set it was given, unchanged", e.InstrPos(c), pinCpuMem, ok, "", true)
		}
		r.MinKeys("R11:pinCpuMem-passes-set", 1)
		// re-pin after membership / size changes
		isRepinOf := func(idx int) func(ssa.Instruction) bool {
			return func(in ssa.Instruction) bool {
				if !e.IsCallTo(in, fset(updPin)) {
					return false
				}
				a := callArgs(in.(ssa.CallInstruction))
				return len(a) == 2 && sliceLiteralContains(a[1], in.Parent().Params[idx])
			}
		}
		r.MustPass("R1:repin@assignContainer", "confinement", "assigning a container re-pins its balloon", assign, nil, nil, isRepinOf(2), nil)
		// resizeBalloon: every success return that follows a change of the CPU set re-pins
		AllInstrs(resize, func(in ssa.Instruction) {
			if st, ok := in.(*ssa.Store); ok && fieldOfAddr(st.Addr) == fCpus {
				r.MustPass("R1:repin@resizeBalloon", "confinement", "after a balloon's CPU set changed every successful return re-pins the balloon", resize, in, e.maySucceed, isRepinOf(1), nil)
			}
		})
		// balloons returned by shareIdleCpus are always re-pinned
		ns := 0
		for _, fn := range blFns {
			for _, c := range e.callsTo(fn, share) {
				ns++
				used := false
				if v := c.Value(); v != nil && v.Referrers() != nil {
					for _, ref := range *v.Referrers() {
						if e.IsCallTo(ref, fset(updPin)) {
							used = true
						}
					}
				}
				r.Check("R1:shared-balloons-repinned@"+FnName(TopParent(fn)), "confinement", "the balloons whose shared idle CPUs changed are handed to updatePinning", e.InstrPos(c), fn, used, "", true)
			}
		}
		r.MinInstances("shareIdleCpus call sites", ns, 3)
		// membership
		for _, cs := range e.Callers(assign) {
			r.Check("R3:assign-caller@"+FnName(TopParent(cs.Fn)), "confinement", "membership is created only by AllocateResources", e.InstrPos(cs.Call), cs.Fn, TopParent(cs.Fn) == alloc, "", false)
		}
		ac := e.callsTo(alloc, assign)
		okOnce := len(ac) == 1
		if okOnce {
			p := FindPath(PathQuery{Fn: alloc, From: ac[0].(ssa.Instruction), Target: func(in ssa.Instruction) bool { return in == ac[0].(ssa.Instruction) }})
			okOnce = p == nil
		}
		r.Check("R3:assign-once", "confinement", "a container is assigned to at most one balloon per AllocateResources", e.Pos(alloc.Pos()), alloc, okOnce, "", true)
		if len(ac) == 1 {
			// success => assigned, except for the two preserve early returns
			preserve := e.objs(pkgCA, "Container.PreserveCpuResources")
			matchObj := e.FuncObj(pkgCfgBL, "ContainerMatchConfig.MatchContainer")
			notPreserved := func(cond ssa.Value) (bool, bool) {
				if call, ok := cond.(*ssa.Call); ok && isCallOfObj(call, preserve) {
					return true, false
				}
				if b, ok := cond.(*ssa.BinOp); ok && (b.Op == token.NEQ || b.Op == token.EQL) {
					if ex, ok := b.X.(*ssa.Extract); ok && ex.Index == 0 {
						if call, ok := ex.Tuple.(*ssa.Call); ok && callObj(call.Common()) == matchObj {
							if s, ok := constString(b.Y); ok && s == "" {
								return true, b.Op == token.EQL // no rule matched
							}
						}
					}
				}
				return false, false
			}
			r.MustPass("R1:success-means-assigned", "confinement", "every successful AllocateResources of a container that is not preserved assigns it to a balloon", alloc, nil, e.maySucceed,
				func(in ssa.Instruction) bool { return in == ac[0].(ssa.Instruction) }, notPreserved)
		}
	}

	// ---- rule 5: limits ------------------------------------------------------------------------------
	{
		fMax := e.Field(pkgCfgBL, "BalloonDef", "MaxCpus")
		fMin := e.Field(pkgCfgBL, "BalloonDef", "MinCpus")
		fMaxB := e.Field(pkgCfgBL, "BalloonDef", "MaxBalloons")
		fMinB := e.Field(pkgCfgBL, "BalloonDef", "MinBalloons")
		if vc := r.Anchor(pkgBL, "balloons.validateConfig"); vc != nil {
			checkLimitRangeValidated(e, r, vc, "Cpus", fMin, fMax)
			checkLimitRangeValidated(e, r, vc, "Balloons", fMinB, fMaxB)
		}
		// On every path: with the limit set and the count beyond it, no path reaches a point where the count takes effect
		// (ResizeCpus / AllocateCpus / ReleaseCpus) without passing the assignment of the limit. Other conditions on
		// the way (`count > 0 && ...`) are free, so a clamp that some further test can switch off is reported.
		for _, lim := range []struct {
			name  string
			f     *types.Var
			below bool // the count is below the limit (MinCpus) / above it (MaxCpus)
		}{{"min", fMin, true}, {"max", fMax, false}} {
			lim := lim
			isLim := func(v ssa.Value) bool { g, _ := loadedField(unspill(v)); return g != nil && g == lim.f }
			assume := func(cond ssa.Value) (bool, bool) {
				_, y, op, ok := cmpOriented(cond, isLim) // limit op y
				if !ok {
					return false, false
				}
				if k, isK := constIntVal(y); isK {
					if k != 0 {
						return false, false
					}
					switch op { // the limit is set: limit > 0
					case token.GTR, token.NEQ:
						return true, true
					case token.EQL, token.LEQ, token.LSS:
						return true, false
					}
					return false, false
				}
				if lim.below { // y < limit
					switch op {
					case token.GTR, token.GEQ, token.NEQ:
						return true, true
					default:
						return true, false
					}
				}
				switch op { // y > limit
				case token.LSS, token.LEQ, token.NEQ:
					return true, true
				default:
					return true, false
				}
			}
			// the count is replaced by the limit: a store of the limit (spilled count) or a phi edge carrying it
			clampStore := func(in ssa.Instruction) bool {
				st, ok := in.(*ssa.Store)
				return ok && isLim(st.Val)
			}
			clampEdge := func(from *ssa.BasicBlock, succ int) bool {
				to := from.Succs[succ]
				for i, pr := range to.Preds {
					if pr != from {
						continue
					}
					for _, in := range to.Instrs {
						phi, ok := in.(*ssa.Phi)
						if !ok {
							break
						}
						if isLim(phi.Edges[i]) {
							return false
						}
					}
				}
				return true
			}
			effect := func(in ssa.Instruction) bool {
				c, ok := in.(*ssa.Call)
				if !ok || callObj(c.Common()) == nil {
					return false
				}
				switch callObj(c.Common()).Name() {
				case "ResizeCpus", "AllocateCpus", "ReleaseCpus":
					return true
				}
				return false
			}
			nEffects := 0
			AllInstrs(resize, func(in ssa.Instruction) {
				if effect(in) {
					nEffects++
				}
			})
			key := "R2:clamp-" + lim.name
			what := "resizeBalloon: with " + map[bool]string{true: "MinCpus", false: "MaxCpus"}[lim.below] + " set and the requested count beyond it, CPUs are moved only after the count was replaced by the limit, whatever other conditions hold"
			if nEffects == 0 {
				r.Undecided(key, "R2 limits", what, e.Pos(resize.Pos()), resize, "no ResizeCpus/AllocateCpus/ReleaseCpus call found")
				continue
			}
			p := FindPath(PathQuery{Fn: resize, Assume: assume, Target: effect, Block: clampStore, Edge: clampEdge})
			w := ""
			if p != nil {
				w = "unclamped path: " + e.pathString(p)
			}
			r.Check(key, "R2 limits", what, e.Pos(resize.Pos()), resize, p == nil, w, true)
		}
		// direction: the balloon's CPU set grows (Union) only where the requested count exceeds the current one, and shrinks
		// (Difference) only where it does not — a resize that reports success has moved towards its target
		{
			fBlnCpus := e.Field(pkgBL, "Balloon", "Cpus")
			isDelta := func(v ssa.Value) bool { // (new count) - (current size of the balloon's CPUs)
				b, ok := unspill(v).(*ssa.BinOp)
				if !ok || b.Op != token.SUB {
					return false
				}
				hit := false
				Origins(b.Y, func(o ssa.Value) bool {
					if c, ok := o.(*ssa.Call); ok && callObj(c.Common()) != nil && callObj(c.Common()).Name() == "Size" {
						if f, _ := loadedField(callArgs(c)[0]); f == fBlnCpus {
							hit = true
						}
					}
					return hit
				})
				return hit
			}
			nDir := 0
			AllInstrs(resize, func(in ssa.Instruction) {
				st, ok := in.(*ssa.Store)
				if !ok || fieldOfAddr(st.Addr) != fBlnCpus {
					return
				}
				call, ok := st.Val.(*ssa.Call)
				if !ok || callObj(call.Common()) == nil {
					return
				}
				name := callObj(call.Common()).Name()
				if name != "Union" && name != "Difference" {
					return
				}
				if f, _ := loadedField(callArgs(call)[0]); f != fBlnCpus {
					return
				}
				nDir++
				grow := name == "Union"
				okDir := false
				for _, cf := range dominatingConds(st.Block()) {
					_, y, op, ok := cmpOriented(cf.Cond, isDelta)
					if !ok || !isConstInt(y, 0) {
						continue
					}
					if !cf.Val {
						op = negCmp(op)
					}
					// now: delta op 0 holds here
					if grow && op == token.GTR {
						okDir = true
					}
					if !grow && (op == token.LEQ || op == token.LSS) {
						okDir = true
					}
				}
				key := map[bool]string{true: "grow", false: "shrink"}[grow]
				r.Check("R2:resize-direction#"+key, "R2 limits", "resizeBalloon "+map[bool]string{true: "adds CPUs to a balloon only when the target count exceeds its current size", false: "removes CPUs from a balloon only when the target count does not exceed its current size"}[grow],
					e.InstrPos(in), resize, okDir, "", true)
			})
			r.MinInstances("grow/shrink stores of Balloon.Cpus in resizeBalloon", nDir, 2)
		}
		// … and a resize that reports success without changing anything is possible only when the target equals the size
		{
			fBlnCpus := e.Field(pkgBL, "Balloon", "Cpus")
			differs := func(cond ssa.Value) (bool, bool) {
				b, ok := cond.(*ssa.BinOp)
				if !ok || (b.Op != token.EQL && b.Op != token.NEQ) {
					return false, false
				}
				isSize := func(v ssa.Value) bool {
					hit := false
					Origins(v, func(o ssa.Value) bool {
						if c, ok := o.(*ssa.Call); ok && callObj(c.Common()) != nil && callObj(c.Common()).Name() == "Size" {
							if f, _ := loadedField(callArgs(c)[0]); f == fBlnCpus {
								hit = true
							}
						}
						return hit
					})
					return hit
				}
				if isSize(b.X) != isSize(b.Y) { // current size compared with the target count
					return true, b.Op == token.NEQ
				}
				return false, false
			}
			changes := func(in ssa.Instruction) bool {
				st, ok := in.(*ssa.Store)
				return ok && fieldOfAddr(st.Addr) == fBlnCpus
			}
			p := FindPath(PathQuery{Fn: resize, Assume: differs, Block: changes, Target: func(in ssa.Instruction) bool {
				ret, ok := in.(*ssa.Return)
				return ok && e.maySucceed(ret)
			}})
			r.Check("R2:resize-noop-only-at-target", "R2 limits", "resizeBalloon reports success without changing the balloon's CPUs only when the (clamped) target equals its current size", e.Pos(resize.Pos()), resize, p == nil, e.pathString(p), true)
		}
		// newBalloon: creation unreachable when MaxBalloons is reached
		var mk ssa.Instruction
		AllInstrs(newBln, func(in ssa.Instruction) {
			if al, ok := in.(*ssa.Alloc); ok && al.Heap {
				if p, ok := al.Type().(*types.Pointer); ok && types.Identical(p.Elem(), e.Named(pkgBL, "Balloon")) {
					mk = in
				}
			}
		})
		atLimit := func(cond ssa.Value) (bool, bool) {
			_, _, op, ok := cmpOriented(cond, func(v ssa.Value) bool { f, _ := loadedField(v); return f != nil && f == fMaxB })
			if !ok {
				return false, false
			}
			switch op {
			case token.GTR: // MaxBalloons > NoLimit
				return true, true
			case token.LEQ: // MaxBalloons <= len(existing)
				return true, true
			case token.LSS, token.GEQ:
				return true, op == token.GEQ
			}
			return false, false
		}
		okNew := mk != nil && FindPath(PathQuery{Fn: newBln, Assume: atLimit, Target: func(in ssa.Instruction) bool { return in == mk }}) == nil
		r.Check("R2:max-balloons", "R2 limits", "no balloon is created once its type has MaxBalloons instances", e.Pos(newBln.Pos()), newBln, okNew, "", true)
		// freeBalloon: delete only above MinBalloons
		atMin := func(cond ssa.Value) (bool, bool) {
			// MinBalloons on the left: MinBalloons < len(sameDef) is false, MinBalloons >= len(sameDef) is true
			_, _, op, ok := cmpOriented(cond, func(v ssa.Value) bool { f, _ := loadedField(v); return f != nil && f == fMinB })
			if !ok {
				return false, false
			}
			switch op {
			case token.LSS:
				return true, false
			case token.GEQ:
				return true, true
			}
			return false, false
		}
		p := FindPath(PathQuery{Fn: freeBln, Assume: atMin, Target: func(in ssa.Instruction) bool { return e.IsCallTo(in, fset(delBln)) }})
		r.Check("R2:min-balloons", "R2 limits", "an empty balloon is deleted only while its type has more than MinBalloons instances", e.Pos(freeBln.Pos()), freeBln, p == nil && len(e.callsTo(freeBln, delBln)) == 1, e.pathString(p), true)
		for _, cs := range e.Callers(delBln) {
			r.Check("R3:delete-caller@"+FnName(TopParent(cs.Fn)), "R2 limits", "balloons are deleted only through freeBalloon", e.InstrPos(cs.Call), cs.Fn, TopParent(cs.Fn) == freeBln, "", false)
		}
		// AllocateResources: assigned only with enough capacity
		ac := e.callsTo(alloc, assign)
		rc := e.callsTo(alloc, resize)
		if len(ac) == 1 && len(rc) == 1 {
			avail := e.FuncObj(pkgBL, "Balloon.AvailMilliCpus")
			tooSmallAndResizeFailed := func(cond ssa.Value) (bool, bool) {
				if _, _, op, ok := cmpOriented(cond, func(v ssa.Value) bool {
					c, ok := v.(*ssa.Call)
					return ok && callObj(c.Common()) == avail
				}); ok {
					switch op {
					case token.LSS:
						return true, true
					case token.GEQ:
						return true, false
					}
				}
				k, v := callSucceeded(rc[0].Value())(cond)
				return k, !v
			}
			p := FindPath(PathQuery{Fn: alloc, Assume: tooSmallAndResizeFailed, Target: func(in ssa.Instruction) bool { return in == ac[0].(ssa.Instruction) }})
			r.Check("R2:capacity-before-assign", "R2 limits", "a container joins a balloon only if the balloon already holds, or was successfully resized to, max(1, requested) milli-CPUs", e.InstrPos(ac[0]), alloc, p == nil, e.pathString(p), true)
			// the resize target is max(1, …)
			okMax1 := false
			a := callArgs(rc[0])
			if c, ok := a[2].(*ssa.Call); ok {
				if f := c.Common().StaticCallee(); f != nil && f.Name() == "max" && isConstInt(c.Common().Args[0], 1) {
					okMax1 = true
				}
				if b, ok := c.Common().Value.(*ssa.Builtin); ok && b.Name() == "max" {
					okMax1 = true
				}
			}
			r.Check("R2:non-empty-balloon", "R2 limits", "a balloon receiving a container is sized for at least 1 milli-CPU (so it has at least one CPU)", e.InstrPos(rc[0]), alloc, okMax1, "", true)
		} else {
			r.Undecided("R2:capacity-before-assign", "R2 limits", "AllocateResources has one resize and one assign", e.Pos(alloc.Pos()), alloc, fmt.Sprintf("%d/%d", len(rc), len(ac)))
		}
	}

	// ---- rule 6: CPU class bracket --------------------------------------------------------------------
	{
		forget := e.Fn(pkgBL, "balloons.forgetCpuClass")
		use := e.Fn(pkgBL, "balloons.useCpuClass")
		reset := e.Fn(pkgBL, "balloons.resetCpuClass")
		AllInstrs(resize, func(in ssa.Instruction) {
			st, ok := in.(*ssa.Store)
			if !ok || fieldOfAddr(st.Addr) != fCpus {
				return
			}
			p := FindPath(PathQuery{Fn: resize, Block: func(x ssa.Instruction) bool { return e.IsCallTo(x, fset(forget)) }, Target: func(x ssa.Instruction) bool { return x == in }})
			r.Check("R1:class-forget-before-change", "R1 CPU class bracket", "a balloon's CPUs are returned to the idle class before its CPU set changes", e.InstrPos(in), resize, p == nil, e.pathString(p), true)
			// a deferred closure applying the balloon's class is registered before the change
			var def ssa.Instruction
			AllInstrs(resize, func(x ssa.Instruction) {
				if d, ok := x.(*ssa.Defer); ok {
					for _, cl := range e.Callees(d) {
						if len(e.callsTo(cl, use)) > 0 {
							def = x
						}
					}
				}
			})
			p2 := FindPath(PathQuery{Fn: resize, Block: func(x ssa.Instruction) bool { return x == def }, Target: func(x ssa.Instruction) bool { return x == in }})
			r.Check("R1:class-use-after-change", "R1 CPU class bracket", "the balloon's class is (re)applied after its CPU set changed (deferred useCpuClass registered before the change)", e.InstrPos(in), resize, def != nil && p2 == nil, "", true)
		})
		// every step that returns a balloon's whole CPU set to the free set idles those CPUs first
		for _, fn := range blFns {
			if TopParent(fn) == setConfig {
				continue
			}
			AllInstrsOf(fn, func(in ssa.Instruction) {
				st, ok := in.(*ssa.Store)
				if !ok || fieldOfAddr(st.Addr) != fFree {
					return
				}
				call, ok := st.Val.(*ssa.Call)
				if !ok || callObj(call.Common()) == nil || callObj(call.Common()).Name() != "Union" {
					return
				}
				x := variadicSingle(call.Common().Args[1])
				// X is a balloon's Cpus (or a clone of it)?
				var blnBase ssa.Value
				Origins(x, func(v ssa.Value) bool {
					if c, isC := v.(*ssa.Call); isC && callObj(c.Common()) != nil && callObj(c.Common()).Name() == "Clone" {
						if f, b := loadedField(callArgs(c)[0]); f == fCpus {
							blnBase = b
						}
						return true
					}
					if f, b := loadedField(v); f == fCpus {
						blnBase = b
						return true
					}
					return false
				})
				if blnBase == nil {
					return // deflate: a part of the balloon, covered by the bracket in resizeBalloon
				}
				p := FindPath(PathQuery{Fn: fn, Block: func(x ssa.Instruction) bool { return e.IsCallTo(x, fset(forget)) }, Target: func(x ssa.Instruction) bool { return x == in }})
				r.Check("R1:class-forget-before-freeing@"+FnName(TopParent(fn)), "R1 CPU class bracket", "when all CPUs of a balloon are returned to the free set they are first returned to the idle class (free CPUs carry the idle class)", e.InstrPos(in), fn, p == nil,
					"the balloon's CPUs join freeCpus without forgetCpuClass on this path: "+e.pathString(p), true)
			})
		}
		r.MustPass("R1:class-forget-on-delete", "R1 CPU class bracket", "deleting a balloon returns its CPUs to the idle class", delBln, nil, nil, func(in ssa.Instruction) bool { return e.IsCallTo(in, fset(forget)) }, nil)
		// forget happens while bln.Cpus still holds the CPUs
		p := FindPath(PathQuery{Fn: delBln, Block: func(in ssa.Instruction) bool { return e.IsCallTo(in, fset(forget)) }, Target: func(in ssa.Instruction) bool {
			ci, ok := in.(ssa.CallInstruction)
			if !ok {
				return false
			}
			for _, a := range ci.Common().Args {
				if fieldOfAddr(a) == fCpus {
					return true
				}
			}
			return false
		}})
		r.Check("R1:class-forget-before-release", "R1 CPU class bracket", "the CPUs are idled before the balloon's CPU set is emptied", e.Pos(delBln.Pos()), delBln, p == nil, e.pathString(p), true)
		rc := e.callsTo(setConfig, reset)
		uc := e.callsTo(setConfig, use)
		okCfg := len(rc) >= 1 && len(uc) >= 1
		if okCfg {
			okCfg = dominatesInstr(rc[0], uc[0])
		}
		r.Check("R1:class-reset-then-apply", "R1 CPU class bracket", "applying a configuration first resets all available CPUs to the idle class and then applies every balloon's class", e.Pos(setConfig.Pos()), setConfig, okCfg, "", true)
		// cpu.Assign
		if as := r.Anchor(pkgCpu, "Assign"); as != nil {
			okAdd, okDel := false, false
			AllInstrs(as, func(in ssa.Instruction) {
				call, ok := in.(*ssa.Call)
				if !ok || callObj(call.Common()) == nil {
					return
				}
				switch callObj(call.Common()).Name() {
				case "Add", "NewIDSetFromIntSlice":
					okAdd = true
				case "Del":
					// inside a range over all assignments, guarded by k != class
					for _, cf := range dominatingConds(call.Block()) {
						if b, ok := cf.Cond.(*ssa.BinOp); ok && b.Op == token.NEQ && cf.Val && (paramIndex(b.Y) == 1 || paramIndex(b.X) == 1) {
							okDel = true
						}
					}
				}
			})
			r.Check("R6:assign-exclusive-class", "R1 CPU class bracket", "cpu.Assign adds the CPUs to the named class and deletes them from every other class (each CPU is in at most one class)", e.Pos(as.Pos()), as, okAdd && okDel, "", true)
		}
	}
}

// subtrahends: base sets X occurring as `root ∖ X` at the top of expr.
func subtrahends(x *sx, root string) []*sx {
	var out []*sx
	for x != nil && x.op == "diff" {
		out = append(out, x.b)
		x = x.a
	}
	if x != nil && x.op == "base" && x.name == root {
		return out
	}
	return nil
}

func firstOf(a, b *ssa.Store) ssa.Instruction {
	if dominatesInstr(a, b) {
		return a
	}
	return b
}

// cpusetSameOrClone: a is x, a Clone() of x, or (for the free set) the field it was stored into.
func cpusetSameOrClone(a, x ssa.Value, allowField bool, f *types.Var) bool {
	if a == x || sameValue(a, x) {
		return true
	}
	if c, ok := a.(*ssa.Call); ok && callObj(c.Common()) != nil && callObj(c.Common()).Name() == "Clone" {
		return cpusetSameOrClone(callArgs(c)[0], x, allowField, f)
	}
	if c, ok := x.(*ssa.Call); ok && callObj(c.Common()) != nil && callObj(c.Common()).Name() == "Clone" {
		return cpusetSameOrClone(a, callArgs(c)[0], allowField, f)
	}
	if allowField {
		if g, _ := loadedField(a); g == f {
			return true // offering the whole (grown) free set covers X
		}
	}
	// both are loads of the same field of the same object
	f1, b1 := loadedField(a)
	f2, b2 := loadedField(x)
	if f1 != nil && f1 == f2 && (b1 == b2 || sameValue(b1, b2)) {
		return true
	}
	// loads of the same local cell
	u1, ok1 := a.(*ssa.UnOp)
	u2, ok2 := x.(*ssa.UnOp)
	if ok1 && ok2 && u1.X == u2.X {
		return true
	}
	return false
}
