package main

import (
	"fmt"
	"go/constant"
	"go/token"
	"go/types"
	"sort"
	"strings"

	"golang.org/x/tools/go/ssa"
)

// C19 — match expressions and balloon-type selection follow their documented semantics.
func init() { register("C19", "match expressions and balloon-type selection", checkC19) }

// opAssume: "the expression's operator is `op`": comparisons of the loaded
// Op field with an Operator constant evaluate accordingly.
func opAssume(fOp *types.Var, op *types.Const) Assumption {
	return func(cond ssa.Value) (bool, bool) {
		b, ok := cond.(*ssa.BinOp)
		if !ok || (b.Op != token.EQL && b.Op != token.NEQ) {
			return false, false
		}
		for _, pr := range [][2]ssa.Value{{b.X, b.Y}, {b.Y, b.X}} {
			f, _ := loadedField(pr[0])
			k, isK := pr[1].(*ssa.Const)
			if f == fOp && isK && k.Value != nil {
				eq := constant.Compare(k.Value, token.EQL, op.Val())
				return true, eq == (b.Op == token.EQL)
			}
		}
		return false, false
	}
}

func checkC19(e *Engine, r *Report) {
	r.Rules = []string{
		"R6 operator tables: the Operator constants = the operators Validate accepts = the operators Evaluate distinguishes",
		"R6+S6 validated implies safe: for every operator under which Evaluate indexes Values[k], Validate rejects expressions with too few values; every Evaluate call site is in the reviewed table of sources that are validated (configuration, annotations) or built with the right arity",
		"negation duality: for (In,NotIn), (Matches,MatchesNot), (MatchesAny,MatchesNone), (Exists,NotExist) the result under the negative operator is `!` of the value computed under the positive one (shared computation), or — for loop-free computations — the two results are pointwise negations over all valuations of the tests they perform (truth table over canonicalised atoms)",
		"R1+R2 weight clamp: Affinity.Validate clamps the weight to ±UserWeightCutoff (1000) on every success path; parseFull validates after applying the anti-affinity sign and appends only validated affinities",
		"selection order (balloons): effective annotation first (unknown name is an error), then the balloon types in configured slice order with match expressions before namespaces, then the default type; the implicit reserved type is prepended and matches kube-system plus ReservedPoolNamespaces",
	}
	r.Rules = append(r.Rules,
		"joint keys: KeyValue joins the ResolveRef of every sub-key, in order, with the separator splitKeys returned; splitKeys follows the documented format table on every path (sub-string abstract domain); ResolveRef: a map miss is not found, a hit is, the walk continues exactly while a part of the key remains, the final string is the value",
		"built-in balloon types are added to the configured list exactly when it has none of that name (reserved at the front, default at the end)")
	r.NotDecided = []string{"glob semantics (filepath.Match)", "what EvalKey of the cache objects returns for a key"}
	r.Assumptions = []string{"negation duality accepts the two idioms found in the tree (shared clause with a final conditional negation; separate clauses X / !X); a third, behaviour-preserving idiom would be reported as undecided"}

	exprT := e.Named(pkgExpr, "Expression")
	opT := e.Named(pkgExpr, "Operator")
	validate := r.Anchor(pkgExpr, "Expression.Validate")
	evaluate := r.Anchor(pkgExpr, "Expression.Evaluate")
	fOp := e.Field(pkgExpr, "Expression", "Op")
	fValues := e.Field(pkgExpr, "Expression", "Values")
	if exprT == nil || opT == nil || validate == nil || evaluate == nil || fOp == nil || fValues == nil {
		r.Undecided("anchor:expression", "anchor", "expression types and functions exist", "-", nil, "anchor drift")
		return
	}
	// ---- rule 1 -------------------------------------------------------------------
	ops := map[string]*types.Const{}
	sc := e.TypesPkg(pkgExpr).Scope()
	for _, n := range sc.Names() {
		if k, ok := sc.Lookup(n).(*types.Const); ok && types.Identical(k.Type(), opT) {
			ops[n] = k
		}
	}
	r.MinInstances("Operator constants", len(ops), 6)
	comparedIn := func(fn *ssa.Function) map[string]bool {
		out := map[string]bool{}
		AllInstrs(fn, func(in ssa.Instruction) {
			b, ok := in.(*ssa.BinOp)
			if !ok || b.Op != token.EQL {
				return
			}
			f, _ := loadedField(b.X)
			k, isK := b.Y.(*ssa.Const)
			if f != fOp || !isK || k.Value == nil {
				return
			}
			for n, c := range ops {
				if constant.Compare(k.Value, token.EQL, c.Val()) {
					out[n] = true
				}
			}
		})
		return out
	}
	inVal, inEval := comparedIn(validate), comparedIn(evaluate)
	names := make([]string, 0, len(ops))
	for n := range ops {
		names = append(names, n)
	}
	sort.Strings(names)
	for _, n := range names {
		// accepted by Validate: with Op == n (and a suitable number of values) a nil return is reachable, and the operator is named
		r.Check("R6:operator-in-validate#"+n, "R6 operator tables", "operator "+n+" is handled by Validate", e.Pos(validate.Pos()), validate, inVal[n], "", false)
		r.Check("R6:operator-in-evaluate#"+n, "R6 operator tables", "operator "+n+" is handled by Evaluate", e.Pos(evaluate.Pos()), evaluate, inEval[n], "", false)
	}
	// unknown operators are rejected by Validate: with every named comparison false no success return is reachable (past the key validation)
	{
		none := func(cond ssa.Value) (bool, bool) {
			b, ok := cond.(*ssa.BinOp)
			if !ok || b.Op != token.EQL {
				return false, false
			}
			if f, _ := loadedField(b.X); f == fOp {
				return true, false
			}
			return false, false
		}
		p := FindPath(PathQuery{Fn: validate, Assume: none, Target: func(in ssa.Instruction) bool {
			ret, ok := in.(*ssa.Return)
			return ok && e.ClassifyReturn(ret) == retNilErr
		}})
		r.Check("R6:unknown-operator-rejected", "R6 operator tables", "Validate rejects an operator that is none of the declared constants", e.Pos(validate.Pos()), validate, p == nil, e.pathString(p), true)
	}

	// ---- rule 2 -------------------------------------------------------------------
	type idxUse struct {
		in ssa.Instruction
		k  int64
	}
	var uses []idxUse
	AllInstrs(evaluate, func(in ssa.Instruction) {
		ia, ok := in.(*ssa.IndexAddr)
		if !ok {
			return
		}
		if f, _ := loadedField(ia.X); f != fValues {
			return
		}
		k, isK := ia.Index.(*ssa.Const)
		if !isK {
			return // loop indices are bounded by the range
		}
		uses = append(uses, idxUse{in, k.Int64()})
	})
	r.MinInstances("constant Values[k] uses in Evaluate", len(uses), 1)
	needs := map[string]int64{} // operator -> minimal number of values Evaluate needs
	for _, u := range uses {
		for _, n := range names {
			if FindPath(PathQuery{Fn: evaluate, Assume: opAssume(fOp, ops[n]), Target: func(x ssa.Instruction) bool { return x == u.in }}) != nil {
				if u.k+1 > needs[n] {
					needs[n] = u.k + 1
				}
			}
		}
	}
	for _, n := range names {
		need, ok := needs[n]
		if !ok {
			continue
		}
		// Validate must fail whenever len(Values) < need: evaluate every comparison of len(e.Values) with a constant for each short length
		okAll := true
		w := ""
		for L := int64(0); L < need; L++ {
			L := L
			short := func(cond ssa.Value) (bool, bool) {
				if k, v := opAssume(fOp, ops[n])(cond); k {
					return k, v
				}
				b, ok := cond.(*ssa.BinOp)
				if !ok {
					return false, false
				}
				c, isK := b.Y.(*ssa.Const)
				if !isK || c.Value == nil || !isLenOfField(b.X, fValues) {
					return false, false
				}
				cv := c.Int64()
				switch b.Op {
				case token.EQL:
					return true, L == cv
				case token.NEQ:
					return true, L != cv
				case token.LSS:
					return true, L < cv
				case token.LEQ:
					return true, L <= cv
				case token.GTR:
					return true, L > cv
				case token.GEQ:
					return true, L >= cv
				}
				return false, false
			}
			// key validation is assumed to pass
			p := FindPath(PathQuery{Fn: validate, Assume: short, Target: func(in ssa.Instruction) bool {
				ret, ok := in.(*ssa.Return)
				return ok && e.ClassifyReturn(ret) == retNilErr
			}})
			if p != nil {
				okAll = false
				w = fmt.Sprintf("with %d value(s) Validate can succeed via %s", L, e.pathString(p))
			}
		}
		r.Check("S6:validated-arity#"+n, "R6+S6 validated implies safe", fmt.Sprintf("Evaluate reads Values[%d] under operator %s, so Validate must reject fewer than %d value(s)", need-1, n, need),
			e.Pos(validate.Pos()), validate, okAll, w, true)
	}
	// Evaluate call sites
	evalObj := e.objs(pkgExpr, "Expression.Evaluate")
	allowedSites := map[string]string{
		"(*" + short(pkgCfgBL) + ".ContainerMatchConfig).MatchContainer": "MatchExpressions of the balloons configuration, validated by Config.Validate before the configuration is delivered",
		"(*" + short(pkgBL) + ".balloons).chooseBalloonDef":              "MatchExpressions of the balloons configuration, validated by Config.Validate before the configuration is delivered",
		"(*" + short(pkgCA) + ".cache).EvaluateAffinity":                 "Match of an affinity: user-supplied ones are validated in parseFull, built-in ones are constructed with the right arity",
		"(*" + short(pkgCA) + ".cache).FilterScope":                      "Scope of an affinity: user-supplied ones are validated in parseFull, built-in ones are constructed with the right arity",
	}
	ns := 0
	for _, fn := range e.RepoFuncs {
		if fn.Synthetic != "" {
			continue // promoted-method wrappers are not call sites of their own
		}
		AllInstrs(fn, func(in ssa.Instruction) {
			if !isCallOfObj(in, evalObj) {
				return
			}
			ns++
			name := FnName(TopParent(fn))
			why, ok := allowedSites[name]
			r.Check("S6:evaluate-site@"+name, "R6+S6 validated implies safe", "Evaluate is called only at reviewed sites whose expressions are validated or built with the right arity", e.InstrPos(in), fn, ok, why, false)
		})
	}
	r.MinInstances("Evaluate call sites", ns, 2)
	// Config.Validate validates every configured expression and reports failures
	if cv := r.Anchor(pkgCfgBL, "Config.Validate"); cv != nil {
		valObj := e.objs(pkgExpr, "Expression.Validate")
		fME1 := e.Field(pkgCfgBL, "ContainerMatchConfig", "MatchExpressions")
		fME2 := e.Field(pkgCfgBL, "BalloonDef", "MatchExpressions")
		seen := map[*types.Var]bool{}
		for _, c := range allCallsOfObj(cv, valObj) {
			recv := callArgs(c)[0]
			// receiver is (the address of) an element of a MatchExpressions slice
			Origins(recv, func(v ssa.Value) bool {
				var base ssa.Value
				switch x := v.(type) {
				case *ssa.IndexAddr:
					base = x.X
				case *ssa.Alloc:
					for _, ref := range *x.Referrers() {
						if st, ok := ref.(*ssa.Store); ok && st.Addr == x {
							if u, ok := st.Val.(*ssa.UnOp); ok {
								if ia, ok := u.X.(*ssa.IndexAddr); ok {
									base = ia.X
								}
							}
						}
					}
				}
				if base != nil {
					if f, _ := loadedField(base); f != nil {
						seen[f] = true
					}
				}
				return false
			})
		}
		r.Check("S6:config-validates-preserve-expressions", "R6+S6 validated implies safe", "Config.Validate validates the preserve rules' match expressions", e.Pos(cv.Pos()), cv, seen[fME1], "", true)
		r.Check("S6:config-validates-balloon-expressions", "R6+S6 validated implies safe", "Config.Validate validates every balloon type's match expressions", e.Pos(cv.Pos()), cv, seen[fME2], "", true)
		// an invalid expression makes the result non-nil: the return is errors.Join of the collected errors
		okJoin := false
		for _, ret := range Returns(cv) {
			if call, ok := ret.Results[0].(*ssa.Call); ok {
				if f := call.Common().StaticCallee(); f != nil && f.String() == "errors.Join" {
					okJoin = true
				}
			}
		}
		r.Check("S6:config-reports-invalid", "R6+S6 validated implies safe", "Config.Validate returns the collected validation errors", e.Pos(cv.Pos()), cv, okJoin, "", true)
	}
	// internally built expressions have the arity their operator needs
	{
		arity1 := map[string]bool{}
		for n, need := range needs {
			if need >= 1 {
				arity1[n] = true
			}
		}
		nb := 0
		for _, fn := range e.RepoFuncs {
			AllInstrs(fn, func(in ssa.Instruction) {
				al, ok := in.(*ssa.Alloc)
				if !ok {
					return
				}
				p, ok := al.Type().(*types.Pointer)
				if !ok || !types.Identical(p.Elem(), exprT) {
					return
				}
				init := structInitStores(fn, al)
				opV, hasOp := init[fOp]
				if !hasOp {
					return
				}
				nb++
				vals := init[fValues]
				litLen := func(v ssa.Value) int {
					sl, ok := v.(*ssa.Slice)
					if !ok {
						return -1
					}
					a2, ok := sl.X.(*ssa.Alloc)
					if !ok {
						return -1
					}
					if arr, ok := a2.Type().(*types.Pointer).Elem().(*types.Array); ok {
						return int(arr.Len())
					}
					return -1
				}
				site := FnName(TopParent(fn))
				opConsts := []string{}
				Origins(opV, func(v ssa.Value) bool {
					if k, ok := v.(*ssa.Const); ok && k.Value != nil {
						for n, c := range ops {
							if constant.Compare(k.Value, token.EQL, c.Val()) {
								opConsts = append(opConsts, n)
							}
						}
					}
					return false
				})
				sort.Strings(opConsts)
				ok2 := true
				why := ""
				for _, n := range opConsts {
					if !arity1[n] {
						continue
					}
					if vals != nil && litLen(vals) >= int(needs[n]) {
						continue
					}
					// non-literal values: the operator must be chosen under a length test of the same value
					guarded := false
					if vals != nil {
						if phi, ok := opV.(*ssa.Phi); ok {
							for i, ed := range phi.Edges {
								k, isK := ed.(*ssa.Const)
								if !isK || k.Value == nil || !constant.Compare(k.Value, token.EQL, ops[n].Val()) {
									continue
								}
								pred := phi.Block().Preds[i]
								for _, cf := range dominatingConds(pred) {
									if b, ok := cf.Cond.(*ssa.BinOp); ok && b.Op == token.EQL && cf.Val && isConstInt(b.Y, needs[n]) {
										if call, ok := b.X.(*ssa.Call); ok {
											if bi, ok := call.Common().Value.(*ssa.Builtin); ok && bi.Name() == "len" && sameValue(call.Common().Args[0], vals) || call.Common().Args[0] == vals {
												guarded = true
											}
										}
									}
								}
							}
						}
					}
					if !guarded {
						ok2 = false
						why = "operator " + n + " needs " + fmt.Sprint(needs[n]) + " value(s)"
					}
				}
				r.Check("S6:built-expression-arity@"+site, "R6+S6 validated implies safe", "an expression built in code gets as many values as its operator reads ("+strings.Join(opConsts, "/")+")", e.InstrPos(in), fn, ok2, why, true)
			})
		}
		r.MinInstances("expressions built in code", nb, 2)
	}

	// ---- rule 3: negation duality ------------------------------------------------------
	{
		var retV ssa.Value
		for _, ret := range Returns(evaluate) {
			if _, isConst := ret.Results[0].(*ssa.Const); !isConst {
				retV = ret.Results[0]
			}
		}
		leavesUnder := func(a Assumption, stop ssa.Value) []ssa.Value {
			var out []ssa.Value
			seen := map[ssa.Value]bool{}
			var walk func(v ssa.Value, d int)
			walk = func(v ssa.Value, d int) {
				if v == nil || seen[v] || d > 30 {
					return
				}
				seen[v] = true
				if v == stop {
					out = append(out, v)
					return
				}
				if phi, ok := v.(*ssa.Phi); ok {
					for i, ed := range phi.Edges {
						pred := phi.Block().Preds[i]
						if !edgeFeasible(pred, phi.Block(), a, 0) || !reachableBlock(evaluate, pred, a) {
							continue
						}
						walk(ed, d+1)
					}
					return
				}
				out = append(out, v)
			}
			walk(retV, 0)
			return out
		}
		for _, pr := range [][2]string{{"In", "NotIn"}, {"Matches", "MatchesNot"}, {"MatchesAny", "MatchesNone"}, {"Exists", "NotExist"}} {
			P, N := ops[pr[0]], ops[pr[1]]
			key := "R6:negation-duality#" + pr[0] + "/" + pr[1]
			if P == nil || N == nil || retV == nil {
				r.Undecided(key, "negation duality", "operators exist", e.Pos(evaluate.Pos()), evaluate, "constants not found")
				continue
			}
			// (a) structural form: one shared computation X, the negative operator returns !X
			okDual, w := false, ""
			ln := leavesUnder(opAssume(fOp, N), nil)
			if len(ln) == 1 {
				if not, ok := ln[0].(*ssa.UnOp); ok && not.Op == token.NOT {
					lp := leavesUnder(opAssume(fOp, P), not.X)
					okDual = len(lp) == 1 && lp[0] == not.X
					if !okDual {
						w = fmt.Sprintf("the result under %s is !X but the result under %s is not X", pr[1], pr[0])
					}
				} else {
					w = "the result under " + pr[1] + " is not of the form !X"
				}
			} else {
				w = fmt.Sprintf("result under %s has %d sources", pr[1], len(ln))
			}
			// (b) semantic form for loop-free computations: the two results are pointwise negations over all valuations of their tests
			if !okDual {
				fP, errP := boolFormulaOf(e, evaluate, 0, opAssume(fOp, P))
				fN, errN := boolFormulaOf(e, evaluate, 0, opAssume(fOp, N))
				if errP == nil && errN == nil {
					var w2 string
					okDual, w2 = negationOf(fP, fN)
					if !okDual {
						w = w2
					} else {
						w = ""
					}
				} else {
					w += fmt.Sprintf("; not comparable as boolean formulas (%v / %v)", errP, errN)
				}
			}
			r.Check(key, "negation duality", pr[1]+" evaluates to the logical negation of what "+pr[0]+" evaluates to", e.Pos(evaluate.Pos()), evaluate, okDual, w, true)
		}
	}

	// ---- rule 3b: documented semantics of the loop-free operators ---------------------------
	// The result of Evaluate under each single-value operator, as a boolean formula over the tests it performs, equals
	// the documented one for every valuation:  Equals: found ∧ (value = V0 ∨ V0 = "*"),  NotEqual: ¬found ∨ value ≠ V0,
	// Matches: found ∧ glob(V0, value),  MatchesNot: ¬(found ∧ glob),  Exists: found,  NotExist: ¬found, AlwaysTrue: true.
	{
		cz := &canonizer{e: e, seen: map[ssa.Value]bool{}}
		role := map[string]string{} // canonical atom -> role
		var keyValue *ssa.Call
		AllInstrs(evaluate, func(in ssa.Instruction) {
			if c, ok := in.(*ssa.Call); ok && callObj(c.Common()) != nil && callObj(c.Common()).Name() == "KeyValue" {
				keyValue = c
			}
		})
		var okV, valV ssa.Value
		if keyValue != nil && keyValue.Referrers() != nil {
			for _, ref := range *keyValue.Referrers() {
				if ex, ok := ref.(*ssa.Extract); ok {
					if ex.Index == 1 {
						okV = ex
					} else if ex.Index == 0 {
						valV = ex
					}
				}
			}
		}
		isV0 := func(v ssa.Value) bool { // e.Values[0]
			u, ok := v.(*ssa.UnOp)
			if !ok || u.Op != token.MUL {
				return false
			}
			ia, ok := u.X.(*ssa.IndexAddr)
			if !ok || !isConstInt(ia.Index, 0) {
				return false
			}
			f, _ := loadedField(ia.X)
			return f == fValues
		}
		if okV == nil || valV == nil {
			r.Undecided("R6:operator-semantics", "R6 operator tables", "Evaluate looks the key up with KeyValue and uses both results", e.Pos(evaluate.Pos()), evaluate, "KeyValue call or its results not found")
		} else {
			role[cz.str(okV)] = "found"
			AllInstrs(evaluate, func(in ssa.Instruction) {
				switch x := in.(type) {
				case *ssa.BinOp:
					if x.Op != token.EQL && x.Op != token.NEQ {
						return
					}
					at := cz.str(&ssa.BinOp{Op: token.EQL, X: x.X, Y: x.Y})
					switch {
					case (x.X == valV && isV0(x.Y)) || (x.Y == valV && isV0(x.X)):
						role[at] = "eq0"
					case isV0(x.X) || isV0(x.Y):
						other := x.Y
						if isV0(x.Y) {
							other = x.X
						}
						if k, ok := other.(*ssa.Const); ok && k.Value != nil && k.Value.ExactString() == `"*"` {
							role[at] = "star0"
						}
					}
				case *ssa.Extract:
					if c, ok := x.Tuple.(*ssa.Call); ok && x.Index == 0 {
						if f := c.Common().StaticCallee(); f != nil && f.String() == "path/filepath.Match" {
							a := c.Common().Args
							if len(a) == 2 && isV0(a[0]) && a[1] == valV {
								role[cz.str(x)] = "glob0"
							}
						}
					}
				}
			})
			ref := map[string]func(m map[string]bool) bool{
				"Equals":     func(m map[string]bool) bool { return m["found"] && (m["eq0"] || m["star0"]) },
				"NotEqual":   func(m map[string]bool) bool { return !m["found"] || !m["eq0"] },
				"Matches":    func(m map[string]bool) bool { return m["found"] && m["glob0"] },
				"MatchesNot": func(m map[string]bool) bool { return !(m["found"] && m["glob0"]) },
				"Exists":     func(m map[string]bool) bool { return m["found"] },
				"NotExist":   func(m map[string]bool) bool { return !m["found"] },
				"AlwaysTrue": func(m map[string]bool) bool { return true },
			}
			refNeeds := map[string][]string{"Equals": {"found", "eq0", "star0"}, "NotEqual": {"found", "eq0"}, "Matches": {"found", "glob0"}, "MatchesNot": {"found", "glob0"}, "Exists": {"found"}, "NotExist": {"found"}}
			refNames := make([]string, 0, len(ref))
			for n := range ref {
				refNames = append(refNames, n)
			}
			sort.Strings(refNames)
			for _, n := range refNames {
				k := ops[n]
				if k == nil {
					r.Undecided("R6:operator-semantics#"+n, "R6 operator tables", "operator constant "+n+" exists", "-", nil, "not found")
					continue
				}
				f, err := boolFormulaOf(e, evaluate, 0, opAssume(fOp, k))
				if err != nil {
					r.Undecided("R6:operator-semantics#"+n, "R6 operator tables", "the result under "+n+" is a loop-free boolean computation", e.Pos(evaluate.Pos()), evaluate, err.Error())
					continue
				}
				var atoms []string
				for a := range f.atoms {
					atoms = append(atoms, a)
				}
				sort.Strings(atoms)
				okSem, why := len(atoms) <= 10, ""
				if !okSem {
					why = "too many tests"
				}
				// tests the documented result depends on but the code does not perform are free variables too
				present := map[string]bool{}
				for _, a := range atoms {
					present[role[a]] = true
				}
				var missing []string
				for _, ro := range refNeeds[n] {
					if !present[ro] {
						missing = append(missing, ro)
					}
				}
				nv := len(atoms) + len(missing)
				for m := 0; okSem && m < 1<<uint(nv); m++ {
					v := map[string]bool{}
					rv := map[string]bool{}
					for i, a := range atoms {
						v[a] = m&(1<<uint(i)) != 0
						if ro, ok := role[a]; ok {
							rv[ro] = v[a]
						}
					}
					for i, ro := range missing {
						rv[ro] = m&(1<<uint(len(atoms)+i)) != 0
					}
					if !rv["found"] {
						rv["glob0"] = false // the glob is evaluated on the found value only
					}
					got, feasible := f.eval(v)
					if !feasible {
						continue
					}
					// the glob is only computed when the key was found; "not found" makes its outcome irrelevant
					if want := ref[n](rv); got != want {
						okSem = false
						var desc []string
						for _, a := range atoms {
							name := role[a]
							if name == "" {
								name = a
							}
							desc = append(desc, fmt.Sprintf("%s=%v", name, v[a]))
						}
						for _, ro := range missing {
							desc = append(desc, fmt.Sprintf("%s=%v (not tested by the code)", ro, rv[ro]))
						}
						why = fmt.Sprintf("evaluates to %v, documented %v, when %v", got, want, desc)
					}
				}
				r.Check("R6:operator-semantics#"+n, "R6 operator tables", "Evaluate under "+n+" computes the documented result for every outcome of the tests it performs (key found, value equal, wildcard, glob match)", e.Pos(evaluate.Pos()), evaluate, okSem, why, true)
			}
		}
	}

	// ---- rule 3c: the list operators ---------------------------------------------------------
	// In / MatchesAny (their negations follow by duality): the values are only examined when the key was found; the
	// result becomes true exactly in an iteration whose value equals the found one or is "*" (In), or whose pattern
	// globs it (MatchesAny).
	{
		var keyValue *ssa.Call
		AllInstrs(evaluate, func(in ssa.Instruction) {
			if c, ok := in.(*ssa.Call); ok && callObj(c.Common()) != nil && callObj(c.Common()).Name() == "KeyValue" {
				keyValue = c
			}
		})
		var okV, valV ssa.Value
		if keyValue != nil && keyValue.Referrers() != nil {
			for _, ref := range *keyValue.Referrers() {
				if ex, ok := ref.(*ssa.Extract); ok {
					if ex.Index == 1 {
						okV = ex
					} else if ex.Index == 0 {
						valV = ex
					}
				}
			}
		}
		var retV ssa.Value
		for _, ret := range Returns(evaluate) {
			if _, isConst := ret.Results[0].(*ssa.Const); !isConst {
				retV = ret.Results[0]
			}
		}
		for _, opn := range []string{"In", "MatchesAny"} {
			k := ops[opn]
			key := "R6:list-operator-semantics#" + opn
			if k == nil || okV == nil || valV == nil || retV == nil {
				r.Undecided(key, "R6 operator tables", "operator constant, KeyValue results and the computed result resolve", e.Pos(evaluate.Pos()), evaluate, "not found")
				continue
			}
			isOp := opAssume(fOp, k)
			var loop *sliceLoop
			for _, l := range sliceLoops(evaluate) {
				l := l
				if f, _ := loadedField(rangedSlice(l)); f == fValues && reachableBlock(evaluate, l.start.Block(), isOp) {
					loop = &l
				}
			}
			if loop == nil {
				r.Undecided(key, "R6 operator tables", "the loop over the expression's values under "+opn+" is found", e.Pos(evaluate.Pos()), evaluate, "no range over Values reachable under this operator")
				continue
			}
			found := func(val bool) Assumption {
				return func(cond ssa.Value) (bool, bool) {
					if kk, v := isOp(cond); kk {
						return kk, v
					}
					if unspill(cond) == okV {
						return true, val
					}
					return false, false
				}
			}
			// blocks from which the constant true flows into the result inside the loop
			trueFrom := map[*ssa.BasicBlock]bool{}
			seenPhi := map[*ssa.Phi]bool{}
			var collect func(v ssa.Value, d int)
			collect = func(v ssa.Value, d int) {
				ph, ok := v.(*ssa.Phi)
				if !ok || seenPhi[ph] || d > 8 {
					return
				}
				seenPhi[ph] = true
				for i, ed := range ph.Edges {
					pred := ph.Block().Preds[i]
					if c, ok := ed.(*ssa.Const); ok && c.Value != nil && c.Value.ExactString() == "true" {
						if loop.start.Block().Dominates(pred) {
							trueFrom[pred] = true
						}
						continue
					}
					collect(ed, d+1)
				}
			}
			collect(retV, 0)
			if u, ok := retV.(*ssa.UnOp); ok && u.Op == token.NOT {
				collect(u.X, 0)
			}
			setsTrue := func(in ssa.Instruction) bool { return trueFrom[in.Block()] && in == lastInstr(in.Block()) }
			matches := func(val bool) Assumption {
				return func(cond ssa.Value) (bool, bool) {
					if kk, v := found(true)(cond); kk {
						return kk, v
					}
					// value == element / element == "*"  (In);  glob(element, value)  (MatchesAny)
					if b, ok := cond.(*ssa.BinOp); ok && (b.Op == token.EQL || b.Op == token.NEQ) {
						isEl := func(v ssa.Value) bool { return loop.elem(v) }
						star := func(v ssa.Value) bool {
							c, ok := v.(*ssa.Const)
							return ok && c.Value != nil && c.Value.ExactString() == `"*"`
						}
						switch {
						case (unspill(b.X) == valV && isEl(b.Y)) || (unspill(b.Y) == valV && isEl(b.X)):
							return true, (b.Op == token.EQL) == val
						case (isEl(b.X) && star(b.Y)) || (isEl(b.Y) && star(b.X)):
							if val {
								return false, false // either test may be the one that holds
							}
							return true, b.Op != token.EQL
						}
					}
					if ex, ok := unspill(cond).(*ssa.Extract); ok && ex.Index == 0 {
						if c, ok := ex.Tuple.(*ssa.Call); ok {
							if f := c.Common().StaticCallee(); f != nil && f.String() == "path/filepath.Match" {
								a := c.Common().Args
								if len(a) == 2 && loop.elem(a[0]) && unspill(a[1]) == valV {
									return true, val
								}
							}
						}
					}
					return false, false
				}
			}
			okAll, why := len(trueFrom) > 0, ""
			if !okAll {
				why = "no place in the loop sets the result"
			}
			if p := FindPath(PathQuery{Fn: evaluate, Assume: found(false), Target: func(in ssa.Instruction) bool { return in == loop.start }}); p != nil {
				okAll, why = false, "values examined although the key was not found: "+e.pathString(p)
			}
			if p := FindPath(PathQuery{Fn: evaluate, Assume: found(true), Block: func(in ssa.Instruction) bool { return in == loop.head.Instrs[0] }, Target: isRet}); p != nil {
				okAll, why = false, "values not examined although the key was found: "+e.pathString(p)
			}
			if p := FindPath(PathQuery{Fn: evaluate, From: loop.start, Assume: matches(false), Block: func(in ssa.Instruction) bool { return in == loop.head.Instrs[0] }, Target: setsTrue}); p != nil {
				okAll, why = false, "the result becomes true for a value that does not match: "+e.pathString(p)
			}
			if opn == "In" {
				if p := loop.skips(matches(true), setsTrue, true); p != nil {
					okAll, why = false, "an equal value does not make the result true: "+e.pathString(p)
				}
			} else {
				if p := loop.skips(matches(true), setsTrue, true); p != nil {
					okAll, why = false, "a matching pattern does not make the result true: "+e.pathString(p)
				}
			}
			r.Check(key, "R6 operator tables", "Evaluate under "+opn+" examines the values only when the key was found, and the result becomes true exactly for a value that matches the found one", e.InstrPos(loop.start), evaluate, okAll, why, true)
		}
	}

	// ---- rule 3d: joint keys -------------------------------------------------------------------
	// For a key that splitKeys resolves to several sub-keys the value is strings.Join(vals, vsep): vsep is the value
	// separator splitKeys returned, vals collects ResolveRef(subject, sub-key) for every sub-key in order; "found" is
	// the disjunction of the sub-lookups. For a single key it is that key's own ResolveRef.
	if kv := r.Anchor(pkgExpr, "KeyValue"); kv != nil && len(kv.Params) == 2 {
		subjP := ssa.Value(kv.Params[1])
		var split *ssa.Call
		AllInstrs(kv, func(in ssa.Instruction) {
			if c, ok := in.(*ssa.Call); ok && callObj(c.Common()) != nil && callObj(c.Common()).Name() == "splitKeys" {
				split = c
			}
		})
		var keysV, vsepV ssa.Value
		if split != nil && split.Referrers() != nil {
			for _, ref := range *split.Referrers() {
				if ex, ok := ref.(*ssa.Extract); ok {
					if ex.Index == 0 {
						keysV = ex
					} else {
						vsepV = ex
					}
				}
			}
		}
		if keysV == nil || vsepV == nil {
			r.Undecided("R6:joint-key-composition", "R6 operator tables", "KeyValue splits the key with splitKeys and uses both results", e.Pos(kv.Pos()), kv, "not found")
		} else {
			single := func(val bool) Assumption {
				return func(cond ssa.Value) (bool, bool) {
					_, y, op, ok := cmpOriented(cond, func(v ssa.Value) bool {
						c, ok := v.(*ssa.Call)
						if !ok {
							return false
						}
						bi, ok := c.Common().Value.(*ssa.Builtin)
						return ok && bi.Name() == "len" && unspill(c.Common().Args[0]) == keysV
					})
					if !ok {
						return false, false
					}
					if k, isK := y.(*ssa.Const); isK {
						if n, ok := constIntVal(k); ok && n == 1 && (op == token.EQL || op == token.NEQ) {
							return true, (op == token.EQL) == val
						}
					}
					return false, false
				}
			}
			isResolveOf := func(v ssa.Value, key func(ssa.Value) bool) bool { // Extract #0 of ResolveRef(subject, key)
				ex, ok := v.(*ssa.Extract)
				if !ok || ex.Index != 0 {
					return false
				}
				c, ok := ex.Tuple.(*ssa.Call)
				if !ok || callObj(c.Common()) == nil || callObj(c.Common()).Name() != "ResolveRef" {
					return false
				}
				a := callArgs(c)
				return len(a) == 2 && sameObject(a[0], subjP) && key(a[1])
			}
			isKeyElem := func(v ssa.Value) bool {
				u, ok := unspill(v).(*ssa.UnOp)
				if !ok || u.Op != token.MUL {
					return false
				}
				ia, ok := u.X.(*ssa.IndexAddr)
				return ok && unspill(ia.X) == keysV
			}
			okJ, whyJ := true, ""
			for _, ret := range Returns(kv) {
				// joint
				OriginsUnder(kv, ret.Results[0], single(false), func(v ssa.Value) bool {
					switch x := v.(type) {
					case *ssa.Phi:
						return false
					case *ssa.Call:
						if f := x.Common().StaticCallee(); f != nil && f.String() == "strings.Join" {
							a := x.Common().Args
							if unspill(a[1]) != vsepV {
								okJ, whyJ = false, "joined with something else than the value separator"
							}
							// elements appended
							nEl := 0
							seen := map[ssa.Value]bool{}
							var walk func(sv ssa.Value, d int)
							walk = func(sv ssa.Value, d int) {
								if seen[sv] || d > 12 {
									return
								}
								seen[sv] = true
								switch y := sv.(type) {
								case *ssa.Phi:
									for _, ed := range y.Edges {
										walk(ed, d+1)
									}
								case *ssa.MakeSlice:
								case *ssa.Call:
									if bi, ok := y.Common().Value.(*ssa.Builtin); ok && bi.Name() == "append" {
										walk(y.Common().Args[0], d+1)
										for _, el := range sliceLiteralElems(y.Common().Args[1]) {
											nEl++
											if !isResolveOf(el, isKeyElem) {
												okJ, whyJ = false, "a joined element is not the value of one of the sub-keys"
											}
										}
										return
									}
									okJ, whyJ = false, "joined slice of unknown origin"
								default:
									okJ, whyJ = false, "joined slice of unknown origin"
								}
							}
							walk(a[0], 0)
							if nEl == 0 {
								okJ, whyJ = false, "nothing is collected for the sub-keys"
							}
							return true
						}
					}
					okJ, whyJ = false, "the joint value is not strings.Join(values of the sub-keys, separator): "+v.String()
					return true
				})
				// single
				OriginsUnder(kv, ret.Results[0], single(true), func(v ssa.Value) bool {
					if _, isPhi := v.(*ssa.Phi); isPhi {
						return false
					}
					if !isResolveOf(v, isKeyElem) {
						okJ, whyJ = false, "the value of a single key is not its own ResolveRef: "+v.String()
					}
					return true
				})
			}
			// every sub-key contributes: the loop over the keys appends in every iteration
			nLoops := 0
			for _, lp := range sliceLoops(kv) {
				lp := lp
				if unspill(rangedSlice(lp)) != keysV {
					continue
				}
				nLoops++
				appends := func(in ssa.Instruction) bool {
					c, ok := in.(*ssa.Call)
					if !ok {
						return false
					}
					bi, ok := c.Common().Value.(*ssa.Builtin)
					if !ok || bi.Name() != "append" {
						return false
					}
					for _, el := range sliceLiteralElems(c.Common().Args[1]) {
						if isResolveOf(el, lp.elem) {
							return true
						}
					}
					return false
				}
				if p := lp.skips(nil, appends, true); p != nil {
					okJ, whyJ = false, "a sub-key can be skipped: "+e.pathString(p)
				}
			}
			if nLoops == 0 {
				okJ, whyJ = false, "no loop over the sub-keys"
			}
			r.Check("R6:joint-key-composition", "R6 operator tables", "a joint key evaluates to the values of all its sub-keys, in order, joined by the value separator; a single key to its own value", e.Pos(kv.Pos()), kv, okJ, whyJ, true)
		}
	}

	checkSplitKeysFormat(e, r, pkgExpr)
	checkResolveRef(e, r, pkgExpr)

	// ---- rule 4: weight clamp ------------------------------------------------------------
	if av := r.Anchor(pkgCA, "Affinity.Validate"); av != nil {
		fW := e.Field(pkgCA, "Affinity", "Weight")
		cutoff, _ := e.TypesPkg(pkgCA).Scope().Lookup("UserWeightCutoff").(*types.Const)
		cv, _ := constant.Int64Val(cutoff.Val())
		r.Check("R1:cutoff-is-1000", "R1+R2 weight clamp", "UserWeightCutoff is 1000", e.Pos(cutoff.Pos()), nil, cv == 1000, fmt.Sprint(cv), false)
		for _, side := range []struct {
			name string
			op   token.Token
			lim  int64
		}{{"upper", token.GTR, cv}, {"lower", token.LSS, -cv}} {
			exceeds := func(cond ssa.Value) (bool, bool) {
				b, ok := cond.(*ssa.BinOp)
				if !ok {
					return false, false
				}
				f, _ := loadedField(b.X)
				k, isK := b.Y.(*ssa.Const)
				if f != fW || !isK || k.Value == nil {
					return false, false
				}
				// the weight is beyond the limit on this side
				w := side.lim + map[bool]int64{true: 1, false: -1}[side.lim > 0]
				switch b.Op {
				case token.GTR:
					return true, w > k.Int64()
				case token.LSS:
					return true, w < k.Int64()
				case token.GEQ:
					return true, w >= k.Int64()
				case token.LEQ:
					return true, w <= k.Int64()
				}
				return false, false
			}
			p := FindPath(PathQuery{Fn: av, Assume: exceeds,
				Block: func(in ssa.Instruction) bool {
					st, ok := in.(*ssa.Store)
					if !ok || fieldOfAddr(st.Addr) != fW {
						return false
					}
					k, ok := st.Val.(*ssa.Const)
					return ok && k.Value != nil && k.Int64() == side.lim
				},
				Target: func(in ssa.Instruction) bool {
					ret, ok := in.(*ssa.Return)
					return ok && e.ClassifyReturn(ret) != retNonNilErr
				}})
			r.Check("R1:weight-clamped#"+side.name, "R1+R2 weight clamp", fmt.Sprintf("a weight beyond %d is set to %d on every successful path of Affinity.Validate", side.lim, side.lim), e.Pos(av.Pos()), av, p == nil, e.pathString(p), true)
		}
	}
	if pf := r.Anchor(pkgCA, "podContainerAffinity.parseFull"); pf != nil {
		av := e.Fn(pkgCA, "Affinity.Validate")
		fW := e.Field(pkgCA, "Affinity", "Weight")
		vc := e.callsTo(pf, av)
		if len(vc) != 1 {
			r.Undecided("R2:parseFull-validates", "R1+R2 weight clamp", "parseFull validates each affinity once", e.Pos(pf.Pos()), pf, fmt.Sprintf("%d Validate calls", len(vc)))
		} else {
			isAppendOf := func(in ssa.Instruction) bool {
				call, ok := in.(*ssa.Call)
				if !ok {
					return false
				}
				b, ok := call.Common().Value.(*ssa.Builtin)
				return ok && b.Name() == "append" && sliceLiteralContains(call.Common().Args[1], callArgs(vc[0])[0])
			}
			na := 0
			AllInstrs(pf, func(in ssa.Instruction) {
				if isAppendOf(in) {
					na++
					p := FindPath(PathQuery{Fn: pf, Block: func(x ssa.Instruction) bool { return x == vc[0].(ssa.Instruction) }, Target: func(x ssa.Instruction) bool { return x == in }})
					r.Check("R2:append-after-validate", "R1+R2 weight clamp", "an affinity is recorded only after it passed Validate", e.InstrPos(in), pf, p == nil, e.pathString(p), true)
				}
			})
			r.MinInstances("affinities appended in parseFull", na, 1)
			failed := func(cond ssa.Value) (bool, bool) { k, v := callSucceeded(vc[0].Value())(cond); return k, !v }
			r.Unreachable("R2:invalid-not-appended", "R1+R2 weight clamp", "an affinity that failed validation is never recorded", pf, vc[0].(ssa.Instruction), isAppendOf, failed)
			// no weight change between Validate and the append
			p := FindPath(PathQuery{Fn: pf, From: vc[0].(ssa.Instruction), Target: func(in ssa.Instruction) bool {
				st, ok := in.(*ssa.Store)
				return ok && fieldOfAddr(st.Addr) == fW && FindPath(PathQuery{Fn: pf, From: in, Block: func(x ssa.Instruction) bool { return x == vc[0].(ssa.Instruction) }, Target: isAppendOf}) != nil
			}})
			r.Check("R2:sign-before-validate", "R1+R2 weight clamp", "the anti-affinity sign is applied before Validate (nothing changes the weight between the clamp and the record)", e.InstrPos(vc[0]), pf, p == nil, e.pathString(p), true)
		}
	}

	// ---- rule 5: balloon type selection ----------------------------------------------------
	if ch := r.Anchor(pkgBL, "balloons.chooseBalloonDef"); ch != nil {
		effAnn := e.objs(pkgCA, "Container.GetEffectiveAnnotation")
		byName := e.Fn(pkgBL, "balloons.balloonDefByName")
		nsMatch := e.Fn(pkgBL, "namespaceMatches")
		fDefs := e.Field(pkgCfgBL, "Config", "BalloonDefs")
		fDefault := e.Field(pkgBL, "balloons", "defaultBalloonDef")
		ac := firstCallOfObj(ch, effAnn)
		evs := allCallsOfObj(ch, evalObj)
		nsc := e.callsTo(ch, nsMatch)
		if ac == nil || len(evs) != 1 || len(nsc) != 1 || byName == nil {
			r.Undecided("R5:selection", "selection order", "chooseBalloonDef has the annotation / expression / namespace / default stages", e.Pos(ch.Pos()), ch, "stages not found")
		} else {
			ev, nsm := evs[0].(ssa.Instruction), nsc[0].(ssa.Instruction)
			r.Check("R5:annotation-first", "selection order", "the effective balloon annotation is consulted before any configured type", e.InstrPos(ac), ch,
				dominatesInstr(ac, ev) && dominatesInstr(ac, nsm), "", true)
			// annotated: never falls through to matching
			r.Unreachable("R5:annotation-decides", "selection order", "with a balloon annotation present neither expressions nor namespaces are consulted", ch, ac.(ssa.Instruction),
				func(in ssa.Instruction) bool { return in == ev || in == nsm }, okOf(ac.Value(), true))
			// unknown annotated name is an error
			bn := e.callsTo(ch, byName)
			if len(bn) == 1 {
				p := FindPath(PathQuery{Fn: ch, From: bn[0].(ssa.Instruction), Assume: nilnessOf(bn[0].Value(), true), Target: func(in ssa.Instruction) bool {
					ret, ok := in.(*ssa.Return)
					return ok && e.ClassifyReturn(ret) != retNonNilErr
				}})
				r.Check("R5:unknown-annotated-type-is-error", "selection order", "an annotation naming an unknown balloon type is an error", e.InstrPos(bn[0]), ch, p == nil, e.pathString(p), true)
				a := callArgs(bn[0])
				okArg := false
				Origins(a[1], func(v ssa.Value) bool {
					if ex, ok := v.(*ssa.Extract); ok && ex.Tuple == ac.Value() && ex.Index == 0 {
						okArg = true
					}
					return false
				})
				r.Check("R5:annotation-names-type", "selection order", "the annotated value is the name the balloon type is looked up by", e.InstrPos(bn[0]), ch, okArg, "", true)
			}
			// iteration over the BalloonDefs slice (ordered), expressions before namespaces within one type
			okSlice := false
			AllInstrs(ch, func(in ssa.Instruction) {
				if ia, ok := in.(*ssa.IndexAddr); ok {
					if f, _ := loadedField(ia.X); f == fDefs {
						okSlice = true
					}
				}
			})
			hasMapRange := false
			AllInstrs(ch, func(in ssa.Instruction) {
				if _, ok := in.(*ssa.Range); ok {
					hasMapRange = true
				}
			})
			r.Check("R5:configured-order", "selection order", "configured types are tried in the order of the BalloonDefs slice (no map iteration)", e.Pos(ch.Pos()), ch, okSlice && !hasMapRange, "", true)
			// within one iteration: no path from the namespace test back to an expression test without advancing to the next type
			p := FindPath(PathQuery{Fn: ch, Block: func(in ssa.Instruction) bool { return in == ev }, Target: func(in ssa.Instruction) bool { return in == nsm }})
			// reaching the namespace test without having passed the expression loop header is fine (a type may have no expressions);
			// what matters is that the expression loop of a type precedes its namespace test:
			_ = p
			exprLoopFirst := FindPath(PathQuery{Fn: ch, From: nsm, Assume: func(cond ssa.Value) (bool, bool) {
				if cond == nsc[0].Value() {
					return true, true // namespace matched
				}
				return false, false
			}, Target: func(in ssa.Instruction) bool { return in == ev }}) == nil
			r.Check("R5:expressions-before-namespaces", "selection order", "once a type's namespace patterns match it is chosen without evaluating further expressions", e.InstrPos(nsm), ch, exprLoopFirst, "", true)
			// default last: the default type is returned only on the path where nothing matched
			okDef := false
			for _, ret := range Returns(ch) {
				if f, _ := loadedField(ret.Results[0]); f == fDefault {
					okDef = FindPath(PathQuery{Fn: ch, Assume: func(cond ssa.Value) (bool, bool) {
						if cond == evs[0].Value() || cond == nsc[0].Value() {
							return true, true
						}
						return false, false
					}, From: ev, Target: func(in ssa.Instruction) bool { return in == ssa.Instruction(ret) }}) == nil
				}
			}
			r.Check("R5:default-last", "selection order", "the default type is used only when neither the annotation nor any configured type matched", e.Pos(ch.Pos()), ch, okDef, "", true)
			// a match returns the type it matched
			okRet := true
			for _, ret := range Returns(ch) {
				if e.ClassifyReturn(ret) == retNonNilErr {
					continue
				}
				v := ret.Results[0]
				if f, _ := loadedField(v); f == fDefault {
					continue
				}
				isElem, isNamed := false, false
				Origins(v, func(x ssa.Value) bool {
					if u, ok := x.(*ssa.UnOp); ok && u.Op == token.MUL {
						if ia, ok := u.X.(*ssa.IndexAddr); ok {
							if f, _ := loadedField(ia.X); f == fDefs {
								isElem = true
							}
						}
					}
					if call, ok := x.(*ssa.Call); ok && e.IsCallTo(call, fset(byName)) {
						isNamed = true
					}
					return false
				})
				if !isElem && !isNamed {
					okRet = false
				}
			}
			r.Check("R5:returns-matched-type", "selection order", "chooseBalloonDef returns the annotated type, the configured type that matched, or the default", e.Pos(ch.Pos()), ch, okRet, "", true)
			// … and a configured type is returned only where one of its expressions evaluated to true or its namespaces
			// matched; where that is the case the search stops with that type
			isMatchCall := func(v ssa.Value) bool {
				for _, c := range append(append([]ssa.CallInstruction{}, evs...), nsc...) {
					if v == c.Value() {
						return true
					}
				}
				return false
			}
			okPol, nEl := true, 0
			for _, ret := range Returns(ch) {
				isElem := false
				Origins(ret.Results[0], func(x ssa.Value) bool {
					if u, ok := x.(*ssa.UnOp); ok && u.Op == token.MUL {
						if ia, ok := u.X.(*ssa.IndexAddr); ok {
							if f, _ := loadedField(ia.X); f == fDefs {
								isElem = true
							}
						}
					}
					return false
				})
				if !isElem {
					continue
				}
				nEl++
				dom := false
				for _, cf := range dominatingConds(ret.Block()) {
					if isMatchCall(cf.Cond) && cf.Val {
						dom = true
					}
				}
				if !dom {
					okPol = false
				}
			}
			r.Check("R5:configured-type-only-on-match", "selection order", "a configured balloon type is chosen only where one of its match expressions evaluated to true or its namespace patterns matched", e.Pos(ch.Pos()), ch, okPol && nEl > 0, "", true)
			for _, mc := range append(append([]ssa.CallInstruction{}, evs...), nsc...) {
				mc := mc
				p := FindPath(PathQuery{Fn: ch, From: mc.(ssa.Instruction), Assume: func(cond ssa.Value) (bool, bool) {
					if cond == mc.Value() {
						return true, true
					}
					return false, false
				}, Target: func(in ssa.Instruction) bool {
					if ret, ok := in.(*ssa.Return); ok {
						// a return of something else than a configured element
						isElem := false
						Origins(ret.Results[0], func(x ssa.Value) bool {
							if u, ok := x.(*ssa.UnOp); ok && u.Op == token.MUL {
								if ia, ok := u.X.(*ssa.IndexAddr); ok {
									if f, _ := loadedField(ia.X); f == fDefs {
										isElem = true
									}
								}
							}
							return false
						})
						return !isElem
					}
					// or another match attempt (the search went on)
					if v, ok := in.(ssa.Value); ok && in != mc.(ssa.Instruction) && isMatchCall(v) {
						return true
					}
					return false
				}})
				r.Check("R5:match-stops-search", "selection order", "the first configured type that matches is the one chosen (the search does not go on after a match)", e.InstrPos(mc), ch, p == nil, e.pathString(p), true)
			}
		}
	}
	// balloonDefByName: the type returned for a name is one whose Name equals it
	if fn := r.Anchor(pkgBL, "balloons.balloonDefByName"); fn != nil && len(fn.Params) == 2 {
		fName := e.Field(pkgCfgBL, "BalloonDef", "Name")
		okN, nRet := true, 0
		for _, ret := range Returns(fn) {
			if k, isK := ret.Results[0].(*ssa.Const); isK && k.IsNil() {
				continue
			}
			nRet++
			dom := false
			for _, cf := range dominatingConds(ret.Block()) {
				x, y, op, ok := cmpOriented(cf.Cond, func(v ssa.Value) bool { f, _ := loadedField(v); return f != nil && f == fName })
				if !ok {
					continue
				}
				_, base := loadedField(x)
				if !cf.Val {
					op = negCmp(op)
				}
				if op == token.EQL && paramIndex(y) == 1 && sameObject(base, ret.Results[0]) {
					dom = true
				}
			}
			if !dom {
				okN = false
			}
		}
		r.Check("R5:type-by-name-compares-name", "selection order", "balloonDefByName returns a type only where that type's Name equals the requested name", e.Pos(fn.Pos()), fn, okN && nRet > 0, "", true)
	}
	if fb := r.Anchor(pkgBL, "balloons.fillBuiltinBalloonDefs"); fb != nil {
		fDefs := e.Field(pkgCfgBL, "Config", "BalloonDefs")
		// prepend: append([]*BalloonDef{reserved}, defs...)
		prepended := false
		AllInstrs(fb, func(in ssa.Instruction) {
			st, ok := in.(*ssa.Store)
			if !ok || fieldOfAddr(st.Addr) != fDefs {
				return
			}
			call, ok := st.Val.(*ssa.Call)
			if !ok {
				return
			}
			if b, ok := call.Common().Value.(*ssa.Builtin); ok && b.Name() == "append" {
				// first operand is a fresh one-element literal, second the existing list
				if sl, ok := call.Common().Args[0].(*ssa.Slice); ok {
					if _, ok := sl.X.(*ssa.Alloc); ok {
						if f, _ := loadedField(call.Common().Args[1]); f == fDefs {
							prepended = true
						}
					}
				}
			}
		})
		checkBuiltinDefsAdded(e, r, fb, fDefs)
		r.Check("R5:reserved-type-prepended", "selection order", "the implicit reserved balloon type is inserted at the front of the configured list", e.Pos(fb.Pos()), fb, prepended, "", true)
		// kube-system and ReservedPoolNamespaces are added to the reserved type's namespaces
		fNS := e.Field(pkgCfgBL, "BalloonDef", "Namespaces")
		fRPN := e.Field(pkgCfgBL, "Config", "ReservedPoolNamespaces")
		okSys, okRPN := false, false
		sysStores, rpnStores := map[ssa.Instruction]bool{}, map[ssa.Instruction]bool{}
		for _, f2 := range WithAnon(fb) {
			AllInstrs(f2, func(in ssa.Instruction) {
				st, ok := in.(*ssa.Store)
				if !ok || fieldOfAddr(st.Addr) != fNS {
					return
				}
				var walk func(v ssa.Value, d int)
				walk = func(v ssa.Value, d int) {
					if d > 8 || v == nil {
						return
					}
					if call, ok := v.(*ssa.Call); ok {
						if b, ok := call.Common().Value.(*ssa.Builtin); ok && b.Name() == "append" {
							for _, a := range call.Common().Args {
								walk(a, d+1)
							}
							return
						}
					}
					if f, _ := loadedField(v); f == fRPN {
						okRPN = true
						if f2 == fb {
							rpnStores[st] = true
						}
					}
					for _, el := range sliceLiteralElems(v) {
						if s, ok := constString(el); ok && s == "kube-system" {
							okSys = true
							if f2 == fb {
								sysStores[st] = true
							}
						}
					}
					if phi, ok := v.(*ssa.Phi); ok {
						for _, ed := range phi.Edges {
							walk(ed, d+1)
						}
					}
				}
				walk(st.Val, 0)
			})
		}
		// on every successful path, whatever the configuration says (the two additions are unconditional)
		wNS := fmt.Sprintf("kube-system=%v reservedPoolNamespaces=%v", okSys, okRPN)
		for _, set := range []struct {
			name string
			m    map[ssa.Instruction]bool
		}{{"kube-system", sysStores}, {"ReservedPoolNamespaces", rpnStores}} {
			set := set
			if len(set.m) == 0 {
				continue
			}
			// a membership test that mentions kube-system is taken as "not yet listed" (adding it only when absent is fine)
			notListed := func(cond ssa.Value) (bool, bool) {
				neg := false
				if u, ok := cond.(*ssa.UnOp); ok && u.Op == token.NOT {
					cond, neg = u.X, true
				}
				c, ok := cond.(*ssa.Call)
				if !ok {
					return false, false
				}
				for _, a := range c.Common().Args {
					if s, ok := constString(a); ok && s == "kube-system" {
						return true, neg
					}
				}
				return false, false
			}
			if p := FindPath(PathQuery{Fn: fb, Assume: notListed, Block: func(in ssa.Instruction) bool { return set.m[in] }, Target: func(in ssa.Instruction) bool {
				ret, ok := in.(*ssa.Return)
				return ok && e.maySucceed(ret)
			}}); p != nil {
				okSys, okRPN = false, false
				wNS = set.name + " is not added on the path " + e.pathString(p)
			}
		}
		r.Check("R5:reserved-type-namespaces", "selection order", "the reserved type's namespaces include kube-system and the configured ReservedPoolNamespaces on every successful path", e.Pos(fb.Pos()), fb, okSys && okRPN,
			wNS, true)
	}
}
