package main

import (
	"fmt"
	"go/constant"
	"go/token"
	"go/types"
	"strings"

	"golang.org/x/tools/go/ssa"
)

// C12 — opt-outs are honoured: preserved or unpinned resources are never touched.
func init() { register("C12", "opt-outs are honoured", checkC12) }

// frameGuard builds, for one function frame, the assumption "the opt-out
// applies" — given the SSA value that denotes the sink's target container in
// that frame (nil if the frame has no handle on it).
type frameGuard func(fn *ssa.Function, target ssa.Value) Assumption

// sameValue: do a and b denote the same runtime value (identical SSA value,
// or loads of the same never-reassigned parameter cell)?
func sameValue(a, b ssa.Value) bool {
	if a == nil || b == nil {
		return false
	}
	if a == b {
		return true
	}
	if pa, pb := paramIndex(a), paramIndex(b); pa >= 0 && pa == pb {
		fa, fb := valueFn(a), valueFn(b)
		return fa != nil && fa == fb
	}
	ua, ok1 := a.(*ssa.UnOp)
	ub, ok2 := b.(*ssa.UnOp)
	if ok1 && ok2 && ua.Op == token.MUL && ub.Op == token.MUL {
		// loads of the same captured variable / same single-assignment cell
		if ua.X == ub.X {
			switch x := ua.X.(type) {
			case *ssa.FreeVar:
				return true
			case *ssa.Alloc:
				n := 0
				for _, r := range *x.Referrers() {
					if st, ok := r.(*ssa.Store); ok && st.Addr == x {
						n++
					}
				}
				return n <= 1 && !cellWrittenInClosures(x)
			}
		}
	}
	return false
}

func valueFn(v ssa.Value) *ssa.Function {
	if in, ok := v.(ssa.Instruction); ok {
		return in.Parent()
	}
	if p, ok := v.(*ssa.Parameter); ok {
		return p.Parent()
	}
	return nil
}

// guardedSite checks that `site` (an instruction of fn) cannot execute while
// the opt-out described by guard applies. If the site is reachable inside fn
// under the opt-out assumption, the obligation moves to every call site of fn
// (wrapper idiom), mapping the target container to the actual argument.
// Returns ok and a witness for the failing frame.
func (e *Engine) guardedSite(fn *ssa.Function, site ssa.Instruction, target ssa.Value, guard frameGuard, depth int) (bool, string) {
	assume := guard(fn, target)
	p := FindPath(PathQuery{Fn: fn, Assume: assume, Target: func(in ssa.Instruction) bool { return in == site }})
	if p == nil {
		return true, ""
	}
	here := fmt.Sprintf("%s: reachable with the opt-out in force via %s", FnName(fn), e.pathString(p))
	if depth >= 3 {
		return false, here + " (caller depth bound reached)"
	}
	// closures: the frame continues at their call sites, or where they are created
	if fn.Parent() != nil && len(e.Callers(fn)) == 0 {
		var mk ssa.Instruction
		AllInstrs(fn.Parent(), func(in ssa.Instruction) {
			if mc, ok := in.(*ssa.MakeClosure); ok && mc.Fn == fn {
				mk = in
			}
		})
		if mk == nil {
			return false, here
		}
		// the target must be a captured variable to be tracked outward
		var outer ssa.Value
		if u, ok := target.(*ssa.UnOp); ok {
			if fv, ok := u.X.(*ssa.FreeVar); ok {
				for i, f := range fn.FreeVars {
					if f == fv {
						if al, ok := mk.(*ssa.MakeClosure).Bindings[i].(*ssa.Alloc); ok {
							outer = firstLoadOf(al)
						}
					}
				}
			}
		}
		return e.guardedSite(fn.Parent(), mk, outer, guard, depth+1)
	}
	callers := e.Callers(fn)
	if len(callers) == 0 {
		return false, here + " (and the function has no callers to supply the guard)"
	}
	ti := paramIndex(target)
	for _, cs := range callers {
		var t2 ssa.Value
		if ti >= 0 {
			a := callArgs(cs.Call)
			if ti < len(a) {
				t2 = a[ti]
			}
		}
		ok, w := e.guardedSite(cs.Fn, cs.Call.(ssa.Instruction), t2, guard, depth+1)
		if !ok {
			return false, here + " <= " + w
		}
	}
	return true, ""
}

func firstLoadOf(a *ssa.Alloc) ssa.Value {
	for _, r := range *a.Referrers() {
		if u, ok := r.(*ssa.UnOp); ok && u.Op == token.MUL && u.X == a {
			return u
		}
	}
	return nil
}

type c12ctx struct {
	e *Engine
	// TA
	optTA                      *ssa.Global
	fPinCPUTA, fPinMemTA       *types.Var
	cpuPreserve, memPreserve   *types.Const
	grantGetContainer          []*types.Func
	grantCPUType, grantMemType []*types.Func
	fGrantContainer            *types.Var
	// BL
	fBpoptions, fPinCPUBL, fPinMemBL, fDefPinMem *types.Var
	mPreserveCpu, mPreserveMem                   *types.Func
	mGetCpusetMems, mGetCpusetCpus               *types.Func
}

func isConstEq(v ssa.Value, k *types.Const) bool {
	c, ok := v.(*ssa.Const)
	if !ok || c.Value == nil || k == nil {
		return false
	}
	return types.Identical(c.Type(), k.Type()) && constant.Compare(c.Value, token.EQL, k.Val())
}

// grantOfTarget: the grant value whose container `target` is
// (target = G.GetContainer() or G.container).
func (c *c12ctx) grantOfTarget(target ssa.Value) ssa.Value {
	var g ssa.Value
	Origins(target, func(v ssa.Value) bool {
		if call, ok := v.(*ssa.Call); ok {
			o := callObj(call.Common())
			for _, m := range c.grantGetContainer {
				if o == m {
					g = callArgs(call)[0]
					return true
				}
			}
		}
		if f, base := loadedField(v); f != nil && f == c.fGrantContainer {
			g = base
			return true
		}
		return false
	})
	return g
}

// isGrantAttrOf: v is G'.CPUType()/MemoryType() (one of methods ms) for a G' denoting the same grant as g.
func isGrantAttrOf(v ssa.Value, ms []*types.Func, g ssa.Value) bool {
	found := false
	Origins(v, func(x ssa.Value) bool {
		call, ok := x.(*ssa.Call)
		if !ok {
			return false
		}
		o := callObj(call.Common())
		for _, m := range ms {
			if o == m && sameValue(callArgs(call)[0], g) {
				found = true
				return true
			}
		}
		return false
	})
	return found
}

func checkC12(e *Engine, r *Report) {
	r.Rules = []string{
		"R2 sink-guard: every call of cache.Container.SetCpusetCpus / SetCpusetMems outside the cache package is unreachable (in its own frame or, for wrappers, in every caller frame up to 3 levels) while the relevant opt-out is in force; opt-outs are modelled as assumptions on the guarding conditions and branches are pruned accordingly",
		"opt-outs: CPU pinning disabled (TA opt.PinCPU, BL bpoptions.PinCPU nil-or-true idiom); target CPU-preserved (TA grant.CPUType()==cpuPreserve of the same grant; BL membership only via assignContainer which follows the two preserve early-returns); memory pinning disabled (TA opt.PinMemory or provably empty value; BL policy- and balloon-type-level PinMemory); target memory-preserved (TA grant.MemoryType()==memoryPreserve of the same grant; BL PreserveMemoryResources() of the same container, where only the container's current mems may be re-told)",
		"R6 annotation source: PreserveCpuResources/PreserveMemoryResources read the effective annotation of the respective key; TA maps them to cpuPreserve/memoryPreserve",
		"identity short-circuit: the resource manager's UpdateContainer may re-tell only the container's own current value",
	}
	r.NotDecided = []string{"the concrete node/CPU sets told to non-opted-out containers (C01-C04)", "that the runtime keeps a container's previous cpuset when told nothing"}
	r.Assumptions = []string{"an empty cpuset string in an NRI adjustment/update means 'leave unchanged'"}

	c := &c12ctx{e: e}
	c.optTA = e.Global(pkgTA, "opt")
	c.fPinCPUTA = e.Field(pkgCfgTA, "Config", "PinCPU")
	c.fPinMemTA = e.Field(pkgCfgTA, "Config", "PinMemory")
	c.cpuPreserve, _ = e.TypesPkg(pkgTA).Scope().Lookup("cpuPreserve").(*types.Const)
	c.memPreserve, _ = e.TypesPkg(pkgTA).Scope().Lookup("memoryPreserve").(*types.Const)
	c.grantGetContainer = []*types.Func{e.FuncObj(pkgTA, "Grant.GetContainer"), e.FuncObj(pkgTA, "grant.GetContainer")}
	c.grantCPUType = []*types.Func{e.FuncObj(pkgTA, "Grant.CPUType"), e.FuncObj(pkgTA, "grant.CPUType")}
	c.grantMemType = []*types.Func{e.FuncObj(pkgTA, "Grant.MemoryType"), e.FuncObj(pkgTA, "grant.MemoryType")}
	c.fGrantContainer = e.Field(pkgTA, "grant", "container")
	c.fBpoptions = e.Field(pkgBL, "balloons", "bpoptions")
	c.fPinCPUBL = e.Field(pkgCfgBL, "Config", "PinCPU")
	c.fPinMemBL = e.Field(pkgCfgBL, "Config", "PinMemory")
	c.fDefPinMem = e.Field(pkgCfgBL, "BalloonDef", "PinMemory")
	c.mPreserveCpu = e.FuncObj(pkgCA, "Container.PreserveCpuResources")
	c.mPreserveMem = e.FuncObj(pkgCA, "Container.PreserveMemoryResources")
	c.mGetCpusetMems = e.FuncObj(pkgCA, "Container.GetCpusetMems")
	c.mGetCpusetCpus = e.FuncObj(pkgCA, "Container.GetCpusetCpus")
	mSetCpus := e.FuncObj(pkgCA, "Container.SetCpusetCpus")
	mSetMems := e.FuncObj(pkgCA, "Container.SetCpusetMems")
	for name, v := range map[string]interface{}{"TA.opt": c.optTA, "TA.PinCPU": c.fPinCPUTA, "TA.PinMemory": c.fPinMemTA, "cpuPreserve": c.cpuPreserve,
		"memoryPreserve": c.memPreserve, "grant.container": c.fGrantContainer, "BL.bpoptions": c.fBpoptions, "BL.PinCPU": c.fPinCPUBL, "BL.PinMemory": c.fPinMemBL,
		"BalloonDef.PinMemory": c.fDefPinMem, "PreserveCpuResources": c.mPreserveCpu, "PreserveMemoryResources": c.mPreserveMem,
		"SetCpusetCpus": mSetCpus, "SetCpusetMems": mSetMems, "GetCpusetMems": c.mGetCpusetMems} {
		if isNilIface(v) {
			r.Undecided("anchor:"+name, "anchor", "anchor "+name+" exists", "-", nil, "not found")
			return
		}
	}

	// --- atoms ---------------------------------------------------------------
	isLoadOfField := func(v ssa.Value, f *types.Var) bool { g, _ := loadedField(v); return g == f }
	isNilConst := func(v ssa.Value) bool { k, ok := v.(*ssa.Const); return ok && k.IsNil() }
	// pointer-to-bool option idiom: `X == nil || *X` where X is a load of field f
	ptrBoolAtoms := func(cond ssa.Value, f *types.Var, isNil, deref bool) (bool, bool) {
		if b, ok := cond.(*ssa.BinOp); ok && (b.Op == token.EQL || b.Op == token.NEQ) {
			if (isLoadOfField(b.X, f) && isNilConst(b.Y)) || (isLoadOfField(b.Y, f) && isNilConst(b.X)) {
				return true, (b.Op == token.EQL) == isNil
			}
		}
		if u, ok := cond.(*ssa.UnOp); ok && u.Op == token.MUL && isLoadOfField(u.X, f) {
			return true, deref
		}
		return false, false
	}

	// opt-out 1: CPU pinning disabled
	pinCPUOff := func(fn *ssa.Function, target ssa.Value) Assumption {
		return func(cond ssa.Value) (bool, bool) {
			if isLoadOfField(cond, c.fPinCPUTA) {
				return true, false
			}
			return ptrBoolAtoms(cond, c.fPinCPUBL, false, false)
		}
	}
	// opt-out 2: target is CPU-preserved (TA: by grant class; BL: by annotation)
	cpuPreserved := func(fn *ssa.Function, target ssa.Value) Assumption {
		g := c.grantOfTarget(target)
		return func(cond ssa.Value) (bool, bool) {
			if b, ok := cond.(*ssa.BinOp); ok && (b.Op == token.EQL || b.Op == token.NEQ) && g != nil {
				for _, pr := range [][2]ssa.Value{{b.X, b.Y}, {b.Y, b.X}} {
					if isConstEq(pr[1], c.cpuPreserve) && isGrantAttrOf(pr[0], c.grantCPUType, g) {
						return true, b.Op == token.EQL
					}
				}
			}
			if call, ok := cond.(*ssa.Call); ok && callObj(call.Common()) == c.mPreserveCpu && target != nil && sameValue(callArgs(call)[0], target) {
				return true, true
			}
			return false, false
		}
	}
	// opt-out 3: memory pinning disabled (TA global; BL: two scenarios, see below)
	pinMemOffTA := func(fn *ssa.Function, target ssa.Value) Assumption {
		return func(cond ssa.Value) (bool, bool) {
			if isLoadOfField(cond, c.fPinMemTA) {
				return true, false
			}
			return false, false
		}
	}
	// BL scenario A: the balloon type sets PinMemory=false
	var isDefPinMemPtrD func(v ssa.Value, depth int) bool
	isDefPinMemPtrD = func(v ssa.Value, depth int) bool {
		if isLoadOfField(v, c.fDefPinMem) {
			return true
		}
		// a parameter through which every caller passes BalloonDef.PinMemory (possibly through its own such parameter)
		if pi := paramIndex(v); pi >= 0 && depth < 3 {
			fn := valueFn(v)
			if fn == nil {
				return false
			}
			cs := e.Callers(fn)
			if len(cs) == 0 {
				return false
			}
			for _, c2 := range cs {
				a := callArgs(c2.Call)
				if pi >= len(a) || !isDefPinMemPtrD(a[pi], depth+1) {
					return false
				}
			}
			return true
		}
		return false
	}
	isDefPinMemPtr := func(v ssa.Value) bool { return isDefPinMemPtrD(v, 0) }
	pinMemOffBLType := func(fn *ssa.Function, target ssa.Value) Assumption {
		return func(cond ssa.Value) (bool, bool) {
			if b, ok := cond.(*ssa.BinOp); ok && (b.Op == token.EQL || b.Op == token.NEQ) {
				if (isDefPinMemPtr(b.X) && isNilConst(b.Y)) || (isDefPinMemPtr(b.Y) && isNilConst(b.X)) {
					return true, b.Op == token.NEQ // it is non-nil
				}
			}
			if u, ok := cond.(*ssa.UnOp); ok && u.Op == token.MUL && isDefPinMemPtr(u.X) {
				return true, false // and false
			}
			return false, false
		}
	}
	// BL scenario B: no type-level setting, policy-level PinMemory=false
	pinMemOffBLGlobal := func(fn *ssa.Function, target ssa.Value) Assumption {
		return func(cond ssa.Value) (bool, bool) {
			if b, ok := cond.(*ssa.BinOp); ok && (b.Op == token.EQL || b.Op == token.NEQ) {
				if (isDefPinMemPtr(b.X) && isNilConst(b.Y)) || (isDefPinMemPtr(b.Y) && isNilConst(b.X)) {
					return true, b.Op == token.EQL // it is nil
				}
			}
			return ptrBoolAtoms(cond, c.fPinMemBL, false, false)
		}
	}
	// opt-out 4: target is memory-preserved
	memPreserved := func(fn *ssa.Function, target ssa.Value) Assumption {
		g := c.grantOfTarget(target)
		return func(cond ssa.Value) (bool, bool) {
			if b, ok := cond.(*ssa.BinOp); ok && (b.Op == token.EQL || b.Op == token.NEQ) && g != nil {
				for _, pr := range [][2]ssa.Value{{b.X, b.Y}, {b.Y, b.X}} {
					if isConstEq(pr[1], c.memPreserve) && isGrantAttrOf(pr[0], c.grantMemType, g) {
						return true, b.Op == token.EQL
					}
				}
			}
			if call, ok := cond.(*ssa.Call); ok && callObj(call.Common()) == c.mPreserveMem && target != nil && sameValue(callArgs(call)[0], target) {
				return true, true
			}
			return false, false
		}
	}

	// --- enumerate sinks --------------------------------------------------------
	nCPU, nMem := 0, 0
	var taLoopSites, taReallocSites []string
	for _, fn := range e.RepoFuncs {
		top := TopParent(fn)
		if top.Pkg == nil {
			continue
		}
		path := top.Pkg.Pkg.Path()
		if path == pkgCA {
			continue
		}
		inTA, inBL, inRM := path == pkgTA, path == pkgBL, path == pkgRM
		AllInstrs(fn, func(in ssa.Instruction) {
			ci, ok := in.(ssa.CallInstruction)
			if !ok {
				return
			}
			o := callObj(ci.Common())
			if o != mSetCpus && o != mSetMems {
				return
			}
			args := callArgs(ci)
			target, val := args[0], args[1]
			site := fmt.Sprintf("%s#%s", FnName(fn), o.Name())
			pos := e.InstrPos(in)
			if inRM {
				// identity short-circuit: value is the same container's current value
				getter := c.mGetCpusetCpus
				if o == mSetMems {
					getter = c.mGetCpusetMems
				}
				okID := originAll(val, func(v ssa.Value) bool {
					call, ok := v.(*ssa.Call)
					return ok && callObj(call.Common()) == getter && sameValue(callArgs(call)[0], target)
				})
				r.Check("R2:identity@"+site, "identity short-circuit", "the resource manager re-tells only the container's own current value", pos, fn, okID, "", true)
				return
			}
			if !inTA && !inBL {
				r.Check("R2:unknown-sink@"+site, "R2 sink-guard", "pinning sinks exist only in the two policies (a new sink elsewhere needs its own opt-out analysis)", pos, fn, false, "", false)
				return
			}
			check := func(label, what string, g frameGuard, allowValue func(assume Assumption) bool) {
				ok, w := e.guardedSite(fn, in, target, g, 0)
				if !ok && allowValue != nil && allowValue(g(fn, target)) {
					ok, w = true, "value told is provably harmless under the opt-out"
				}
				r.Check("R2:"+label+"@"+site, "R2 sink-guard", what, pos, fn, ok, w, true)
			}
			if o == mSetCpus {
				nCPU++
				check("pin-cpu-off", "no CPU set is told when CPU pinning is disabled in the configuration", pinCPUOff, nil)
				if inTA {
					check("cpu-preserved", "no CPU set is told to a container whose grant is of class cpuPreserve", cpuPreserved, nil)
				}
				// BL: membership-based, see below
				return
			}
			nMem++
			emptyUnder := func(assume Assumption) bool {
				// value is X.MemsetString() with X provably NodeMask(0) under the assumption
				call, ok := val.(*ssa.Call)
				if !ok || callObj(call.Common()) == nil || callObj(call.Common()).Name() != "MemsetString" {
					return false
				}
				all, any := true, false
				OriginsUnder(fn, callArgs(call)[0], assume, func(v ssa.Value) bool {
					if _, isPhi := v.(*ssa.Phi); isPhi {
						return false
					}
					any = true
					if k, ok := v.(*ssa.Const); !ok || k.Value == nil || !isConstInt(k, 0) {
						all = false
					}
					return true
				})
				return all && any
			}
			if inTA {
				check("pin-mem-off", "no memory set is told when memory pinning is disabled (or the value told is the empty set)", pinMemOffTA, emptyUnder)
				g := c.grantOfTarget(target)
				switch {
				case g != nil && c.isGrantFromUpdateLoop(g):
					// zone-update loop: the target is whatever grant libmem reported as moved. A
					// memory-preserved request can never be reported there because it always
					// occupies the root pool's full memory set, which libmem cannot expand
					// (decided structurally below, rule ta-preserved-unmovable).
					taLoopSites = append(taLoopSites, site)
					r.Check("R2:mem-preserved@"+site, "R2 sink-guard",
						"zone-update loop: memory-preserved grants cannot appear in libmem's updates (see R2:ta-preserved-unmovable obligations)", pos, fn, true,
						"discharged through the un-expandable root zone argument, not by a local guard", true)
				case TopParent(fn) == e.Fn(pkgTA, "grant.ReallocMemory"):
					// subject of a cold-start re-allocation: preserved requests never get a cold start
					taReallocSites = append(taReallocSites, site)
					r.Check("R2:mem-preserved@"+site, "R2 sink-guard",
						"cold-start re-allocation: memory-preserved requests never have a cold-start period (see R2:ta-preserved-no-coldstart)", pos, fn, true,
						"discharged through the no-cold-start argument, not by a local guard", true)
				default:
					check("mem-preserved", "no memory set is told to a container whose grant is of type memoryPreserve", memPreserved, nil)
				}
			} else {
				check("pin-mem-off-type", "no memory set is told to a container of a balloon type with pinMemory=false", pinMemOffBLType, nil)
				check("pin-mem-off-global", "no memory set is told when memory pinning is disabled policy-wide and not enabled by the balloon type", pinMemOffBLGlobal, nil)
				currentOnly := func(assume Assumption) bool {
					// in the preserved branch only the container's own current mems may be re-told
					return originAll(val, func(v ssa.Value) bool {
						call, ok := v.(*ssa.Call)
						return ok && callObj(call.Common()) == c.mGetCpusetMems && sameValue(callArgs(call)[0], target)
					})
				}
				check("mem-preserved", "a memory-preserved container is told nothing but (at most) its own current memory set", memPreserved, currentOnly)
			}
		})
	}
	r.MinInstances("CPU pinning sinks", nCPU, 2)
	r.MinInstances("memory pinning sinks", nMem, 4)

	// --- TA: memory-preserved requests are unmovable / have no cold start ------------
	c.checkTAPreservedUnmovable(r, taLoopSites, taReallocSites)

	// --- BL: CPU-preserved containers never become balloon members ----------------
	{
		alloc := r.Anchor(pkgBL, "balloons.AllocateResources")
		assign := r.Anchor(pkgBL, "balloons.assignContainer")
		if alloc != nil && assign != nil {
			for _, cs := range e.Callers(assign) {
				top := TopParent(cs.Fn)
				r.Check("R3:caller[assignContainer]@"+FnName(top), "R2 sink-guard", "assignContainer (the only way into a balloon's membership) is called only from AllocateResources",
					e.InstrPos(cs.Call), cs.Fn, top == alloc, "", false)
			}
			r.WhoMayWrite("R3", e.Field(pkgBL, "Balloon", "PodIDs"), "Balloon.PodIDs",
				set(FnName(assign), "(*"+short(pkgBL)+".balloons).dismissContainer", "(*"+short(pkgBL)+".balloons).newBalloon",
					"(*"+short(pkgBL)+".balloons).freeBalloon"), e.funcsInPkg(pkgBL))
			for _, ac := range e.callsTo(alloc, assign) {
				tgt := callArgs(ac)[1]
				r.Unreachable("R2:cpu-preserved@"+FnName(alloc)+"#assignContainer", "R2 sink-guard",
					"a container annotated cpu.preserve is never assigned to a balloon (so balloon re-pinning never reaches it)", alloc, nil,
					func(in ssa.Instruction) bool { return in == ac.(ssa.Instruction) }, cpuPreserved(alloc, tgt))
				// preserve rule from the configuration
				matchObj := e.FuncObj(pkgCfgBL, "ContainerMatchConfig.MatchContainer")
				r.Unreachable("R2:preserve-rule@"+FnName(alloc)+"#assignContainer", "R2 sink-guard",
					"a container matching a configured preserve rule is never assigned to a balloon", alloc, nil,
					func(in ssa.Instruction) bool { return in == ac.(ssa.Instruction) },
					func(cond ssa.Value) (bool, bool) {
						b, ok := cond.(*ssa.BinOp)
						if !ok {
							return false, false
						}
						isRule := func(v ssa.Value) bool {
							ex, ok := v.(*ssa.Extract)
							if !ok || ex.Index != 0 {
								return false
							}
							call, ok := ex.Tuple.(*ssa.Call)
							return ok && matchObj != nil && callObj(call.Common()) == matchObj
						}
						isErr := func(v ssa.Value) bool {
							ex, ok := v.(*ssa.Extract)
							if !ok || ex.Index != 1 {
								return false
							}
							call, ok := ex.Tuple.(*ssa.Call)
							return ok && matchObj != nil && callObj(call.Common()) == matchObj
						}
						if (b.Op == token.NEQ || b.Op == token.EQL) && isRule(b.X) {
							if k, ok := b.Y.(*ssa.Const); ok && k.Value != nil && k.Value.Kind() == constant.String && constant.StringVal(k.Value) == "" {
								return true, b.Op == token.NEQ // rule != ""
							}
						}
						if (b.Op == token.NEQ || b.Op == token.EQL) && isErr(b.X) && isNilConst(b.Y) {
							return true, b.Op == token.EQL // err == nil
						}
						// the Preserve section is configured
						if f, _ := loadedField(b.X); f != nil && f.Name() == "Preserve" && isNilConst(b.Y) {
							return true, b.Op == token.NEQ
						}
						return false, false
					})
			}
			r.MinKeys("R2:cpu-preserved@"+FnName(alloc), 1)
		}
	}

	// --- annotation sources -------------------------------------------------------
	for _, t := range []struct{ fn, key string }{{"container.PreserveCpuResources", "PreserveCpuKey"}, {"container.PreserveMemoryResources", "PreserveMemoryKey"}} {
		fn := r.Anchor(pkgCA, t.fn)
		if fn == nil {
			continue
		}
		eff := e.Fn(pkgCA, "container.GetEffectiveAnnotation")
		keyObj, _ := e.TypesPkg(pkgCA).Scope().Lookup(t.key).(*types.Const)
		ok := false
		for _, call := range e.callsTo(fn, eff) {
			a := callArgs(call)
			if k, isK := a[1].(*ssa.Const); isK && keyObj != nil && k.Value != nil && constant.Compare(k.Value, token.EQL, keyObj.Val()) {
				ok = true
			}
		}
		r.Check("R6:annotation-source@"+t.fn, "R6 annotation source", t.fn+" reads the effective (container > pod > bare) annotation "+t.key,
			e.Pos(fn.Pos()), fn, ok, "", true)
		// returns true only for ok && value == "true"
		okRet := true
		for _, ret := range Returns(fn) {
			v := ret.Results[0]
			good := false
			Origins(v, func(x ssa.Value) bool {
				if b, isB := x.(*ssa.BinOp); isB && b.Op == token.EQL {
					if k, isK := b.Y.(*ssa.Const); isK && k.Value != nil && k.Value.Kind() == constant.String && constant.StringVal(k.Value) == "true" {
						good = true
					}
				}
				return false
			})
			if !good {
				okRet = false
			}
		}
		r.Check("R6:annotation-value@"+t.fn, "R6 annotation source", t.fn+" is true exactly for the annotation value \"true\"", e.Pos(fn.Pos()), fn, okRet, "", true)
	}
	// TA: annotation -> class
	if fn := r.Anchor(pkgTA, "memoryTypePreference"); fn != nil {
		r.Unreachable("R6:ta-mem-preserve-class", "R6 annotation source", "with memory.preserve set, memoryTypePreference returns memoryPreserve", fn, nil,
			func(in ssa.Instruction) bool {
				ret, ok := in.(*ssa.Return)
				return ok && !isConstEq(ret.Results[0], c.memPreserve)
			}, func(cond ssa.Value) (bool, bool) {
				if call, ok := cond.(*ssa.Call); ok && callObj(call.Common()) == c.mPreserveMem {
					return true, true
				}
				return false, false
			})
	}
	if fn := r.Anchor(pkgTA, "cpuAllocationPreferences"); fn != nil {
		r.Unreachable("R6:ta-cpu-preserve-class", "R6 annotation source", "with cpu.preserve set, cpuAllocationPreferences returns class cpuPreserve", fn, nil,
			func(in ssa.Instruction) bool {
				ret, ok := in.(*ssa.Return)
				return ok && len(ret.Results) >= 4 && !isConstEq(ret.Results[3], c.cpuPreserve)
			}, func(cond ssa.Value) (bool, bool) {
				if call, ok := cond.(*ssa.Call); ok && callObj(call.Common()) == c.mPreserveCpu {
					return true, true
				}
				return false, false
			})
	}
	// TA: the class travels from the request into the grant unchanged, and nothing rewrites it afterwards — applyGrant and
	// the update loops recognise a preserved grant by `MemoryType() == memoryPreserve` / `CPUType() == cpuPreserve`
	{
		fMemT := e.Field(pkgTA, "grant", "memType")
		fCpuT := e.Field(pkgTA, "grant", "cpuType")
		setMT := e.Fn(pkgTA, "grant.SetMemoryType")
		alloc := e.Fn(pkgTA, "supply.Allocate")
		G := "(*" + short(pkgTA) + ".grant)."
		taFns := e.funcsInPkg(pkgTA)
		if fMemT != nil && fCpuT != nil && setMT != nil && alloc != nil {
			r.WhoMayWrite("R3", fMemT, "grant.memType", set(G+"SetMemoryType", short(pkgTA)+".newGrant", G+"Clone", "(*"+short(pkgTA)+".cachedGrant).ToGrant"), taFns)
			r.WhoMayWrite("R3", fCpuT, "grant.cpuType", set(short(pkgTA)+".newGrant", G+"Clone", "(*"+short(pkgTA)+".cachedGrant).ToGrant"), taFns)
			reqMT := e.objs(pkgTA, "Request.MemoryType", "request.MemoryType")
			nSet := 0
			for _, cs := range e.Callers(setMT) {
				nSet++
				a := callArgs(cs.Call)
				okSrc := false
				if c2, ok := a[len(a)-1].(*ssa.Call); ok && isCallOfObj(c2, reqMT) {
					okSrc = true // the request's own class
				}
				if f, _ := loadedField(a[len(a)-1]); f != nil && f.Name() == "MemType" {
					okSrc = true // restored from the persisted grant
				}
				r.Check("R3:grant-memtype-source@"+FnName(TopParent(cs.Fn)), "R6 annotation source", "a grant's memory class is set only from the request's class (or restored from the persisted grant); nothing derives it from where the memory ended up", e.InstrPos(cs.Call), cs.Fn,
					okSrc && (TopParent(cs.Fn) == alloc || strings.HasSuffix(FnName(TopParent(cs.Fn)), "ToGrant")), "", true)
			}
			// via the interface as well
			for _, fn := range taFns {
				for _, c2 := range allCallsOfObj(fn, e.objs(pkgTA, "Grant.SetMemoryType")) {
					nSet++
					a := callArgs(c2)
					okSrc := false
					if c3, ok := a[len(a)-1].(*ssa.Call); ok && isCallOfObj(c3, reqMT) {
						okSrc = true
					}
					if f, _ := loadedField(a[len(a)-1]); f != nil && f.Name() == "MemType" {
						okSrc = true
					}
					r.Check("R3:grant-memtype-source@"+FnName(TopParent(fn)), "R6 annotation source", "a grant's memory class is set only from the request's class (or restored from the persisted grant); nothing derives it from where the memory ended up", e.InstrPos(c2), fn,
						okSrc && (TopParent(fn) == alloc || strings.HasSuffix(FnName(TopParent(fn)), "ToGrant")), "", true)
				}
			}
			r.MinInstances("setters of the grant's memory class", nSet, 1)
			// Allocate hands the request's class to every grant it returns
			r.MustPass("R1:grant-carries-request-memtype", "R6 annotation source", "every grant supply.Allocate returns carries the request's memory class", alloc, nil, e.maySucceed,
				func(in ssa.Instruction) bool {
					ci, ok := in.(ssa.CallInstruction)
					if !ok || callObj(ci.Common()) == nil || callObj(ci.Common()).Name() != "SetMemoryType" {
						return false
					}
					a := callArgs(ci)
					c3, ok := a[len(a)-1].(*ssa.Call)
					return ok && isCallOfObj(c3, reqMT)
				}, nil)
		}
	}
	_ = strings.Join
}

func isNilIface(v interface{}) bool {
	switch x := v.(type) {
	case nil:
		return true
	case *ssa.Global:
		return x == nil
	case *types.Var:
		return x == nil
	case *types.Const:
		return x == nil
	case *types.Func:
		return x == nil
	case *ssa.Function:
		return x == nil
	}
	return false
}

// isGrantFromUpdateLoop: g was looked up in allocations.grants under a key
// that is the key variable of a range over a map (libmem's updates).
func (c *c12ctx) isGrantFromUpdateLoop(g ssa.Value) bool {
	fGrants := c.e.Field(pkgTA, "allocations", "grants")
	found := false
	Origins(g, func(v ssa.Value) bool {
		ex, ok := v.(*ssa.Extract)
		if !ok || ex.Index != 0 {
			return false
		}
		lk, ok := ex.Tuple.(*ssa.Lookup)
		if !ok {
			return false
		}
		if f, _ := loadedField(lk.X); f != fGrants {
			return false
		}
		kx, ok := lk.Index.(*ssa.Extract)
		if !ok || kx.Index != 1 {
			return false
		}
		if nx, ok := kx.Tuple.(*ssa.Next); ok {
			if _, ok := nx.Iter.(*ssa.Range); ok {
				found = true
			}
		}
		return true
	})
	return found
}

// checkTAPreservedUnmovable decides the structural chain that replaces a
// local memory-preserve guard in the topology-aware zone-update loops:
//
//	(a) getMemOffer asks libmem for the pool's *full* memory set when the request is memoryPreserve,
//	(b) every caller hands getMemOffer the root pool for such a request,
//	(c) libmem moves requests only after expand() found new nodes,
//	(d) the topology-aware policy installs no custom expansion,
//	(e) a memoryPreserve request never gets a cold-start period.
//
// The remaining value-level premise (the root pool's memory set is every node
// with memory, so nothing is left to expand to) is listed as an assumption; an
// attempt to demonstrate a preserved container being re-told in this policy
// was refuted (demos/C12-ta-memory-preserve-refuted).
func (c *c12ctx) checkTAPreservedUnmovable(r *Report, loopSites, reallocSites []string) {
	e := c.e
	r.MinInstances("TA zone-update loop sinks", len(loopSites), 2)
	getOffer := r.Anchor(pkgTA, "policy.getMemOffer")
	if getOffer == nil {
		return
	}
	memAll, _ := e.TypesPkg(pkgTA).Scope().Lookup("memoryAll").(*types.Const)
	reqMemType := []*types.Func{e.FuncObj(pkgTA, "Request.MemoryType"), e.FuncObj(pkgTA, "request.MemoryType")}
	preserveAssume := func(val bool) Assumption {
		return func(cond ssa.Value) (bool, bool) {
			b, ok := cond.(*ssa.BinOp)
			if !ok || (b.Op != token.EQL && b.Op != token.NEQ) {
				return false, false
			}
			for _, pr := range [][2]ssa.Value{{b.X, b.Y}, {b.Y, b.X}} {
				if !isConstEq(pr[1], c.memPreserve) {
					continue
				}
				isMT := false
				Origins(pr[0], func(v ssa.Value) bool {
					if call, ok := v.(*ssa.Call); ok {
						o := callObj(call.Common())
						for _, m := range reqMemType {
							if o == m {
								isMT = true
							}
						}
					}
					return false
				})
				if isMT {
					return true, (b.Op == token.EQL) == val
				}
			}
			return false, false
		}
	}
	// (a)
	getMemset := e.FuncObj(pkgTA, "Node.GetMemset")
	nAll, bad := 0, ""
	AllInstrs(getOffer, func(in ssa.Instruction) {
		ci, ok := in.(ssa.CallInstruction)
		if !ok || callObj(ci.Common()) != getMemset {
			return
		}
		if FindPath(PathQuery{Fn: getOffer, Assume: preserveAssume(true), Target: func(t ssa.Instruction) bool { return t == in }}) == nil {
			return
		}
		a := callArgs(ci)
		if len(a) == 2 && isConstEq(a[1], memAll) && paramIndex(a[0]) == 1 {
			nAll++
		} else {
			bad = e.InstrPos(in)
		}
	})
	r.Check("R2:ta-preserved-unmovable#full-memset", "R2 sink-guard",
		"getMemOffer requests the pool's full memory set (memoryAll) for a memoryPreserve request", e.Pos(getOffer.Pos()), getOffer, nAll >= 1 && bad == "", bad, true)
	// (b)
	fRoot := e.Field(pkgTA, "policy", "root")
	nb := 0
	for _, cs := range e.Callers(getOffer) {
		a := callArgs(cs.Call)
		if len(a) != 3 {
			continue
		}
		nb++
		allRoot, any := true, false
		OriginsUnder(cs.Fn, a[1], preserveAssume(true), func(v ssa.Value) bool {
			switch v.(type) {
			case *ssa.Phi:
				return false
			case *ssa.UnOp:
				if u := v.(*ssa.UnOp); u.Op == token.MUL {
					if al, ok := u.X.(*ssa.Alloc); ok {
						// local variable: follow its reaching stores that are feasible under the assumption
						for _, st := range reachingStores(al, u) {
							if reachableBlock(cs.Fn, st.Block(), preserveAssume(true)) {
								any = true
								if f, _ := loadedField(st.Val); f != fRoot {
									allRoot = false
								}
							}
						}
						return true
					}
				}
			}
			any = true
			if f, _ := loadedField(v); f != fRoot {
				allRoot = false
			}
			return true
		})
		r.Check("R2:ta-preserved-unmovable#root-pool@"+FnName(cs.Fn), "R2 sink-guard",
			"for a memoryPreserve request the pool handed to getMemOffer is the root pool", e.InstrPos(cs.Call), cs.Fn, allRoot && any, "", true)
	}
	r.MinInstances("getMemOffer callers", nb, 2)
	// (c)
	shrink := r.Anchor(pkgLM, "Allocator.zoneShrinkUsage")
	expand := e.Fn(pkgLM, "Allocator.expand")
	zoneMove := e.Fn(pkgLM, "Allocator.zoneMove")
	if shrink != nil && expand != nil && zoneMove != nil {
		ecs := e.callsTo(shrink, expand)
		okC := len(ecs) == 1
		if okC {
			call := ecs[0].Value()
			okC = FindPath(PathQuery{Fn: shrink, Assume: func(cond ssa.Value) (bool, bool) {
				b, ok := cond.(*ssa.BinOp)
				if ok && (b.Op == token.EQL || b.Op == token.NEQ) {
					if ex, ok := b.X.(*ssa.Extract); ok && ex.Tuple == call && ex.Index == 0 && isConstInt(b.Y, 0) {
						return true, b.Op == token.EQL
					}
				}
				return false, false
			}, Target: func(in ssa.Instruction) bool { return e.IsCallTo(in, fset(zoneMove)) }}) == nil
		}
		r.Check("R2:ta-preserved-unmovable#move-needs-expansion", "R2 sink-guard",
			"libmem's zoneShrinkUsage moves no request when expand() finds no new nodes for the zone", e.Pos(shrink.Pos()), shrink, okC, "", true)
	}
	// (d)
	custom := e.Fn(pkgLM, "WithCustomFunctions")
	usesCustom := false
	for _, fn := range e.funcsInPkg(pkgTA) {
		AllInstrs(fn, func(in ssa.Instruction) {
			if custom != nil && e.IsCallTo(in, fset(custom)) {
				usesCustom = true
			}
		})
	}
	r.Check("R2:ta-preserved-unmovable#no-custom-expansion", "R2 sink-guard", "the topology-aware policy installs no custom libmem expansion/overcommit functions",
		"-", nil, !usesCustom, "", false)
	// (e)
	if nr := r.Anchor(pkgTA, "newRequest"); nr != nil {
		fCold := e.Field(pkgTA, "request", "coldStart")
		memPref := e.Fn(pkgTA, "memoryAllocationPreference")
		// mtype is the third result of memoryAllocationPreference
		assume := func(cond ssa.Value) (bool, bool) {
			b, ok := cond.(*ssa.BinOp)
			if !ok || (b.Op != token.EQL && b.Op != token.NEQ) {
				return false, false
			}
			isM := false
			Origins(b.X, func(v ssa.Value) bool {
				if ex, ok := v.(*ssa.Extract); ok && ex.Index == 2 {
					if call, ok := ex.Tuple.(*ssa.Call); ok && e.IsCallTo(call, fset(memPref)) {
						isM = true
					}
				}
				return false
			})
			if !isM {
				return false, false
			}
			if isConstEq(b.Y, c.memPreserve) {
				return true, b.Op == token.EQL
			}
			// mtype == memoryUnspec is false for a preserved request
			if k, ok := b.Y.(*ssa.Const); ok && k.Value != nil && isConstInt(k, 0) {
				return true, b.Op == token.NEQ
			}
			return false, false
		}
		okE, n := true, 0
		AllInstrs(nr, func(in ssa.Instruction) {
			st, ok := in.(*ssa.Store)
			if !ok || fieldOfAddr(st.Addr) != fCold {
				return
			}
			n++
			OriginsUnder(nr, st.Val, assume, func(v ssa.Value) bool {
				if _, isPhi := v.(*ssa.Phi); isPhi {
					return false
				}
				if u, ok := v.(*ssa.UnOp); ok && u.Op == token.MUL {
					if al, ok := u.X.(*ssa.Alloc); ok {
						for _, s2 := range reachingStores(al, u) {
							if reachableBlock(nr, s2.Block(), assume) {
								if k, ok := s2.Val.(*ssa.Const); !ok || !isConstInt(k, 0) {
									if cv, ok := s2.Val.(*ssa.Convert); !ok || !isZeroConst(cv.X) {
										okE = false
									}
								}
							}
						}
						return true
					}
				}
				if !isZeroConst(v) {
					okE = false
				}
				return true
			})
		})
		r.Check("R2:ta-preserved-no-coldstart", "R2 sink-guard",
			"newRequest gives a memoryPreserve request a zero cold-start period (so grant.ReallocMemory is never run for it)", e.Pos(nr.Pos()), nr, okE && n >= 1, "", true)
	}
	_ = reallocSites
}

func isZeroConst(v ssa.Value) bool {
	if cv, ok := v.(*ssa.Convert); ok {
		v = cv.X
	}
	k, ok := v.(*ssa.Const)
	return ok && k.Value != nil && isConstInt(k, 0)
}
