package main

import (
	"fmt"
	"go/token"
	"sort"
	"strings"

	"golang.org/x/tools/go/ssa"
)

// Re-pin coverage (C01): every grant whose told cpuset includes CPUs of the
// pool's shared set must be refreshed when that shared set changes, i.e.
//
//	applyGrant tells g a set containing SharedCPUs(g)   ⇒   updateSharedAllocations does not skip g
//
// decided propositionally: the branch conditions of both functions are atoms
// over the grant (IsEmpty(<Set>(g)), <Portion>(g) > 0, CPUType(g) == K); for
// every valuation of the atoms under which applyGrant may tell a
// shared-including set, no loop iteration of updateSharedAllocations may end
// without the re-pin call (given the grant is another container's, CPU
// pinning is on, and the loop has an entry).

type grantAtom struct {
	enum   bool
	key    string
	konst  string // enum: the constant compared with
	negate bool   // bool: cond true means the atom is false; enum: cond true means != konst
}

func grantAtomOf(e *Engine, cond ssa.Value, isG func(ssa.Value) bool) (grantAtom, bool) {
	cz := &canonizer{e: e, unit: isG, seen: map[ssa.Value]bool{}}
	mentionsUnit := func(s string) bool { return strings.Contains(s, "·unit") }
	switch x := cond.(type) {
	case *ssa.Call:
		if o := callObj(x.Common()); o != nil && o.Name() == "IsEmpty" {
			s := cz.str(x)
			if mentionsUnit(s) {
				return grantAtom{key: s}, true
			}
		}
	case *ssa.BinOp:
		k, isK := x.Y.(*ssa.Const)
		if !isK || k.Value == nil {
			return grantAtom{}, false
		}
		lhs := cz.str(x.X)
		if !mentionsUnit(lhs) {
			return grantAtom{}, false
		}
		if v, ok := constIntVal(x.Y); ok && v == 0 && isIntType(x.X.Type()) && !isNamedEnum(x.X) {
			switch x.Op {
			case token.GTR, token.NEQ:
				return grantAtom{key: lhs + ">0"}, true
			case token.EQL, token.LEQ:
				return grantAtom{key: lhs + ">0", negate: true}, true
			}
			return grantAtom{}, false
		}
		switch x.Op {
		case token.EQL:
			return grantAtom{enum: true, key: lhs, konst: k.Value.ExactString()}, true
		case token.NEQ:
			return grantAtom{enum: true, key: lhs, konst: k.Value.ExactString(), negate: true}, true
		}
	}
	return grantAtom{}, false
}

// isNamedEnum: the value has a named (non-basic) integer type such as cpuClass — compared for identity, not sign.
func isNamedEnum(v ssa.Value) bool {
	return namedOf(v.Type()) != nil
}

type grantValuation struct {
	bools map[string]bool
	enums map[string]string
}

func (v grantValuation) String() string {
	var parts []string
	for k, b := range v.bools {
		if strings.Contains(k, "φ{") {
			continue
		}
		if b {
			parts = append(parts, k)
		} else {
			parts = append(parts, "¬"+k)
		}
	}
	for k, c := range v.enums {
		if strings.Contains(k, "φ{") {
			continue
		}
		parts = append(parts, k+"="+c)
	}
	sort.Strings(parts)
	return strings.Join(parts, " ∧ ")
}

func (v grantValuation) assumption(e *Engine, isG func(ssa.Value) bool, extra Assumption) Assumption {
	return func(cond ssa.Value) (bool, bool) {
		if extra != nil {
			if k, val := extra(cond); k {
				return true, val
			}
		}
		a, ok := grantAtomOf(e, cond, isG)
		if !ok {
			return false, false
		}
		if a.enum {
			c, have := v.enums[a.key]
			if !have {
				return false, false
			}
			return true, (c == a.konst) != a.negate
		}
		b, have := v.bools[a.key]
		if !have {
			return false, false
		}
		return true, b != a.negate
	}
}

func checkRepinCoverage(e *Engine, r *Report) {
	rule := "R1 re-pin after every change"
	apply := r.Anchor(pkgTA, "policy.applyGrant")
	usa := r.Anchor(pkgTA, "policy.updateSharedAllocations")
	setPref := e.Fn(pkgTA, "policy.setPreferredCpusetCpus")
	if apply == nil || usa == nil || setPref == nil {
		return
	}
	key := "R1:told-shared-implies-refreshed"
	what := "every grant that applyGrant tells a cpuset containing CPUs of its pool's shared set is re-pinned by updateSharedAllocations when that set changes (the two functions agree on which grants have a shared part)"
	// --- applyGrant side
	isGA := func(v ssa.Value) bool { return paramIndex(v) == 1 && valueFn(v) == apply }
	sinksA := e.callsTo(apply, setPref)
	if len(sinksA) == 0 {
		r.Undecided(key, rule, what, e.Pos(apply.Pos()), apply, "applyGrant has no setPreferredCpusetCpus call")
		return
	}
	cz := &canonizer{e: e, unit: isGA, seen: map[ssa.Value]bool{}}
	type leaf struct {
		pred *ssa.BasicBlock
		at   ssa.Instruction
	}
	var leaves []leaf
	var collect func(v ssa.Value, at ssa.Instruction, depth int)
	collect = func(v ssa.Value, at ssa.Instruction, depth int) {
		if ph, ok := v.(*ssa.Phi); ok && depth < 6 {
			for i, ed := range ph.Edges {
				collect(ed, lastInstr(ph.Block().Preds[i]), depth+1)
			}
			return
		}
		bs := map[string]bool{}
		cz.set(v).bases(bs)
		for b := range bs {
			if strings.HasPrefix(b, "SharedCPUs(·unit") {
				leaves = append(leaves, leaf{at: at})
			}
		}
	}
	for _, c := range sinksA {
		collect(callArgs(c)[2], c.(ssa.Instruction), 0)
	}
	if len(leaves) == 0 {
		r.Undecided(key, rule, what, e.Pos(apply.Pos()), apply, "no told set containing SharedCPUs(grant) found in applyGrant")
		return
	}
	// --- updateSharedAllocations side
	var next *ssa.Next
	AllInstrsOf(usa, func(in ssa.Instruction) {
		if n, ok := in.(*ssa.Next); ok {
			if rg, ok := n.Iter.(*ssa.Range); ok {
				if f, _ := loadedField(rg.X); f != nil && f.Name() == "grants" {
					next = n
				}
			}
		}
	})
	if next == nil {
		r.Undecided(key, rule, what, e.Pos(usa.Pos()), usa, "no loop over the grants found in updateSharedAllocations")
		return
	}
	isGU := func(v ssa.Value) bool {
		ex, ok := v.(*ssa.Extract)
		return ok && ex.Tuple == ssa.Value(next) && ex.Index == 2
	}
	getID := "GetID"
	extraU := func(cond ssa.Value) (bool, bool) {
		if ex, ok := cond.(*ssa.Extract); ok && ex.Tuple == ssa.Value(next) && ex.Index == 0 {
			return true, true
		}
		if f, _ := loadedField(cond); f != nil && f.Name() == "PinCPU" {
			return true, true
		}
		if b, ok := cond.(*ssa.BinOp); ok && (b.Op == token.EQL || b.Op == token.NEQ) {
			cx, okx := b.X.(*ssa.Call)
			cy, oky := b.Y.(*ssa.Call)
			if okx && oky && callObj(cx.Common()) != nil && callObj(cy.Common()) != nil && callObj(cx.Common()).Name() == getID && callObj(cy.Common()).Name() == getID {
				return true, b.Op == token.NEQ // another container's grant
			}
		}
		return false, false
	}
	isSinkU := func(in ssa.Instruction) bool { return e.IsCallTo(in, fset(setPref)) }
	// --- atoms
	bools := map[string]bool{}
	enums := map[string]map[string]bool{}
	scan := func(fn *ssa.Function, isG func(ssa.Value) bool) {
		AllInstrsOf(fn, func(in ssa.Instruction) {
			ifi, ok := in.(*ssa.If)
			if !ok {
				return
			}
			var visit func(c ssa.Value, d int)
			visit = func(c ssa.Value, d int) {
				if d > 4 {
					return
				}
				if u, ok := c.(*ssa.UnOp); ok && u.Op == token.NOT {
					visit(u.X, d+1)
					return
				}
				if ph, ok := c.(*ssa.Phi); ok {
					for _, ed := range ph.Edges {
						visit(ed, d+1)
					}
					return
				}
				if a, ok := grantAtomOf(e, c, isG); ok {
					if a.enum {
						if enums[a.key] == nil {
							enums[a.key] = map[string]bool{}
						}
						enums[a.key][a.konst] = true
					} else {
						bools[a.key] = true
					}
				}
			}
			visit(ifi.Cond, 0)
		})
	}
	scan(apply, isGA)
	scan(usa, isGU)
	var bkeys, ekeys []string
	for k := range bools {
		bkeys = append(bkeys, k)
	}
	for k := range enums {
		ekeys = append(ekeys, k)
	}
	sort.Strings(bkeys)
	sort.Strings(ekeys)
	if len(bkeys) > 8 || len(ekeys) > 4 {
		r.Undecided(key, rule, what, e.Pos(apply.Pos()), apply, fmt.Sprintf("too many atoms (boolean %v, enumerated %v)", bkeys, ekeys))
		return
	}
	// enumerate valuations
	var evals []map[string]string
	evals = append(evals, map[string]string{})
	for _, k := range ekeys {
		var vals []string
		for c := range enums[k] {
			vals = append(vals, c)
		}
		sort.Strings(vals)
		vals = append(vals, "<other>")
		var nx []map[string]string
		for _, m := range evals {
			for _, c := range vals {
				m2 := map[string]string{}
				for kk, vv := range m {
					m2[kk] = vv
				}
				m2[k] = c
				nx = append(nx, m2)
			}
		}
		evals = nx
	}
	nVal, nInc := 0, 0
	ok, why := true, ""
	for _, em := range evals {
		for mask := 0; mask < 1<<uint(len(bkeys)); mask++ {
			v := grantValuation{bools: map[string]bool{}, enums: em}
			for i, k := range bkeys {
				v.bools[k] = mask&(1<<uint(i)) != 0
			}
			nVal++
			aA := v.assumption(e, isGA, func(cond ssa.Value) (bool, bool) {
				if f, _ := loadedField(cond); f != nil && f.Name() == "PinCPU" {
					return true, true
				}
				return false, false
			})
			includes := false
			for _, lf := range leaves {
				at := lf.at
				if FindPath(PathQuery{Fn: apply, Assume: aA, Target: func(x ssa.Instruction) bool { return x == at }}) == nil {
					continue
				}
				reach := false
				for _, c := range sinksA {
					ci := c.(ssa.Instruction)
					if ci == at || FindPath(PathQuery{Fn: apply, From: at, Assume: aA, Target: func(x ssa.Instruction) bool { return x == ci }}) != nil {
						reach = true
					}
				}
				if reach {
					includes = true
				}
			}
			if !includes {
				continue
			}
			nInc++
			aU := v.assumption(e, isGU, extraU)
			if bp := FindPath(PathQuery{Fn: usa, From: next, Assume: aU, Block: isSinkU, Target: func(x ssa.Instruction) bool { return x == ssa.Instruction(next) }}); bp != nil && ok {
				ok = false
				why = "for a grant with " + strings.ReplaceAll(v.String(), "·unit", "g") + " applyGrant tells a set containing the pool's shared CPUs, but updateSharedAllocations skips it: " + e.pathString(bp)
			}
		}
	}
	if nInc == 0 {
		ok, why = false, "no valuation under which applyGrant tells a shared-including set: rule matched nothing"
	}
	r.Check(key, rule, what, e.Pos(usa.Pos()), usa, ok, fmt.Sprintf("%s (%d valuations of %d boolean and %d enumerated atoms, %d with a shared part)", why, nVal, len(bkeys), len(ekeys), nInc), true)
}
