package main

import (
	"fmt"
	"go/token"
	"go/types"
	"strings"

	"golang.org/x/tools/go/ssa"
)

// C04 — memory pinning follows the allocator and never oversubscribes a zone.
func init() { register("C04", "memory pinning follows the allocator", checkC04) }

func checkC04(e *Engine, r *Report) {
	r.Rules = []string{
		"data-flow: every call in the two policies that yields libmem's `updates` map (Allocate, Realloc, Offer.Commit and the repository wrappers that forward it) either forwards the map to its own caller or ranges over it and, for the container/grant looked up under each key, tells the entry's node mask to the runtime (SetCpusetMems(value.MemsetString())) and, in the topology-aware policy, records it in the grant (SetMemoryZone(value)); the map is never dropped",
		"data-flow: the requester's own zone result is forwarded, recorded in the grant, or told to the runtime in the same function (except for a memory-preserved container, which is accounted but not re-pinned)",
		"zone source: in the topology-aware applyGrant the memory set told is the grant's recorded zone whenever memory pinning is enabled; the node mask is rendered with MemsetString()",
		"R1 the zone handed back is final (shared with C07): Allocate/realloc return the request's recorded zone read after overcommit handling",
		"R1 fit check on every admission (shared with C07): allocate/realloc succeed only with the verdict of a fresh overcommit check; zoneFree = capacity - usage; usage sums all sub-zones",
		"delivery: the SetCpusetMems calls mark the containers pending and the enclosing handlers drain pending updates in the same reply (C05)",
		"round 4: checkOvercommit lists and records the deficit (-free) of every relevant zone with negative free capacity; zoneUsage's filter is equivalent to 'nodes within zone' in the mask algebra, complete and exclusive; R15 no lost update of Request.zone/types; balloons allocMem re-allocates exactly the containers the allocator holds an assignment for",
	}
	r.NotDecided = []string{"capacity arithmetic over histories", "that the node sets are non-empty and name existing nodes with memory (run-time values)"}
	r.Assumptions = []string{"C05 holds (pending marks are drained into the reply of the same request)"}

	nmT := e.Named(pkgLM, "NodeMask")
	if nmT == nil {
		r.Undecided("anchor:NodeMask", "anchor", "libmem.NodeMask exists", "-", nil, "not found")
		return
	}
	isUpdatesType := func(t types.Type) bool {
		m, ok := t.Underlying().(*types.Map)
		if !ok {
			return false
		}
		b, ok := m.Key().Underlying().(*types.Basic)
		return ok && b.Kind() == types.String && types.Identical(m.Elem(), nmT)
	}
	setMems := e.objs(pkgCA, "Container.SetCpusetMems")
	setZone := e.objs(pkgTA, "Grant.SetMemoryZone", "grant.SetMemoryZone")
	memsetString := e.FuncObj(pkgLM, "NodeMask.MemsetString")
	preserveMem := e.objs(pkgCA, "Container.PreserveMemoryResources")
	fGrants := e.Field(pkgTA, "allocations", "grants")
	lookupCtr := e.objs(pkgCA, "Cache.LookupContainer")
	fMemZone := e.Field(pkgTA, "grant", "memZone")

	// isMemsetStringOf: v == X.MemsetString() with X derived from `from`
	isMemsetStringOf := func(v ssa.Value, from func(ssa.Value) bool) bool {
		call, ok := v.(*ssa.Call)
		if !ok || callObj(call.Common()) != memsetString {
			return false
		}
		found := false
		Origins(callArgs(call)[0], func(x ssa.Value) bool {
			if from(x) {
				found = true
				return true
			}
			return false
		})
		return found
	}

	nUpd, nZone := 0, 0
	for _, pkg := range []string{pkgTA, pkgBL} {
		for _, fn := range e.funcsInPkg(pkg) {
			AllInstrs(fn, func(in ssa.Instruction) {
				call, ok := in.(*ssa.Call)
				if !ok {
					return
				}
				tup, ok := call.Type().(*types.Tuple)
				var updIdx, zoneIdx = -1, -1
				if ok {
					for i := 0; i < tup.Len(); i++ {
						if isUpdatesType(tup.At(i).Type()) {
							updIdx = i
						}
						if types.Identical(tup.At(i).Type(), nmT) {
							zoneIdx = i
						}
					}
				} else if isUpdatesType(call.Type()) {
					updIdx = -2 // single result
				}
				if updIdx == -1 {
					return
				}
				name := "call"
				if o := callObj(call.Common()); o != nil {
					name = o.Name()
				}
				site := FnName(TopParent(fn)) + "<-" + name
				// the updates value
				var upd ssa.Value
				if updIdx == -2 {
					upd = call
				} else {
					for _, ref := range *call.Referrers() {
						if ex, ok := ref.(*ssa.Extract); ok && ex.Index == updIdx {
							upd = ex
						}
					}
				}
				nUpd++
				if upd == nil {
					r.Check("R1:updates-used@"+site, "data-flow updates applied", "the map of other containers' new zones returned by "+name+" is not discarded", e.InstrPos(in), fn, false, "result ignored", true)
				} else {
					forwarded, ranged := false, (*ssa.Range)(nil)
					var walk func(v ssa.Value, d int)
					seen := map[ssa.Value]bool{}
					walk = func(v ssa.Value, d int) {
						if seen[v] || d > 8 {
							return
						}
						seen[v] = true
						refs := v.Referrers()
						if refs == nil {
							return
						}
						for _, ref := range *refs {
							switch x := ref.(type) {
							case *ssa.Return:
								forwarded = true
							case *ssa.Range:
								ranged = x
							case *ssa.Phi:
								walk(x, d+1)
							case *ssa.Store:
								// spilled into a local (named result / captured variable): follow its loads
								if al, ok := x.Addr.(*ssa.Alloc); ok && x.Val == v {
									for _, r2 := range *al.Referrers() {
										if u, ok := r2.(*ssa.UnOp); ok && u.Op == token.MUL {
											walk(u, d+1)
										}
									}
								}
							}
						}
					}
					walk(upd, 0)
					switch {
					case forwarded:
						r.Check("R1:updates-used@"+site, "data-flow updates applied", "the updates map from "+name+" is forwarded to the caller (which must apply it)", e.InstrPos(in), fn, true, "forwarded", true)
					case ranged == nil:
						r.Check("R1:updates-used@"+site, "data-flow updates applied", "the updates map from "+name+" is applied in a loop or forwarded", e.InstrPos(in), fn, false, "neither ranged over nor returned", true)
					default:
						// inside the loop: SetCpusetMems(value.MemsetString()) on the container found under the key
						var next *ssa.Next
						for _, ref := range *ranged.Referrers() {
							if n, ok := ref.(*ssa.Next); ok {
								next = n
							}
						}
						isRangeVal := func(x ssa.Value) bool {
							ex, ok := x.(*ssa.Extract)
							return ok && ex.Tuple == next && ex.Index == 2
						}
						isRangeKey := func(x ssa.Value) bool {
							ex, ok := x.(*ssa.Extract)
							return ok && ex.Tuple == next && ex.Index == 1
						}
						pinned, recorded, keyed := false, false, false
						AllInstrs(fn, func(x ssa.Instruction) {
							if isCallOfObj(x, setMems) {
								a := callArgs(x.(ssa.CallInstruction))
								if isMemsetStringOf(a[1], isRangeVal) {
									pinned = true
									// receiver found under the range key
									Origins(a[0], func(v ssa.Value) bool {
										if c2, ok := v.(*ssa.Call); ok {
											// g.GetContainer() on a grant looked up by key, or LookupContainer(key)
											if isCallOfObj(c2, lookupCtr) && isRangeKey(callArgs(c2)[1]) {
												keyed = true
											}
											for _, aa := range callArgs(c2) {
												Origins(aa, func(w ssa.Value) bool {
													if lk, ok := w.(*ssa.Lookup); ok {
														if f, _ := loadedField(lk.X); f == fGrants && isRangeKey(lk.Index) {
															keyed = true
														}
													}
													if ex, ok := w.(*ssa.Extract); ok {
														if lk, ok := ex.Tuple.(*ssa.Lookup); ok {
															if f, _ := loadedField(lk.X); f == fGrants && isRangeKey(lk.Index) {
																keyed = true
															}
														}
														if c3, ok := ex.Tuple.(*ssa.Call); ok && isCallOfObj(c3, lookupCtr) && isRangeKey(callArgs(c3)[1]) {
															keyed = true
														}
													}
													return false
												})
											}
										}
										if ex, ok := v.(*ssa.Extract); ok {
											if c3, ok := ex.Tuple.(*ssa.Call); ok && isCallOfObj(c3, lookupCtr) && isRangeKey(callArgs(c3)[1]) {
												keyed = true
											}
										}
										return false
									})
								}
							}
							if isCallOfObj(x, setZone) {
								a := callArgs(x.(ssa.CallInstruction))
								if len(a) == 2 && isRangeVal(a[1]) {
									recorded = true
								}
							}
						})
						r.Check("R1:updates-used@"+site, "data-flow updates applied", "the updates map from "+name+" is applied in a loop", e.InstrPos(in), fn, true, "ranged over", true)
						// … on every path on which the call succeeded
						if next != nil {
							var errEx ssa.Value
							for _, ref := range *call.Referrers() {
								if ex, ok := ref.(*ssa.Extract); ok && isErrorType(ex.Type()) {
									errEx = ex
								}
							}
							succeeded := func(cond ssa.Value) (bool, bool) {
								b, ok := cond.(*ssa.BinOp)
								if !ok || (b.Op != token.EQL && b.Op != token.NEQ) || errEx == nil {
									return false, false
								}
								isErr := func(v ssa.Value) bool {
									hit := false
									Origins(v, func(x ssa.Value) bool {
										if x == errEx {
											hit = true
										}
										return hit
									})
									return hit
								}
								for _, pr := range [][2]ssa.Value{{b.X, b.Y}, {b.Y, b.X}} {
									if k, isK := pr[1].(*ssa.Const); isK && k.IsNil() && isErr(pr[0]) {
										return true, b.Op == token.EQL
									}
								}
								return false, false
							}
							bp := FindPath(PathQuery{Fn: ranged.Parent(), From: in, Assume: succeeded, Block: func(x ssa.Instruction) bool { return x == ssa.Instruction(ranged) },
								Target: func(x ssa.Instruction) bool { _, ok := x.(*ssa.Return); return ok }})
							r.Check("R1:updates-applied-on-every-success-path@"+site, "data-flow updates applied", "whenever "+name+" succeeded, the function does not return before the loop that applies the other containers' new zones", e.InstrPos(in), fn, bp == nil,
								"returns without applying the updates: "+e.pathString(bp), true)
						}
						r.Check("R1:updates-pinned@"+site, "data-flow updates applied", "each updated container is told its new node mask (SetCpusetMems(entry.MemsetString()))", e.InstrPos(ranged), fn, pinned, "", true)
						r.Check("R1:updates-addressed@"+site, "data-flow updates applied", "the container told is the one the update entry is keyed by", e.InstrPos(ranged), fn, keyed, "", true)
						// no entry is skipped: from one iteration to the next every path passes the sink, unless the keyed
						// container/grant is unknown, is memory-preserved, or memory pinning is disabled
						if next != nil {
							benign := func(cond ssa.Value) (bool, bool) {
								if ex, ok := cond.(*ssa.Extract); ok && ex.Index == 0 && ex.Tuple == ssa.Value(next) {
									return true, true // this iteration has an entry (leaving and re-entering the loop is not a skipped entry)
								}
								if ex, ok := cond.(*ssa.Extract); ok && ex.Index == 1 {
									switch t := ex.Tuple.(type) {
									case *ssa.Lookup:
										if t.CommaOk {
											return true, true
										}
									case *ssa.Call:
										return true, true
									}
								}
								if c, ok := cond.(*ssa.Call); ok && callObj(c.Common()) != nil && callObj(c.Common()).Name() == "PreserveMemoryResources" {
									return true, false
								}
								if f, _ := loadedField(cond); f != nil && f.Name() == "PinMemory" {
									return true, true
								}
								return false, false
							}
							sinks := []struct {
								key, what string
								is        func(ssa.Instruction) bool
							}{{"pinned", "told its new node mask", func(x ssa.Instruction) bool {
								if !isCallOfObj(x, setMems) {
									return false
								}
								return isMemsetStringOf(callArgs(x.(ssa.CallInstruction))[1], isRangeVal)
							}}}
							if pkg == pkgTA {
								sinks = append(sinks, struct {
									key, what string
									is        func(ssa.Instruction) bool
								}{"recorded", "recorded in its grant", func(x ssa.Instruction) bool {
									if !isCallOfObj(x, setZone) {
										return false
									}
									a := callArgs(x.(ssa.CallInstruction))
									return len(a) == 2 && isRangeVal(a[1])
								}})
							}
							for _, sk := range sinks {
								bp := FindPath(PathQuery{Fn: next.Parent(), From: next, Assume: benign, Block: sk.is, Target: func(x ssa.Instruction) bool { return x == ssa.Instruction(next) }})
								r.Check("R1:updates-no-entry-skipped#"+sk.key+"@"+site, "data-flow updates applied", "no entry of the updates map is skipped: every known, not memory-preserved container in it is "+sk.what+" (with memory pinning enabled)", e.InstrPos(ranged), fn, bp == nil,
									"an iteration can end without the call: "+e.pathString(bp), true)
							}
						}
						if pkg == pkgTA {
							r.Check("R1:updates-recorded@"+site, "data-flow updates applied", "the grant of each updated container records its new zone (SetMemoryZone(entry))", e.InstrPos(ranged), fn, recorded, "", true)
						}
					}
				}
				// the requester's own zone
				if zoneIdx >= 0 {
					nZone++
					var zone ssa.Value
					for _, ref := range *call.Referrers() {
						if ex, ok := ref.(*ssa.Extract); ok && ex.Index == zoneIdx {
							zone = ex
						}
					}
					applied, why := false, ""
					forwarded, recorded, told := false, false, false
					if zone != nil {
						seen := map[ssa.Value]bool{}
						var walk func(v ssa.Value, d int)
						walk = func(v ssa.Value, d int) {
							if seen[v] || d > 8 || v.Referrers() == nil {
								return
							}
							seen[v] = true
							for _, ref := range *v.Referrers() {
								switch x := ref.(type) {
								case *ssa.Return:
									applied, why = true, "forwarded to the caller"
									forwarded = true
								case *ssa.Phi:
									walk(x, d+1)
								case *ssa.Store:
									if fieldOfAddr(x.Addr) == fMemZone {
										applied, why = true, "recorded in the grant"
										recorded = true
									}
									if al, ok := x.Addr.(*ssa.Alloc); ok && x.Val == v {
										for _, r2 := range *al.Referrers() {
											if u, ok := r2.(*ssa.UnOp); ok && u.Op == token.MUL {
												walk(u, d+1)
											}
										}
									}
								case *ssa.Call:
									if isCallOfObj(x, setZone) {
										applied, why = true, "recorded in the grant (SetMemoryZone)"
										recorded = true
										// on every path on which the allocation succeeded, not only on some
										if asm := callSucceeded(in.(ssa.Value)); x.Parent() == fn {
											xi := ssa.Instruction(x)
											if sp := FindPath(PathQuery{Fn: fn, From: in, Assume: asm, Block: func(y ssa.Instruction) bool { return y == xi },
												Target: func(y ssa.Instruction) bool { ret, ok := y.(*ssa.Return); return ok && e.maySucceed(ret) }}); sp != nil {
												recorded, why = false, "the zone can go unrecorded: "+e.pathString(sp)
											}
										}
									}
									if callObj(x.Common()) == memsetString {
										for _, r3 := range *x.Referrers() {
											if isCallOfObj(r3, setMems) {
												applied, why = true, "told to the runtime"
												told = true
											}
										}
									}
								}
							}
						}
						walk(zone, 0)
					}
					r.Check("R1:zone-applied@"+site, "data-flow zone applied", "the zone assigned to the requester by "+name+" is forwarded, recorded in the grant or told to the runtime", e.InstrPos(in), fn, applied, why, true)
					// topology-aware: a zone that is not handed on to the caller is both recorded in the grant and told to the
					// runtime — here, or by an applyGrant that every caller runs afterwards
					if pkg == pkgTA && zone != nil && !forwarded {
						applyG := e.Fn(pkgTA, "policy.applyGrant")
						var toldLater func(f *ssa.Function, d int) bool
						toldLater = func(f *ssa.Function, d int) bool {
							cs := e.Callers(TopParent(f))
							if len(cs) == 0 || d > 3 {
								return false
							}
							for _, c := range cs {
								var asm Assumption
								if v := c.Call.Value(); v != nil {
									asm = callSucceeded(v)
								}
								p := FindPath(PathQuery{Fn: c.Fn, From: c.Call.(ssa.Instruction), Assume: asm, Block: func(x ssa.Instruction) bool { return e.CallReaches(x, fset(applyG), 3) },
									Target: func(x ssa.Instruction) bool { ret, ok := x.(*ssa.Return); return ok && e.maySucceed(ret) }})
								if p != nil && !toldLater(c.Fn, d+1) {
									return false
								}
							}
							return true
						}
						okBoth := recorded && (told || toldLater(fn, 0))
						r.Check("R1:zone-recorded-and-told@"+site, "data-flow zone applied", "a zone the function keeps (does not return) is recorded in the grant and told to the runtime, directly or by the applyGrant every caller runs afterwards", e.InstrPos(in), fn, okBoth,
							fmt.Sprintf("recorded=%v told-here=%v", recorded, told), true)
					}
				}
			})
		}
	}
	r.MinInstances("calls yielding libmem updates in the policies", nUpd, 4)
	r.MinInstances("calls yielding the requester's zone", nZone, 3)

	// BL: the memory nodes a balloon's containers are offered follow the balloon's current CPUs: in every iteration of
	// updatePinning the balloon's Mems are recomputed with closestMems(Cpus ∪ SharedIdleCpus) before any container of it is pinned
	if up := e.Fn(pkgBL, "balloons.updatePinning"); up != nil {
		fMems := e.Field(pkgBL, "Balloon", "Mems")
		closest := e.Fn(pkgBL, "balloons.closestMems")
		pin := e.Fn(pkgBL, "balloons.pinCpuMem")
		n := 0
		for _, lp := range sliceLoops(up) {
			lp := lp
			if paramIndex(rangedSlice(lp)) != 1 {
				continue
			}
			n++
			refreshes := func(in ssa.Instruction) bool {
				st, ok := in.(*ssa.Store)
				if !ok || fieldOfAddr(st.Addr) != fMems || !lp.elem(st.Addr.(*ssa.FieldAddr).X) {
					return false
				}
				call, ok := st.Val.(*ssa.Call)
				if !ok || !e.callOf(call, closest) {
					return false
				}
				// of the union of the balloon's own and shared idle CPUs
				a := callArgs(call)
				u, ok := a[len(a)-1].(*ssa.Call)
				if !ok || callObj(u.Common()) == nil || callObj(u.Common()).Name() != "Union" {
					return false
				}
				f1, b1 := loadedField(callArgs(u)[0])
				f2, b2 := loadedField(variadicSingle(callArgs(u)[1]))
				names := map[string]bool{}
				if f1 != nil {
					names[f1.Name()] = true
				}
				if f2 != nil {
					names[f2.Name()] = true
				}
				return names["Cpus"] && names["SharedIdleCpus"] && lp.elem(b1) && lp.elem(b2)
			}
			p := FindPath(PathQuery{Fn: up, From: lp.start, Block: refreshes, Target: func(in ssa.Instruction) bool { return e.callOf(in, pin) }})
			ok := p == nil && !refreshes(lp.start)
			if refreshes(lp.start) {
				ok = true
			}
			r.Check("R1:bl-mems-follow-cpus", "data-flow zone applied", "before a balloon's containers are pinned the balloon's memory nodes are recomputed from its current Cpus ∪ SharedIdleCpus", e.InstrPos(lp.start), up, ok, e.pathString(p), true)
		}
		r.MinInstances("balloon loop in updatePinning", n, 1)
	}
	// BL: allocMem keeps to the allocator's books — a container the allocator already holds an assignment for is
	// re-allocated (widened), one it does not know is allocated; and what allocMem returns on success is the zone the
	// allocator answered with
	if am := e.Fn(pkgBL, "balloons.allocMem"); am != nil {
		var okV ssa.Value
		AllInstrs(am, func(in ssa.Instruction) {
			if c, ok := in.(*ssa.Call); ok && callObj(c.Common()) != nil && callObj(c.Common()).Name() == "AssignedZone" && c.Referrers() != nil {
				for _, ref := range *c.Referrers() {
					if ex, ok := ref.(*ssa.Extract); ok && ex.Index == 1 {
						okV = ex
					}
				}
			}
		})
		isCallNamed := func(name string) func(ssa.Instruction) bool {
			return func(in ssa.Instruction) bool {
				ci, ok := in.(ssa.CallInstruction)
				if !ok || callObj(ci.Common()) == nil || callObj(ci.Common()).Name() != name {
					return false
				}
				// the memory allocator's method
				recv := callArgs(ci)
				return len(recv) > 0 && strings.Contains(recv[0].Type().String(), "Allocator")
			}
		}
		if okV == nil {
			r.Undecided("R1:bl-allocmem-follows-books", "data-flow zone applied", "allocMem consults AssignedZone", e.Pos(am.Pos()), am, "no AssignedZone(id) call with a used ok result")
		} else {
			assigned := func(val bool) Assumption {
				return func(cond ssa.Value) (bool, bool) {
					if unspill(cond) == okV {
						return true, val
					}
					return false, false
				}
			}
			p1 := FindPath(PathQuery{Fn: am, Assume: assigned(true), Target: isCallNamed("Allocate")})
			p2 := FindPath(PathQuery{Fn: am, Assume: assigned(false), Target: isCallNamed("Realloc")})
			r.Check("R1:bl-allocmem-follows-books", "data-flow zone applied", "allocMem re-allocates a container the allocator holds an assignment for and allocates one it does not (so the zone it returns is the one the allocator holds)", e.Pos(am.Pos()), am, p1 == nil && p2 == nil, e.pathString(p1)+e.pathString(p2), true)
		}
	}
	// BL: allocMem's zone is told by pinCpuMem unless the container is memory-preserved
	if pin, am := r.Anchor(pkgBL, "balloons.pinCpuMem"), r.Anchor(pkgBL, "balloons.allocMem"); pin != nil && am != nil {
		for _, c := range e.callsTo(pin, am) {
			zone := c.Value()
			told := false
			if zone != nil && zone.Referrers() != nil {
				for _, ref := range *zone.Referrers() {
					if ms, ok := ref.(*ssa.Call); ok && callObj(ms.Common()) == memsetString {
						for _, r3 := range *ms.Referrers() {
							if isCallOfObj(r3, setMems) && sameValue(callArgs(r3.(ssa.CallInstruction))[0], pin.Params[1]) || isCallOfObj(r3, setMems) && paramIndex(callArgs(r3.(ssa.CallInstruction))[0]) == 1 {
								told = true
							}
						}
					}
				}
			}
			preserved := false
			for _, cf := range dominatingConds(c.Block()) {
				if call, ok := cf.Cond.(*ssa.Call); ok && isCallOfObj(call, preserveMem) && cf.Val {
					preserved = true
				}
			}
			why := "told to the container"
			if preserved {
				why = "memory-preserved container: accounted, deliberately not re-pinned (C12)"
			}
			r.Check("R1:bl-zone-told@"+FnName(pin), "data-flow zone applied", "the zone allocMem assigned is told to the container (unless it is memory-preserved)", e.InstrPos(c), pin, told || preserved, why, true)
		}
	}

	// ---- zone source in TA applyGrant ---------------------------------------------------
	if ag := r.Anchor(pkgTA, "policy.applyGrant"); ag != nil {
		getZone := e.objs(pkgTA, "Grant.GetMemoryZone", "grant.GetMemoryZone")
		fPinMem := e.Field(pkgCfgTA, "Config", "PinMemory")
		pinOn := func(val bool) Assumption {
			return func(cond ssa.Value) (bool, bool) {
				if f, _ := loadedField(cond); f == fPinMem {
					return true, val
				}
				return false, false
			}
		}
		n := 0
		AllInstrs(ag, func(in ssa.Instruction) {
			if !isCallOfObj(in, setMems) {
				return
			}
			n++
			a := callArgs(in.(ssa.CallInstruction))
			ms, ok := a[1].(*ssa.Call)
			okSrc := ok && callObj(ms.Common()) == memsetString
			if okSrc {
				onlyZone, any := true, false
				OriginsUnder(ag, callArgs(ms)[0], pinOn(true), func(v ssa.Value) bool {
					if _, isPhi := v.(*ssa.Phi); isPhi {
						return false
					}
					any = true
					call, ok := v.(*ssa.Call)
					if !ok || !isCallOfObj(call, getZone) || paramIndex(callArgs(call)[0]) != 1 {
						onlyZone = false
					}
					return true
				})
				okSrc = onlyZone && any
			}
			r.Check("R3:applyGrant-zone-source", "zone source", "with memory pinning enabled applyGrant tells exactly the grant's recorded memory zone", e.InstrPos(in), ag, okSrc, "", true)
			// the container told is the grant's own
			okRecv := false
			Origins(a[0], func(v ssa.Value) bool {
				if call, ok := v.(*ssa.Call); ok && callObj(call.Common()) != nil && callObj(call.Common()).Name() == "GetContainer" && paramIndex(callArgs(call)[0]) == 1 {
					okRecv = true
				}
				return false
			})
			r.Check("R3:applyGrant-target", "zone source", "applyGrant pins the grant's own container", e.InstrPos(in), ag, okRecv, "", true)
		})
		r.MinInstances("memory pin in applyGrant", n, 1)
		// every allocation path applies the grant: allocateResources / reallocateResources / reinstateGrants call applyGrant after allocatePool / Reserve
		for _, t := range []struct{ fn, after string }{{"policy.allocateResources", "policy.allocatePool"}, {"policy.reallocateResources", "policy.allocatePool"}} {
			fn, after := e.Fn(pkgTA, t.fn), e.Fn(pkgTA, t.after)
			if fn == nil || after == nil {
				r.Undecided("R3:apply-after@"+t.fn, "zone source", "functions exist", "-", nil, "anchor drift")
				continue
			}
			for _, c := range e.callsTo(fn, after) {
				r.MustPass("R3:apply-after-allocate@"+t.fn, "zone source", "after a successful allocatePool the grant is applied (pinned) on every path", fn, c.(ssa.Instruction), nil,
					func(in ssa.Instruction) bool { return e.IsCallTo(in, fset(ag)) }, callSucceeded(c.Value()))
			}
		}
		if fn := e.Fn(pkgTA, "policy.reinstateGrants"); fn != nil {
			reserve := e.objs(pkgTA, "Supply.Reserve", "supply.Reserve")
			for _, c := range allCallsOfObj(fn, reserve) {
				p := FindPath(PathQuery{Fn: fn, From: c.(ssa.Instruction), Assume: callSucceeded(c.Value()),
					Block: func(in ssa.Instruction) bool { return e.IsCallTo(in, fset(ag)) },
					Target: func(in ssa.Instruction) bool {
						if _, ok := in.(*ssa.Return); ok {
							return true
						}
						return in == ssa.Instruction(c) // next iteration
					}})
				r.Check("R3:apply-after-reinstate", "zone source", "every re-instated grant is applied (pinned) before the next one is handled", e.InstrPos(c), fn, p == nil, e.pathString(p), true)
			}
		}
	}

	// ---- fit check --------------------------------------------------------------------------
	{
		c := newLMCtx(e, r)
		ensure := r.Anchor(pkgLM, "Allocator.ensureNormalMemory")
		defOC := r.Anchor(pkgLM, "Allocator.defaultHandleOvercommit")
		checkOC := r.Anchor(pkgLM, "Allocator.checkOvercommit")
		zoneFree := r.Anchor(pkgLM, "Allocator.zoneFree")
		zoneCap := r.Anchor(pkgLM, "Allocator.zoneCapacity")
		zoneUsage := r.Anchor(pkgLM, "Allocator.zoneUsage")
		if ensure != nil && defOC != nil && checkOC != nil && zoneFree != nil && c.allocate != nil && c.realloc != nil && c.handleOvercommit != nil {
			checkLibmemFit(e, r, c, ensure, defOC, checkOC, zoneFree, zoneCap, zoneUsage)
			checkFinalZoneReturned(e, r, c, r.Anchor(pkgLM, "Allocator.Allocate"))
			// realloc: after the move, success only after a nil handleOvercommit for the widened zone
			for _, mc := range e.callsTo(c.realloc, c.zoneMove) {
				r.MustPass("R1:realloc-checks-fit", "R1 fit check", "after widening an allocation realloc consults handleOvercommit before it can succeed", c.realloc, mc.(ssa.Instruction), e.maySucceed,
					func(in ssa.Instruction) bool { return e.IsCallTo(in, fset(c.handleOvercommit)) }, nil)
			}
			for _, hc := range e.callsTo(c.realloc, c.handleOvercommit) {
				failed := func(cond ssa.Value) (bool, bool) { k, v := callSucceeded(hc.Value())(cond); return k, !v }
				p := FindPath(PathQuery{Fn: c.realloc, From: hc.(ssa.Instruction), Assume: failed, Target: func(in ssa.Instruction) bool {
					ret, ok := in.(*ssa.Return)
					return ok && e.ClassifyReturn(ret) != retNonNilErr
				}})
				r.Check("R1:realloc-fails-on-overcommit", "R1 fit check", "realloc fails when the overcommit cannot be resolved", e.InstrPos(hc), c.realloc, p == nil, e.pathString(p), true)
			}
			// Commit of an offer replays a transaction that passed the same check: Commit mutates only through the offer's recorded updates (C06/C07)
		}
	}
	_ = fmt.Sprintf
}
