package main

import (
	"go/token"
	"go/types"

	"golang.org/x/tools/go/ssa"
)

// Pending-change bookkeeping of the cache (C05): the request that accumulates a container's changes, and the two
// "pending" indexes that tell the handlers which containers have something to deliver. Added from the mutation scan:
// every rule below corresponds to a one-token mutant of these helpers that loses or never delivers a change.

// nilTestOf: an assumption deciding `<load of field f> == nil` as val.
func nilTestOf(f *types.Var, val bool) Assumption {
	return func(cond ssa.Value) (bool, bool) {
		b, ok := cond.(*ssa.BinOp)
		if !ok || (b.Op != token.EQL && b.Op != token.NEQ) {
			return false, false
		}
		for _, pr := range [][2]ssa.Value{{b.X, b.Y}, {b.Y, b.X}} {
			if k, isK := pr[1].(*ssa.Const); isK && k.IsNil() && isFieldLoad(pr[0], f) {
				return true, (b.Op == token.EQL) == val
			}
		}
		return false, false
	}
}

// checkLazyInit: `if x.f == nil { x.f = <fresh> }` — an existing value is never replaced, a missing one is created
// before the function goes on.
func checkLazyInit(e *Engine, r *Report, key, rule, what string, fn *ssa.Function, f *types.Var) {
	if fn == nil || f == nil {
		r.Undecided(key, rule, what+": function and field resolve", "-", nil, "not found")
		return
	}
	storesF := func(in ssa.Instruction) bool {
		st, ok := in.(*ssa.Store)
		return ok && fieldOfAddr(st.Addr) == f
	}
	p1 := FindPath(PathQuery{Fn: fn, Assume: nilTestOf(f, false), Target: storesF})
	r.Check(key+"#kept", rule, what+": an existing value is kept (what was collected so far is not thrown away)", e.Pos(fn.Pos()), fn, p1 == nil, e.pathString(p1), true)
	p2 := FindPath(PathQuery{Fn: fn, Assume: nilTestOf(f, true), Block: storesF, Target: func(in ssa.Instruction) bool {
		switch x := in.(type) {
		case *ssa.Return:
			return true
		case *ssa.MapUpdate:
			return isFieldLoad(x.Map, f)
		}
		return false
	}})
	r.Check(key+"#created", rule, what+": a missing value is created before it is used or returned", e.Pos(fn.Pos()), fn, p2 == nil, e.pathString(p2), true)
}

func checkPendingBookkeeping(e *Engine, r *Report) {
	rule := "reply discipline"
	fReq := e.Field(pkgCA, "container", "request")
	fCPend := e.Field(pkgCA, "container", "pending")
	fPend := e.Field(pkgCA, "cache", "pending")
	// (1) the accumulating request
	checkLazyInit(e, r, "R1:pending-request-accumulates", rule, "the request collecting a container's pending changes", e.Fn(pkgCA, "container.getPendingRequest"), fReq)
	if fn := e.Fn(pkgCA, "container.getPendingRequest"); fn != nil {
		ok := true
		for _, ret := range Returns(fn) {
			if !originAll(ret.Results[0], func(v ssa.Value) bool { return isFieldLoad(v, fReq) }) {
				ok = false
			}
		}
		r.Check("R1:pending-request-accumulates#returned", rule, "getPendingRequest hands out the container's own collecting request", e.Pos(fn.Pos()), fn, ok, "", true)
	}
	// (2) retrieval: a request of the right kind is returned (and the slot cleared), never replaced by nil
	for _, name := range []string{"container.GetPendingAdjustment", "container.GetPendingUpdate"} {
		fn := e.Fn(pkgCA, name)
		if fn == nil {
			r.Undecided("R1:pending-retrieved@"+name, rule, name+" exists", "-", nil, "not found")
			continue
		}
		var okV, val ssa.Value
		AllInstrs(fn, func(in ssa.Instruction) {
			if ta, ok := in.(*ssa.TypeAssert); ok && ta.CommaOk && ta.Referrers() != nil {
				for _, ref := range *ta.Referrers() {
					if ex, ok := ref.(*ssa.Extract); ok {
						if ex.Index == 1 {
							okV = ex
						} else {
							val = ex
						}
					}
				}
			}
		})
		if okV == nil || val == nil {
			r.Undecided("R1:pending-retrieved@"+name, rule, name+" asserts the kind of the pending request", e.Pos(fn.Pos()), fn, "no comma-ok type assertion")
			continue
		}
		right := func(cond ssa.Value) (bool, bool) {
			if k, v := nilTestOf(fReq, false)(cond); k {
				return k, v
			}
			if unspill(cond) == okV {
				return true, true
			}
			return false, false
		}
		okRet, n := true, 0
		for _, ret := range Returns(fn) {
			if !reachableBlock(fn, ret.Block(), right) {
				continue
			}
			n++
			OriginsUnder(fn, ret.Results[0], right, func(v ssa.Value) bool {
				switch v.(type) {
				case *ssa.Phi:
					return false
				}
				if v != val {
					okRet = false
				}
				return true
			})
		}
		r.Check("R1:pending-retrieved@"+name, rule, name+" returns the pending request when it is of the asked kind (it is not dropped)", e.Pos(fn.Pos()), fn, okRet && n > 0, "", true)
	}
	// (3) the pending indexes
	checkLazyInit(e, r, "R1:pending-index@container.markPending", rule, "the container's set of controllers with pending changes", e.Fn(pkgCA, "container.markPending"), fCPend)
	checkLazyInit(e, r, "R1:pending-index@cache.markPending", rule, "the cache's set of containers with pending changes", e.Fn(pkgCA, "cache.markPending"), fPend)
	if fn := e.Fn(pkgCA, "cache.markPending"); fn != nil && len(fn.Params) == 2 {
		cP := ssa.Value(fn.Params[1])
		marks := func(in ssa.Instruction) bool {
			mu, ok := in.(*ssa.MapUpdate)
			return ok && isFieldLoad(mu.Map, fPend) && reqIDOfName(mu.Key, "GetID", func(v ssa.Value) bool { return sameObject(v, cP) })
		}
		p := FindPath(PathQuery{Fn: fn, Target: isRet, Block: marks})
		r.Check("R1:pending-index@cache.markPending#marks", rule, "cache.markPending enters the container's own id in the set of pending containers", e.Pos(fn.Pos()), fn, p == nil, e.pathString(p), true)
	}
	if fn := e.Fn(pkgCA, "cache.clearPending"); fn != nil && len(fn.Params) == 2 {
		cP := ssa.Value(fn.Params[1])
		clears := func(in ssa.Instruction) bool {
			ci, ok := in.(ssa.CallInstruction)
			if !ok || !isMapWriteOf(in, fPend) {
				return false
			}
			return len(ci.Common().Args) == 2 && reqIDOfName(ci.Common().Args[1], "GetID", func(v ssa.Value) bool { return sameObject(v, cP) })
		}
		p := FindPath(PathQuery{Fn: fn, Target: isRet, Block: clears})
		r.Check("R1:pending-index@cache.clearPending", rule, "cache.clearPending removes the container's own id from the set of pending containers", e.Pos(fn.Pos()), fn, p == nil, e.pathString(p), true)
	}
	// GetPendingContainers: every pending id that resolves to a container is in the result
	if fn := e.Fn(pkgCA, "cache.GetPendingContainers"); fn != nil {
		nx := rangeNexts(fn, func(v ssa.Value) bool { return isFieldLoad(v, fPend) })
		r.MinInstances("range over cache.pending in GetPendingContainers", len(nx), 1)
		for _, next := range nx {
			found := func(cond ssa.Value) (bool, bool) {
				if ex, ok := unspill(cond).(*ssa.Extract); ok && ex.Index == 1 {
					if c, ok := ex.Tuple.(ssa.CallInstruction); ok && callObj(c.Common()) != nil && callObj(c.Common()).Name() == "LookupContainer" {
						return true, true
					}
				}
				return false, false
			}
			appends := func(in ssa.Instruction) bool {
				call, ok := in.(*ssa.Call)
				if !ok {
					return false
				}
				bi, ok := call.Common().Value.(*ssa.Builtin)
				return ok && bi.Name() == "append"
			}
			p := iterationSkips(next, found, appends, true)
			r.Check("R1:pending-containers-all-returned", rule, "GetPendingContainers returns every pending id that resolves to a cached container", e.InstrPos(next), fn, p == nil, e.pathString(p), true)
		}
	}
	// ClearPending: the controller is taken off the container's set, and the container off the cache's set exactly when
	// nothing is left
	if fn := e.Fn(pkgCA, "container.ClearPending"); fn != nil && len(fn.Params) == 2 {
		ctlP := ssa.Value(fn.Params[1])
		drops := func(in ssa.Instruction) bool {
			ci, ok := in.(ssa.CallInstruction)
			return ok && isMapWriteOf(in, fCPend) && len(ci.Common().Args) == 2 && sameObject(ci.Common().Args[1], ctlP)
		}
		clearPending := e.Fn(pkgCA, "cache.clearPending")
		empty := func(val bool) Assumption {
			return func(cond ssa.Value) (bool, bool) {
				x, y, op, ok := cmpOriented(cond, func(v ssa.Value) bool {
					c, ok := v.(*ssa.Call)
					if !ok {
						return false
					}
					bi, ok := c.Common().Value.(*ssa.Builtin)
					return ok && bi.Name() == "len" && isFieldLoad(c.Common().Args[0], fCPend)
				})
				_ = x
				if !ok || !isConstInt(y, 0) {
					return false, false
				}
				s := sgZero
				if !val {
					s = sgPos
				}
				return cmpZero(s, op)
			}
		}
		p := FindPath(PathQuery{Fn: fn, Target: isRet, Block: drops})
		r.Check("R1:pending-cleared#controller", rule, "ClearPending takes the controller off the container's pending set", e.Pos(fn.Pos()), fn, p == nil, e.pathString(p), true)
		p = FindPath(PathQuery{Fn: fn, Assume: empty(true), Target: isRet, Block: func(in ssa.Instruction) bool { return e.callOf(in, clearPending) }})
		r.Check("R1:pending-cleared#container-when-empty", rule, "when no controller is left the container is taken off the cache's pending set", e.Pos(fn.Pos()), fn, p == nil, e.pathString(p), true)
		p = FindPath(PathQuery{Fn: fn, Assume: empty(false), Target: func(in ssa.Instruction) bool { return e.callOf(in, clearPending) }})
		r.Check("R1:pending-cleared#container-stays-while-pending", rule, "while some controller is still pending the container stays in the cache's pending set", e.Pos(fn.Pos()), fn, p == nil, e.pathString(p), true)
	}
}

// reqIDOfName: v is X.<method>() for an X satisfying pred.
func reqIDOfName(v ssa.Value, method string, pred func(ssa.Value) bool) bool {
	ci, ok := unspill(v).(ssa.CallInstruction)
	if !ok || callObj(ci.Common()) == nil || callObj(ci.Common()).Name() != method || len(callArgs(ci)) != 1 {
		return false
	}
	return pred(callArgs(ci)[0])
}

// checkDrainCoversLive: getPendingUpdates retrieves the pending update of every pending container that is created or
// running — only the container named by `skip` (the one being created, served by the adjustment) is passed over.
// Decided per state: with every comparison of the container's state evaluated for Created, resp. Running, no
// iteration ends without the GetPendingUpdate call.
func checkDrainCoversLive(e *Engine, r *Report) {
	rule := "reply discipline"
	fn := r.Anchor(pkgRM, "nriPlugin.getPendingUpdates")
	if fn == nil {
		return
	}
	loops := sliceLoops(fn)
	nL := 0
	for _, lp := range loops {
		lp := lp
		drains := func(in ssa.Instruction) bool {
			c, ok := in.(ssa.CallInstruction)
			return ok && callObj(c.Common()) != nil && callObj(c.Common()).Name() == "GetPendingUpdate" && lp.elem(callArgs(c)[0])
		}
		has := false
		AllInstrs(fn, func(in ssa.Instruction) {
			if drains(in) {
				has = true
			}
		})
		if !has {
			continue
		}
		nL++
		for _, st := range []string{"ContainerStateCreated", "ContainerStateRunning"} {
			k, _ := e.TypesPkg(pkgCA).Scope().Lookup(st).(*types.Const)
			if k == nil {
				r.Undecided("R1:drain-covers-live#"+st, rule, "constant "+st+" exists", "-", nil, "not found")
				continue
			}
			asm := func(cond ssa.Value) (bool, bool) {
				b, ok := cond.(*ssa.BinOp)
				if !ok || (b.Op != token.EQL && b.Op != token.NEQ) {
					return false, false
				}
				// the skip test: this is not the container being created
				for _, pr := range [][2]ssa.Value{{b.X, b.Y}, {b.Y, b.X}} {
					if c, ok := unspill(pr[0]).(ssa.CallInstruction); ok && callObj(c.Common()) != nil && callObj(c.Common()).Name() == "GetID" && lp.elem(callArgs(c)[0]) {
						if c2, ok := unspill(pr[1]).(ssa.CallInstruction); ok && callObj(c2.Common()) != nil && callObj(c2.Common()).Name() == "GetId" {
							return true, b.Op == token.NEQ
						}
					}
					// state comparisons
					if c, ok := unspill(pr[0]).(ssa.CallInstruction); ok && callObj(c.Common()) != nil && callObj(c.Common()).Name() == "GetState" && lp.elem(callArgs(c)[0]) {
						if kk, isK := pr[1].(*ssa.Const); isK && kk.Value != nil && types.Identical(kk.Type(), k.Type()) {
							return true, isConstEq(pr[1], k) == (b.Op == token.EQL)
						}
					}
				}
				return false, false
			}
			// … and what was retrieved goes into the reply
			if st == "ContainerStateRunning" {
				var upd ssa.Value
				AllInstrs(fn, func(in ssa.Instruction) {
					if drains(in) {
						upd = in.(ssa.CallInstruction).Value()
					}
				})
				if upd != nil {
					got := func(cond ssa.Value) (bool, bool) {
						if k, v := asm(cond); k {
							return k, v
						}
						return nilnessOf(upd, false)(cond)
					}
					replies := func(in ssa.Instruction) bool {
						call, ok := in.(*ssa.Call)
						if !ok {
							return false
						}
						bi, ok := call.Common().Value.(*ssa.Builtin)
						if !ok || bi.Name() != "append" {
							return false
						}
						for _, el := range sliceLiteralElems(call.Common().Args[1]) {
							if unspill(el) == upd {
								return true
							}
						}
						return false
					}
					p2 := FindPath(PathQuery{Fn: fn, From: upd.(ssa.Instruction), Assume: got, Block: replies, Target: func(x ssa.Instruction) bool {
						if x == lp.head.Instrs[0] {
							return true
						}
						_, isR := x.(*ssa.Return)
						return isR
					}})
					r.Check("R1:drained-update-is-replied", rule, "an update retrieved from a pending container is appended to the reply", e.InstrPos(upd.(ssa.Instruction)), fn, p2 == nil, e.pathString(p2), true)
				}
			}
			p := lp.skips(asm, drains, true)
			r.Check("R1:drain-covers-live#"+st, rule, "getPendingUpdates retrieves the pending update of every pending container in state "+st[len("ContainerState"):]+" other than the one being created", e.InstrPos(lp.start), fn, p == nil, e.pathString(p), true)
		}
	}
	r.MinInstances("drain loop in getPendingUpdates", nL, 1)
}
