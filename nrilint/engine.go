package main

import (
	"fmt"
	"go/ast"
	"go/token"
	"go/types"
	"os"
	"sort"
	"strings"
	"time"

	"golang.org/x/tools/go/packages"
	"golang.org/x/tools/go/ssa"
	"golang.org/x/tools/go/ssa/ssautil"
)

const modPath = "github.com/containers/nri-plugins"

// Short names for the packages that rules anchor in.
const (
	pkgTA     = modPath + "/cmd/plugins/topology-aware/policy"
	pkgBL     = modPath + "/cmd/plugins/balloons/policy"
	pkgLM     = modPath + "/pkg/resmgr/lib/memory"
	pkgRM     = modPath + "/pkg/resmgr"
	pkgCA     = modPath + "/pkg/resmgr/cache"
	pkgCPUA   = modPath + "/pkg/cpuallocator"
	pkgAgent  = modPath + "/pkg/agent"
	pkgSysfs  = modPath + "/pkg/sysfs"
	pkgPolicy = modPath + "/pkg/resmgr/policy"
	pkgKube   = modPath + "/pkg/kubernetes"
	pkgExpr   = modPath + "/pkg/apis/resmgr/v1alpha1"
	pkgCpuset = modPath + "/pkg/utils/cpuset"
	pkgMemQoS = modPath + "/cmd/plugins/memory-qos"
	pkgMemtd  = modPath + "/cmd/plugins/memtierd"
	pkgSgx    = modPath + "/cmd/plugins/sgx-epc"
	pkgCfgBL  = modPath + "/pkg/apis/config/v1alpha1/resmgr/policy/balloons"
	pkgCfgTA  = modPath + "/pkg/apis/config/v1alpha1/resmgr/policy/topologyaware"
	pkgCpu    = modPath + "/pkg/resmgr/control/cpu"
	pkgNRIAPI = "github.com/containerd/nri/pkg/api"
)

// Engine holds the loaded, type-checked and SSA-converted program.
type Engine struct {
	Repo      string
	Fset      *token.FileSet
	Roots     []*packages.Package
	All       map[string]*packages.Package
	Prog      *ssa.Program
	RepoFuncs []*ssa.Function // every function (incl. closures, instantiations) whose origin lies in a repository package
	RepoPkgs  int
	LoadWall  float64

	implCache    map[*types.Func][]*ssa.Function
	edgeCache    map[*ssa.Function][]*ssa.Function
	callers      map[*ssa.Function][]callerSite
	fieldWriters map[*types.Var]map[*ssa.Function]int
	sentinels    map[*ssa.Global]int
	astFuncs     map[*ssa.Function]*ast.FuncDecl
}

type callerSite struct {
	Fn   *ssa.Function
	Call ssa.CallInstruction
}

func isRepoPath(p string) bool {
	return p == modPath || strings.HasPrefix(p, modPath+"/")
}

// Load loads every package of the repository (both modules) with syntax and
// builds SSA. Any load or type error is fatal: the analysis sees only what
// was parsed, so an incomplete load must not pass silently.
func Load(repo string, buildFlags []string, env []string) (*Engine, error) {
	t0 := time.Now()
	cfg := &packages.Config{
		Mode:       packages.LoadAllSyntax,
		Dir:        repo,
		Tests:      false,
		BuildFlags: buildFlags,
		Env: append(append(os.Environ(),
			"GOFLAGS=-mod=mod", "GOPROXY=off", "GOSUMDB=off", "GOTOOLCHAIN=local", "GOWORK=off"), env...),
	}
	roots, err := packages.Load(cfg, "./...")
	if err != nil {
		return nil, fmt.Errorf("packages.Load: %v", err)
	}
	if len(roots) == 0 {
		return nil, fmt.Errorf("no packages loaded from %s", repo)
	}
	e := &Engine{Repo: repo, Roots: roots, All: map[string]*packages.Package{},
		implCache: map[*types.Func][]*ssa.Function{},
		edgeCache: map[*ssa.Function][]*ssa.Function{},
		astFuncs:  map[*ssa.Function]*ast.FuncDecl{}}
	var errs []string
	packages.Visit(roots, nil, func(p *packages.Package) {
		e.All[p.PkgPath] = p
		if isRepoPath(p.PkgPath) {
			e.RepoPkgs++
			for _, pe := range p.Errors {
				errs = append(errs, pe.Error())
			}
			if p.IllTyped && len(p.Errors) == 0 {
				errs = append(errs, p.PkgPath+": ill-typed (an imported package failed to type-check)")
			}
		}
	})
	if len(errs) > 0 {
		sort.Strings(errs)
		return nil, fmt.Errorf("load/type errors in repository packages (%d): %s", len(errs), strings.Join(errs[:min(len(errs), 5)], "; "))
	}
	e.Fset = roots[0].Fset
	prog, _ := ssautil.AllPackages(roots, ssa.InstantiateGenerics)
	prog.Build()
	e.Prog = prog
	for fn := range ssautil.AllFunctions(prog) {
		o := fn
		if o.Origin() != nil {
			o = o.Origin()
		}
		for o.Parent() != nil {
			o = o.Parent()
		}
		var path string
		if o.Pkg != nil {
			path = o.Pkg.Pkg.Path()
		} else if o.Object() != nil && o.Object().Pkg() != nil {
			path = o.Object().Pkg().Path()
		}
		if isRepoPath(path) && fn.Blocks != nil {
			e.RepoFuncs = append(e.RepoFuncs, fn)
		}
	}
	// Normalise comparisons against a constant to `value op constant` ("0 < n" becomes "n > 0", "nil != err" becomes
	// "err != nil"): the two spellings are the same program, and the rules match the canonical one only.
	for _, fn := range e.RepoFuncs {
		for _, b := range fn.Blocks {
			for _, in := range b.Instrs {
				bo, ok := in.(*ssa.BinOp)
				if !ok {
					continue
				}
				if _, xk := bo.X.(*ssa.Const); !xk {
					continue
				}
				if _, yk := bo.Y.(*ssa.Const); yk {
					continue
				}
				switch bo.Op {
				case token.EQL, token.NEQ:
					bo.X, bo.Y = bo.Y, bo.X
				case token.LSS:
					bo.X, bo.Y, bo.Op = bo.Y, bo.X, token.GTR
				case token.GTR:
					bo.X, bo.Y, bo.Op = bo.Y, bo.X, token.LSS
				case token.LEQ:
					bo.X, bo.Y, bo.Op = bo.Y, bo.X, token.GEQ
				case token.GEQ:
					bo.X, bo.Y, bo.Op = bo.Y, bo.X, token.LEQ
				}
			}
		}
	}
	sort.Slice(e.RepoFuncs, func(i, j int) bool {
		a, b := e.RepoFuncs[i], e.RepoFuncs[j]
		if a.String() != b.String() {
			return a.String() < b.String()
		}
		return a.Pos() < b.Pos()
	})
	e.LoadWall = time.Since(t0).Seconds()
	return e, nil
}

// ---------------------------------------------------------------------------
// symbol lookup (by package path + receiver + name; never by line or text)

func (e *Engine) Pkg(path string) *packages.Package { return e.All[path] }

func (e *Engine) TypesPkg(path string) *types.Package {
	if p := e.All[path]; p != nil {
		return p.Types
	}
	return nil
}

// Named returns the named type pkg.name or nil.
func (e *Engine) Named(pkg, name string) *types.Named {
	tp := e.TypesPkg(pkg)
	if tp == nil {
		return nil
	}
	o := tp.Scope().Lookup(name)
	if o == nil {
		return nil
	}
	tn, ok := o.(*types.TypeName)
	if !ok {
		return nil
	}
	n, _ := types.Unalias(tn.Type()).(*types.Named)
	return n
}

// FuncObj resolves "Name" or "Type.Method" in pkg to its types.Func.
func (e *Engine) FuncObj(pkg, name string) *types.Func {
	tp := e.TypesPkg(pkg)
	if tp == nil {
		return nil
	}
	if i := strings.Index(name, "."); i >= 0 {
		n := e.Named(pkg, name[:i])
		if n == nil {
			return nil
		}
		var recv types.Type = types.NewPointer(n)
		if _, isIface := n.Underlying().(*types.Interface); isIface {
			recv = n
		}
		obj, _, _ := types.LookupFieldOrMethod(recv, true, tp, name[i+1:])
		f, _ := obj.(*types.Func)
		return f
	}
	f, _ := tp.Scope().Lookup(name).(*types.Func)
	return f
}

// Fn resolves "Name" or "Type.Method" to its SSA function (nil if absent).
func (e *Engine) Fn(pkg, name string) *ssa.Function {
	o := e.FuncObj(pkg, name)
	if o == nil {
		return nil
	}
	return e.Prog.FuncValue(o)
}

// Field resolves a struct field object pkg.Type.field.
func (e *Engine) Field(pkg, typ, field string) *types.Var {
	n := e.Named(pkg, typ)
	if n == nil {
		return nil
	}
	st, ok := n.Underlying().(*types.Struct)
	if !ok {
		return nil
	}
	for i := 0; i < st.NumFields(); i++ {
		if st.Field(i).Name() == field {
			return st.Field(i)
		}
	}
	return nil
}

// Global resolves a package-level variable.
func (e *Engine) Global(pkg, name string) *ssa.Global {
	p := e.Prog.ImportedPackage(pkg)
	if p == nil {
		return nil
	}
	g, _ := p.Members[name].(*ssa.Global)
	return g
}

func (e *Engine) Pos(p token.Pos) string {
	if !p.IsValid() {
		return "-"
	}
	pp := e.Fset.Position(p)
	f := pp.Filename
	if strings.HasPrefix(f, e.Repo+"/") {
		f = f[len(e.Repo)+1:]
	}
	return fmt.Sprintf("%s:%d", f, pp.Line)
}

// InstrPos returns the best position for an instruction (falls back to the
// nearest positioned instruction in the block, then the function).
func (e *Engine) InstrPos(in ssa.Instruction) string {
	if in == nil {
		return "-"
	}
	if in.Pos().IsValid() {
		return e.Pos(in.Pos())
	}
	if c, ok := in.(ssa.CallInstruction); ok {
		if p := c.Common().Pos(); p.IsValid() {
			return e.Pos(p)
		}
	}
	if b := in.Block(); b != nil {
		idx := -1
		for i, x := range b.Instrs {
			if x == in {
				idx = i
			}
		}
		for i := idx - 1; i >= 0; i-- {
			if b.Instrs[i].Pos().IsValid() {
				return e.Pos(b.Instrs[i].Pos()) + "+"
			}
		}
		for i := idx + 1; i < len(b.Instrs); i++ {
			if b.Instrs[i].Pos().IsValid() {
				return e.Pos(b.Instrs[i].Pos()) + "-"
			}
		}
	}
	return e.Pos(in.Parent().Pos())
}

// FnName gives a stable, readable name: pkg-short.(Recv).Name[$n]
func FnName(fn *ssa.Function) string {
	if fn == nil {
		return "<nil>"
	}
	s := fn.String()
	s = strings.ReplaceAll(s, modPath+"/", "")
	return s
}

// ---------------------------------------------------------------------------
// call resolution

// implementations of an interface method among repository types.
func (e *Engine) impls(m *types.Func) []*ssa.Function {
	if r, ok := e.implCache[m]; ok {
		return r
	}
	var out []*ssa.Function
	sig := m.Type().(*types.Signature)
	recv := sig.Recv()
	if recv == nil {
		e.implCache[m] = nil
		return nil
	}
	iface, _ := recv.Type().Underlying().(*types.Interface)
	if iface == nil {
		e.implCache[m] = nil
		return nil
	}
	seen := map[*ssa.Function]bool{}
	for path, p := range e.All {
		if !isRepoPath(path) || p.Types == nil {
			continue
		}
		sc := p.Types.Scope()
		for _, name := range sc.Names() {
			tn, ok := sc.Lookup(name).(*types.TypeName)
			if !ok || tn.IsAlias() {
				continue
			}
			if _, isIface := tn.Type().Underlying().(*types.Interface); isIface {
				continue
			}
			if n, ok := tn.Type().(*types.Named); ok && n.TypeParams().Len() > 0 {
				continue
			}
			for _, T := range []types.Type{tn.Type(), types.NewPointer(tn.Type())} {
				if !types.Implements(T, iface) {
					continue
				}
				sel := e.Prog.MethodSets.MethodSet(T).Lookup(m.Pkg(), m.Name())
				if sel == nil {
					continue
				}
				if f := e.Prog.MethodValue(sel); f != nil {
					// unwrap synthetic wrappers (pointer-receiver wrappers, promoted methods)
					if f.Synthetic != "" {
						if o, ok := sel.Obj().(*types.Func); ok {
							if d := e.Prog.FuncValue(o); d != nil {
								f = d
							}
						}
					}
					if !seen[f] {
						seen[f] = true
						out = append(out, f)
					}
				}
			}
		}
	}
	sort.Slice(out, func(i, j int) bool { return out[i].String() < out[j].String() })
	e.implCache[m] = out
	return out
}

// Callees resolves a call instruction: static callee, closure, or — for an
// interface invoke — every repository implementation of the method.
func (e *Engine) Callees(c ssa.CallInstruction) []*ssa.Function {
	cc := c.Common()
	if cc.IsInvoke() {
		return e.impls(cc.Method)
	}
	if f := cc.StaticCallee(); f != nil {
		return []*ssa.Function{f}
	}
	return e.funcValues(cc.Value, 0)
}

// funcValues traces a function-typed value to the functions it may denote
// (closures, function constants, phis of those). Unknown sources yield nil.
func (e *Engine) funcValues(v ssa.Value, depth int) []*ssa.Function {
	if depth > 6 {
		return nil
	}
	switch x := v.(type) {
	case *ssa.Function:
		return []*ssa.Function{x}
	case *ssa.MakeClosure:
		if f, ok := x.Fn.(*ssa.Function); ok {
			return []*ssa.Function{f}
		}
	case *ssa.Phi:
		var out []*ssa.Function
		for _, ed := range x.Edges {
			out = append(out, e.funcValues(ed, depth+1)...)
		}
		return out
	case *ssa.ChangeType:
		return e.funcValues(x.X, depth+1)
	case *ssa.UnOp:
		// load of a local cell that holds a closure (e.g. `undo := func(){…}` captured)
		if x.Op == token.MUL {
			if a, ok := x.X.(*ssa.Alloc); ok {
				var out []*ssa.Function
				for _, r := range *a.Referrers() {
					if st, ok := r.(*ssa.Store); ok && st.Addr == a {
						out = append(out, e.funcValues(st.Val, depth+1)...)
					}
				}
				return out
			}
			// a captured cell holding a closure
			if fv, ok := x.X.(*ssa.FreeVar); ok {
				if al := cellOf(fv); al != nil {
					var out []*ssa.Function
					for _, st := range cellStores(al) {
						out = append(out, e.funcValues(st.Val, depth+1)...)
					}
					return out
				}
			}
			// an element of a local slice of functions (`for _, f := range undoFuncs { f() }`): every closure the
			// function (or its closures) ever appends to that slice
			if ia, ok := x.X.(*ssa.IndexAddr); ok {
				return e.sliceElemFuncs(ia.X, depth+1, map[ssa.Value]bool{})
			}
		}
	}
	return nil
}

// sliceElemFuncs: the functions a local slice of function values may contain, traced through the cell that holds the
// slice (also when captured by closures), append calls and slice literals. Unknown sources yield nothing.
func (e *Engine) sliceElemFuncs(v ssa.Value, depth int, seen map[ssa.Value]bool) []*ssa.Function {
	if depth > 10 || v == nil || seen[v] {
		return nil
	}
	seen[v] = true
	var out []*ssa.Function
	switch x := v.(type) {
	case *ssa.UnOp:
		if x.Op == token.MUL {
			if al := cellOf(x.X); al != nil {
				for _, st := range cellStores(al) {
					out = append(out, e.sliceElemFuncs(st.Val, depth+1, seen)...)
				}
			}
		}
	case *ssa.Phi:
		for _, ed := range x.Edges {
			out = append(out, e.sliceElemFuncs(ed, depth+1, seen)...)
		}
	case *ssa.Call:
		if bi, ok := x.Common().Value.(*ssa.Builtin); ok && bi.Name() == "append" && len(x.Common().Args) == 2 {
			out = append(out, e.sliceElemFuncs(x.Common().Args[0], depth+1, seen)...)
			if els := sliceLiteralElems(x.Common().Args[1]); els != nil {
				for _, el := range els {
					out = append(out, e.funcValues(el, depth+1)...)
				}
			} else {
				out = append(out, e.sliceElemFuncs(x.Common().Args[1], depth+1, seen)...)
			}
		}
	case *ssa.Slice:
		for _, el := range sliceLiteralElems(x) {
			out = append(out, e.funcValues(el, depth+1)...)
		}
	}
	return out
}

// IsCallTo reports whether instruction `in` is a call (incl. defer/go) that
// may invoke fn (directly).
func (e *Engine) IsCallTo(in ssa.Instruction, targets map[*ssa.Function]bool) bool {
	c, ok := in.(ssa.CallInstruction)
	if !ok {
		return false
	}
	for _, f := range e.Callees(c) {
		if targets[f] {
			return true
		}
	}
	return false
}

// Edges returns every function fn may call or hand out as a value (closures
// created, functions referenced): an over-approximation used for reachability.
func (e *Engine) Edges(fn *ssa.Function) []*ssa.Function {
	if r, ok := e.edgeCache[fn]; ok {
		return r
	}
	seen := map[*ssa.Function]bool{}
	var out []*ssa.Function
	add := func(f *ssa.Function) {
		if f != nil && !seen[f] {
			seen[f] = true
			out = append(out, f)
		}
	}
	for _, b := range fn.Blocks {
		for _, in := range b.Instrs {
			if c, ok := in.(ssa.CallInstruction); ok {
				for _, f := range e.Callees(c) {
					add(f)
				}
			}
			var ops []*ssa.Value
			for _, op := range in.Operands(ops) {
				if op == nil || *op == nil {
					continue
				}
				switch x := (*op).(type) {
				case *ssa.Function:
					add(x)
				case *ssa.MakeClosure:
					if f, ok := x.Fn.(*ssa.Function); ok {
						add(f)
					}
				}
			}
			if mc, ok := in.(*ssa.MakeClosure); ok {
				if f, ok := mc.Fn.(*ssa.Function); ok {
					add(f)
				}
			}
		}
	}
	e.edgeCache[fn] = out
	return out
}

// Reach returns the set of functions reachable from roots (roots included),
// following Edges, restricted to functions with bodies, up to maxDepth
// (<=0: unbounded).
func (e *Engine) Reach(roots []*ssa.Function, maxDepth int) map[*ssa.Function]int {
	dist := map[*ssa.Function]int{}
	q := []*ssa.Function{}
	for _, r := range roots {
		if r != nil {
			if _, ok := dist[r]; !ok {
				dist[r] = 0
				q = append(q, r)
			}
		}
	}
	for len(q) > 0 {
		f := q[0]
		q = q[1:]
		if maxDepth > 0 && dist[f] >= maxDepth {
			continue
		}
		if f.Blocks == nil {
			continue
		}
		for _, g := range e.Edges(f) {
			if _, ok := dist[g]; !ok {
				dist[g] = dist[f] + 1
				q = append(q, g)
			}
		}
	}
	return dist
}

// ReachesAny: does fn (transitively, depth-bounded) call any of targets?
func (e *Engine) ReachesAny(fn *ssa.Function, targets map[*ssa.Function]bool, maxDepth int) bool {
	for f := range e.Reach([]*ssa.Function{fn}, maxDepth) {
		if targets[f] {
			return true
		}
	}
	return false
}

// CallReaches: is `in` a call whose callee is, or transitively reaches
// (depth-bounded), one of targets?
func (e *Engine) CallReaches(in ssa.Instruction, targets map[*ssa.Function]bool, maxDepth int) bool {
	c, ok := in.(ssa.CallInstruction)
	if !ok {
		return false
	}
	for _, f := range e.Callees(c) {
		if targets[f] {
			return true
		}
		if maxDepth != 1 && f.Blocks != nil && e.ReachesAny(f, targets, maxDepth-1) {
			return true
		}
	}
	return false
}

// Callers returns all call sites in repository functions that may call fn.
func (e *Engine) Callers(fn *ssa.Function) []callerSite {
	if e.callers == nil {
		e.callers = map[*ssa.Function][]callerSite{}
		for _, f := range e.RepoFuncs {
			for _, b := range f.Blocks {
				for _, in := range b.Instrs {
					if c, ok := in.(ssa.CallInstruction); ok {
						for _, g := range e.Callees(c) {
							e.callers[g] = append(e.callers[g], callerSite{f, c})
						}
					}
				}
			}
		}
	}
	return e.callers[fn]
}

func fset(fs ...*ssa.Function) map[*ssa.Function]bool {
	m := map[*ssa.Function]bool{}
	for _, f := range fs {
		if f != nil {
			m[f] = true
		}
	}
	return m
}

// AllInstrs iterates over every instruction of fn (not of its closures).
func AllInstrs(fn *ssa.Function, f func(ssa.Instruction)) {
	for _, b := range fn.Blocks {
		for _, in := range b.Instrs {
			f(in)
		}
	}
}

// WithAnon returns fn and all closures nested in it.
func WithAnon(fn *ssa.Function) []*ssa.Function {
	out := []*ssa.Function{fn}
	for _, a := range fn.AnonFuncs {
		out = append(out, WithAnon(a)...)
	}
	return out
}

// TopParent returns the outermost enclosing function.
func TopParent(fn *ssa.Function) *ssa.Function {
	for fn.Parent() != nil {
		fn = fn.Parent()
	}
	return fn
}

// FuncDecl returns the AST declaration of a source-level function.
func (e *Engine) FuncDecl(fn *ssa.Function) *ast.FuncDecl {
	if d, ok := e.astFuncs[fn]; ok {
		return d
	}
	d, _ := fn.Syntax().(*ast.FuncDecl)
	e.astFuncs[fn] = d
	return d
}

// PkgOfFn returns the packages.Package a function was declared in.
func (e *Engine) PkgOfFn(fn *ssa.Function) *packages.Package {
	fn = TopParent(fn)
	if fn.Pkg == nil {
		return nil
	}
	return e.All[fn.Pkg.Pkg.Path()]
}

// ---------------------------------------------------------------------------
// one-level context-sensitive reachability: callees are specialised on the
// constant fields of struct literals passed by pointer (e.g. the event type
// of an `&events.Policy{Type: events.ContainerStarted}` argument), so that
// `switch e.Type` arms that cannot be taken for this call are not followed.

type constFields map[*types.Var]*ssa.Const

func constFieldsOfArg(v ssa.Value) constFields {
	a, ok := v.(*ssa.Alloc)
	if !ok {
		return nil
	}
	out := constFields{}
	for _, ref := range *a.Referrers() {
		fa, ok := ref.(*ssa.FieldAddr)
		if !ok {
			continue
		}
		f := fieldOfAddr(fa)
		n := 0
		var k *ssa.Const
		for _, r2 := range *fa.Referrers() {
			if st, ok := r2.(*ssa.Store); ok && st.Addr == fa {
				n++
				k, _ = st.Val.(*ssa.Const)
			}
		}
		if n == 1 && k != nil && k.Value != nil {
			out[f] = k
		}
	}
	if len(out) == 0 {
		return nil
	}
	return out
}

func ctxAssumption(ctx map[int]constFields) Assumption {
	return func(cond ssa.Value) (bool, bool) {
		b, ok := cond.(*ssa.BinOp)
		if !ok || (b.Op != token.EQL && b.Op != token.NEQ) {
			return false, false
		}
		for _, pair := range [][2]ssa.Value{{b.X, b.Y}, {b.Y, b.X}} {
			k, ok := pair[1].(*ssa.Const)
			if !ok || k.Value == nil {
				continue
			}
			f, base := loadedField(pair[0])
			if f == nil {
				continue
			}
			pi := paramIndex(base)
			if pi < 0 {
				continue
			}
			cf := ctx[pi]
			if cf == nil {
				continue
			}
			kv, ok := cf[f]
			if !ok {
				continue
			}
			eq := kv.Value.ExactString() == k.Value.ExactString()
			if b.Op == token.NEQ {
				eq = !eq
			}
			return true, eq
		}
		return false, false
	}
}

func (e *Engine) specReach(fn *ssa.Function, ctx map[int]constFields, targets map[*ssa.Function]bool, depth int, seen map[*ssa.Function]bool) bool {
	if targets[fn] {
		return true
	}
	if fn.Blocks == nil {
		return false
	}
	if len(ctx) == 0 || depth > 4 {
		return e.ReachesAny(fn, targets, 0)
	}
	if seen[fn] {
		return false
	}
	seen[fn] = true
	assume := ctxAssumption(ctx)
	hit := false
	AllInstrs(fn, func(in ssa.Instruction) {
		if hit {
			return
		}
		var callees []*ssa.Function
		var args []ssa.Value
		switch x := in.(type) {
		case ssa.CallInstruction:
			callees = e.Callees(x)
			args = callArgs(x)
		case *ssa.MakeClosure:
			if f, ok := x.Fn.(*ssa.Function); ok {
				callees = []*ssa.Function{f}
			}
		default:
			return
		}
		if len(callees) == 0 {
			return
		}
		if FindPath(PathQuery{Fn: fn, Assume: assume, Target: func(t ssa.Instruction) bool { return t == in }}) == nil {
			return // not reachable in this calling context
		}
		sub := map[int]constFields{}
		for j, a := range args {
			if pi := paramIndex(a); pi >= 0 && ctx[pi] != nil {
				sub[j] = ctx[pi]
			}
		}
		for _, g := range callees {
			if e.specReach(g, sub, targets, depth+1, seen) {
				hit = true
				return
			}
		}
	})
	return hit
}

// CallReachesCtx: may the call reach a target function, taking the constant
// fields of struct-literal arguments into account?
func (e *Engine) CallReachesCtx(in ssa.Instruction, targets map[*ssa.Function]bool) bool {
	ci, ok := in.(ssa.CallInstruction)
	if !ok {
		return false
	}
	ctx := map[int]constFields{}
	for j, a := range callArgs(ci) {
		if cf := constFieldsOfArg(a); cf != nil {
			ctx[j] = cf
		}
	}
	for _, f := range e.Callees(ci) {
		if e.specReach(f, ctx, targets, 0, map[*ssa.Function]bool{}) {
			return true
		}
	}
	return false
}
