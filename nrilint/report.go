package main

import (
	"bufio"
	"encoding/json"
	"fmt"
	"os"
	"path/filepath"
	"sort"
	"strings"

	"golang.org/x/tools/go/ssa"
)

type Verdict string

const (
	Discharged Verdict = "discharged"
	Violated   Verdict = "violated"
	Undecided  Verdict = "undecided"
)

// Obligation is one decided instance of a rule on a named construct.
type Obligation struct {
	Key        string  `json:"key"`  // rule + construct; stable under line movement
	Rule       string  `json:"rule"` // rule id and instance
	What       string  `json:"what"` // the statement decided
	Pos        string  `json:"pos"`
	Fn         string  `json:"function,omitempty"`
	Verdict    Verdict `json:"verdict"`
	Witness    string  `json:"witness,omitempty"` // path / site that decides it
	Nontrivial bool    `json:"nontrivial"`        // needed a path / dominance / data-flow computation
}

// Report collects the obligations of one property check.
type Report struct {
	Prop        string
	e           *Engine
	Obls        []*Obligation
	keys        map[string]int
	Funcs       map[string]bool
	CallSites   int
	Assumptions []string
	NotDecided  []string
	Rules       []string
}

func NewReport(e *Engine, prop string) *Report {
	return &Report{Prop: prop, e: e, keys: map[string]int{}, Funcs: map[string]bool{}}
}

func (r *Report) touch(fn *ssa.Function) {
	if fn != nil {
		r.Funcs[FnName(fn)] = true
	}
}

func (r *Report) add(o *Obligation) *Obligation {
	// disambiguate repeated keys deterministically (#2, #3 …) in source order
	r.keys[o.Key]++
	if n := r.keys[o.Key]; n > 1 {
		o.Key = fmt.Sprintf("%s#%d", o.Key, n)
	}
	r.Obls = append(r.Obls, o)
	return o
}

// Check records an obligation from a boolean.
func (r *Report) Check(key, rule, what, pos string, fn *ssa.Function, ok bool, witness string, nontrivial bool) bool {
	v := Discharged
	if !ok {
		v = Violated
	}
	r.touch(fn)
	r.add(&Obligation{Key: key, Rule: rule, What: what, Pos: pos, Fn: FnName(fn), Verdict: v, Witness: witness, Nontrivial: nontrivial})
	return ok
}

// Undecided records an obligation the analysis could not decide: it fails
// the check (never a silent pass).
func (r *Report) Undecided(key, rule, what, pos string, fn *ssa.Function, why string) {
	r.touch(fn)
	r.add(&Obligation{Key: key, Rule: rule, What: what, Pos: pos, Fn: FnName(fn), Verdict: Undecided, Witness: why, Nontrivial: true})
}

// Anchor resolves a function and reports anchor drift if it is missing.
func (r *Report) Anchor(pkg, name string) *ssa.Function {
	fn := r.e.Fn(pkg, name)
	if fn == nil || fn.Blocks == nil {
		r.Undecided("anchor:"+short(pkg)+"."+name, "anchor", "rule anchor "+short(pkg)+"."+name+" must exist", "-", nil,
			"function named in the rule table was not found in the loaded program (anchor drift: renamed or removed)")
		return nil
	}
	r.touch(fn)
	return fn
}

func short(pkg string) string {
	return strings.TrimPrefix(pkg, modPath+"/")
}

// MinInstances is the vacuity guard: a rule that matched fewer sites than
// were confirmed by reading passes vacuously forever, so it fails instead.
func (r *Report) MinInstances(rule string, got, want int) {
	r.add(&Obligation{Key: "min-instances:" + rule, Rule: "vacuity-guard",
		What:    fmt.Sprintf("rule %s must match at least %d sites (confirmed by reading)", rule, want),
		Pos:     "-",
		Verdict: map[bool]Verdict{true: Discharged, false: Violated}[got >= want],
		Witness: fmt.Sprintf("matched %d", got)})
}

// ---------------------------------------------------------------------------
// known findings

type knownFinding struct {
	Prop string
	Key  string
	Text string
}

func loadKnownFindings(path string) ([]knownFinding, error) {
	f, err := os.Open(path)
	if err != nil {
		if os.IsNotExist(err) {
			return nil, nil
		}
		return nil, err
	}
	defer f.Close()
	var out []knownFinding
	sc := bufio.NewScanner(f)
	for sc.Scan() {
		line := strings.TrimSpace(sc.Text())
		if !strings.HasPrefix(line, "finding:") {
			continue // comments and "fixed:" lines suppress nothing
		}
		rest := strings.TrimSpace(strings.TrimPrefix(line, "finding:"))
		var kf knownFinding
		fields := strings.Fields(rest)
		n := 0
		for _, fl := range fields {
			if strings.HasPrefix(fl, "property=") && kf.Prop == "" {
				kf.Prop = strings.TrimPrefix(fl, "property=")
				n++
			} else if strings.HasPrefix(fl, "key=") && kf.Key == "" {
				kf.Key = strings.TrimPrefix(fl, "key=")
				n++
			} else {
				break
			}
		}
		kf.Text = strings.Join(fields[n:], " ")
		if kf.Prop != "" && kf.Key != "" {
			out = append(out, kf)
		}
	}
	return out, sc.Err()
}

// ---------------------------------------------------------------------------
// evidence

type evidence struct {
	PropertyID  string                 `json:"property_id"`
	Tier        string                 `json:"tier"`
	Seed        int                    `json:"seed"`
	Level       string                 `json:"level"`
	Coverage    map[string]interface{} `json:"coverage"`
	Assumptions []string               `json:"assumptions"`
	WallS       float64                `json:"wall_s"`
	Violations  int                    `json:"violations"`
}

type outcome struct {
	Violations []*Obligation
	Known      []string
}

// Finish evaluates the report against known findings, writes the evidence
// file and (on violation) the replay file; returns the process exit code.
func (r *Report) Finish(verifDir, tier string, seed int, wall float64, extra map[string]interface{}) int {
	known, err := loadKnownFindings(filepath.Join(verifDir, "known-findings.txt"))
	if err != nil {
		fmt.Printf("error reading known findings: %v\n", err)
		return 2
	}
	knownKeys := map[string]string{}
	for _, k := range known {
		if k.Prop == r.Prop {
			knownKeys[k.Key] = k.Text
		}
	}
	var viol []*Obligation
	discharged, nontrivial := 0, 0
	distinct := map[string]bool{}
	var knownHit []string
	for _, o := range r.Obls {
		switch o.Verdict {
		case Discharged:
			discharged++
		default:
			if o.Verdict == Violated {
				if txt, ok := knownKeys[o.Key]; ok {
					knownHit = append(knownHit, fmt.Sprintf("KNOWN-FINDING: property=%s %s [%s at %s]", r.Prop, txt, o.Key, o.Pos))
					continue
				}
			}
			viol = append(viol, o)
		}
		if o.Nontrivial && !distinct[o.Key] {
			distinct[o.Key] = true
			nontrivial++
		}
	}
	sort.Strings(knownHit)
	for _, k := range knownHit {
		fmt.Println(k)
	}
	// samples: up to 8 obligations, preferring non-trivial ones and any violation
	var samples []*Obligation
	samples = append(samples, viol...)
	for _, o := range r.Obls {
		if len(samples) >= 8 {
			break
		}
		if o.Nontrivial && o.Verdict == Discharged {
			samples = append(samples, o)
		}
	}
	for _, o := range r.Obls {
		if len(samples) >= 5 {
			break
		}
		if !o.Nontrivial {
			samples = append(samples, o)
		}
	}
	if len(samples) > 12 {
		samples = samples[:12]
	}
	funcs := make([]string, 0, len(r.Funcs))
	for f := range r.Funcs {
		funcs = append(funcs, f)
	}
	sort.Strings(funcs)
	expl := "Static analysis of /repo's current source (go/packages LoadAllSyntax + go/ssa, no repository code executed). " +
		"Rules applied: " + strings.Join(r.Rules, " | ") + ". " +
		"Each rule instance expands into obligations keyed by rule+construct; every obligation is decided on all CFG paths / call sites / writers of the loaded program. " +
		"NOT decided by this check: " + strings.Join(r.NotDecided, "; ") + "."
	cov := map[string]interface{}{
		"explanation":         expl,
		"obligations":         len(r.Obls),
		"discharged":          discharged,
		"evaluations":         len(r.Obls),
		"distinct_nontrivial": nontrivial,
		"rule":                "one case = one obligation (rule instance on a named construct); non-trivial = its verdict required a CFG path search, dominance/guard evaluation, call-graph reachability or value-flow trace (existence-only and table-membership obligations are trivial); distinct = distinct obligation key",
		"samples":             samples,
		"exhaustive":          true,
		"functions_analysed":  funcs,
		"functions_in_scope":  len(r.e.RepoFuncs),
		"packages":            r.e.RepoPkgs,
		"checker_cmd":         fmt.Sprintf("bin/nrilint check -p %s -tier %s", r.Prop, tier),
		"trusted_base":        []string{"go/types + go/packages (x/tools v0.29.0)", "go/ssa builder", "rule tables in /verif/nrilint/c*.go (anchors by symbol)"},
		"known_findings":      knownHit,
		"all_obligations":     r.Obls,
	}
	for k, v := range extra {
		cov[k] = v
	}
	ev := evidence{PropertyID: r.Prop, Tier: tier, Seed: seed, Level: "other", Coverage: cov,
		Assumptions: r.Assumptions, WallS: wall, Violations: len(viol)}
	if ev.Assumptions == nil {
		ev.Assumptions = []string{}
	}
	os.MkdirAll(filepath.Join(verifDir, "evidence"), 0o755)
	evPath := filepath.Join(verifDir, "evidence", r.Prop+".json")
	b, _ := json.MarshalIndent(ev, "", " ")
	if err := os.WriteFile(evPath, append(b, '\n'), 0o644); err != nil {
		fmt.Printf("error writing evidence: %v\n", err)
		return 2
	}
	fmt.Printf("%s tier=%s: %d obligations, %d discharged, %d known findings, %d violations; %d functions, %d packages, %.1fs\n",
		r.Prop, tier, len(r.Obls), discharged, len(knownHit), len(viol), len(funcs), r.e.RepoPkgs, wall)
	if len(viol) == 0 {
		return 0
	}
	replay := filepath.Join(verifDir, "evidence", r.Prop+".violations.json")
	vb, _ := json.MarshalIndent(map[string]interface{}{"property_id": r.Prop, "violations": viol}, "", " ")
	os.WriteFile(replay, append(vb, '\n'), 0o644)
	fmt.Printf("VIOLATION property=%s replay=%s\n", r.Prop, replay)
	for _, o := range viol {
		fmt.Printf("  [%s] %s %s\n    %s: %s\n    key=%s\n", o.Verdict, o.Rule, o.Pos, o.Fn, o.What, o.Key)
		if o.Witness != "" {
			fmt.Printf("    witness: %s\n", o.Witness)
		}
	}
	return 1
}

// pathString renders a witness path.
func (e *Engine) pathString(p []ssa.Instruction) string {
	var parts []string
	last := ""
	for _, in := range p {
		s := e.InstrPos(in)
		if s != last {
			parts = append(parts, s)
		}
		last = s
	}
	if len(parts) > 7 {
		parts = append(append(append([]string{}, parts[:3]...), "…"), parts[len(parts)-3:]...)
	}
	return strings.Join(parts, " -> ")
}

// MinKeys is a vacuity guard by key prefix: at least n obligations whose key
// starts with prefix must have been generated.
func (r *Report) MinKeys(prefix string, n int) {
	got := 0
	for _, o := range r.Obls {
		if strings.HasPrefix(o.Key, prefix) {
			got++
		}
	}
	r.MinInstances("obligations "+prefix+"*", got, n)
}
