package main

import (
	"encoding/json"
	"fmt"
	"os"
	"os/exec"
	"path/filepath"
	"sort"
	"strings"
	"sync"
	"time"
)

// Thorough tier = the quick obligations plus
//   (1) a second load of the repository with the `verif` build tag to make
//       sure no build-tagged file hides code from the rules: the property's
//       rules are re-run there and must give the same verdict (the module
//       needs cgo and only type-checks for linux/amd64, so other GOOS/GOARCH
//       configurations cannot be loaded);
//   (2) the checker self-test: every stored mutant of this property
//       (/verif/selftest/<id>/mut-*.patch — reversals of repaired defects and
//       hand-made one-instance breakages — and /verif/seeded/*/patch.diff
//       whose meta.json names this property) is applied to a scratch copy of
//       /repo and the property's rules must report a violation there; every
//       benign refactor (/verif/selftest/<id>/benign-*.patch) must stay
//       silent. A self-test failure fails the check: the checker is not to be
//       trusted.

type selfResult struct {
	Patch    string  `json:"patch"`
	Kind     string  `json:"kind"` // mutant | benign
	Expected string  `json:"expected"`
	Got      string  `json:"got"`
	OK       bool    `json:"ok"`
	Keys     string  `json:"violated_keys,omitempty"`
	WallS    float64 `json:"wall_s"`
}

func runThorough(e *Engine, r *Report, id, repo, verif string, noSelf bool, extra map[string]interface{}) {
	// (1) alternative build configuration
	t0 := time.Now()
	alt, err := Load(repo, []string{"-tags=verif"}, nil)
	if err != nil {
		r.Undecided("thorough:alt-config-load", "engine", "the repository loads with -tags verif", "-", nil, err.Error())
	} else {
		r2 := NewReport(alt, id)
		func() {
			defer func() {
				if p := recover(); p != nil {
					r2.Undecided("panic", "engine", "analysis must complete", "-", nil, fmt.Sprint(p))
				}
			}()
			registry[id].Run(alt, r2)
		}()
		bad := []string{}
		for _, o := range r2.Obls {
			if o.Verdict != Discharged {
				bad = append(bad, o.Key)
			}
		}
		// the same obligations must fail (known findings) or none
		base := map[string]bool{}
		for _, o := range r.Obls {
			if o.Verdict != Discharged {
				base[o.Key] = true
			}
		}
		var extraBad []string
		for _, k := range bad {
			if !base[k] {
				extraBad = append(extraBad, k)
			}
		}
		r.Check("thorough:alt-config", "engine", "the property's rules give the same verdict with -tags verif (no build-tagged file hides code; the only other build-tagged sources are the !linux stubs, and the module needs cgo on linux/amd64, so no other GOOS/GOARCH configuration type-checks)",
			"-", nil, len(extraBad) == 0, strings.Join(extraBad, ", "), false)
		extra["alt_config"] = map[string]interface{}{"tags": "verif", "packages": alt.RepoPkgs, "obligations": len(r2.Obls), "wall_s": time.Since(t0).Seconds()}
	}
	if noSelf {
		return
	}
	// (2) self-test
	type job struct {
		path, kind string
	}
	var jobs []job
	dir := filepath.Join(verif, "selftest", id)
	if ents, err := os.ReadDir(dir); err == nil {
		for _, en := range ents {
			n := en.Name()
			switch {
			case strings.HasPrefix(n, "mut-") && strings.HasSuffix(n, ".patch"):
				jobs = append(jobs, job{filepath.Join(dir, n), "mutant"})
			case strings.HasPrefix(n, "benign-") && strings.HasSuffix(n, ".patch"):
				jobs = append(jobs, job{filepath.Join(dir, n), "benign"})
			}
		}
	}
	if ents, err := os.ReadDir(filepath.Join(verif, "seeded")); err == nil {
		for _, en := range ents {
			mp := filepath.Join(verif, "seeded", en.Name(), "meta.json")
			b, err := os.ReadFile(mp)
			if err != nil {
				continue
			}
			var meta struct {
				Property   string   `json:"property"`
				Properties []string `json:"properties"`
				Detected   []string `json:"detected_by"`
			}
			if json.Unmarshal(b, &meta) != nil {
				continue
			}
			for _, p := range meta.Detected {
				if p == id {
					jobs = append(jobs, job{filepath.Join(verif, "seeded", en.Name(), "patch.diff"), "mutant"})
				}
			}
		}
	}
	sort.Slice(jobs, func(i, j int) bool { return jobs[i].path < jobs[j].path })
	if len(jobs) == 0 {
		extra["selftest"] = "no stored mutants for this property"
		return
	}
	self, _ := os.Executable()
	results := make([]selfResult, len(jobs))
	sem := make(chan struct{}, 4) // each sub-check loads the whole program (about 3 GB); keep a thorough run of one property under 12 GB
	var wg sync.WaitGroup
	for i, j := range jobs {
		wg.Add(1)
		go func(i int, j job) {
			defer wg.Done()
			sem <- struct{}{}
			defer func() { <-sem }()
			results[i] = runOnePatch(self, repo, verif, id, j.path, j.kind)
		}(i, j)
	}
	wg.Wait()
	killed, silent := 0, 0
	for _, res := range results {
		name := filepath.Base(filepath.Dir(res.Patch)) + "/" + filepath.Base(res.Patch)
		r.Check("selftest:"+name, "checker self-test", fmt.Sprintf("%s patch: expected %s", res.Kind, res.Expected), "-", nil, res.OK,
			"got "+res.Got+" "+res.Keys, false)
		if res.OK && res.Kind == "mutant" {
			killed++
		}
		if res.OK && res.Kind == "benign" {
			silent++
		}
	}
	extra["selftest"] = results
	extra["mutants_killed"] = killed
	extra["benign_silent"] = silent
}

func runOnePatch(self, repo, verif, id, patch, kind string) selfResult {
	t0 := time.Now()
	res := selfResult{Patch: patch, Kind: kind, Expected: map[string]string{"mutant": "violation", "benign": "silence"}[kind]}
	tmp, err := os.MkdirTemp("", "nrilint-selftest-")
	if err != nil {
		res.Got = "error: " + err.Error()
		return res
	}
	defer os.RemoveAll(tmp)
	scratch := filepath.Join(tmp, "repo")
	sv := filepath.Join(tmp, "verif")
	os.MkdirAll(sv, 0o755)
	// recorded findings stay recorded in the scratch run: a mutant must produce a NEW violation, a benign patch none
	if b, err := os.ReadFile(filepath.Join(verif, "known-findings.txt")); err == nil {
		os.WriteFile(filepath.Join(sv, "known-findings.txt"), b, 0o644)
	}
	if out, err := exec.Command("rsync", "-a", "--exclude=.git", "--exclude=build", repo+"/", scratch+"/").CombinedOutput(); err != nil {
		res.Got = "error copying: " + string(out)
		return res
	}
	cmd := exec.Command("patch", "-p1", "--no-backup-if-mismatch", "-s", "-i", patch)
	cmd.Dir = scratch
	if out, err := cmd.CombinedOutput(); err != nil {
		res.Got = "patch does not apply: " + strings.TrimSpace(string(out))
		res.OK = false
		return res
	}
	c := exec.Command(self, "check", "-p", id, "-tier", "quick", "-repo", scratch, "-verif", sv)
	c.Env = append(os.Environ(), "GOGC=200")
	out, err := c.CombinedOutput()
	code := 0
	if err != nil {
		if ee, ok := err.(*exec.ExitError); ok {
			code = ee.ExitCode()
		} else {
			res.Got = "error running: " + err.Error()
			return res
		}
	}
	var keys []string
	for _, line := range strings.Split(string(out), "\n") {
		line = strings.TrimSpace(line)
		if strings.HasPrefix(line, "key=") {
			keys = append(keys, strings.TrimPrefix(line, "key="))
		}
	}
	if len(keys) > 4 {
		keys = append(keys[:4], fmt.Sprintf("(+%d more)", len(keys)-4))
	}
	res.Keys = strings.Join(keys, " | ")
	switch {
	case code == 1 && strings.Contains(string(out), "VIOLATION property="+id):
		res.Got = "violation"
		// a mutant that no longer type-checks is not a kill
		if strings.Contains(string(out), "load failed") {
			res.Got = "load failure (mutant does not compile)"
			res.OK = false
			res.WallS = time.Since(t0).Seconds()
			return res
		}
	case code == 0:
		res.Got = "silence"
	default:
		res.Got = fmt.Sprintf("exit %d", code)
	}
	res.OK = res.Got == res.Expected
	res.WallS = time.Since(t0).Seconds()
	return res
}
