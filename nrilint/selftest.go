package main

func runThorough(e *Engine, r *Report, id, repo, verif string, noSelf bool, extra map[string]interface{}) {
}
