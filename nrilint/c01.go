package main

import (
	"fmt"
	"go/token"
	"go/types"
	"strings"

	"golang.org/x/tools/go/ssa"
)

// C01 — topology-aware: exclusively granted CPUs are exclusive to one container.
func init() { register("C01", "topology-aware: exclusive CPUs are exclusive", checkC01) }

// taNaming names the recognised base sets of the topology-aware supply algebra.
func taNaming(ve **vennEval) func(v ssa.Value) string {
	return func(v ssa.Value) string {
		if call, ok := v.(*ssa.Call); ok {
			o := callObj(call.Common())
			if o == nil {
				return ""
			}
			recv := ""
			if a := callArgs(call); len(a) > 0 {
				recv = (*ve).objName(a[0])
			}
			switch o.Name() {
			case "ExclusiveCPUs", "IsolatedCPUs", "SharableCPUs", "ReservedCPUs":
				return o.Name() + "(" + recv + ")"
			}
		}
		return ""
	}
}

func checkC01(e *Engine, r *Report) {
	r.Rules = []string{
		"R3 ownership: the supply's CPU sets, a grant's exclusive set, the grant table and the policy's allocations are written only by their owner functions (address-taken sets only reach the CPU allocator through takeCPUs)",
		"R6+R1 propagation: grant.AccountAllocateCPU / AccountReleaseCPU visit the whole subtree and every ancestor with the dual supply method; AllocateCPU propagates every grant it returns",
		"R11 frame lemmas (Venn algebra, all values of the base sets): accounting an allocation removes the exclusive CPUs from isolated and sharable sets and leaves reserved untouched; a release returns only the grant's own CPUs restricted to the node; re-instating (Reserve) removes the grant's CPUs under the stated guards; the supply of a pool is a partition of cpus ∩ allowed",
		"R1 re-pin after every change of a shared set: allocation, release, update, re-allocation and re-instatement reach updateSharedAllocations on their success paths, and it visits every grant",
		"R6+R11 composition of the told cpuset: reserved class tells exactly the reserved set; normal class tells a subset of exclusive ∪ free-sharable; the shared part comes from the free supply (which excludes every other container's exclusive CPUs)",
		"R2 reserved-class eligibility: only the reserved-CPU annotation or a reserved namespace (kube-system or a configured pattern) yields class reserved; the only class rewrite is reserved→normal when the pool tree has no reserved CPUs",
		"round 4: the tree accounting applies to every pool other than the granting one (AccountAllocateCPU/AccountReleaseCPU update both sets whenever IsSameNode is false); setPreferredCpusetCpus tells its container the set it is given or that set reduced to one thread per core, applyGrant calls it whenever pinning is on, the class is normal/reserved and the composed set is non-empty and never clears the cpuset then; re-pinning keeps the container's own exclusive CPUs in the told set",
	}
	r.NotDecided = []string{"the global invariant 'pairwise disjoint between all live containers after every history' (induction over histories that also needs sibling pools to have disjoint CPU sets, a hardware fact)", "which CPUs the allocator picks (C08)"}
	r.Assumptions = []string{"takeCPUs/AllocateCpus returns a subset of the set it is given and removes it from that set (C08 contract)", "isolated and sharable sets of one supply are disjoint at function entry (established by getCpuSupply, preserved by the frame lemmas)", "ExclusiveCPUs()/IsolatedCPUs()/SharableCPUs()/ReservedCPUs() are pure accessors"}

	taFns := e.funcsInPkg(pkgTA)
	S := "(*" + short(pkgTA) + ".supply)."
	P := "(*" + short(pkgTA) + ".policy)."
	G := "(*" + short(pkgTA) + ".grant)."
	A := "(*" + short(pkgTA) + ".allocations)."
	// ---- rule 1: ownership -------------------------------------------------------------
	n := 0
	supplyOwners := set(short(pkgTA)+".newSupply", S+"Cumulate", S+"AccountAllocateCPU", S+"AccountReleaseCPU", S+"ReleaseCPU", S+"Reserve", S+"AllocateCPU")
	for _, f := range []string{"isolated", "sharable", "reserved"} {
		n += r.WhoMayWrite("R3", e.Field(pkgTA, "supply", f), "supply."+f, supplyOwners, taFns)
	}
	// AllocateCPU may only hand &cs.isolated / &cs.sharable to takeCPUs
	if ac := r.Anchor(pkgTA, "supply.AllocateCPU"); ac != nil {
		take := e.Fn(pkgTA, "supply.takeCPUs")
		AllInstrs(ac, func(in ssa.Instruction) {
			ci, ok := in.(ssa.CallInstruction)
			if !ok {
				return
			}
			for _, a := range ci.Common().Args {
				if f := fieldOfAddr(a); f != nil && (f.Name() == "isolated" || f.Name() == "sharable" || f.Name() == "reserved") && fieldOwner(a.(*ssa.FieldAddr)) == e.Named(pkgTA, "supply") {
					r.Check("R3:address-escape@AllocateCPU#"+f.Name(), "R3 ownership", "the address of a supply set is handed only to takeCPUs (never the reserved set)", e.InstrPos(in), ac,
						e.IsCallTo(in, fset(take)) && f.Name() != "reserved", "", true)
				}
			}
		})
		// takeCPUs forwards its `from` pointer to the CPU allocator only
		if take != nil {
			okT := true
			AllInstrs(take, func(in ssa.Instruction) {
				if st, ok := in.(*ssa.Store); ok && paramIndex(st.Addr) == 1 {
					okT = false // writes *from itself
				}
			})
			r.Check("R3:takeCPUs-forwards", "R3 ownership", "takeCPUs does not write the source set itself (only the CPU allocator does, under its contract)", e.Pos(take.Pos()), take, okT, "", true)
		}
	}
	n += r.WhoMayWrite("R3", e.Field(pkgTA, "grant", "exclusive"), "grant.exclusive", set(short(pkgTA)+".newGrant", G+"Clone", G+"UnmarshalJSON"), taFns)
	n += r.WhoMayWrite("R3", e.Field(pkgTA, "allocations", "grants"), "allocations.grants",
		set(P+"allocatePool", P+"releasePool", P+"reinstateGrants", P+"newAllocations", A+"clone", A+"Set", A+"UnmarshalJSON"), taFns)
	n += r.WhoMayWrite("R3", e.Field(pkgTA, "policy", "allocations"), "policy.allocations", set(P+"initialize", P+"restoreAllocations"), taFns)
	r.MinInstances("R3 writers (TA CPU state)", n, 12)

	// ---- rule 2: propagation --------------------------------------------------------------
	depthFirst := e.objs(pkgTA, "Node.DepthFirst", "node.DepthFirst")
	parent := e.objs(pkgTA, "Node.Parent", "node.Parent")
	isNil := e.objs(pkgTA, "Node.IsNil", "node.IsNil")
	freeSupply := e.objs(pkgTA, "Node.FreeSupply", "node.FreeSupply")
	for _, t := range []struct{ fn, method string }{{"grant.AccountAllocateCPU", "AccountAllocateCPU"}, {"grant.AccountReleaseCPU", "AccountReleaseCPU"}} {
		fn := r.Anchor(pkgTA, t.fn)
		if fn == nil {
			continue
		}
		dual := e.objs(pkgTA, "Supply."+t.method, "supply."+t.method)
		// subtree: DepthFirst with a closure that calls FreeSupply().<method>(cg)
		okSub, whySub := false, ""
		isSame := e.objs(pkgTA, "Node.IsSameNode", "node.IsSameNode")
		otherNode := func(cond ssa.Value) (bool, bool) { // the visited node is not the granting one
			neg := false
			if u, ok := cond.(*ssa.UnOp); ok && u.Op == token.NOT {
				cond, neg = u.X, true
			}
			if c, ok := cond.(*ssa.Call); ok && isCallOfObj(c, isSame) {
				return true, neg
			}
			return false, false
		}
		for _, c := range allCallsOfObj(fn, depthFirst) {
			for _, cl := range e.funcValues(callArgs(c)[1], 0) {
				for _, dc := range allCallsOfObj(cl, dual) {
					if rc, ok := callArgs(dc)[0].(*ssa.Call); ok && isCallOfObj(rc, freeSupply) && paramIndex(callArgs(rc)[0]) == 0 {
						okSub = true
						// not merely present: the walk itself is unavoidable, and for a node other than the granting one so is the call
						if sp := e.skippedOnSuccess(fn, c); sp != nil {
							okSub, whySub = false, "the subtree walk can be skipped: "+e.pathString(sp)
						}
						dcI := ssa.Instruction(dc)
						if sp := FindPath(PathQuery{Fn: cl, Assume: otherNode, Block: func(x ssa.Instruction) bool { return x == dcI }, Target: func(x ssa.Instruction) bool { _, ok := x.(*ssa.Return); return ok }}); sp != nil {
							okSub, whySub = false, "a node of the subtree can be passed over: "+e.pathString(sp)
						}
					}
				}
			}
		}
		r.Check("R6:propagate-subtree@"+t.fn, "R6+R1 propagation", t.fn+" applies Supply."+t.method+" to the free supply of every node of the grant's subtree (DepthFirst), on every path", e.Pos(fn.Pos()), fn, okSub, whySub, true)
		// ancestors: a loop node = Parent() … until IsNil(), calling the same method on FreeSupply()
		okAnc, whyAnc := false, ""
		for _, dc := range allCallsOfObj(fn, dual) {
			rc, ok := callArgs(dc)[0].(*ssa.Call)
			if !ok || !isCallOfObj(rc, freeSupply) {
				continue
			}
			// the node is a loop-carried value fed by Parent() calls and the loop is left on IsNil()
			nodeV := callArgs(rc)[0]
			fed, guarded := false, false
			Origins(nodeV, func(v ssa.Value) bool {
				if c2, ok := v.(*ssa.Call); ok && isCallOfObj(c2, parent) {
					fed = true
				}
				return false
			})
			for _, cf := range dominatingConds(dc.Block()) {
				if c2, ok := cf.Cond.(*ssa.Call); ok && isCallOfObj(c2, isNil) && !cf.Val {
					guarded = true
				}
			}
			if fed && guarded {
				okAnc = true
				// every round of the walk applies it: from the IsNil() test (not nil) no path reaches the next Parent() without the call
				dcI := ssa.Instruction(dc)
				notNil := func(cond ssa.Value) (bool, bool) {
					neg := false
					if u, ok := cond.(*ssa.UnOp); ok && u.Op == token.NOT {
						cond, neg = u.X, true
					}
					if c, ok := cond.(*ssa.Call); ok && isCallOfObj(c, isNil) {
						return true, neg
					}
					return false, false
				}
				for _, cf := range dominatingConds(dc.Block()) {
					c2, ok := cf.Cond.(*ssa.Call)
					if !ok || !isCallOfObj(c2, isNil) {
						continue
					}
					if sp := FindPath(PathQuery{Fn: fn, From: c2, Assume: notNil, Block: func(x ssa.Instruction) bool { return x == dcI },
						Target: func(x ssa.Instruction) bool { c3, ok := x.(*ssa.Call); return ok && isCallOfObj(c3, parent) }}); sp != nil {
						okAnc, whyAnc = false, "an ancestor can be passed over: "+e.pathString(sp)
					}
				}
			}
		}
		r.Check("R6:propagate-ancestors@"+t.fn, "R6+R1 propagation", t.fn+" applies Supply."+t.method+" to every ancestor (Parent() until IsNil())", e.Pos(fn.Pos()), fn, okAnc, whyAnc, true)
		// no other supply method is applied (dual agreement)
		otherName := map[string]string{"AccountAllocateCPU": "AccountReleaseCPU", "AccountReleaseCPU": "AccountAllocateCPU"}[t.method]
		other := e.objs(pkgTA, "Supply."+otherName, "supply."+otherName)
		bad := false
		for _, f2 := range WithAnon(fn) {
			if len(allCallsOfObj(f2, other)) > 0 {
				bad = true
			}
		}
		r.Check("R6:propagate-dual@"+t.fn, "R6+R1 propagation", t.fn+" never applies the opposite accounting method", e.Pos(fn.Pos()), fn, !bad, "", false)
	}
	if ac := e.Fn(pkgTA, "supply.AllocateCPU"); ac != nil {
		acct := e.objs(pkgTA, "Grant.AccountAllocateCPU", "grant.AccountAllocateCPU")
		r.MustPass("R1:grant-propagated@AllocateCPU", "R6+R1 propagation", "every grant AllocateCPU returns has been propagated through the tree (AccountAllocateCPU)", ac, nil,
			func(ret *ssa.Return) bool { return e.maySucceed(ret) && !isNilConstV(ret.Results[0]) },
			func(in ssa.Instruction) bool { return isCallOfObj(in, acct) }, nil)
	}

	if rs := e.Fn(pkgTA, "supply.Reserve"); rs != nil {
		acct := e.objs(pkgTA, "Grant.AccountAllocateCPU", "grant.AccountAllocateCPU")
		r.MustPass("R1:grant-propagated@Reserve", "R6+R1 propagation", "every grant Reserve re-instates has been propagated through the tree (AccountAllocateCPU), like a freshly allocated one", rs, nil, e.maySucceed,
			func(in ssa.Instruction) bool {
				return isCallOfObj(in, acct) && paramIndex(callArgs(in.(ssa.CallInstruction))[0]) == 1
			}, nil)
		// the grant's CPUs are taken out of the supply only when the supply really holds them
		fI, fS := e.Field(pkgTA, "supply", "isolated"), e.Field(pkgTA, "supply", "sharable")
		for _, f := range []*types.Var{fI, fS} {
			f := f
			notContained := func(cond ssa.Value) (bool, bool) {
				c, ok := cond.(*ssa.Call)
				if !ok {
					return false, false
				}
				fn := c.Common().StaticCallee()
				if fn == nil || fn.Pkg == nil || fn.Pkg.Pkg.Path() != pkgK8sCpuset || fn.Name() != "Equals" {
					return false, false
				}
				// `supply.<f> ∩ X == X`
				if ic, ok := c.Common().Args[0].(*ssa.Call); ok && ic.Common().StaticCallee() != nil && ic.Common().StaticCallee().Name() == "Intersection" {
					for _, a := range ic.Common().Args {
						if g, _ := loadedField(a); g == f {
							return true, false
						}
					}
				}
				return false, false
			}
			r.Unreachable("R2:reserve-only-contained-cpus#"+f.Name(), "R6+R1 propagation", "Reserve removes a grant's CPUs from the supply's "+f.Name()+" set only when the containment test (`"+f.Name()+" ∩ X equals X`) succeeded", rs, nil,
				func(in ssa.Instruction) bool {
					st, ok := in.(*ssa.Store)
					return ok && fieldOfAddr(st.Addr) == f
				}, notContained)
		}
	}

	// ---- rule 3: frame lemmas ------------------------------------------------------------------
	supplyT := e.Named(pkgTA, "supply")
	fIso, fSha, fRes := e.Field(pkgTA, "supply", "isolated"), e.Field(pkgTA, "supply", "sharable"), e.Field(pkgTA, "supply", "reserved")
	lastStore := func(ve *vennEval, f *types.Var, inBlocks func(*ssa.BasicBlock) bool) *sx {
		var best *ssa.Store
		for _, st := range ve.storedValues(f) {
			if inBlocks != nil && !inBlocks(st.Block()) {
				continue
			}
			if fa := st.Addr.(*ssa.FieldAddr); paramIndex(fa.X) != 0 || fieldOwner(fa) != supplyT {
				continue
			}
			if best == nil || dominatesInstr(best, st) {
				best = st
			}
		}
		if best == nil {
			return nil
		}
		return ve.eval(best.Val)
	}
	entry := func(f string) *sx { return sxBase("cs." + f) }
	reportVenn := func(key, what string, fn *ssa.Function, ve *vennEval, assume, goals []vennFact, haveAll bool) {
		if !haveAll {
			r.Undecided(key, "R11 frame lemmas", what, e.Pos(fn.Pos()), fn, "expected stores to the supply sets not found")
			return
		}
		if len(ve.undec) > 0 {
			r.Undecided(key, "R11 frame lemmas", what, e.Pos(fn.Pos()), fn, "set expression not in the straight-line fragment: "+strings.Join(ve.undec, "; "))
			return
		}
		// a pool's own isolated and sharable sets are disjoint (its supply is a partition, see getCpuSupply)
		bs := map[string]bool{}
		for _, g := range goals {
			g.lhs.bases(bs)
			g.rhs.bases(bs)
		}
		for b := range bs {
			if strings.HasPrefix(b, "IsolatedCPUs(") {
				other := "SharableCPUs(" + strings.TrimPrefix(b, "IsolatedCPUs(")
				if bs[other] {
					assume = append(assume, disjoint(sxBase(b), sxBase(other)))
				}
			}
		}
		ok, w := vennHolds(assume, goals)
		r.Check(key, "R11 frame lemmas", what, e.Pos(fn.Pos()), fn, ok, w, true)
	}
	if fn := r.Anchor(pkgTA, "supply.AccountAllocateCPU"); fn != nil {
		var ve *vennEval
		ve = newVennEval(e, fn, taNaming(&ve))
		I, Sh := lastStore(ve, fIso, nil), lastStore(ve, fSha, nil)
		E := sxBase("ExclusiveCPUs(g)")
		goals := []vennFact{}
		if I != nil && Sh != nil {
			goals = []vennFact{disjoint(E, sxOr(I, Sh)), subset(I, entry("isolated")), subset(Sh, entry("sharable")),
				subset(sxDiff(entry("isolated"), E), I), subset(sxDiff(entry("sharable"), E), Sh)}
		}
		reportVenn("R11:frame@AccountAllocateCPU", "after accounting an allocation: isolated' = isolated ∖ E, sharable' = sharable ∖ E (so E ∩ (isolated' ∪ sharable') = ∅ and nothing else changes)", fn, ve, nil, goals, I != nil && Sh != nil)
		r.Check("R11:frame@AccountAllocateCPU#reserved-untouched", "R11 frame lemmas", "accounting an allocation never writes the reserved set", e.Pos(fn.Pos()), fn, len(ve.storedValues(fRes)) == 0, "", false)
	}
	// the accounting applies to every pool other than the granting one: with IsSameNode false no return is reached
	// without updating both the isolated and the sharable set (the tree walk relies on each visited pool doing its part)
	for _, name := range []string{"supply.AccountAllocateCPU", "supply.AccountReleaseCPU"} {
		fn := e.Fn(pkgTA, name)
		if fn == nil {
			continue
		}
		other := func(cond ssa.Value) (bool, bool) {
			if call, ok := cond.(*ssa.Call); ok && callObj(call.Common()) != nil && callObj(call.Common()).Name() == "IsSameNode" {
				return true, false
			}
			return false, false
		}
		for _, f := range []*types.Var{fIso, fSha} {
			f := f
			p := FindPath(PathQuery{Fn: fn, Assume: other, Target: isRet, Block: func(in ssa.Instruction) bool {
				st, ok := in.(*ssa.Store)
				return ok && fieldOfAddr(st.Addr) == f && paramIndex(st.Addr.(*ssa.FieldAddr).X) == 0
			}})
			r.Check("R1:account-applies-to-other-pools@"+fn.Name()+"#"+f.Name(), "R6+R1 propagation", fn.Name()+" updates the "+f.Name()+" set of every pool other than the granting one", e.Pos(fn.Pos()), fn, p == nil, e.pathString(p), true)
		}
	}
	for _, name := range []string{"supply.ReleaseCPU", "supply.AccountReleaseCPU"} {
		fn := r.Anchor(pkgTA, name)
		if fn == nil {
			continue
		}
		var ve *vennEval
		ve = newVennEval(e, fn, taNaming(&ve))
		I, Sh := lastStore(ve, fIso, nil), lastStore(ve, fSha, nil)
		E := sxBase("ExclusiveCPUs(g)")
		var goals []vennFact
		if I != nil && Sh != nil {
			goals = []vennFact{
				subset(sxOr(I, Sh), sxOr(sxOr(entry("isolated"), entry("sharable")), E)), // nothing but the grant's own CPUs comes back
				subset(entry("isolated"), I), subset(entry("sharable"), Sh), // nothing is lost
				disjoint(sxDiff(I, entry("isolated")), sxDiff(Sh, entry("sharable"))), // a returned CPU goes to exactly one of the two sets
			}
		}
		reportVenn("R11:frame@"+name, "a release returns only the released grant's exclusive CPUs, each to exactly one of isolated/sharable, and removes nothing", fn, ve, nil, goals, I != nil && Sh != nil)
		r.Check("R11:frame@"+name+"#reserved-untouched", "R11 frame lemmas", "a release never writes the reserved set", e.Pos(fn.Pos()), fn, len(ve.storedValues(fRes)) == 0, "", false)
	}
	if fn := r.Anchor(pkgTA, "supply.AccountReleaseCPU"); fn != nil {
		// additionally: restricted to the node's own CPUs
		var ve *vennEval
		ve = newVennEval(e, fn, taNaming(&ve))
		I, Sh := lastStore(ve, fIso, nil), lastStore(ve, fSha, nil)
		if I != nil && Sh != nil && len(ve.undec) == 0 {
			bs := map[string]bool{}
			I.bases(bs)
			Sh.bases(bs)
			var nodeI, nodeS *sx
			for b := range bs {
				if strings.HasPrefix(b, "IsolatedCPUs(") && !strings.Contains(b, "(g)") {
					nodeI = sxBase(b)
				}
				if strings.HasPrefix(b, "SharableCPUs(") {
					nodeS = sxBase(b)
				}
			}
			okR := nodeI != nil && nodeS != nil
			w := "the node's own isolated/sharable sets do not occur in the expression"
			if okR {
				okR, w = vennHolds(nil, []vennFact{subset(sxDiff(sxOr(I, Sh), sxOr(entry("isolated"), entry("sharable"))), sxOr(nodeI, nodeS))})
			}
			r.Check("R11:frame@supply.AccountReleaseCPU#node-restricted", "R11 frame lemmas", "CPUs returned to another pool's free supply are restricted to that pool's own CPUs", e.Pos(fn.Pos()), fn, okR, w, true)
		}
	}
	if fn := r.Anchor(pkgTA, "supply.Reserve"); fn != nil {
		var ve *vennEval
		ve = newVennEval(e, fn, taNaming(&ve))
		// the cpuNormal arm: stores dominated by CPUType() == cpuNormal
		cpuNormal, _ := e.TypesPkg(pkgTA).Scope().Lookup("cpuNormal").(*types.Const)
		inNormal := func(b *ssa.BasicBlock) bool {
			for _, cf := range dominatingConds(b) {
				if bo, ok := cf.Cond.(*ssa.BinOp); ok && bo.Op == token.EQL && cf.Val && isConstEq(bo.Y, cpuNormal) {
					return true
				}
			}
			return false
		}
		I, Sh := lastStore(ve, fIso, inNormal), lastStore(ve, fSha, inNormal)
		GI, E := sxBase("IsolatedCPUs(g)"), sxBase("ExclusiveCPUs(g)")
		var goals []vennFact
		assume := []vennFact{
			subset(GI, entry("isolated")),                  // guard 1: isolated ∩ GI == GI
			subset(sxDiff(E, GI), entry("sharable")),       // guard 2: sharable ∩ (E∖GI) == E∖GI
			disjoint(entry("isolated"), entry("sharable")), // invariant at entry
			subset(GI, E), // IsolatedCPUs() is a subset of the grant's exclusive CPUs
		}
		if I != nil && Sh != nil {
			goals = []vennFact{disjoint(E, sxOr(I, Sh)), subset(I, entry("isolated")), subset(Sh, entry("sharable")), disjoint(I, Sh)}
		}
		reportVenn("R11:frame@Reserve", "re-instating a normal-class grant removes all of its exclusive CPUs from the free isolated/sharable sets (under the function's own guards)", fn, ve, assume, goals, I != nil && Sh != nil)
		// the guards exist: error returns dominated by the two Equals tests
		nGuards := 0
		AllInstrs(fn, func(in ssa.Instruction) {
			if call, ok := in.(*ssa.Call); ok && callObj(call.Common()) != nil && callObj(call.Common()).Name() == "Equals" {
				nGuards++
			}
		})
		r.Check("R11:frame@Reserve#guards", "R11 frame lemmas", "Reserve tests that the grant's isolated and exclusive CPUs are still free before taking them", e.Pos(fn.Pos()), fn, nGuards >= 2, fmt.Sprint(nGuards), false)
	}
	if fn := r.Anchor(pkgTA, "policy.getCpuSupply"); fn != nil {
		checkSupplyPartition(e, r, fn, "R11:partition@getCpuSupply")
	}

	// ---- rule 4: re-pin after every change ---------------------------------------------------------
	usa := r.Anchor(pkgTA, "policy.updateSharedAllocations")
	if usa != nil {
		allocPool, relPool := e.Fn(pkgTA, "policy.allocatePool"), e.Fn(pkgTA, "policy.releasePool")
		isUSA := func(in ssa.Instruction) bool { return e.IsCallTo(in, fset(usa)) }
		for _, t := range []struct {
			fn      string
			trigger *ssa.Function
			succ    bool
		}{{"policy.allocateResources", allocPool, true}, {"policy.ReleaseResources", relPool, false}, {"policy.UpdateResources", relPool, false}, {"policy.reallocateResources", allocPool, true}} {
			fn := r.Anchor(pkgTA, t.fn)
			if fn == nil || t.trigger == nil {
				continue
			}
			for _, c := range e.callsTo(fn, t.trigger) {
				var assume Assumption
				if t.succ {
					assume = callSucceeded(c.Value())
				} else {
					assume = okOf(c.Value(), true) // (grant, found): found == true
				}
				r.MustPass("R1:repin@"+t.fn, "R1 re-pin after every change", "after "+t.trigger.Name()+" changed a pool, every successful return of "+t.fn+" passes updateSharedAllocations (directly or in a callee that always does)", fn, c.(ssa.Instruction),
					e.maySucceed, func(in ssa.Instruction) bool {
						if isUSA(in) {
							return true
						}
						// a callee that always re-pins on success
						if ci, ok := in.(ssa.CallInstruction); ok {
							for _, g := range e.Callees(ci) {
								if g == e.Fn(pkgTA, "policy.allocateResources") || g == e.Fn(pkgTA, "policy.AllocateResources") {
									return true
								}
							}
						}
						return false
					}, assume)
			}
		}
		if fn := e.Fn(pkgTA, "policy.reinstateGrants"); fn != nil {
			r.MustPass("R1:repin@policy.reinstateGrants", "R1 re-pin after every change", "after re-instating grants every successful return passes updateSharedAllocations", fn, nil, e.maySucceed, isUSA, nil)
		}
		// it ranges over all grants, and leaves the loop only through the enumerated skips
		fGrants := e.Field(pkgTA, "allocations", "grants")
		var rg *ssa.Range
		AllInstrs(usa, func(in ssa.Instruction) {
			if x, ok := in.(*ssa.Range); ok {
				if f, _ := loadedField(x.X); f == fGrants {
					rg = x
				}
			}
		})
		okAll := rg != nil
		if okAll {
			// no return is reachable from inside the loop body without going back to the loop head
			var next *ssa.Next
			for _, ref := range *rg.Referrers() {
				if nx, ok := ref.(*ssa.Next); ok {
					next = nx
				}
			}
			for _, ret := range Returns(usa) {
				if next != nil && next.Block().Dominates(ret.Block()) && ret.Block() != next.Block() {
					// a return dominated by the loop head but not the loop exit itself
					exit := false
					for _, cf := range dominatingConds(ret.Block()) {
						if ex, ok := cf.Cond.(*ssa.Extract); ok && ex.Tuple == next && ex.Index == 0 && !cf.Val {
							exit = true
						}
					}
					if !exit {
						okAll = false
					}
				}
			}
		}
		checkRepinCoverage(e, r)
		// unless the triggering grant is of the reserved class, the loop over the grants is always reached
		{
			cpuReservedK, _ := e.TypesPkg(pkgTA).Scope().Lookup("cpuReserved").(*types.Const)
			notReserved := func(cond ssa.Value) (bool, bool) {
				b, ok := cond.(*ssa.BinOp)
				if !ok || (b.Op != token.EQL && b.Op != token.NEQ) || !isConstEq(b.Y, cpuReservedK) {
					return false, false
				}
				return true, b.Op == token.NEQ
			}
			var rng ssa.Instruction
			AllInstrsOf(usa, func(in ssa.Instruction) {
				if rg, ok := in.(*ssa.Range); ok {
					if f, _ := loadedField(rg.X); f != nil && f.Name() == "grants" {
						rng = in
					}
				}
			})
			bp := FindPath(PathQuery{Fn: usa, Assume: notReserved, Block: func(x ssa.Instruction) bool { return x == rng }, Target: func(x ssa.Instruction) bool { _, ok := x.(*ssa.Return); return ok }})
			r.Check("R1:repin-loop-always-reached", "R1 re-pin after every change", "updateSharedAllocations returns early only for a reserved-class grant; otherwise it always reaches the loop over the grants", e.Pos(usa.Pos()), usa, rng != nil && bp == nil, e.pathString(bp), true)
		}
		r.Check("R1:repin-visits-all-grants", "R1 re-pin after every change", "updateSharedAllocations iterates over every grant and never returns from inside the loop", e.Pos(usa.Pos()), usa, okAll, "", true)
	}

	// ---- rule 5: composition of the told cpuset --------------------------------------------------------
	if ag := r.Anchor(pkgTA, "policy.applyGrant"); ag != nil {
		setPref := e.Fn(pkgTA, "policy.setPreferredCpusetCpus")
		cpuReserved, _ := e.TypesPkg(pkgTA).Scope().Lookup("cpuReserved").(*types.Const)
		cpuNormal, _ := e.TypesPkg(pkgTA).Scope().Lookup("cpuNormal").(*types.Const)
		cpuType := e.objs(pkgTA, "Grant.CPUType", "grant.CPUType")
		classIs := func(k *types.Const) Assumption {
			return func(cond ssa.Value) (bool, bool) {
				b, ok := cond.(*ssa.BinOp)
				if !ok || (b.Op != token.EQL && b.Op != token.NEQ) {
					return false, false
				}
				c, isK := b.Y.(*ssa.Const)
				if !isK || c.Value == nil || !types.Identical(c.Type(), k.Type()) {
					return false, false
				}
				isCT := false
				Origins(b.X, func(v ssa.Value) bool {
					if call, ok := v.(*ssa.Call); ok && isCallOfObj(call, cpuType) {
						isCT = true
					}
					return false
				})
				if !isCT {
					return false, false
				}
				return true, isConstEq(b.Y, k) == (b.Op == token.EQL)
			}
		}
		// the composed set actually reaches the runtime: setPreferredCpusetCpus tells its container the set it is given (or
		// that set with hyperthreads hidden), and applyGrant calls it whenever CPU pinning is on, the class is pinned and
		// the composed set is not empty — it never clears the cpuset of a container that has CPUs
		if setPref != nil && len(setPref.Params) >= 3 {
			contP, allocP := ssa.Value(setPref.Params[1]), ssa.Value(setPref.Params[2])
			tells := func(in ssa.Instruction) bool {
				ci, ok := in.(ssa.CallInstruction)
				if !ok || callObj(ci.Common()) == nil || callObj(ci.Common()).Name() != "SetCpusetCpus" {
					return false
				}
				a := callArgs(ci)
				if len(a) != 2 || !sameObject(a[0], contP) {
					return false
				}
				str, ok := a[1].(*ssa.Call)
				if !ok || callObj(str.Common()) == nil || callObj(str.Common()).Name() != "String" {
					return false
				}
				return originAll(callArgs(str)[0], func(v ssa.Value) bool {
					if sameObject(v, allocP) {
						return true
					}
					if c2, ok := v.(*ssa.Call); ok && callObj(c2.Common()) != nil && callObj(c2.Common()).Name() == "SingleThreadForCPUs" {
						a2 := callArgs(c2)
						return len(a2) == 2 && sameObject(a2[1], allocP)
					}
					return false
				})
			}
			p := FindPath(PathQuery{Fn: setPref, Target: isRet, Block: tells})
			r.Check("R6:told-set-reaches-runtime@setPreferredCpusetCpus", "R6+R11 composition of the told cpuset", "setPreferredCpusetCpus tells its container the CPU set it was given, or that set reduced to one thread per core", e.Pos(setPref.Pos()), setPref, p == nil, e.pathString(p), true)
		}
		for _, c := range e.callsTo(ag, setPref) {
			cpus := callArgs(c)[2]
			for _, cls := range []struct {
				k    *types.Const
				name string
			}{{cpuNormal, "normal"}, {cpuReserved, "reserved"}} {
				if cls.k == nil {
					continue
				}
				ofClass := classIs(cls.k)
				pinned := func(cond ssa.Value) (bool, bool) {
					if f, _ := loadedField(cond); f != nil && f.Name() == "PinCPU" {
						return true, true
					}
					if k, v := ofClass(cond); k {
						return k, v
					}
					b, ok := cond.(*ssa.BinOp)
					if !ok {
						return false, false
					}
					if isConstInt(b.Y, 0) {
						if sz, ok := b.X.(*ssa.Call); ok && callObj(sz.Common()) != nil && callObj(sz.Common()).Name() == "Size" && sameObject(callArgs(sz)[0], cpus) {
							return cmpZero(sgPos, b.Op)
						}
					}
					return false, false
				}
				cc := c
				p := FindPath(PathQuery{Fn: ag, Assume: pinned, Target: isRet, Block: func(in ssa.Instruction) bool { return in == cc.(ssa.Instruction) }})
				r.Check("R6:told-set-reaches-runtime@applyGrant#pinned-"+cls.name, "R6+R11 composition of the told cpuset", "with CPU pinning on and a non-empty composed set, applyGrant tells a "+cls.name+"-class container that set", e.InstrPos(c), ag, p == nil, e.pathString(p), true)
				p = FindPath(PathQuery{Fn: ag, Assume: pinned, Target: func(in ssa.Instruction) bool {
					ci, ok := in.(ssa.CallInstruction)
					if !ok || callObj(ci.Common()) == nil || callObj(ci.Common()).Name() != "SetCpusetCpus" {
						return false
					}
					k, isK := callArgs(ci)[1].(*ssa.Const)
					return isK && k.Value != nil && k.Value.ExactString() == `""`
				}})
				r.Check("R6:told-set-reaches-runtime@applyGrant#never-cleared-"+cls.name, "R6+R11 composition of the told cpuset", "applyGrant does not clear the cpuset of a "+cls.name+"-class container whose composed set is non-empty (an unpinned container could run on other containers' exclusive CPUs)", e.InstrPos(c), ag, p == nil, e.pathString(p), true)
			}
		}
		for _, c := range e.callsTo(ag, setPref) {
			cpus := callArgs(c)[2]
			for _, cls := range []struct {
				k     *types.Const
				name  string
				bound func(map[string]*sx) *sx
			}{
				{cpuReserved, "reserved", func(b map[string]*sx) *sx { return b["ReservedCPUs(grant)"] }},
				{cpuNormal, "normal", func(b map[string]*sx) *sx { return sxOr(b["ExclusiveCPUs(grant)"], b["SharedCPUs(grant)"]) }},
			} {
				// all origins of the told set under this class
				var exprs []*sx
				var ve *vennEval
				ve = newVennEval(e, ag, func(v ssa.Value) string {
					if call, ok := v.(*ssa.Call); ok {
						if o := callObj(call.Common()); o != nil {
							switch o.Name() {
							case "ExclusiveCPUs", "ReservedCPUs", "SharedCPUs":
								return o.Name() + "(grant)"
							}
						}
					}
					return ""
				})
				OriginsUnder(ag, cpus, classIs(cls.k), func(v ssa.Value) bool {
					if _, isPhi := v.(*ssa.Phi); isPhi {
						return false
					}
					if u, ok := v.(*ssa.UnOp); ok && u.Op == token.MUL {
						if al, ok := u.X.(*ssa.Alloc); ok {
							for _, st := range reachingStores(al, u) {
								if reachableBlock(ag, st.Block(), classIs(cls.k)) {
									exprs = append(exprs, ve.eval(st.Val))
								}
							}
							return true
						}
					}
					exprs = append(exprs, ve.eval(v))
					return true
				})
				bases := map[string]*sx{"ReservedCPUs(grant)": sxBase("ReservedCPUs(grant)"), "ExclusiveCPUs(grant)": sxBase("ExclusiveCPUs(grant)"), "SharedCPUs(grant)": sxBase("SharedCPUs(grant)")}
				okC, w := len(exprs) > 0, "no source found"
				for _, x := range exprs {
					if x.op == "empty" {
						continue // the initial empty set (not pinned)
					}
					ok2, w2 := vennHolds(nil, []vennFact{subset(x, cls.bound(bases))})
					if !ok2 {
						okC, w = false, x.String()+": "+w2
					}
				}
				if okC {
					w = ""
				}
				what := map[string]string{"reserved": "a reserved-class container is told a subset of the reserved CPUs only (never mixed with other CPUs)",
					"normal": "a normal-class container is told only its exclusive CPUs and/or the free sharable CPUs of its pool"}[cls.name]
				r.Check("R11:told-set@applyGrant#"+cls.name, "R6+R11 composition of the told cpuset", what, e.InstrPos(c), ag, okC, w, true)
			}
		}
		r.MinKeys("R11:told-set@applyGrant", 2)
	}
	// grant.SharedCPUs() comes from the FREE supply
	if fn := r.Anchor(pkgTA, "grant.SharedCPUs"); fn != nil {
		ok := false
		for _, ret := range Returns(fn) {
			if call, isC := ret.Results[0].(*ssa.Call); isC && callObj(call.Common()) != nil && callObj(call.Common()).Name() == "SharableCPUs" {
				if rc, isC2 := callArgs(call)[0].(*ssa.Call); isC2 && isCallOfObj(rc, freeSupply) {
					ok = true
				}
			}
		}
		r.Check("R6:shared-from-free-supply", "R6+R11 composition of the told cpuset", "the shared CPUs of a grant are the sharable CPUs of the pool's FREE supply (from which all exclusive grants have been removed)", e.Pos(fn.Pos()), fn, ok, "", true)
	}
	if usa != nil {
		// updateSharedAllocations tells shared / exclusive ∪ shared of the other grant's node free supply
		setPref := e.Fn(pkgTA, "policy.setPreferredCpusetCpus")
		for _, c := range e.callsTo(usa, setPref) {
			var ve *vennEval
			ve = newVennEval(e, usa, func(v ssa.Value) string {
				if call, ok := v.(*ssa.Call); ok {
					if o := callObj(call.Common()); o != nil {
						switch o.Name() {
						case "ExclusiveCPUs":
							return "ExclusiveCPUs(other)"
						case "SharableCPUs":
							if rc, ok := callArgs(call)[0].(*ssa.Call); ok && isCallOfObj(rc, freeSupply) {
								return "FreeSharable(other.node)"
							}
							return "TotalSharable"
						}
					}
				}
				return ""
			})
			x := ve.eval(callArgs(c)[2])
			ok, w := vennHolds(nil, []vennFact{subset(x, sxOr(sxBase("ExclusiveCPUs(other)"), sxBase("FreeSharable(other.node)")))})
			r.Check("R11:told-set@updateSharedAllocations", "R6+R11 composition of the told cpuset", "re-pinning tells a container only its own exclusive CPUs and the free sharable CPUs of its own pool", e.InstrPos(c), usa, ok && len(ve.undec) == 0, w+strings.Join(ve.undec, ";"), true)
			// … and keeps the container's own exclusive CPUs in the set: under the emptiness tests that dominate the call,
			// ExclusiveCPUs(other) ⊆ told
			var given []vennFact
			for _, cf := range dominatingConds(c.Block()) {
				if call, ok := cf.Cond.(*ssa.Call); ok && callObj(call.Common()) != nil && callObj(call.Common()).Name() == "IsEmpty" && cf.Val {
					given = append(given, subset(ve.eval(callArgs(call)[0]), sxEmpty()))
				}
			}
			ok2, w2 := vennHolds(given, []vennFact{subset(sxBase("ExclusiveCPUs(other)"), x)})
			r.Check("R11:told-set-keeps-exclusive@updateSharedAllocations", "R6+R11 composition of the told cpuset", "re-pinning never drops a container's own exclusive CPUs from the set it is told", e.InstrPos(c), usa, ok2, w2, true)
		}
	}

	// ---- rule 6: reserved eligibility -------------------------------------------------------------------
	if fn := r.Anchor(pkgTA, "cpuAllocationPreferences"); fn != nil {
		cpuReserved, _ := e.TypesPkg(pkgTA).Scope().Lookup("cpuReserved").(*types.Const)
		annot := e.Fn(pkgTA, "checkReservedCPUsAnnotations")
		nsCheck := e.Fn(pkgTA, "checkReservedPoolNamespaces")
		notEligible := func(cond ssa.Value) (bool, bool) {
			if ex, ok := cond.(*ssa.Extract); ok && ex.Index == 0 {
				if call, ok := ex.Tuple.(*ssa.Call); ok && e.IsCallTo(call, fset(annot)) {
					return true, false // preferReserved is false
				}
			}
			if call, ok := cond.(*ssa.Call); ok && e.IsCallTo(call, fset(nsCheck)) {
				return true, false // not a reserved namespace
			}
			return false, false
		}
		p := FindPath(PathQuery{Fn: fn, Assume: notEligible, Target: func(in ssa.Instruction) bool {
			ret, ok := in.(*ssa.Return)
			return ok && len(ret.Results) >= 4 && isConstEq(ret.Results[3], cpuReserved)
		}})
		r.Check("R2:reserved-eligibility", "R2 reserved-class eligibility", "without the reserved-CPU annotation and outside the reserved namespaces no container is classified reserved", e.Pos(fn.Pos()), fn, p == nil, e.pathString(p), true)
		checkReservedOptOut(e, r, fn, "R2 reserved-class eligibility")
		// every return's class is a constant (no computed class)
		okConst := true
		for _, ret := range Returns(fn) {
			if _, ok := ret.Results[3].(*ssa.Const); !ok {
				okConst = false
			}
		}
		r.Check("R2:class-is-constant", "R2 reserved-class eligibility", "the CPU class returned is one of the declared constants on every path", e.Pos(fn.Pos()), fn, okConst, "", false)
	}
	if fn := r.Anchor(pkgTA, "checkReservedPoolNamespaces"); fn != nil {
		// true only for NamespaceSystem or a filepath.Match hit
		okNS := true
		for _, ret := range Returns(fn) {
			k, isK := ret.Results[0].(*ssa.Const)
			if !isK || k.Value == nil || k.Value.ExactString() != "true" {
				continue
			}
			good := false
			for _, cf := range dominatingConds(ret.Block()) {
				if !cf.Val {
					continue
				}
				if b, ok := cf.Cond.(*ssa.BinOp); ok && b.Op == token.EQL && paramIndex(b.X) == 0 {
					if s, ok := constString(b.Y); ok && s == "kube-system" {
						good = true
					}
				}
				if ex, ok := cf.Cond.(*ssa.Extract); ok && ex.Index == 0 {
					if call, ok := ex.Tuple.(*ssa.Call); ok && call.Common().StaticCallee() != nil && call.Common().StaticCallee().String() == "path/filepath.Match" {
						good = true
					}
				}
			}
			if !good {
				okNS = false
			}
		}
		r.Check("R2:reserved-namespaces", "R2 reserved-class eligibility", "a namespace counts as reserved only if it is kube-system or matches a configured pattern", e.Pos(fn.Pos()), fn, okNS, "", true)
	}
	if fn := e.Fn(pkgTA, "policy.allocatePool"); fn != nil {
		setType := e.objs(pkgTA, "Request.SetCPUType", "request.SetCPUType")
		cpuNormal, _ := e.TypesPkg(pkgTA).Scope().Lookup("cpuNormal").(*types.Const)
		cpuReserved, _ := e.TypesPkg(pkgTA).Scope().Lookup("cpuReserved").(*types.Const)
		nst := 0
		for _, fn2 := range taFns {
			for _, c := range allCallsOfObj(fn2, setType) {
				nst++
				a := callArgs(c)
				okRewrite := TopParent(fn2) == fn && isConstEq(a[1], cpuNormal)
				if okRewrite {
					// only when the request was reserved and the root has no reserved CPUs
					okRewrite = false
					hasEmpty, hasRes := false, false
					for _, cf := range dominatingConds(c.Block()) {
						if call, ok := cf.Cond.(*ssa.Call); ok && cf.Val && callObj(call.Common()) != nil && callObj(call.Common()).Name() == "IsEmpty" {
							hasEmpty = true
						}
						if b, ok := cf.Cond.(*ssa.BinOp); ok && cf.Val && b.Op == token.EQL && isConstEq(b.Y, cpuReserved) {
							hasRes = true
						}
					}
					okRewrite = hasEmpty && hasRes
				}
				r.Check("R2:class-rewrite@"+FnName(TopParent(fn2)), "R2 reserved-class eligibility", "the only rewrite of a request's CPU class is reserved→normal when the pool tree has no reserved CPUs", e.InstrPos(c), fn2, okRewrite, "", true)
			}
		}
		r.MinInstances("CPU class rewrites", nst, 1)
	}
}

// checkSupplyPartition (C01 rule 7 / C16 rule 3): the three sets handed to
// newSupply partition cpus ∩ allowed.
func checkSupplyPartition(e *Engine, r *Report, fn *ssa.Function, key string) {
	newSupply := e.Fn(pkgTA, "newSupply")
	calls := e.callsTo(fn, newSupply)
	if len(calls) != 1 {
		r.Undecided(key, "R11 frame lemmas", "getCpuSupply builds one supply", e.Pos(fn.Pos()), fn, fmt.Sprintf("%d newSupply calls", len(calls)))
		return
	}
	ve := newVennEval(e, fn, func(v ssa.Value) string {
		if f, base := loadedField(v); f != nil && paramIndex(base) == 0 {
			return "p." + f.Name()
		}
		if paramIndex(v) == 2 {
			return "cpus"
		}
		return ""
	})
	a := callArgs(calls[0])
	iso, res, sha := ve.eval(a[1]), ve.eval(a[2]), ve.eval(a[3])
	if len(ve.undec) > 0 {
		r.Undecided(key, "R11 frame lemmas", "supply sets are straight-line set algebra", e.Pos(fn.Pos()), fn, strings.Join(ve.undec, "; "))
		return
	}
	C, Al, PI, PR := sxBase("cpus"), sxBase("p.allowed"), sxBase("p.isolated"), sxBase("p.reserved")
	avail := sxAnd(C, Al)
	goals := []vennFact{
		subset(sxOr(sxOr(iso, res), sha), avail), subset(avail, sxOr(sxOr(iso, res), sha)), // union = cpus ∩ allowed
		disjoint(sha, iso), disjoint(sha, res), disjoint(iso, res),
	}
	ok, w := vennHolds([]vennFact{disjoint(PI, PR)}, goals)
	r.Check(key, "R11 frame lemmas", "a pool's isolated, reserved and sharable sets are pairwise disjoint and their union is exactly cpus ∩ allowed (given isolated ∩ reserved = ∅ in the configuration)", e.Pos(fn.Pos()), fn, ok, w, true)
	// without the configuration assumption the only overlap is isolated∩reserved
	ok2, w2 := vennHolds(nil, []vennFact{disjoint(sha, iso), disjoint(sha, res), subset(sxOr(sxOr(iso, res), sha), Al)})
	r.Check(key+"#within-allowed", "R11 frame lemmas", "every CPU of a pool's supply lies inside the configured available CPUs, and the sharable set never overlaps isolated or reserved CPUs", e.Pos(fn.Pos()), fn, ok2, w2, true)
	// the free supply is a clone of the total
	okClone := false
	for _, ret := range Returns(fn) {
		if len(ret.Results) == 2 {
			if call, ok := ret.Results[1].(*ssa.Call); ok && callObj(call.Common()) != nil && callObj(call.Common()).Name() == "Clone" && callArgs(call)[0] == ret.Results[0] {
				okClone = true
			}
		}
	}
	r.Check(key+"#free-is-clone", "R11 frame lemmas", "a pool's free supply starts as a clone of its total supply", e.Pos(fn.Pos()), fn, okClone, "", true)
}

// checkReservedOptOut (shared by C01 and C03): an explicit reserved-CPU annotation that says "false" overrides
// the reserved-namespace rule — a container that opts out is never classified reserved.
func checkReservedOptOut(e *Engine, r *Report, fn *ssa.Function, rule string) {
	cpuReserved, _ := e.TypesPkg(pkgTA).Scope().Lookup("cpuReserved").(*types.Const)
	annot := e.Fn(pkgTA, "checkReservedCPUsAnnotations")
	optedOut := func(cond ssa.Value) (bool, bool) {
		v := cond
		if ex, ok := v.(*ssa.Extract); ok {
			if call, ok := ex.Tuple.(*ssa.Call); ok && e.IsCallTo(call, fset(annot)) {
				switch ex.Index {
				case 0:
					return true, false // the annotation does not ask for reserved CPUs …
				case 1:
					return true, true // … and it is explicit
				}
			}
		}
		return false, false
	}
	p := FindPath(PathQuery{Fn: fn, Assume: optedOut, Target: func(in ssa.Instruction) bool {
		ret, ok := in.(*ssa.Return)
		return ok && len(ret.Results) >= 4 && isConstEq(ret.Results[3], cpuReserved)
	}})
	r.Check("R2:reserved-explicit-opt-out", rule, "a container whose reserved-CPU annotation explicitly says no is never classified reserved, whatever its namespace", e.Pos(fn.Pos()), fn, p == nil && annot != nil, e.pathString(p), true)
}
