package main

import (
	"fmt"
	"go/token"
	"go/types"
	"strings"

	"golang.org/x/tools/go/ssa"
)

// C08 — CPU allocator contract: exact count, subset, set bookkeeping, determinism.
func init() { register("C08", "CPU allocator contract", checkC08) }

func checkC08(e *Engine, r *Report) {
	r.Rules = []string{
		"R5 paired update: every `result-chain.Union(X)` in pkg/cpuallocator has, in the same basic block, `from-chain.Difference(X)` with the same X (and vice versa), and the count is reduced by `X.Size()` in that block — or the block is one of the two reviewed exact-size sites whose guard is checked; the count never goes negative: each reduction by X.Size() is covered by a dominating test cnt >= |X| on the same count and set, is the answer of a nested helper asked for exactly cnt, takes a single CPU under the loop invariant cnt >= 1, or an overshoot is provably discarded before any commit (a negative count could never reach the cnt == 0 gate again); the helper's result/from/cnt fields are written only by the take* stages (as a triple when copied back from locals), by allocateCpus' set-up and on freshly created nested helpers",
		"R2 count gate: allocate() returns the accumulated result only when the remaining count is 0 and an empty set otherwise",
		"R3 write-back discipline: the caller's set is written only in allocateCpus — not at all when it is too small (error, empty result), emptied when exactly the whole set is taken (result = a clone of it), replaced by the helper's remainder otherwise; ReleaseCpus allocates |set|-n and leaves n",
		"R12 pick/take agreement: a stage that first picks idle units with a predicate `S(unit) ∩ remaining == S(unit)` and then takes T(unit) per picked unit takes T ⊆ S — the same symbolic set of the unit (Venn algebra over canonicalised expressions of the filter closure and the loop body)",
		"R10 determinism: no map iteration, randomness, clock, goroutine or select influences the allocation path; every comparator handed to a sort in that path ends in a comparison of ids",
	}
	r.NotDecided = []string{"that the stages always find n CPUs when n <= |set| on every topology (a value-level reachability question)", "that each X is a subset of the remaining set at the point of the update, for the stages driven by sorter tables (clusters, cache groups: provenance is value-level; the structural part — same X on both sides — is decided; for the pick-predicate stages the agreement of predicate and take is decided)", "optimality of the choice"}
	r.Assumptions = []string{"cpuset.CPUSet operations are pure set algebra"}

	helperT := e.Named(pkgCPUA, "allocatorHelper")
	if helperT == nil {
		r.Undecided("anchor:allocatorHelper", "anchor", "allocatorHelper exists", "-", nil, "not found")
		return
	}
	checkCacheGroupTotalsAligned(e, r)
	fRes, fFrom, fCnt := e.Field(pkgCPUA, "allocatorHelper", "result"), e.Field(pkgCPUA, "allocatorHelper", "from"), e.Field(pkgCPUA, "allocatorHelper", "cnt")
	allocateCpus := r.Anchor(pkgCPUA, "cpuAllocator.allocateCpus")
	allocate := r.Anchor(pkgCPUA, "allocatorHelper.allocate")
	release := r.Anchor(pkgCPUA, "cpuAllocator.ReleaseCpus")
	newHelper := r.Anchor(pkgCPUA, "newAllocatorHelper")
	if fRes == nil || fFrom == nil || fCnt == nil || allocateCpus == nil || allocate == nil || release == nil || newHelper == nil {
		return
	}
	fns := e.funcsInPkg(pkgCPUA)
	isSetOp := func(v ssa.Value, name string) (*ssa.Call, bool) {
		call, ok := v.(*ssa.Call)
		if !ok {
			return nil, false
		}
		f := call.Common().StaticCallee()
		if f == nil || f.Pkg == nil || f.Pkg.Pkg.Path() != pkgK8sCpuset || f.Name() != name {
			return nil, false
		}
		return call, true
	}
	// chainRoots: which helper fields does this CPUSet/int value descend from (through phis, local cells, Union/Difference/Clone receivers, and `x - n` for counts)?
	chainRoots := func(v ssa.Value) map[*types.Var]bool {
		roots := map[*types.Var]bool{}
		seen := map[ssa.Value]bool{}
		var walk func(v ssa.Value, d int)
		walk = func(v ssa.Value, d int) {
			if v == nil || seen[v] || d > 40 {
				return
			}
			seen[v] = true
			if f, base := loadedField(v); f != nil && (f == fRes || f == fFrom || f == fCnt) {
				_ = base
				roots[f] = true
				return
			}
			switch x := v.(type) {
			case *ssa.Phi:
				for _, ed := range x.Edges {
					walk(ed, d+1)
				}
			case *ssa.Call:
				f := x.Common().StaticCallee()
				if f != nil && f.Pkg != nil && f.Pkg.Pkg.Path() == pkgK8sCpuset {
					switch f.Name() {
					case "Union", "Difference", "Clone":
						walk(x.Common().Args[0], d+1)
					}
				}
			case *ssa.BinOp:
				if x.Op == token.SUB {
					walk(x.X, d+1)
				}
			case *ssa.UnOp:
				if x.Op == token.MUL {
					if al, ok := x.X.(*ssa.Alloc); ok {
						for _, st := range reachingStores(al, x) {
							walk(st.Val, d+1)
						}
					}
					if fv, ok := x.X.(*ssa.FreeVar); ok {
						_ = fv
					}
				}
			}
		}
		walk(v, 0)
		return roots
	}

	// ---- rule 1: paired update -------------------------------------------------------
	nPairs := 0
	exact := map[string]string{
		"takeAny":         "X is built from exactly the first cnt CPUs of the remaining set (cpus[0:a.cnt]), so the count becomes 0",
		"takeCacheGroups": "exact-size branch: the copy-back with cnt = 0 is reached only if X.Size() == cnt (the mismatch returns before it)",
	}
	for _, fn := range fns {
		for _, b := range fn.Blocks {
			var unions, diffs []*ssa.Call
			for _, in := range b.Instrs {
				if c, ok := isSetOp(valueOf(in), "Union"); ok && chainRoots(c.Common().Args[0])[fRes] {
					unions = append(unions, c)
				}
				if c, ok := isSetOp(valueOf(in), "Difference"); ok && chainRoots(c.Common().Args[0])[fFrom] && !chainRoots(c.Common().Args[0])[fRes] {
					// only updates of the remaining set count: the value must flow on (stored or merged), not a pure query
					if flowsOn(c) {
						diffs = append(diffs, c)
					}
				}
			}
			for _, u := range unions {
				nPairs++
				x := variadicSingle(u.Common().Args[1])
				var partner *ssa.Call
				for _, d := range diffs {
					if d.Common().Args[1] == x {
						partner = d
					}
				}
				site := FnName(TopParent(fn))
				r.Check("R5:paired@"+site, "R5 paired update", "CPUs added to the result are removed from the remaining set in the same step (same X on both sides)",
					e.InstrPos(u), fn, partner != nil, "", true)
				// count
				okCnt := false
				for _, in := range b.Instrs {
					if bo, ok := in.(*ssa.BinOp); ok && bo.Op == token.SUB && chainRoots(bo.X)[fCnt] {
						if sz, ok := bo.Y.(*ssa.Call); ok && callObj(sz.Common()) != nil && callObj(sz.Common()).Name() == "Size" && sz.Common().Args[0] == x {
							okCnt = true
						}
					}
				}
				why := ""
				if !okCnt {
					short := TopParent(fn).Name()
					if reason, ok := exact[short]; ok && exactSizeGuard(e, fn, x, chainRoots, fCnt) {
						okCnt, why = true, "reviewed exact-size site: "+reason
						// at an exact-size site the count is not reduced by X.Size() but set to 0: when the union is made on
						// the helper's own result (not on locals that are copied back later), every way on to a return must
						// have stored that 0 — otherwise allocate() sees a non-zero count and hands back an empty set
						if f, _ := loadedField(u.Common().Args[0]); f == fRes {
							zeroed := func(in ssa.Instruction) bool {
								st, ok := in.(*ssa.Store)
								return ok && fieldOfAddr(st.Addr) == fCnt && isConstInt(st.Val, 0)
							}
							if p := FindPath(PathQuery{Fn: fn, From: u, Target: isRet, Block: zeroed}); p != nil {
								okCnt, why = false, "the exact-size take does not set the remaining count to 0: "+e.pathString(p)
							}
						}
					}
				}
				r.Check("R5:count@"+site, "R5 paired update", "the remaining count is reduced by exactly X.Size() in the same step (or the step is a reviewed exact-size site)",
					e.InstrPos(u), fn, okCnt, why, true)
			}
			for _, d := range diffs {
				x := d.Common().Args[1]
				has := false
				for _, u := range unions {
					if variadicSingle(u.Common().Args[1]) == x {
						has = true
					}
				}
				if !has {
					r.Check("R5:paired-reverse@"+FnName(TopParent(fn)), "R5 paired update", "CPUs removed from the remaining set are added to the result in the same step",
						e.InstrPos(d), fn, false, "Difference on the remaining set without a matching Union on the result", true)
				}
			}
		}
	}
	r.MinInstances("result/from update pairs", nPairs, 6)
	checkCountNonNegative(e, r, fns, fCnt, chainRoots, allocate, isSetOp)

	// field writers
	takeFns := map[string]bool{}
	for _, fn := range fns {
		if fn.Parent() == nil && fn.Signature.Recv() != nil && strings.HasPrefix(fn.Name(), "take") {
			takeFns[FnName(fn)] = true
		}
	}
	for _, f := range []*types.Var{fRes, fFrom, fCnt} {
		for _, w := range e.FieldWrites(f, fns) {
			top := TopParent(w.Fn)
			name := FnName(top)
			ok, why := false, ""
			switch {
			case takeFns[name]:
				ok, why = true, "allocation stage"
				// a store on a nested, freshly created helper is set-up, everything else is the stage's own bookkeeping
			case top == allocateCpus:
				ok, why = true, "set-up of the helper from the caller's set and count"
			}
			if st, isSt := w.Instr.(*ssa.Store); isSt && ok {
				base := st.Addr.(*ssa.FieldAddr).X
				if call, isCall := base.(*ssa.Call); isCall && e.IsCallTo(call, fset(newHelper)) {
					why = "set-up of a freshly created helper"
				}
			}
			r.Check("R3:helper-writer["+f.Name()+"]@"+name, "R5 paired update", "allocatorHelper."+f.Name()+" is written only by allocation stages and the helper set-up", e.InstrPos(w.Instr), w.Fn, ok, why, false)
		}
	}
	// copy-back from locals happens as a triple
	for _, fn := range fns {
		if !takeFns[FnName(TopParent(fn))] {
			continue
		}
		for _, b := range fn.Blocks {
			var sr, sf, sc *ssa.Store
			for _, in := range b.Instrs {
				if st, ok := in.(*ssa.Store); ok {
					if fa, ok := st.Addr.(*ssa.FieldAddr); ok && paramIndex(fa.X) == 0 {
						switch fieldOfAddr(fa) {
						case fRes:
							if _, isUnion := isSetOp(st.Val, "Union"); !isUnion || !chainRoots(st.Val)[fRes] || st.Val.(*ssa.Call).Block() != b {
								sr = st
							}
						case fFrom:
							if c, isDiff := isSetOp(st.Val, "Difference"); !isDiff || c.Block() != b {
								sf = st
							}
						case fCnt:
							if bo, isSub := st.Val.(*ssa.BinOp); !isSub || bo.Block() != b {
								sc = st
							}
						}
					}
				}
			}
			if sr != nil || sf != nil {
				// a copy-back of locals: all three together
				r.Check("R5:copy-back-triple@"+FnName(TopParent(fn)), "R5 paired update", "locals are copied back to the helper only as the triple (result, from, cnt)", e.InstrPos(firstNonNil(sr, sf, sc)), fn,
					sr != nil && sf != nil && sc != nil, "", true)
				if sr != nil && sf != nil {
					okRoots := chainRoots(sr.Val)[fRes] && chainRoots(sf.Val)[fFrom]
					r.Check("R5:copy-back-lineage@"+FnName(TopParent(fn)), "R5 paired update", "the copied-back result descends from the helper's result and the copied-back remainder from the helper's remaining set", e.InstrPos(sr), fn, okRoots, "", true)
				}
			}
		}
	}

	// ---- rule 2: count gate ----------------------------------------------------------------
	{
		cntZero := func(val bool) Assumption {
			return func(cond ssa.Value) (bool, bool) {
				b, ok := cond.(*ssa.BinOp)
				if !ok || (b.Op != token.EQL && b.Op != token.NEQ) || !isConstInt(b.Y, 0) {
					return false, false
				}
				if f, base := loadedField(b.X); f == fCnt && paramIndex(base) == 0 {
					return true, (b.Op == token.EQL) == val
				}
				return false, false
			}
		}
		retIsResult := func(in ssa.Instruction) bool {
			ret, ok := in.(*ssa.Return)
			if !ok {
				return false
			}
			f, _ := loadedField(ret.Results[0])
			return f == fRes
		}
		// only the final test counts: search from the last stage call
		var lastStage ssa.Instruction
		AllInstrs(allocate, func(in ssa.Instruction) {
			if ci, ok := in.(ssa.CallInstruction); ok {
				for _, g := range e.Callees(ci) {
					if takeFns[FnName(g)] {
						lastStage = in
					}
				}
			}
		})
		okGate := true
		w := ""
		for _, ret := range Returns(allocate) {
			if retIsResult(ret) {
				// the return of a.result must be dominated by a.cnt == 0
				dom := false
				for _, cf := range dominatingConds(ret.Block()) {
					if k, v := cntZero(true)(cf.Cond); k && v == cf.Val {
						dom = true
					}
				}
				if !dom {
					okGate, w = false, "result returned without the count being tested for 0 at "+e.InstrPos(ret)
				}
			} else {
				call, isNew := ret.Results[0].(*ssa.Call)
				if !isNew || !isCpusetNew(call) || !emptyVariadic(call) {
					okGate, w = false, "a return that is neither the result nor an empty set at "+e.InstrPos(ret)
				}
			}
		}
		_ = lastStage
		r.Check("R2:count-gate", "R2 count gate", "allocate() returns the result only when cnt == 0, an empty set otherwise", e.Pos(allocate.Pos()), allocate, okGate, w, true)
	}

	// ---- rule 3: write-back discipline --------------------------------------------------------
	{
		// stores through the caller's pointer
		isWriteBack := func(in ssa.Instruction) bool {
			st, ok := in.(*ssa.Store)
			return ok && paramIndex(st.Addr) == 1 && st.Addr.Parent() == allocateCpus
		}
		nw := 0
		for _, fn := range fns {
			AllInstrs(fn, func(in ssa.Instruction) {
				st, ok := in.(*ssa.Store)
				if !ok {
					return
				}
				if p, isPtr := st.Addr.Type().(*types.Pointer); !isPtr || !strings.HasSuffix(p.Elem().String(), "cpuset.CPUSet") {
					return
				}
				if pi := paramIndex(st.Addr); pi >= 0 {
					nw++
					r.Check("R3:write-back@"+FnName(TopParent(fn)), "R3 write-back discipline", "a caller's CPU set is written through its pointer only in allocateCpus", e.InstrPos(in), fn, TopParent(fn) == allocateCpus, "", false)
				}
			})
		}
		r.MinInstances("write-backs of the caller's set", nw, 2)
		// classify the three arms by the comparison of from.Size() with cnt
		sizeCmp := func(lt, eq bool) Assumption {
			return func(cond ssa.Value) (bool, bool) {
				_, y, op, ok := cmpOriented(cond, func(v ssa.Value) bool {
					call, ok := v.(*ssa.Call)
					return ok && callObj(call.Common()) != nil && callObj(call.Common()).Name() == "Size"
				})
				if !ok || paramIndex(y) != 2 {
					return false, false
				}
				switch op {
				case token.LSS:
					return true, lt
				case token.EQL:
					return true, eq
				case token.GTR:
					return true, !lt && !eq
				case token.LEQ:
					return true, lt || eq
				case token.GEQ:
					return true, !lt
				}
				return false, false
			}
		}
		// too small: no write-back, non-nil error, empty result
		p := FindPath(PathQuery{Fn: allocateCpus, Assume: sizeCmp(true, false), Target: isWriteBack})
		r.Check("R3:too-small-leaves-set", "R3 write-back discipline", "a request for more CPUs than the set holds leaves the caller's set untouched", e.Pos(allocateCpus.Pos()), allocateCpus, p == nil, e.pathString(p), true)
		p = FindPath(PathQuery{Fn: allocateCpus, Assume: sizeCmp(true, false), Target: func(in ssa.Instruction) bool {
			ret, ok := in.(*ssa.Return)
			if !ok {
				return false
			}
			errNonNil := false
			Origins(retValue(ret, 1), func(v ssa.Value) bool {
				if e.nilnessAt(v, ret) == retNonNilErr {
					errNonNil = true
				}
				return false
			})
			return !errNonNil
		}})
		_ = p
		okErr := false
		AllInstrs(allocateCpus, func(in ssa.Instruction) {
			if call, ok := in.(*ssa.Call); ok {
				if f := call.Common().StaticCallee(); f != nil && f.String() == "fmt.Errorf" {
					if FindPath(PathQuery{Fn: allocateCpus, Assume: sizeCmp(false, false), Target: func(x ssa.Instruction) bool { return x == in }}) == nil &&
						FindPath(PathQuery{Fn: allocateCpus, Assume: sizeCmp(false, true), Target: func(x ssa.Instruction) bool { return x == in }}) == nil &&
						FindPath(PathQuery{Fn: allocateCpus, Assume: sizeCmp(true, false), Target: func(x ssa.Instruction) bool { return x == in }}) != nil {
						okErr = true
					}
				}
			}
		})
		r.Check("R3:too-small-fails", "R3 write-back discipline", "the error for an oversized request is produced exactly in the too-small arm", e.Pos(allocateCpus.Pos()), allocateCpus, okErr, "", true)
		// the helper stage runs only when the set is larger than the request
		p = FindPath(PathQuery{Fn: allocateCpus, Assume: sizeCmp(false, true), Target: func(in ssa.Instruction) bool { return e.IsCallTo(in, fset(allocate)) }})
		p2 := FindPath(PathQuery{Fn: allocateCpus, Assume: sizeCmp(true, false), Target: func(in ssa.Instruction) bool { return e.IsCallTo(in, fset(allocate)) }})
		r.Check("R3:stages-only-for-proper-subset", "R3 write-back discipline", "the allocation stages run only when the set holds more CPUs than requested", e.Pos(allocateCpus.Pos()), allocateCpus, p == nil && p2 == nil, "", true)
		// whole set: *from = New() and result = from.Clone()
		okWhole := false
		AllInstrs(allocateCpus, func(in ssa.Instruction) {
			if !isWriteBack(in) {
				return
			}
			st := in.(*ssa.Store)
			if call, ok := st.Val.(*ssa.Call); ok && isCpusetNew(call) && emptyVariadic(call) {
				if FindPath(PathQuery{Fn: allocateCpus, Assume: sizeCmp(false, true), Target: func(x ssa.Instruction) bool { return x == in }}) != nil &&
					FindPath(PathQuery{Fn: allocateCpus, Assume: sizeCmp(false, false), Target: func(x ssa.Instruction) bool { return x == in }}) == nil {
					okWhole = true
				}
			}
		})
		r.Check("R3:whole-set-emptied", "R3 write-back discipline", "taking exactly the whole set empties the caller's set (only in that arm)", e.Pos(allocateCpus.Pos()), allocateCpus, okWhole, "", true)
		// default arm: *from = a.from.Clone(), result = a.allocate()
		okRem := false
		AllInstrs(allocateCpus, func(in ssa.Instruction) {
			if !isWriteBack(in) {
				return
			}
			st := in.(*ssa.Store)
			if c, ok := isSetOp(st.Val, "Clone"); ok {
				if f, _ := loadedField(c.Common().Args[0]); f == fFrom {
					okRem = FindPath(PathQuery{Fn: allocateCpus, Block: func(x ssa.Instruction) bool { return e.IsCallTo(x, fset(allocate)) }, Target: func(x ssa.Instruction) bool { return x == in }}) == nil
				}
			}
		})
		r.Check("R3:remainder-written-back", "R3 write-back discipline", "after the stages ran the caller's set becomes the helper's remaining set", e.Pos(allocateCpus.Pos()), allocateCpus, okRem, "", true)
		// helper set-up: a.from = from.Clone(), a.cnt = cnt
		okSetup := 0
		AllInstrs(allocateCpus, func(in ssa.Instruction) {
			st, ok := in.(*ssa.Store)
			if !ok {
				return
			}
			switch fieldOfAddr(st.Addr) {
			case fFrom:
				if c, ok := isSetOp(st.Val, "Clone"); ok {
					if u, ok := c.Common().Args[0].(*ssa.UnOp); ok && paramIndex(u.X) == 1 {
						okSetup++
					}
				}
			case fCnt:
				if paramIndex(st.Val) == 2 {
					okSetup++
				}
			}
		})
		r.Check("R3:helper-setup", "R3 write-back discipline", "the helper starts from a clone of the caller's set and the requested count", e.Pos(allocateCpus.Pos()), allocateCpus, okSetup == 2, "", true)
		// ReleaseCpus
		okRel := false
		for _, c := range e.callsTo(release, allocateCpus) {
			a := callArgs(c)
			if len(a) == 4 && paramIndex(a[1]) == 1 {
				if b, ok := a[2].(*ssa.BinOp); ok && b.Op == token.SUB && paramIndex(b.Y) == 2 {
					if sz, ok := b.X.(*ssa.Call); ok && callObj(sz.Common()) != nil && callObj(sz.Common()).Name() == "Size" {
						okRel = true
					}
				}
			}
		}
		r.Check("R3:release-is-complement", "R3 write-back discipline", "ReleaseCpus(set, n) allocates |set|-n from the set, leaving exactly n behind", e.Pos(release.Pos()), release, okRel, "", true)
	}

	// ---- rule 5: pick/take agreement ----------------------------------------------------------
	{
		pick := r.Anchor(pkgCPUA, "pickIds")
		nAgree := 0
		for _, fn := range fns {
			if pick == nil || fn.Parent() != nil {
				continue
			}
			for _, pc := range e.callsTo(fn, pick) {
				// the predicate closure
				var pred *ssa.Function
				Origins(callArgs(pc)[1], func(v ssa.Value) bool {
					if mc, ok := v.(*ssa.MakeClosure); ok {
						pred, _ = mc.Fn.(*ssa.Function)
						return true
					}
					return false
				})
				if pred == nil {
					continue
				}
				// checked set: Equals(Intersection(S, from), S)
				var checked ssa.Value
				AllInstrsOf(pred, func(in ssa.Instruction) {
					eq, ok := isSetOp(valueOf(in), "Equals")
					if !ok {
						return
					}
					for _, pair := range [][2]ssa.Value{{eq.Common().Args[0], eq.Common().Args[1]}, {eq.Common().Args[1], eq.Common().Args[0]}} {
						if ic, ok := isSetOp(pair[0], "Intersection"); ok {
							a0, a1 := ic.Common().Args[0], ic.Common().Args[1]
							f0, _ := loadedField(a0)
							f1, _ := loadedField(a1)
							if f1 == fFrom && a0 == pair[1] || f0 == fFrom && a1 == pair[1] {
								checked = pair[1]
							}
						}
					}
				})
				if checked == nil {
					continue // not the idle-unit idiom (e.g. per-thread picking by membership)
				}
				// the predicate must not accept a unit without the check: every `return true`-capable exit is dominated by the Equals… (the idiom returns the conjunction itself)
				cp := &canonizer{e: e, seen: map[ssa.Value]bool{}, unit: func(v ssa.Value) bool {
					p, ok := v.(*ssa.Parameter)
					return ok && p.Parent() == pred && len(pred.Params) > 0 && p == pred.Params[0]
				}}
				S := cp.set(checked)
				// units in the parent: elements of the picked slice
				pickedCell := func(v ssa.Value) bool {
					u, ok := v.(*ssa.UnOp)
					if !ok || u.Op != token.MUL {
						return false
					}
					ia, ok := u.X.(*ssa.IndexAddr)
					if !ok {
						return false
					}
					hit := false
					Origins(ia.X, func(w ssa.Value) bool {
						if w == pc.Value() {
							hit = true
						}
						return hit
					})
					return hit
				}
				ct := &canonizer{e: e, seen: map[ssa.Value]bool{}, unit: pickedCell}
				for _, b := range fn.Blocks {
					for _, in := range b.Instrs {
						u, ok := isSetOp(valueOf(in), "Union")
						if !ok || !chainRoots(u.Common().Args[0])[fRes] {
							continue
						}
						nAgree++
						T := ct.set(variadicSingle(u.Common().Args[1]))
						ok2, w := vennHolds(nil, []vennFact{subset(T, S)})
						r.Check("R12:pick-take-agree@"+FnName(fn), "R12 pick/take agreement", "the set taken for a picked unit is within the set the pick predicate verified to be entirely in the remaining set",
							e.InstrPos(u), fn, ok2, fmt.Sprintf("%s [checked idle: %s; taken: %s]", w, S, T), true)
					}
				}
			}
		}
		r.MinInstances("pick-predicate stages", nAgree, 2)
	}

	// ---- rule 4: determinism --------------------------------------------------------------------
	{
		// the allocation path
		path := e.Reach([]*ssa.Function{allocateCpus}, 0)
		var pathFns []*ssa.Function
		for f := range path {
			t := TopParent(f)
			if t.Pkg != nil && t.Pkg.Pkg.Path() == pkgCPUA && f.Blocks != nil {
				pathFns = append(pathFns, f)
			}
		}
		r.MinInstances("functions on the allocation path", len(pathFns), 10)
		banned := 0
		for _, f := range pathFns {
			AllInstrs(f, func(in ssa.Instruction) {
				switch x := in.(type) {
				case *ssa.Go, *ssa.Select:
					banned++
					r.Check("R10:no-concurrency@"+FnName(TopParent(f)), "R10 determinism", "no goroutine or select on the allocation path", e.InstrPos(in), f, false, "", false)
				case ssa.CallInstruction:
					if g := x.Common().StaticCallee(); g != nil && g.Pkg != nil {
						switch g.Pkg.Pkg.Path() {
						case "math/rand", "math/rand/v2", "crypto/rand":
							banned++
							r.Check("R10:no-randomness@"+FnName(TopParent(f)), "R10 determinism", "no randomness on the allocation path", e.InstrPos(in), f, false, g.String(), false)
						case "time":
							if g.Name() == "Now" || g.Name() == "Since" {
								banned++
								r.Check("R10:no-clock@"+FnName(TopParent(f)), "R10 determinism", "no clock on the allocation path", e.InstrPos(in), f, false, g.String(), false)
							}
						}
					}
				}
			})
		}
		r.Check("R10:no-nondeterministic-source", "R10 determinism", "the allocation path uses no goroutine, select, random source or clock", e.Pos(allocateCpus.Pos()), allocateCpus, banned == 0, "", false)
		// map iteration: allowed only when the body is an order-insensitive accumulation (keyed stores, +=, debug output)
		for _, f := range pathFns {
			AllInstrs(f, func(in ssa.Instruction) {
				rg, ok := in.(*ssa.Range)
				if !ok {
					return
				}
				if _, isMap := rg.X.Type().Underlying().(*types.Map); !isMap {
					return
				}
				ok2, why := mapRangeOrderInsensitive(e, f, rg, fRes, fFrom, fCnt, chainRoots)
				r.Check("R10:map-range@"+FnName(TopParent(f)), "R10 determinism", "a range over a map on the allocation path may only log, or update order-insensitively; it must not feed result/from/cnt or a selection",
					e.InstrPos(in), f, ok2, why, true)
			})
		}
		// comparators: the closure handed to sort.Slice / slices.SortFunc ends in an id comparison
		nc := 0
		for _, f := range pathFns {
			AllInstrs(f, func(in ssa.Instruction) {
				call, ok := in.(*ssa.Call)
				if !ok {
					return
				}
				g := call.Common().StaticCallee()
				if g == nil {
					return
				}
				full := g.String()
				if g.Origin() != nil {
					full = g.Origin().String()
				}
				if full != "sort.Slice" && full != "slices.SortFunc" && full != "sort.SliceStable" {
					return
				}
				for _, cmp := range e.funcValues(call.Common().Args[len(call.Common().Args)-1], 0) {
					nc++
					ok2, why := comparatorTotal(e, cmp)
					r.Check("R10:comparator@"+FnName(cmp), "R10 determinism", "a comparator used on the allocation path breaks ties by id (its verdict for distinct elements never depends on input order)", e.InstrPos(in), cmp, ok2, why, true)
				}
			})
		}
		r.MinInstances("comparators on the allocation path", nc, 2)
	}
}

func valueOf(in ssa.Instruction) ssa.Value {
	v, _ := in.(ssa.Value)
	return v
}

func firstNonNil(xs ...*ssa.Store) ssa.Instruction {
	for _, x := range xs {
		if x != nil {
			return x
		}
	}
	return nil
}

// flowsOn: the call's value is stored or merged (not only inspected).
func flowsOn(c *ssa.Call) bool {
	for _, ref := range *c.Referrers() {
		switch x := ref.(type) {
		case *ssa.Store:
			if x.Val == c {
				return true
			}
		case *ssa.Phi:
			return true
		}
	}
	return false
}

// exactSizeGuard: somewhere in fn X.Size() is compared with the count chain,
// or X is built from a slice bounded by the count.
func exactSizeGuard(e *Engine, fn *ssa.Function, x ssa.Value, roots func(ssa.Value) map[*types.Var]bool, fCnt *types.Var) bool {
	ok := false
	AllInstrs(fn, func(in ssa.Instruction) {
		if b, isB := in.(*ssa.BinOp); isB && (b.Op == token.NEQ || b.Op == token.EQL) {
			for _, pr := range [][2]ssa.Value{{b.X, b.Y}, {b.Y, b.X}} {
				if sz, isC := pr[0].(*ssa.Call); isC && callObj(sz.Common()) != nil && callObj(sz.Common()).Name() == "Size" && sz.Common().Args[0] == x && roots(pr[1])[fCnt] {
					ok = true
				}
			}
		}
	})
	if ok {
		return true
	}
	// cpuset.New(cpus[0:cnt]...)
	if call, isC := x.(*ssa.Call); isC && isCpusetNew(call) && len(call.Common().Args) == 1 {
		if sl, isSl := call.Common().Args[0].(*ssa.Slice); isSl && sl.High != nil && roots(sl.High)[fCnt] {
			return true
		}
	}
	return false
}

// mapRangeOrderInsensitive: the loop body of a range over a map performs only
// keyed map updates, additive accumulation, or logging.
func mapRangeOrderInsensitive(e *Engine, fn *ssa.Function, rg *ssa.Range, fRes, fFrom, fCnt *types.Var, roots func(ssa.Value) map[*types.Var]bool) (bool, string) {
	// blocks of the loop: those dominated by the block that consumes the iterator and from which the Next is reachable again
	var next *ssa.Next
	for _, ref := range *rg.Referrers() {
		if n, ok := ref.(*ssa.Next); ok {
			next = n
		}
	}
	if next == nil {
		return true, "iterator unused"
	}
	head := next.Block()
	inLoop := func(b *ssa.BasicBlock) bool {
		if !head.Dominates(b) {
			return false
		}
		return FindPath(PathQuery{Fn: fn, From: b.Instrs[0], Target: func(in ssa.Instruction) bool { return in == ssa.Instruction(next) }}) != nil
	}
	for _, b := range fn.Blocks {
		if !inLoop(b) {
			continue
		}
		for _, in := range b.Instrs {
			switch x := in.(type) {
			case *ssa.Store:
				f := fieldOfAddr(x.Addr)
				if f == fRes || f == fFrom || f == fCnt {
					return false, "stores to the helper's " + f.Name() + " inside a map iteration at " + e.InstrPos(in)
				}
				if _, isAlloc := x.Addr.(*ssa.Alloc); isAlloc {
					// a local overwritten inside the loop: order-sensitive unless it is additive accumulation
					if b2, isB := x.Val.(*ssa.BinOp); isB && (b2.Op == token.ADD) {
						continue
					}
					return false, "overwrites a local inside a map iteration at " + e.InstrPos(in)
				}
			case *ssa.Return:
				return false, "returns from inside a map iteration at " + e.InstrPos(in)
			case *ssa.Call:
				if c, ok := x.Common().Value.(*ssa.Builtin); ok && c.Name() == "append" {
					return false, "appends inside a map iteration (element order follows map order) at " + e.InstrPos(in)
				}
			}
		}
	}
	// phi values updated in the loop and used after it (selection by iteration order)
	for _, in := range head.Instrs {
		if phi, ok := in.(*ssa.Phi); ok {
			usedAfter := false
			for _, ref := range *phi.Referrers() {
				if rb := ref.Block(); rb != nil && !inLoop(rb) && rb != head {
					usedAfter = true
				}
			}
			if !usedAfter {
				continue
			}
			// allowed: pure additive accumulation
			additive := true
			for i, ed := range phi.Edges {
				if !inLoop(head.Preds[i]) && head.Preds[i] != head {
					continue
				}
				if b2, ok := ed.(*ssa.BinOp); ok && b2.Op == token.ADD && (b2.X == phi || b2.Y == phi) {
					continue
				}
				if ed == phi {
					continue
				}
				// selection of a best candidate: deterministic only when the comparison is a strict order on a value
				// that is an injective function of the map key. Accepted idiom (reviewed): the selected values are the
				// range key itself or `c / key` under `c % key == 0`, chosen under a strict comparison with the current best.
				if strictKeySelection(head, phi, ed, head.Preds[i], next) {
					continue
				}
				additive = false
			}
			if !additive {
				return false, "a value chosen inside a map iteration is used after the loop (" + e.InstrPos(phi) + "): the choice may depend on iteration order"
			}
		}
	}
	return true, ""
}

// comparatorTotal: every return of the comparator that reports "equal /
// not-less" for possibly distinct elements is the final id comparison; i.e.
// the last return of the function compares ids (or the comparator is one of
// the reviewed "both unusable" cases).
func comparatorTotal(e *Engine, cmp *ssa.Function) (bool, string) {
	rets := Returns(cmp)
	if len(rets) == 0 {
		return false, "no returns"
	}
	// constant "equal" returns (0 / false without comparison) are order-dependent unless reviewed
	for _, ret := range rets {
		v := ret.Results[0]
		if k, ok := v.(*ssa.Const); ok && k.Value != nil {
			s := k.Value.ExactString()
			if s == "0" {
				// reviewed: cache-group comparators return 0 only when both groups are unusable for the request
				if strings.Contains(FnName(cmp), "takeCacheGroups") || strings.Contains(FnName(cmp), "sortCacheGroups") || strings.Contains(FnName(cmp), "SortFunc") {
					continue
				}
				return false, "returns 0 (equal) for distinct elements at " + e.InstrPos(ret)
			}
		}
	}
	// some return must be a direct comparison of ids / scalar keys (the tie-break)
	for _, ret := range rets {
		v := ret.Results[0]
		switch x := v.(type) {
		case *ssa.BinOp:
			if x.Op == token.LSS || x.Op == token.GTR || x.Op == token.SUB {
				return true, ""
			}
		case *ssa.Call:
			// delegating to another comparator or a HasSmallerIDsThan-style method
			return true, ""
		case *ssa.Convert:
			if b, ok := x.X.(*ssa.BinOp); ok && b.Op == token.SUB {
				return true, ""
			}
		case *ssa.Phi:
			return true, ""
		}
	}
	return false, "no final tie-break comparison found"
}

var _ = fmt.Sprintf

const pkgK8sCpuset = "k8s.io/utils/cpuset"

// isCpusetNew: a call of cpuset.New — either k8s.io/utils/cpuset.New directly
// or through the repository's alias variable pkg/utils/cpuset.New.
func isCpusetNew(call *ssa.Call) bool {
	if f := call.Common().StaticCallee(); f != nil {
		return f.Pkg != nil && f.Pkg.Pkg.Path() == pkgK8sCpuset && f.Name() == "New"
	}
	if u, ok := call.Common().Value.(*ssa.UnOp); ok && u.Op == token.MUL {
		if g, ok := u.X.(*ssa.Global); ok && g.Name() == "New" && g.Pkg != nil && g.Pkg.Pkg.Path() == pkgCpuset {
			return true
		}
	}
	return false
}

// variadicSingle: the single element of a one-element variadic argument
// slice (`x.Union(y)` passes []CPUSet{y}); the value itself otherwise.
func variadicSingle(v ssa.Value) ssa.Value {
	sl, ok := v.(*ssa.Slice)
	if !ok {
		return v
	}
	al, ok := sl.X.(*ssa.Alloc)
	if !ok {
		return v
	}
	var elems []ssa.Value
	for _, ref := range *al.Referrers() {
		if ia, ok := ref.(*ssa.IndexAddr); ok {
			for _, r2 := range *ia.Referrers() {
				if st, ok := r2.(*ssa.Store); ok {
					elems = append(elems, st.Val)
				}
			}
		}
	}
	if len(elems) == 1 {
		return elems[0]
	}
	return v
}

// emptyVariadic: the call passes no variadic elements (cpuset.New()).
func emptyVariadic(call *ssa.Call) bool {
	a := call.Common().Args
	if len(a) == 0 {
		return true
	}
	if len(a) == 1 {
		if k, ok := a[0].(*ssa.Const); ok && k.IsNil() {
			return true
		}
	}
	return false
}

// strictKeySelection recognises `if f(key) < best { best = f(key); bestKey = key }`
// inside a range over a map, where f(key) is key or c/key: no two distinct keys
// tie, so the outcome does not depend on iteration order.
func strictKeySelection(head *ssa.BasicBlock, phi *ssa.Phi, newVal ssa.Value, pred *ssa.BasicBlock, next *ssa.Next) bool {
	isKey := func(v ssa.Value) bool {
		ex, ok := v.(*ssa.Extract)
		return ok && ex.Tuple == next && ex.Index == 1
	}
	isFnOfKey := func(v ssa.Value) bool {
		if isKey(v) {
			return true
		}
		b, ok := v.(*ssa.BinOp)
		return ok && b.Op == token.QUO && isKey(b.Y)
	}
	if !isFnOfKey(newVal) {
		return false
	}
	// the update happens under a strict comparison between a function of the key and a loop-carried best value
	for _, cf := range dominatingConds(pred) {
		if !cf.Val {
			continue
		}
		b, ok := cf.Cond.(*ssa.BinOp)
		if !ok || (b.Op != token.LSS && b.Op != token.GTR) {
			continue
		}
		_, xPhi := b.X.(*ssa.Phi)
		_, yPhi := b.Y.(*ssa.Phi)
		if (isFnOfKey(b.X) && yPhi) || (isFnOfKey(b.Y) && xPhi) {
			return true
		}
	}
	return false
}

// checkCountNonNegative: rule 1d. The remaining count is only ever reduced by the size of a set that is known not to
// exceed it: a request whose count went negative can never reach the `cnt == 0` gate of allocate() again (no stage
// increases the count), so it would come back empty-handed with the caller's set already reduced.
//
// For every `cnt' = cnt - X.Size()` on the count chain one of the following is established:
//
//	G1  a dominating test gives cnt >= X.Size()  (cnt >= |X|, |X| <= cnt, cnt == |X| on the true side; cnt < |X|, |X| > cnt on the false side),
//	    on the same count value (same SSA value, or the same field reloaded with no write between) and the same X;
//	G2  X is what a nested helper's allocate() returned for a request of exactly cnt (|X| is 0 or cnt by the count gate R2);
//	G3  X is a single CPU, every caller enters the stage under `cnt > 0`, the field is written nowhere else in the stage and
//	    the stage loops back only after testing the new count against 0 (so cnt >= 1 is a loop invariant);
//	G4  a negative cnt' is never committed: with every test of the derived value evaluated as for a negative number, no
//	    path from the subtraction reaches a store into the helper's cnt, a nested request or a further subtraction.
func checkCountNonNegative(e *Engine, r *Report, fns []*ssa.Function, fCnt *types.Var, chainRoots func(ssa.Value) map[*types.Var]bool, allocate *ssa.Function, isSetOp func(ssa.Value, string) (*ssa.Call, bool)) {
	rule := "R5 paired update"
	sizeOf := func(v ssa.Value) ssa.Value { // X of X.Size()
		if c, ok := v.(*ssa.Call); ok && callObj(c.Common()) != nil && callObj(c.Common()).Name() == "Size" && len(callArgs(c)) == 1 && isCPUSetType(callArgs(c)[0].Type()) {
			return callArgs(c)[0]
		}
		return nil
	}
	// functions that may (transitively) store into the helper's count
	mayWrite := map[*ssa.Function]int{} // 1: in progress/no, 2: yes
	var fnWrites func(g *ssa.Function) bool
	fnWrites = func(g *ssa.Function) bool {
		if v, ok := mayWrite[g]; ok {
			return v == 2
		}
		mayWrite[g] = 1
		if g.Pkg == nil || g.Pkg.Pkg.Path() != pkgCPUA {
			return false
		}
		w := false
		for _, h := range WithAnon(g) {
			AllInstrs(h, func(in ssa.Instruction) {
				switch x := in.(type) {
				case *ssa.Store:
					if fieldOfAddr(x.Addr) == fCnt {
						w = true
					}
				case ssa.CallInstruction:
					for _, c := range e.Callees(x) {
						if !w && fnWrites(c) {
							w = true
						}
					}
				}
			})
		}
		if w {
			mayWrite[g] = 2
		}
		return w
	}
	writesCnt := func(in ssa.Instruction) bool {
		switch x := in.(type) {
		case *ssa.Store:
			return fieldOfAddr(x.Addr) == fCnt
		case ssa.CallInstruction:
			for _, g := range e.Callees(x) {
				if fnWrites(g) {
					return true
				}
			}
		}
		return false
	}
	// sameCount: a and b denote the same count at their respective points
	sameCount := func(a, b ssa.Value) bool {
		if a == b {
			return true
		}
		fa, ba := loadedField(a)
		fb, bb := loadedField(b)
		if fa == nil || fa != fb || fa != fCnt || !(ba == bb || (paramIndex(ba) >= 0 && paramIndex(ba) == paramIndex(bb))) {
			return false
		}
		la, lb := a.(*ssa.UnOp), b.(*ssa.UnOp)
		if la == nil || lb == nil {
			return false
		}
		// no write of the field between the two loads (la first)
		if !la.Block().Dominates(lb.Block()) {
			la, lb = lb, la
			if !la.Block().Dominates(lb.Block()) {
				return false
			}
		}
		between := func(b *ssa.BasicBlock) bool { // b lies on a path la.Block -> lb.Block
			return b != la.Block() && b != lb.Block() && la.Block().Dominates(b) && blockReaches(b, lb.Block())
		}
		clean := true
		for _, b := range la.Block().Parent().Blocks {
			for i, in := range b.Instrs {
				_ = i
				switch {
				case b == la.Block() && b == lb.Block():
					if instrIndex(in) > instrIndex(la) && instrIndex(in) < instrIndex(lb) && writesCnt(in) {
						clean = false
					}
				case b == la.Block():
					if instrIndex(in) > instrIndex(la) && writesCnt(in) {
						clean = false
					}
				case b == lb.Block():
					if instrIndex(in) < instrIndex(lb) && writesCnt(in) {
						clean = false
					}
				case between(b):
					if writesCnt(in) {
						clean = false
					}
				}
			}
		}
		return clean
	}
	n := 0
	for _, fn := range fns {
		if fn == allocate {
			continue
		}
		var subs []*ssa.BinOp
		AllInstrs(fn, func(in ssa.Instruction) {
			if bo, ok := in.(*ssa.BinOp); ok && bo.Op == token.SUB && chainRoots(bo.X)[fCnt] && sizeOf(bo.Y) != nil {
				subs = append(subs, bo)
			}
		})
		for _, bo := range subs {
			n++
			x := sizeOf(bo.Y)
			how := ""
			// G1
			for _, cf := range dominatingConds(bo.Block()) {
				c, ok := cf.Cond.(*ssa.BinOp)
				if !ok {
					continue
				}
				var cnt, sz ssa.Value
				op := c.Op
				switch {
				case sizeOf(c.Y) == x && x != nil:
					cnt, sz = c.X, c.Y
				case sizeOf(c.X) == x:
					cnt, sz = c.Y, c.X
					op = flipCmp(op)
				}
				if sz == nil || !sameCount(cnt, bo.X) {
					continue
				}
				// now: cnt op |X|
				if cf.Val && (op == token.GEQ || op == token.EQL) || !cf.Val && op == token.LSS {
					how = "G1: dominated by " + c.String() + fmt.Sprintf("=%v", cf.Val)
				}
			}
			// G2
			if how == "" {
				if call, ok := x.(*ssa.Call); ok && len(e.Callees(call)) == 1 && e.Callees(call)[0] == allocate {
					recv := callArgs(call)[0]
					okReq, nSt := true, 0
					AllInstrs(fn, func(in ssa.Instruction) {
						if st, ok := in.(*ssa.Store); ok && fieldOfAddr(st.Addr) == fCnt {
							if fa, ok := st.Addr.(*ssa.FieldAddr); ok && fa.X == recv {
								nSt++
								if st.Val != bo.X || !st.Block().Dominates(call.Block()) {
									okReq = false
								}
							}
						}
					})
					if okReq && nSt == 1 {
						how = "G2: X is the nested helper's answer to a request for exactly this count"
					}
				}
			}
			// G3
			if how == "" {
				if nw, ok := x.(*ssa.Call); ok && isCpusetNew(nw) && variadicSingle(nw.Common().Args[0]) != nw.Common().Args[0] {
					ok3 := true
					why := ""
					top := TopParent(fn)
					cs := e.Callers(top)
					if len(cs) == 0 || fn != top {
						ok3, why = false, "no callers / closure"
					}
					for _, c := range cs {
						guarded := false
						for _, cf := range dominatingConds(c.Call.Block()) {
							if b, ok := cf.Cond.(*ssa.BinOp); ok && cf.Val && b.Op == token.GTR && isConstInt(b.Y, 0) {
								if f, base := loadedField(b.X); f == fCnt && len(callArgs(c.Call)) > 0 && (base == callArgs(c.Call)[0] || (paramIndex(base) >= 0 && paramIndex(base) == paramIndex(callArgs(c.Call)[0]))) && sameCountAtCall(b.X, c.Call, writesCnt) {
									guarded = true
								}
							}
						}
						if !guarded {
							ok3, why = false, "a caller does not test cnt > 0: "+e.InstrPos(c.Call)
						}
					}
					// the only write of the count in the stage is the store of this difference
					var store *ssa.Store
					AllInstrs(fn, func(in ssa.Instruction) {
						if writesCnt(in) {
							if st, ok := in.(*ssa.Store); ok && st.Val == ssa.Value(bo) && store == nil {
								store = st
							} else {
								ok3, why = false, "another write of the count in the stage: "+e.InstrPos(in)
							}
						}
					})
					if f, _ := loadedField(bo.X); f != fCnt {
						ok3, why = false, "the reduced value is not the helper's count itself"
					}
					if ok3 && store != nil {
						// assuming the new count is 0, the subtraction cannot be reached again
						zero := func(cond ssa.Value) (bool, bool) {
							b, ok := cond.(*ssa.BinOp)
							if !ok || !isConstInt(b.Y, 0) {
								return false, false
							}
							if f, _ := loadedField(b.X); f != fCnt && b.X != ssa.Value(bo) {
								return false, false
							}
							switch b.Op {
							case token.EQL, token.LEQ, token.GEQ:
								return true, true
							case token.NEQ, token.GTR, token.LSS:
								return true, false
							}
							return false, false
						}
						if p := FindPath(PathQuery{Fn: fn, From: store, Assume: zero, Target: func(in ssa.Instruction) bool { return in == ssa.Instruction(bo) }}); p != nil {
							ok3, why = false, "the stage takes another CPU without testing the count for 0: "+e.pathString(p)
						}
					} else if ok3 {
						ok3, why = false, "difference not stored"
					}
					if ok3 {
						how = "G3: single CPU, cnt >= 1 is an invariant of the stage's loop"
					} else {
						how = ""
						_ = why
					}
				}
			}
			// G4
			if how == "" {
				derived := func(v ssa.Value) bool {
					der := false
					seen := map[ssa.Value]bool{}
					var walk func(v ssa.Value, d int)
					walk = func(v ssa.Value, d int) {
						if v == nil || seen[v] || d > 30 || der {
							return
						}
						seen[v] = true
						if v == ssa.Value(bo) {
							der = true
							return
						}
						switch y := v.(type) {
						case *ssa.Phi:
							for _, ed := range y.Edges {
								walk(ed, d+1)
							}
						case *ssa.BinOp:
							if y.Op == token.SUB {
								walk(y.X, d+1)
							}
						case *ssa.UnOp:
							if al, ok := y.X.(*ssa.Alloc); ok && y.Op == token.MUL {
								for _, st := range reachingStores(al, y) {
									walk(st.Val, d+1)
								}
							}
						}
					}
					walk(v, 0)
					return der
				}
				negative := func(cond ssa.Value) (bool, bool) {
					b, ok := cond.(*ssa.BinOp)
					if !ok || !isConstInt(b.Y, 0) || !derived(b.X) {
						return false, false
					}
					switch b.Op {
					case token.LSS, token.LEQ, token.NEQ:
						return true, true
					case token.GTR, token.GEQ, token.EQL:
						return true, false
					}
					return false, false
				}
				sink := func(in ssa.Instruction) bool {
					switch y := in.(type) {
					case *ssa.Store:
						if fieldOfAddr(y.Addr) == fCnt && derived(y.Val) {
							return true
						}
					case *ssa.BinOp:
						if y != bo && y.Op == token.SUB && derived(y.X) {
							return true
						}
					}
					return false
				}
				// the subtraction itself stored into the field in the same step is a commit
				p := FindPath(PathQuery{Fn: fn, From: bo, Assume: negative, Target: sink})
				if p == nil {
					how = "G4: a negative count is discarded (no path commits it)"
				} else {
					r.Check("R5:count-stays-nonnegative@"+FnName(TopParent(fn)), rule, "the remaining count is only reduced by the size of a set known not to exceed it (guarding test, nested exact request, single CPU under cnt >= 1), or an overshoot is discarded before it is committed", e.InstrPos(bo), fn, false,
						"no guard establishes cnt >= |X| and a negative count can be committed: "+e.pathString(p), true)
					continue
				}
			}
			r.Check("R5:count-stays-nonnegative@"+FnName(TopParent(fn)), rule, "the remaining count is only reduced by the size of a set known not to exceed it (guarding test, nested exact request, single CPU under cnt >= 1), or an overshoot is discarded before it is committed", e.InstrPos(bo), fn, true, how, true)
		}
	}
	r.MinInstances("count reductions", n, 5)
}

func flipCmp(op token.Token) token.Token {
	switch op {
	case token.LSS:
		return token.GTR
	case token.GTR:
		return token.LSS
	case token.LEQ:
		return token.GEQ
	case token.GEQ:
		return token.LEQ
	}
	return op
}

// sameCountAtCall: the tested load of the count is still current at the call (no write between, same block chain).
func sameCountAtCall(load ssa.Value, call ssa.CallInstruction, writes func(ssa.Instruction) bool) bool {
	l, ok := load.(*ssa.UnOp)
	if !ok || !l.Block().Dominates(call.Block()) {
		return false
	}
	for _, b := range l.Block().Parent().Blocks {
		onPath := b == l.Block() || b == call.Block() || (l.Block().Dominates(b) && blockReaches(b, call.Block()))
		if !onPath {
			continue
		}
		for _, in := range b.Instrs {
			if in == ssa.Instruction(call) {
				continue
			}
			if b == l.Block() && instrIndex(in) <= instrIndex(l) {
				continue
			}
			if b == call.Block() && instrIndex(in) >= instrIndex(call.(ssa.Instruction)) {
				continue
			}
			if b != l.Block() && b != call.Block() && !(l.Block().Dominates(b) && blockReaches(b, call.Block())) {
				continue
			}
			if writes(in) {
				return false
			}
		}
	}
	return true
}

// takeCacheGroups builds totalByIndex while walking sorter.usable by index and later uses positions in that slice as
// positions in sorter.usable (the number of groups to take, the group to split). The two stay aligned only if every
// iteration that lets the walk go on appends one entry: an iteration may append or leave the loop, never skip.
func checkCacheGroupTotalsAligned(e *Engine, r *Report) {
	fn := r.Anchor(pkgCPUA, "allocatorHelper.takeCacheGroups")
	if fn == nil {
		return
	}
	const key = "R5:cache-group-totals-aligned"
	const what = "takeCacheGroups: the running totals are indexed like sorter.usable — every iteration of the walk over sorter.usable that continues the walk appends one total (a group is never skipped without ending the walk)"
	n := 0
	for _, b := range fn.Blocks {
		for _, in := range b.Instrs {
			phi, ok := in.(*ssa.Phi)
			if !ok {
				break
			}
			sl, isSlice := phi.Type().Underlying().(*types.Slice)
			if !isSlice {
				continue
			}
			if bt, ok := sl.Elem().Underlying().(*types.Basic); !ok || bt.Kind() != types.Int {
				continue
			}
			// the append that extends it within the loop
			var app *ssa.Call
			var latches []*ssa.BasicBlock
			for i, ed := range phi.Edges {
				found := false
				Origins(ed, func(v ssa.Value) bool {
					if v == ssa.Value(phi) {
						found = true // a path that carries the slice unchanged is still a path round the loop
						return true
					}
					if c, ok := v.(*ssa.Call); ok {
						if bi, ok := c.Common().Value.(*ssa.Builtin); ok && bi.Name() == "append" && c.Common().Args[0] == ssa.Value(phi) {
							app = c
							found = true
							return true
						}
					}
					return false
				})
				if found {
					latches = append(latches, b.Preds[i])
				}
			}
			if app == nil || len(latches) == 0 {
				continue
			}
			// the loop indexes sorter.usable with an index of the same header
			usesUsable := false
			for _, b2 := range fn.Blocks {
				for _, in2 := range b2.Instrs {
					ia, ok := in2.(*ssa.IndexAddr)
					if !ok {
						continue
					}
					if f, _ := loadedField(ia.X); f == nil || f.Name() != "usable" {
						continue
					}
					if ip, ok := ia.Index.(*ssa.Phi); ok && ip.Block() == b && b2.Dominates(app.Block()) {
						usesUsable = true
					}
				}
			}
			if !usesUsable {
				continue
			}
			n++
			isLatchEnd := func(x ssa.Instruction) bool {
				for _, l := range latches {
					if x.Block() == l && x == l.Instrs[len(l.Instrs)-1] {
						return true
					}
				}
				return false
			}
			p := FindPath(PathQuery{Fn: fn, From: phi, Block: func(x ssa.Instruction) bool { return x == ssa.Instruction(app) }, Target: isLatchEnd})
			w := ""
			if p != nil {
				w = "an iteration goes on without appending: " + e.pathString(p)
			}
			r.Check(key, "R5 paired update", what, e.InstrPos(app), fn, p == nil, w, true)
		}
	}
	if n == 0 {
		r.Undecided(key, "R5 paired update", what, e.Pos(fn.Pos()), fn, "the walk that builds the running totals was not found")
	}
}
