package main

import (
	"go/token"
	"go/types"

	"golang.org/x/tools/go/ssa"
)

// checkLedgerSymmetry (C03 rule 2, C09 rule 4): the topology-aware capacity
// ledger fields supply.grantedShared / supply.grantedReserved are incremented
// at admission by exactly what the matching accessor of the grant later
// reports, and decremented at release by that accessor.
func checkLedgerSymmetry(e *Engine, r *Report) {
	rule := "R5 ledger symmetry"
	fShared := e.Field(pkgTA, "supply", "grantedShared")
	fReserved := e.Field(pkgTA, "supply", "grantedReserved")
	fPortion := e.Field(pkgTA, "grant", "cpuPortion")
	fCpuType := e.Field(pkgTA, "grant", "cpuType")
	allocCPU := r.Anchor(pkgTA, "supply.AllocateCPU")
	releaseCPU := r.Anchor(pkgTA, "supply.ReleaseCPU")
	reserve := r.Anchor(pkgTA, "supply.Reserve")
	cumulate := r.Anchor(pkgTA, "supply.Cumulate")
	if fShared == nil || fReserved == nil || fPortion == nil || fCpuType == nil || allocCPU == nil || releaseCPU == nil || reserve == nil {
		r.Undecided("R5:anchors", rule, "ledger fields and functions exist", "-", nil, "anchor drift")
		return
	}
	cpuNormal, _ := e.TypesPkg(pkgTA).Scope().Lookup("cpuNormal").(*types.Const)
	cpuReserved, _ := e.TypesPkg(pkgTA).Scope().Lookup("cpuReserved").(*types.Const)
	acc := map[*types.Var][]*types.Func{
		fShared:   e.objs(pkgTA, "Grant.SharedPortion", "grant.SharedPortion"),
		fReserved: e.objs(pkgTA, "Grant.ReservedPortion", "grant.ReservedPortion"),
	}
	other := map[*types.Var]*types.Var{fShared: fReserved, fReserved: fShared}
	classOf := map[*types.Var]*types.Const{fShared: cpuNormal, fReserved: cpuReserved}

	// writers
	owners := set(FnName(allocCPU), FnName(releaseCPU), FnName(reserve), "cmd/plugins/topology-aware/policy.newSupply")
	if cumulate != nil {
		owners[FnName(cumulate)] = true
	}
	taFns := e.funcsInPkg(pkgTA)
	for _, f := range []*types.Var{fShared, fReserved} {
		r.WhoMayWrite("R3", f, "supply."+f.Name(), owners, taFns)
	}

	// accessors: SharedPortion()/ReservedPortion() return cpuPortion exactly for their class
	for f, k := range classOf {
		for _, o := range acc[f] {
			fn := e.Prog.FuncValue(o)
			if fn == nil || fn.Blocks == nil {
				continue
			}
			isClass := func(val bool) Assumption {
				return func(cond ssa.Value) (bool, bool) {
					b, ok := cond.(*ssa.BinOp)
					if !ok || (b.Op != token.EQL && b.Op != token.NEQ) {
						return false, false
					}
					g, _ := loadedField(b.X)
					if g == fCpuType && isConstEq(b.Y, k) {
						return true, (b.Op == token.EQL) == val
					}
					return false, false
				}
			}
			retPortion := func(in ssa.Instruction) bool {
				ret, ok := in.(*ssa.Return)
				if !ok {
					return false
				}
				g, _ := loadedField(ret.Results[0])
				return g == fPortion
			}
			retOther := func(in ssa.Instruction) bool {
				ret, ok := in.(*ssa.Return)
				return ok && !retPortion(in) && ret != nil
			}
			ok1 := FindPath(PathQuery{Fn: fn, Assume: isClass(true), Target: retOther}) == nil && FindPath(PathQuery{Fn: fn, Assume: isClass(true), Target: retPortion}) != nil
			ok2 := FindPath(PathQuery{Fn: fn, Assume: isClass(false), Target: retPortion}) == nil
			zeroElse := true
			for _, ret := range Returns(fn) {
				if !retPortion(ret) && !isConstInt(ret.Results[0], 0) {
					zeroElse = false
				}
			}
			r.Check("R5:accessor@"+o.Name(), rule, o.Name()+"() returns the grant's cpuPortion exactly when its class is "+k.Name()+" and 0 otherwise",
				e.Pos(fn.Pos()), fn, ok1 && ok2 && zeroElse, "", true)
		}
	}

	addedValue := func(st *ssa.Store, f *types.Var, op token.Token) ssa.Value {
		b, ok := st.Val.(*ssa.BinOp)
		if !ok || b.Op != op {
			return nil
		}
		if g, _ := loadedField(b.X); g == f {
			return b.Y
		}
		if op == token.ADD {
			if g, _ := loadedField(b.Y); g == f {
				return b.X
			}
		}
		return nil
	}
	// leaves of an addition tree
	var leaves func(v ssa.Value, out *[]ssa.Value)
	leaves = func(v ssa.Value, out *[]ssa.Value) {
		if b, ok := v.(*ssa.BinOp); ok && b.Op == token.ADD {
			leaves(b.X, out)
			leaves(b.Y, out)
			return
		}
		*out = append(*out, v)
	}
	isAccessorOn := func(v ssa.Value, f *types.Var, g ssa.Value) bool {
		call, ok := v.(*ssa.Call)
		if !ok {
			return false
		}
		o := callObj(call.Common())
		for _, m := range acc[f] {
			if o == m && (g == nil || sameValue(callArgs(call)[0], g)) {
				return true
			}
		}
		return false
	}

	// release: the decrement is the matching accessor of the released grant
	n := 0
	AllInstrs(releaseCPU, func(in ssa.Instruction) {
		st, ok := in.(*ssa.Store)
		if !ok {
			return
		}
		f := fieldOfAddr(st.Addr)
		if f != fShared && f != fReserved {
			return
		}
		n++
		v := addedValue(st, f, token.SUB)
		ok2 := v != nil && isAccessorOn(v, f, releaseCPU.Params[1])
		r.Check("R5:release-subtracts@"+f.Name(), rule, "ReleaseCPU subtracts from "+f.Name()+" exactly the matching portion accessor of the released grant",
			e.InstrPos(in), releaseCPU, ok2, "", true)
	})
	r.MinInstances("ledger decrements in ReleaseCPU", n, 2)

	// admission: AllocateCPU adds `fraction` under the matching class and records the same value in the grant
	setPortion := e.objs(pkgTA, "Grant.SetCPUPortion", "grant.SetCPUPortion")
	n = 0
	AllInstrs(allocCPU, func(in ssa.Instruction) {
		st, ok := in.(*ssa.Store)
		if !ok {
			return
		}
		f := fieldOfAddr(st.Addr)
		if f != fShared && f != fReserved {
			return
		}
		n++
		v := addedValue(st, f, token.ADD)
		okV := v != nil
		if okV {
			// the same value is stored as the grant's portion on every path to a successful return
			okV = FindPath(PathQuery{Fn: allocCPU, From: in,
				Block: func(x ssa.Instruction) bool {
					if !isCallOfObj(x, setPortion) {
						return false
					}
					a := callArgs(x.(ssa.CallInstruction))
					return len(a) == 2 && (a[1] == v || sameValue(a[1], v))
				},
				Target: func(x ssa.Instruction) bool {
					ret, ok := x.(*ssa.Return)
					return ok && e.maySucceed(ret)
				}}) == nil
		}
		r.Check("R5:admit-records-portion@"+f.Name(), rule, "AllocateCPU records in the grant (SetCPUPortion) exactly the amount it added to "+f.Name(),
			e.InstrPos(in), allocCPU, okV, "", true)
		// and the increment happens only for the matching class
		k := classOf[f]
		wrong := func(cond ssa.Value) (bool, bool) {
			b, ok := cond.(*ssa.BinOp)
			if !ok || (b.Op != token.EQL && b.Op != token.NEQ) {
				return false, false
			}
			if isConstEq(b.Y, k) && types.Identical(b.X.Type(), k.Type()) {
				return true, b.Op == token.NEQ // cpuType != class
			}
			return false, false
		}
		p := FindPath(PathQuery{Fn: allocCPU, Assume: wrong, Target: func(x ssa.Instruction) bool { return x == in }})
		r.Check("R5:admit-class@"+f.Name(), rule, f.Name()+" is incremented only for a grant of class "+k.Name()+" (whose accessor will report the portion)",
			e.InstrPos(in), allocCPU, p == nil, e.pathString(p), true)
	})
	r.MinInstances("ledger increments in AllocateCPU", n, 2)

	// re-instatement: Reserve adds the matching accessor of the re-instated grant
	n = 0
	AllInstrs(reserve, func(in ssa.Instruction) {
		st, ok := in.(*ssa.Store)
		if !ok {
			return
		}
		f := fieldOfAddr(st.Addr)
		if f != fShared && f != fReserved {
			return
		}
		n++
		v := addedValue(st, f, token.ADD)
		var ls []ssa.Value
		if v != nil {
			leaves(v, &ls)
		}
		has, hasOther := false, false
		for _, l := range ls {
			if isAccessorOn(l, f, reserve.Params[1]) {
				has = true
			}
			if isAccessorOn(l, other[f], nil) {
				hasOther = true
			}
		}
		w := ""
		if hasOther {
			w = "the amount is expressed through the accessor of the other ledger"
		}
		r.Check("R5:reserve-adds@"+f.Name(), rule, "Reserve adds to "+f.Name()+" the matching portion accessor of the re-instated grant (what ReleaseCPU will subtract)",
			e.InstrPos(in), reserve, has && !hasOther, w, true)
	})
	r.MinInstances("ledger increments in Reserve", n, 2)
}
