package main

import (
	"fmt"
	"go/constant"
	"go/token"
	"go/types"

	"golang.org/x/tools/go/ssa"
)

// S6 — constant indexing / slicing needs a proven minimal length.
//
// For every `x[k]`, `x[lo:hi]`, `x[lo:]` with constant bounds on a string or
// slice, a lower bound of len(x) at that point is derived from
//   - the construction of x (constants, literals, strings.Split, constant
//     re-slicing of a value with a known bound), and
//   - the branch conditions that dominate the site (len(x) <op> c, x != "",
//     strings.HasPrefix(x, "const")),
// and must reach the length the operation needs. Non-constant indices are
// outside this rule.

type boundsCtx struct {
	e *Engine
}

func constIntVal(v ssa.Value) (int64, bool) {
	if v == nil {
		return 0, false
	}
	k, ok := v.(*ssa.Const)
	if !ok || k.Value == nil || k.Value.Kind() != constant.Int {
		return 0, false
	}
	return k.Int64(), true
}

func isLenCall(v ssa.Value) (ssa.Value, bool) {
	call, ok := v.(*ssa.Call)
	if !ok {
		return nil, false
	}
	b, ok := call.Common().Value.(*ssa.Builtin)
	if !ok || b.Name() != "len" || len(call.Common().Args) != 1 {
		return nil, false
	}
	return call.Common().Args[0], true
}

// sameSeq: do a and b denote the same string/slice value?
func sameSeq(a, b ssa.Value) bool {
	if a == b || sameValue(a, b) {
		return true
	}
	// two loads of the same local cell that see the same (single) store denote the same value
	ua, ok1 := a.(*ssa.UnOp)
	ub, ok2 := b.(*ssa.UnOp)
	if ok1 && ok2 && ua.Op == token.MUL && ub.Op == token.MUL && ua.X == ub.X {
		if al, ok := ua.X.(*ssa.Alloc); ok && !cellWrittenInClosures(al) {
			sa, sb := reachingStores(al, ua), reachingStores(al, ub)
			return len(sa) == 1 && len(sb) == 1 && sa[0] == sb[0]
		}
	}
	if ua, ok := unspillOnce(a); ok {
		return sameSeq(ua, b)
	}
	if ub, ok := unspillOnce(b); ok {
		return sameSeq(a, ub)
	}
	// loads of the same field of the same object with no store in between are not tracked; be conservative
	return false
}

// unspillOnce: the value a load of a local cell denotes when exactly one store reaches it.
func unspillOnce(v ssa.Value) (ssa.Value, bool) {
	u, ok := v.(*ssa.UnOp)
	if !ok || u.Op != token.MUL {
		return nil, false
	}
	al, ok := u.X.(*ssa.Alloc)
	if !ok || cellWrittenInClosures(al) {
		return nil, false
	}
	if sts := reachingStores(al, u); len(sts) == 1 {
		return sts[0].Val, true
	}
	return nil, false
}

// minLenAt: a lower bound of len(v) that holds whenever control is at `at`.
func (bc *boundsCtx) minLenAt(v ssa.Value, at ssa.Instruction, depth int) int64 {
	if depth > 8 || v == nil {
		return 0
	}
	best := int64(0)
	switch x := v.(type) {
	case *ssa.Const:
		if x.Value != nil && x.Value.Kind() == constant.String {
			return int64(len(constant.StringVal(x.Value)))
		}
		return 0
	case *ssa.Slice:
		lo, _ := constIntVal(x.Low)
		if x.Low != nil {
			if _, ok := constIntVal(x.Low); !ok {
				lo = -1
			}
		}
		if h, ok := constIntVal(x.High); ok && lo >= 0 {
			best = h - lo
		} else if x.High == nil && lo >= 0 {
			if al, ok := x.X.(*ssa.Alloc); ok {
				if arr, ok := al.Type().(*types.Pointer).Elem().Underlying().(*types.Array); ok {
					best = arr.Len() - lo
				}
			} else {
				best = bc.minLenAt(x.X, x, depth+1) - lo
			}
		}
	case *ssa.Call:
		if f := x.Common().StaticCallee(); f != nil {
			switch f.String() {
			case "strings.Split", "strings.SplitN", "bytes.Split":
				best = 1
			}
		}
	case *ssa.Phi:
		first := true
		for _, ed := range x.Edges {
			if ed == v {
				continue
			}
			m := bc.minLenAt(ed, x, depth+1)
			if first || m < best {
				best, first = m, false
			}
		}
	case *ssa.UnOp:
		if x.Op == token.MUL {
			if al, ok := x.X.(*ssa.Alloc); ok {
				sts := reachingStores(al, x)
				first := true
				for _, st := range sts {
					m := bc.minLenAt(st.Val, st, depth+1)
					if first || m < best {
						best, first = m, false
					}
				}
				if len(sts) == 0 {
					best = 0
				}
			}
		}
	}
	if best < 0 {
		best = 0
	}
	// dominating conditions
	if at != nil && at.Block() != nil {
		for _, cf := range dominatingConds(at.Block()) {
			if m := bc.boundFromCond(cf, v); m > best {
				best = m
			}
		}
		// conditions tested earlier in the same block chain are covered by dominatingConds
	}
	return best
}

// boundFromCond: what does "cond == val" imply about len(v)?
func (bc *boundsCtx) boundFromCond(cf condFact, v ssa.Value) int64 {
	switch c := cf.Cond.(type) {
	case *ssa.BinOp:
		if seq, ok := isLenCall(c.X); ok && sameSeq(seq, v) {
			if k, ok := constIntVal(c.Y); ok {
				return lenBound(c.Op, k, cf.Val)
			}
		}
		if seq, ok := isLenCall(c.Y); ok && sameSeq(seq, v) {
			if k, ok := constIntVal(c.X); ok {
				return lenBound(flipOp(c.Op), k, cf.Val)
			}
		}
		// x != "" / x == ""
		if (c.Op == token.NEQ || c.Op == token.EQL) && sameSeq(c.X, v) {
			if s, ok := constString(c.Y); ok && s == "" {
				if (c.Op == token.NEQ) == cf.Val {
					return 1
				}
			}
		}
	case *ssa.Call:
		if f := c.Common().StaticCallee(); f != nil && cf.Val {
			switch f.String() {
			case "strings.HasPrefix", "strings.HasSuffix":
				if sameSeq(c.Common().Args[0], v) {
					if s, ok := constString(c.Common().Args[1]); ok {
						return int64(len(s))
					}
				}
			}
		}
	}
	return 0
}

func flipOp(op token.Token) token.Token {
	switch op {
	case token.LSS:
		return token.GTR
	case token.GTR:
		return token.LSS
	case token.LEQ:
		return token.GEQ
	case token.GEQ:
		return token.LEQ
	}
	return op
}

// lenBound: lower bound on n implied by (n op k) == val.
func lenBound(op token.Token, k int64, val bool) int64 {
	if !val {
		switch op {
		case token.LSS:
			op = token.GEQ
		case token.LEQ:
			op = token.GTR
		case token.GTR:
			op = token.LEQ
		case token.GEQ:
			op = token.LSS
		case token.EQL:
			op = token.NEQ
		case token.NEQ:
			op = token.EQL
		}
	}
	switch op {
	case token.GEQ:
		return k
	case token.GTR:
		return k + 1
	case token.EQL:
		return k
	case token.NEQ:
		if k == 0 {
			return 1
		}
	}
	return 0
}

type boundsSite struct {
	In   ssa.Instruction
	X    ssa.Value
	Need int64
	What string
}

// boundsSites lists constant-bound index/slice operations on strings and slices in fn.
func boundsSites(fn *ssa.Function) []boundsSite {
	var out []boundsSite
	isSeq := func(t types.Type) bool {
		switch u := t.Underlying().(type) {
		case *types.Slice:
			return true
		case *types.Basic:
			return u.Kind() == types.String || u.Kind() == types.UntypedString
		}
		return false
	}
	AllInstrs(fn, func(in ssa.Instruction) {
		switch x := in.(type) {
		case *ssa.Slice:
			if !isSeq(x.X.Type()) {
				return
			}
			need := int64(0)
			if h, ok := constIntVal(x.High); ok {
				need = h
			}
			if l, ok := constIntVal(x.Low); ok && l > need {
				need = l
			}
			if need > 0 {
				out = append(out, boundsSite{in, x.X, need, fmt.Sprintf("slice expression needing at least %d element(s)", need)})
			}
		case *ssa.IndexAddr:
			if _, ok := x.X.Type().Underlying().(*types.Slice); !ok {
				return
			}
			if k, ok := constIntVal(x.Index); ok {
				out = append(out, boundsSite{in, x.X, k + 1, fmt.Sprintf("index [%d]", k)})
			}
		case *ssa.Lookup:
			if b, ok := x.X.Type().Underlying().(*types.Basic); ok && b.Kind() == types.String {
				if k, ok := constIntVal(x.Index); ok {
					out = append(out, boundsSite{in, x.X, k + 1, fmt.Sprintf("string index [%d]", k)})
				}
			}
		}
	})
	return out
}
