package main

import (
	"fmt"
	"go/constant"
	"go/token"
	"go/types"
	"sort"
	"strings"

	"golang.org/x/tools/go/ssa"
)

// C10 — the persisted cache round-trips and survives crashes during save.
func init() { register("C10", "persisted cache round-trip and crash safety", checkC10) }

// pathKind classifies a string value relative to cache.filePath.
type pathKind int

const (
	pathOther  pathKind = iota
	pathExact           // cache.filePath itself
	pathSuffix          // cache.filePath + non-empty constant (the temporary file)
)

func classifyPath(v ssa.Value, fFilePath *types.Var) pathKind {
	kind := pathOther
	Origins(v, func(x ssa.Value) bool {
		if f, _ := loadedField(x); f == fFilePath {
			if kind == pathOther {
				kind = pathExact
			}
			return true
		}
		if b, ok := x.(*ssa.BinOp); ok && b.Op == token.ADD {
			if f, _ := loadedField(b.X); f == fFilePath {
				if k, ok := b.Y.(*ssa.Const); ok && k.Value != nil && k.Value.Kind() == constant.String && constant.StringVal(k.Value) != "" {
					kind = pathSuffix
					return true
				}
			}
		}
		return false
	})
	return kind
}

// typeSwitchCases lists the asserted types of the comma-ok type assertions
// (type-switch arms) in fn on values derived from parameter #idx.
func typeSwitchCases(fn *ssa.Function, idx int) []string {
	set := map[string]bool{}
	AllInstrs(fn, func(in ssa.Instruction) {
		ta, ok := in.(*ssa.TypeAssert)
		if !ok || !ta.CommaOk || paramIndex(ta.X) < 0 {
			return
		}
		set[types.TypeString(ta.AssertedType, nil)] = true
	})
	out := make([]string, 0, len(set))
	for k := range set {
		out = append(out, k)
	}
	sort.Strings(out)
	return out
}

func checkC10(e *Engine, r *Report) {
	r.Rules = []string{
		"R3 replace-by-rename only: every os.* call that modifies the file system and receives a value derived from cache.filePath is either os.WriteFile on `filePath + <non-empty constant>` or os.Rename from that temporary name to filePath; the Rename is unreachable when the WriteFile failed; the data written is Snapshot()'s result; filePath itself is otherwise only read (Lstat, ReadFile)",
		"R1+R2 permission gate: NewCache loads the cache only after checkPerm(filePath, regular file) and both mkdirAll checks returned no error; checkPerm uses Lstat and refuses symbolic links, wrong file types and any rejected permission bit; the four permission tables reject group/other write (0o022)",
		"R9 field coverage: every field of the cached pod/container that is not persisted (unexported or json:\"-\") is in the reviewed transient table; the snapshot struct's fields = the fields Snapshot fills = the fields Restore copies back; Restore re-links the cache back-pointer of every pod and container",
		"R6 codec agreement: marshalEntry/unmarshalEntry special-case the same types, and so do cacheEntry/setEntry",
	}
	r.NotDecided = []string{"JSON fidelity of nested NRI/Kubernetes types", "atomicity of rename(2) against process kill (OS assumption); durability against power loss is not part of the property"}
	r.Assumptions = []string{"rename(2) atomically replaces the destination", "encoding/json round-trips exported fields of the repository's own types"}
	checkErrorPolarity(e, r, "R3 replace-by-rename only", pkgCA)
	checkErrorPropagation(e, r, "R3 replace-by-rename only", pkgCA)

	fFilePath := e.Field(pkgCA, "cache", "filePath")
	save := r.Anchor(pkgCA, "cache.Save")
	load := r.Anchor(pkgCA, "cache.Load")
	newCache := r.Anchor(pkgCA, "NewCache")
	checkPerm := r.Anchor(pkgCA, "cache.checkPerm")
	mkdirAll := r.Anchor(pkgCA, "cache.mkdirAll")
	snap := r.Anchor(pkgCA, "cache.Snapshot")
	restore := r.Anchor(pkgCA, "cache.Restore")
	if fFilePath == nil || save == nil || load == nil || newCache == nil || checkPerm == nil || mkdirAll == nil || snap == nil || restore == nil {
		r.Undecided("anchor:cache-persistence", "anchor", "persistence functions exist", "-", nil, "anchor drift")
		return
	}

	// ---- rule 1 --------------------------------------------------------------------
	writers := map[string]bool{"WriteFile": true, "OpenFile": true, "Create": true, "Truncate": true, "Remove": true, "RemoveAll": true, "Rename": true,
		"Mkdir": true, "MkdirAll": true, "Symlink": true, "Link": true, "Chmod": true, "Chown": true}
	readers := map[string]bool{"Lstat": true, "Stat": true, "ReadFile": true, "Open": true}
	nfp := 0
	var writeTmp, renameCall ssa.CallInstruction
	for _, fn := range e.RepoFuncs {
		AllInstrs(fn, func(in ssa.Instruction) {
			ci, ok := in.(ssa.CallInstruction)
			if !ok {
				return
			}
			callee := ci.Common().StaticCallee()
			if callee == nil || callee.Pkg == nil {
				return
			}
			pp := callee.Pkg.Pkg.Path()
			if pp != "os" && pp != "io/ioutil" {
				return
			}
			name := callee.Name()
			for ai, a := range ci.Common().Args {
				if b, ok := a.Type().Underlying().(*types.Basic); !ok || b.Kind() != types.String {
					continue
				}
				k := classifyPath(a, fFilePath)
				if k == pathOther {
					continue
				}
				nfp++
				site := fmt.Sprintf("%s#os.%s[arg%d]", FnName(fn), name, ai)
				okUse, why := false, ""
				switch {
				case k == pathExact && readers[name]:
					okUse, why = true, "read-only use of the cache file"
				case k == pathExact && name == "Rename" && ai == 1:
					okUse, why = true, "destination of the replacing rename"
					renameCall = ci
				case k == pathSuffix && name == "WriteFile" && ai == 0:
					okUse, why = true, "the temporary file is written"
					writeTmp = ci
				case k == pathSuffix && name == "Rename" && ai == 0:
					okUse, why = true, "source of the replacing rename"
				case k == pathSuffix && (name == "Remove" || readers[name]):
					okUse, why = true, "clean-up/read of the temporary file"
				default:
					if writers[name] {
						why = "the cache file path reaches a file-system modification other than write-temporary-then-rename"
					} else {
						why = "unrecognised use of the cache file path"
					}
				}
				r.Check("R3:filepath-use@"+site, "R3 replace-by-rename only", "the cache file is only read, or replaced by renaming a completely written temporary file over it",
					e.InstrPos(in), fn, okUse, why, true)
			}
		})
	}
	// the cache file path handed to a repository helper: accepted only for a helper that writes a file completely from
	// scratch (opens with O_WRONLY|O_CREATE|O_TRUNC and writes its data argument) and only for the temporary name
	for _, fn := range e.funcsInPkg(pkgCA) {
		AllInstrs(fn, func(in ssa.Instruction) {
			ci, ok := in.(ssa.CallInstruction)
			if !ok {
				return
			}
			callee := ci.Common().StaticCallee()
			if callee == nil || callee.Pkg == nil || !isRepoPath(callee.Pkg.Pkg.Path()) || len(callee.Blocks) == 0 {
				return
			}
			for ai, a := range ci.Common().Args {
				if b, ok := a.Type().Underlying().(*types.Basic); !ok || b.Kind() != types.String {
					continue
				}
				k := classifyPath(a, fFilePath)
				if k == pathOther || callee == checkPerm || callee == mkdirAll {
					continue
				}
				nfp++
				okH, why := completeWriteHelper(callee, ai)
				if okH && k != pathSuffix {
					okH, why = false, "the cache file itself (not the temporary file) is handed to a writing helper"
				}
				if okH {
					writeTmp = ci
				}
				r.Check("R3:filepath-use@"+FnName(fn)+"#"+callee.Name()+fmt.Sprintf("[arg%d]", ai), "R3 replace-by-rename only", "the cache file is only read, or replaced by renaming a completely written temporary file over it",
					e.InstrPos(in), fn, okH, why, true)
			}
		})
	}
	r.MinInstances("uses of cache.filePath in os calls", nfp, 4)
	if writeTmp == nil || renameCall == nil {
		r.Undecided("R3:save-shape", "R3 replace-by-rename only", "Save writes a temporary file and renames it over the cache file", e.Pos(save.Pos()), save, "WriteFile/Rename pair not found")
	} else {
		failed := func(cond ssa.Value) (bool, bool) { k, v := callSucceeded(writeTmp.Value())(cond); return k, !v }
		r.Unreachable("R3:rename-needs-complete-write", "R3 replace-by-rename only", "the rename is unreachable when writing the temporary file failed", save, writeTmp.(ssa.Instruction),
			func(in ssa.Instruction) bool { return in == renameCall.(ssa.Instruction) }, failed)
		r.Check("R3:write-before-rename", "R3 replace-by-rename only", "the temporary file is written before it is renamed", e.InstrPos(renameCall), save,
			dominatesInstr(writeTmp, renameCall), "", true)
		// same temporary path in both calls
		r.Check("R3:same-temp-path", "R3 replace-by-rename only", "the file renamed is the file that was written", e.InstrPos(renameCall), save,
			writeTmp.Common().Args[0] == renameCall.Common().Args[0] || sameValue(writeTmp.Common().Args[0], renameCall.Common().Args[0]), "", true)
		dataArg := writeTmp.Common().Args[1]
		if callee := writeTmp.Common().StaticCallee(); callee != nil && callee.Pkg != nil && callee.Pkg.Pkg.Path() != "os" {
			for i, a := range writeTmp.Common().Args {
				if sl, ok := a.Type().Underlying().(*types.Slice); ok {
					if b, ok := sl.Elem().Underlying().(*types.Basic); ok && b.Kind() == types.Byte {
						dataArg = writeTmp.Common().Args[i]
					}
				}
			}
		}
		okData := originAll(dataArg, func(v ssa.Value) bool {
			ex, ok := v.(*ssa.Extract)
			if !ok || ex.Index != 0 {
				return false
			}
			call, ok := ex.Tuple.(*ssa.Call)
			return ok && e.IsCallTo(call, fset(snap))
		})
		r.Check("R3:writes-snapshot", "R3 replace-by-rename only", "what is written is exactly Snapshot()'s result", e.InstrPos(writeTmp), save, okData, "", true)
		// a failed rename or write is reported
		for _, c := range []ssa.CallInstruction{writeTmp, renameCall} {
			failed := func(cond ssa.Value) (bool, bool) { k, v := callSucceeded(c.Value())(cond); return k, !v }
			p := FindPath(PathQuery{Fn: save, From: c.(ssa.Instruction), Assume: failed, Target: func(in ssa.Instruction) bool {
				ret, ok := in.(*ssa.Return)
				return ok && e.ClassifyReturn(ret) != retNonNilErr
			}})
			r.Check("R3:save-failure-reported@"+c.Common().StaticCallee().Name(), "R3 replace-by-rename only", "a failed write/rename makes Save return an error", e.InstrPos(c), save, p == nil, e.pathString(p), true)
		}
	}
	// Load reads filePath and restores from exactly what it read
	{
		okLoad := false
		AllInstrs(load, func(in ssa.Instruction) {
			if e.IsCallTo(in, fset(restore)) {
				a := callArgs(in.(ssa.CallInstruction))
				if len(a) == 2 && originAll(a[1], func(v ssa.Value) bool {
					ex, ok := v.(*ssa.Extract)
					if !ok || ex.Index != 0 {
						return false
					}
					call, ok := ex.Tuple.(*ssa.Call)
					if !ok {
						return false
					}
					f := call.Common().StaticCallee()
					return f != nil && f.String() == "os.ReadFile" && classifyPath(call.Common().Args[0], fFilePath) == pathExact
				}) {
					okLoad = true
				}
			}
		})
		r.Check("R3:load-restores-file", "R3 replace-by-rename only", "Load restores the cache from the bytes read from cache.filePath", e.Pos(load.Pos()), load, okLoad, "", true)
	}

	// ---- rule 2 --------------------------------------------------------------------
	{
		lc := e.callsTo(newCache, load)
		if len(lc) != 1 {
			r.Undecided("R2:gate", "R1+R2 permission gate", "NewCache calls Load once", e.Pos(newCache.Pos()), newCache, fmt.Sprintf("%d calls", len(lc)))
		} else {
			loadIn := lc[0].(ssa.Instruction)
			gates := append(e.callsTo(newCache, checkPerm), e.callsTo(newCache, mkdirAll)...)
			for _, g := range gates {
				failed := func(cond ssa.Value) (bool, bool) { k, v := callSucceeded(g.Value())(cond); return k, !v }
				name := g.Common().StaticCallee().Name()
				r.Unreachable("R2:gate@"+name, "R1+R2 permission gate", "the cache is not loaded (nor used) when "+name+" reported an error", newCache, g.(ssa.Instruction),
					func(in ssa.Instruction) bool { return in == loadIn }, failed)
				p := FindPath(PathQuery{Fn: newCache, Block: func(in ssa.Instruction) bool { return in == g.(ssa.Instruction) }, Target: func(in ssa.Instruction) bool { return in == loadIn }})
				r.Check("R2:gate-precedes-load@"+name, "R1+R2 permission gate", name+" runs before Load on every path", e.InstrPos(g), newCache, p == nil, e.pathString(p), true)
				// a refused cache is reported
				p2 := FindPath(PathQuery{Fn: newCache, From: g.(ssa.Instruction), Assume: failed, Target: func(in ssa.Instruction) bool {
					ret, ok := in.(*ssa.Return)
					return ok && e.ClassifyReturn(ret) != retNonNilErr
				}})
				r.Check("R2:gate-refuses@"+name, "R1+R2 permission gate", "when "+name+" reports an error NewCache fails", e.InstrPos(g), newCache, p2 == nil, e.pathString(p2), true)
			}
			r.MinInstances("permission gates before Load", len(gates), 3)
			// the paths examined are clean: os.Lstat resolves a symbolic link when the name ends in a slash, so a path
			// taken verbatim from the configuration ("…/link/") would make the symlink refusal ineffective
			var isClean func(v ssa.Value, fn *ssa.Function, d int) bool
			isClean = func(v ssa.Value, fn *ssa.Function, d int) bool {
				if d > 4 {
					return false
				}
				if c, ok := v.(*ssa.Call); ok {
					if f := c.Common().StaticCallee(); f != nil && (f.String() == "path/filepath.Join" || f.String() == "path/filepath.Clean") {
						return true
					}
				}
				if k, ok := v.(*ssa.Const); ok {
					if sv, isS := constString(k); isS {
						return !strings.HasSuffix(sv, "/")
					}
				}
				if c, ok := v.(*ssa.Call); ok {
					// a repository helper all of whose results are clean
					if f := c.Common().StaticCallee(); f != nil && f.Pkg != nil && isRepoPath(f.Pkg.Pkg.Path()) && len(f.Blocks) > 0 && f.Signature.Results().Len() == 1 {
						for _, ret := range Returns(f) {
							if !isClean(ret.Results[0], f, d+1) {
								return false
							}
						}
						return true
					}
				}
				if f, _ := loadedField(v); f != nil {
					// a field all of whose stores (anywhere in the package) are clean paths
					okAll, n := true, 0
					for _, g := range e.funcsInPkg(pkgCA) {
						AllInstrsOf(g, func(in ssa.Instruction) {
							if st, ok := in.(*ssa.Store); ok && fieldOfAddr(st.Addr) == f {
								n++
								if !isClean(st.Val, g, d+1) {
									okAll = false
								}
							}
						})
					}
					return okAll && n > 0
				}
				if u, ok := v.(*ssa.UnOp); ok && u.Op == token.MUL {
					if al, ok := u.X.(*ssa.Alloc); ok {
						sts := reachingStores(al, u)
						if len(sts) == 0 {
							return false
						}
						for _, st := range sts {
							if !isClean(st.Val, fn, d+1) {
								return false
							}
						}
						return true
					}
				}
				return false
			}
			for _, target := range []*ssa.Function{checkPerm, mkdirAll} {
				for _, cs := range e.Callers(target) {
					a := callArgs(cs.Call)
					if len(a) < 3 {
						continue
					}
					okP, why := isClean(a[2], cs.Fn, 0), "the path is not the result of filepath.Join/Clean"
					// mkdirAll forwarding its own parameter is covered at mkdirAll's call sites
					if !okP && cs.Fn == mkdirAll && paramIndex(a[2]) == 2 {
						okP = true
					}
					if okP {
						why = ""
					}
					r.Check("R2:checked-path-is-clean@"+FnName(cs.Fn)+"->"+target.Name(), "R1+R2 permission gate", "a path checked for being a symbolic link has no trailing separator (it comes from filepath.Join/Clean), so Lstat examines the link itself", e.InstrPos(cs.Call), cs.Fn, okP, why, true)
				}
			}
			// the file check is on filePath, as a regular file
			okFile := false
			for _, c := range e.callsTo(newCache, checkPerm) {
				a := callArgs(c)
				if len(a) == 5 && classifyPath(a[2], fFilePath) == pathExact {
					if k, ok := a[3].(*ssa.Const); ok && k.Value != nil && !constant.BoolVal(k.Value) {
						okFile = true
					}
				}
			}
			r.Check("R2:gate-checks-cache-file", "R1+R2 permission gate", "the cache file itself is checked as a regular file before it is loaded", e.Pos(newCache.Pos()), newCache, okFile, "", true)
		}
	}
	{
		// checkPerm
		usesLstat, usesStat := false, false
		var info ssa.Value
		AllInstrs(checkPerm, func(in ssa.Instruction) {
			if call, ok := in.(*ssa.Call); ok {
				if f := call.Common().StaticCallee(); f != nil {
					switch f.String() {
					case "os.Lstat":
						usesLstat = paramIndex(call.Common().Args[0]) == 2
						info = call
					case "os.Stat":
						usesStat = true
					}
				}
			}
		})
		r.Check("R2:checkPerm-lstat", "R1+R2 permission gate", "checkPerm examines its path with os.Lstat (never os.Stat, which would follow a symbolic link)", e.Pos(checkPerm.Pos()), checkPerm, usesLstat && !usesStat && info != nil, "", true)
		isModeAnd := func(v ssa.Value, mask string) bool {
			b, ok := v.(*ssa.BinOp)
			if !ok || b.Op != token.AND {
				return false
			}
			call, ok := b.X.(*ssa.Call)
			if !ok || callObj(call.Common()) == nil || callObj(call.Common()).Name() != "Mode" {
				return false
			}
			k, ok := b.Y.(*ssa.Const)
			return ok && k.Value != nil && constNameIs(e, k, mask)
		}
		refuses := func(key, what string, assume Assumption) {
			p := FindPath(PathQuery{Fn: checkPerm, Assume: assume, Target: func(in ssa.Instruction) bool {
				ret, ok := in.(*ssa.Return)
				return ok && e.ClassifyReturn(ret) != retNonNilErr
			}})
			// the assumption must actually decide something in this function (vacuity)
			decides := false
			AllInstrs(checkPerm, func(in ssa.Instruction) {
				if ifi, ok := in.(*ssa.If); ok {
					if k, _ := EvalCond(ifi.Cond, assume); k {
						decides = true
					}
				}
			})
			r.Check("R2:checkPerm-refuses-"+key, "R1+R2 permission gate", "checkPerm returns an error for "+what, e.Pos(checkPerm.Pos()), checkPerm, p == nil && decides, e.pathString(p), true)
		}
		existsOK := func(cond ssa.Value) (bool, bool) {
			// the Lstat succeeded
			if info == nil {
				return false, false
			}
			return callSucceeded(info)(cond)
		}
		refuses("symlink", "a symbolic link", andAssume(existsOK, func(cond ssa.Value) (bool, bool) {
			b, ok := cond.(*ssa.BinOp)
			if ok && b.Op == token.EQL && isModeAnd(b.X, "ModeType") {
				if k, ok := b.Y.(*ssa.Const); ok && constNameIs(e, k, "ModeSymlink") {
					return true, true
				}
			}
			return false, false
		}))
		isDirParam := func(cond ssa.Value, val bool) (bool, bool) {
			if paramIndex(cond) == 3 {
				return true, val
			}
			return false, false
		}
		refuses("not-a-directory", "a non-directory where a directory is required", andAssume(existsOK, func(cond ssa.Value) (bool, bool) {
			if k, v := isDirParam(cond, true); k {
				return k, v
			}
			if call, ok := cond.(*ssa.Call); ok && callObj(call.Common()) != nil && callObj(call.Common()).Name() == "IsDir" {
				return true, false
			}
			b, ok := cond.(*ssa.BinOp)
			if ok && b.Op == token.EQL && isModeAnd(b.X, "ModeType") {
				return true, false // not a symlink
			}
			return false, false
		}))
		refuses("not-a-regular-file", "a non-regular file where a file is required", andAssume(existsOK, func(cond ssa.Value) (bool, bool) {
			if k, v := isDirParam(cond, false); k {
				return k, v
			}
			b, ok := cond.(*ssa.BinOp)
			if ok && b.Op == token.EQL && isModeAnd(b.X, "ModeType") {
				return true, false // not a symlink
			}
			if ok && b.Op == token.NEQ && isModeAnd(b.X, "ModeType") && isConstInt(b.Y, 0) {
				return true, true
			}
			return false, false
		}))
		fReject := e.Field(pkgCA, "permissions", "reject")
		refuses("rejected-bits", "an existing entry with any rejected permission bit set", andAssume(existsOK, func(cond ssa.Value) (bool, bool) {
			b, ok := cond.(*ssa.BinOp)
			if ok && b.Op == token.EQL && isModeAnd(b.X, "ModeType") {
				return true, false
			}
			if ok && b.Op == token.NEQ && isConstInt(b.Y, 0) {
				if and, ok := b.X.(*ssa.BinOp); ok && and.Op == token.AND {
					if f, _ := loadedField(and.Y); f == fReject {
						return true, true
					}
					if f, _ := loadedField(and.X); f == fReject {
						return true, true
					}
				}
				if isModeAnd(b.X, "ModeType") {
					return true, false
				}
			}
			if call, ok := cond.(*ssa.Call); ok && callObj(call.Common()) != nil && callObj(call.Common()).Name() == "IsDir" {
				return true, true
			}
			if k, v := isDirParam(cond, true); k {
				return k, v
			}
			return false, false
		}))
		// permission tables reject group/other write
		fPrefer := e.Field(pkgCA, "permissions", "prefer")
		nt := 0
		if initFn := e.Prog.ImportedPackage(pkgCA).Func("init"); initFn != nil {
			AllInstrs(initFn, func(in ssa.Instruction) {
				st, ok := in.(*ssa.Store)
				if !ok || fieldOfAddr(st.Addr) != fReject {
					return
				}
				nt++
				k, ok := st.Val.(*ssa.Const)
				okBits := ok && k.Value != nil && (k.Int64()&0o022) == 0o022
				r.Check("R6:reject-bits", "R1+R2 permission gate", "every permission table rejects group- and other-writable entries (reject includes 0o022)", e.InstrPos(in), initFn, okBits, "", false)
			})
		}
		_ = fPrefer
		r.MinInstances("permission tables", nt, 4)
		// mkdirAll returns checkPerm's error and creates only when nothing exists
		cp := e.callsTo(mkdirAll, checkPerm)
		if len(cp) == 1 {
			failed := func(cond ssa.Value) (bool, bool) { k, v := callSucceeded(cp[0].Value())(cond); return k, !v }
			p := FindPath(PathQuery{Fn: mkdirAll, From: cp[0].(ssa.Instruction), Assume: failed, Target: func(in ssa.Instruction) bool {
				ret, ok := in.(*ssa.Return)
				return ok && e.ClassifyReturn(ret) != retNonNilErr
			}})
			r.Check("R2:mkdirAll-propagates", "R1+R2 permission gate", "mkdirAll fails when checkPerm refuses the existing directory", e.Pos(mkdirAll.Pos()), mkdirAll, p == nil, e.pathString(p), true)
			a := callArgs(cp[0])
			okDir := false
			if len(a) == 5 {
				if k, ok := a[3].(*ssa.Const); ok && k.Value != nil && constant.BoolVal(k.Value) {
					okDir = true
				}
			}
			r.Check("R2:mkdirAll-checks-directory", "R1+R2 permission gate", "mkdirAll checks the existing entry as a directory", e.InstrPos(cp[0]), mkdirAll, okDir, "", true)
		}
	}

	// ---- rule 3 --------------------------------------------------------------------
	transient := map[string]map[string]string{
		"pod": {
			"cache": "back-pointer, re-linked by Restore", "podResCh": "channel of an in-flight fetch", "waitResCh": "rendezvous of an in-flight fetch",
			"prettyName": "derived, recomputed on demand", "ctime": "creation time of the cache object, not of the pod",
		},
		"container": {
			"cache": "back-pointer, re-linked by Restore", "request": "pending NRI request, only lives inside one handler", "pending": "pending-controller marks, only live inside one handler",
			"prettyName": "derived, recomputed on demand", "ctime": "creation time of the cache object",
		},
	}
	for _, tn := range []string{"pod", "container"} {
		n := e.Named(pkgCA, tn)
		if n == nil {
			continue
		}
		st := n.Underlying().(*types.Struct)
		for i := 0; i < st.NumFields(); i++ {
			f := st.Field(i)
			persisted := f.Exported() && reflectTagJSON(st.Tag(i)) != "-"
			why, isTransient := transient[tn][f.Name()]
			switch {
			case persisted && !isTransient:
				r.Check("R9:persisted#"+tn+"."+f.Name(), "R9 field coverage", tn+"."+f.Name()+" is part of the snapshot (exported, not json:\"-\")", e.Pos(f.Pos()), nil, true, "", false)
			case !persisted && isTransient:
				r.Check("R9:transient#"+tn+"."+f.Name(), "R9 field coverage", tn+"."+f.Name()+" is deliberately not persisted: "+why, e.Pos(f.Pos()), nil, true, why, false)
			case !persisted:
				r.Check("R9:unpersisted#"+tn+"."+f.Name(), "R9 field coverage", "a field of the cached "+tn+" that is not persisted must be in the reviewed transient table (otherwise reloading loses it)",
					e.Pos(f.Pos()), nil, false, "unexported or json:\"-\" and not known to be transient", false)
			default:
				r.Check("R9:transient-but-persisted#"+tn+"."+f.Name(), "R9 field coverage", "the transient table is up to date", e.Pos(f.Pos()), nil, true, "listed transient but persisted (harmless)", false)
			}
		}
	}
	// snapshot: declared = filled = restored
	if sn := e.Named(pkgCA, "snapshot"); sn != nil {
		st := sn.Underlying().(*types.Struct)
		filled := map[*types.Var]bool{}
		if al := allocOfType(snap, sn); al != nil {
			for f := range structInitStores(snap, al) {
				filled[f] = true
			}
		}
		restored := map[*types.Var]bool{}
		AllInstrs(restore, func(in ssa.Instruction) {
			if fa, ok := in.(*ssa.FieldAddr); ok && fieldOwner(fa) == sn {
				for _, ref := range *fa.Referrers() {
					if u, ok := ref.(*ssa.UnOp); ok && u.Op == token.MUL {
						restored[fieldOfAddr(fa)] = true
					}
				}
			}
		})
		cacheT := e.Named(pkgCA, "cache")
		cst := cacheT.Underlying().(*types.Struct)
		// what each snapshot field is filled from: the same-named cache field, or a fresh map that a
		// loop over exactly that cache field populates (an empty or partial map would silently drop entries)
		var inits map[*types.Var]ssa.Value
		if al := allocOfType(snap, sn); al != nil {
			inits = structInitStores(snap, al)
		}
		filledFromRange := func(m ssa.Value, sf, cf *types.Var) bool {
			ok := false
			AllInstrs(snap, func(in ssa.Instruction) {
				mu, isMU := in.(*ssa.MapUpdate)
				if !isMU {
					return
				}
				hit := false
				if g, _ := loadedField(mu.Map); g == sf {
					hit = true
				}
				Origins(mu.Map, func(v ssa.Value) bool {
					if v == m {
						hit = true
					}
					return hit
				})
				if !hit {
					return
				}
				// the update sits in the body of a range over cache.<field> and stores the ranged value
				Origins(mu.Value, func(v ssa.Value) bool {
					if ex, isEx := v.(*ssa.Extract); isEx {
						if nx, isNx := ex.Tuple.(*ssa.Next); isNx {
							if rg, isRg := nx.Iter.(*ssa.Range); isRg {
								if g, _ := loadedField(rg.X); g == cf {
									ok = true
								}
							}
						}
					}
					return ok
				})
			})
			return ok
		}
		for i := 0; i < st.NumFields(); i++ {
			f := st.Field(i)
			if f.Name() != "Version" {
				var cf *types.Var
				for j := 0; j < cst.NumFields(); j++ {
					if cst.Field(j).Name() == f.Name() {
						cf = cst.Field(j)
					}
				}
				okSrc, why := false, "no same-named cache field"
				if v := inits[f]; v != nil && cf != nil {
					why = "neither cache." + f.Name() + " itself nor a map populated from a range over it"
					if g, _ := loadedField(v); g == cf {
						okSrc = true
					} else if _, isMk := v.(*ssa.MakeMap); isMk && filledFromRange(v, f, cf) {
						okSrc = true
					}
				}
				r.Check("R9:snapshot-source#"+f.Name(), "R9 field coverage", "Snapshot fills snapshot."+f.Name()+" from cache."+f.Name()+" (the field itself, or a map populated by ranging over it), so entries not touched since Restore are carried over", e.Pos(snap.Pos()), snap, okSrc, why, true)
			}
			r.Check("R9:snapshot-filled#"+f.Name(), "R9 field coverage", "Snapshot fills snapshot."+f.Name(), e.Pos(snap.Pos()), snap, filled[f], "", true)
			r.Check("R9:snapshot-restored#"+f.Name(), "R9 field coverage", "Restore reads snapshot."+f.Name()+" back", e.Pos(restore.Pos()), restore, restored[f], "", true)
			if f.Name() == "Version" {
				continue
			}
			// the same-named cache field is what Snapshot read and what Restore writes
			var cf *types.Var
			for j := 0; j < cst.NumFields(); j++ {
				if cst.Field(j).Name() == f.Name() {
					cf = cst.Field(j)
				}
			}
			wrote := false
			var wroteAt []ssa.Instruction
			AllInstrs(restore, func(in ssa.Instruction) {
				if stv, ok := in.(*ssa.Store); ok && cf != nil && fieldOfAddr(stv.Addr) == cf {
					if g, _ := loadedField(stv.Val); g == f {
						wrote = true
						wroteAt = append(wroteAt, in)
					}
				}
			})
			wWhy := ""
			if sp := e.skippedOnSuccess(restore, wroteAt...); wrote && sp != nil {
				wrote, wWhy = false, "a successful Restore can skip the store: "+e.pathString(sp)
			}
			r.Check("R9:restore-writes#"+f.Name(), "R9 field coverage", "every successful Restore stores snapshot."+f.Name()+" into cache."+f.Name(), e.Pos(restore.Pos()), restore, wrote, wWhy, true)
		}
		// every persisted exported field of cache is in the snapshot
		for j := 0; j < cst.NumFields(); j++ {
			cf := cst.Field(j)
			if !cf.Exported() || cf.Embedded() {
				continue
			}
			in := false
			for i := 0; i < st.NumFields(); i++ {
				if st.Field(i).Name() == cf.Name() {
					in = true
				}
			}
			r.Check("R9:cache-field-in-snapshot#"+cf.Name(), "R9 field coverage", "exported cache state "+cf.Name()+" is part of the snapshot", e.Pos(cf.Pos()), nil, in, "", false)
		}
		// back-pointers
		for _, tn := range []string{"pod", "container"} {
			f := e.Field(pkgCA, tn, "cache")
			ok := false
			AllInstrs(restore, func(in ssa.Instruction) {
				if stv, isSt := in.(*ssa.Store); isSt && fieldOfAddr(stv.Addr) == f && paramIndex(stv.Val) == 0 {
					// the target is the range element over the restored map
					base := stv.Addr.(*ssa.FieldAddr).X
					if ex, isEx := base.(*ssa.Extract); isEx {
						if nx, isNx := ex.Tuple.(*ssa.Next); isNx {
							if _, isRg := nx.Iter.(*ssa.Range); isRg {
								ok = true
							}
						}
					}
				}
			})
			r.Check("R9:relink#"+tn, "R9 field coverage", "Restore re-links the cache back-pointer of every restored "+tn, e.Pos(restore.Pos()), restore, ok, "", true)
		}
		// policy entries: every entry of policyData is marshalled into PolicyJSON by Snapshot
		marshal := e.Fn(pkgCA, "marshalEntry")
		fPD := e.Field(pkgCA, "cache", "policyData")
		okPD := false
		AllInstrs(snap, func(in ssa.Instruction) {
			if rg, ok := in.(*ssa.Range); ok {
				if f, _ := loadedField(rg.X); f == fPD && len(e.callsTo(snap, marshal)) >= 1 {
					okPD = true
				}
			}
		})
		r.Check("R9:policy-entries-marshalled", "R9 field coverage", "Snapshot marshals every live policy entry (policyData) into PolicyJSON", e.Pos(snap.Pos()), snap, okPD, "", true)
	}

	// ---- rule 4 --------------------------------------------------------------------
	for _, pair := range [][2]string{{"marshalEntry", "unmarshalEntry"}, {"cache.cacheEntry", "cache.setEntry"}} {
		a, b := r.Anchor(pkgCA, pair[0]), r.Anchor(pkgCA, pair[1])
		if a == nil || b == nil {
			continue
		}
		ia, ib := 0, 0
		if a.Signature.Recv() != nil {
			ia, ib = 2, 2
		}
		ca, cb := typeSwitchCases(a, ia), typeSwitchCases(b, ib)
		norm := func(xs []string, addPtr bool) []string {
			out := []string{}
			for _, x := range xs {
				if strings.HasSuffix(x, ".Cacheable") {
					continue
				}
				if addPtr {
					x = "*" + x
				}
				out = append(out, x)
			}
			sort.Strings(out)
			return out
		}
		na, nb := norm(ca, pair[0] == "marshalEntry"), norm(cb, false)
		r.Check("R6:codec-agreement@"+pair[0]+"/"+pair[1], "R6 codec agreement", pair[0]+" and "+pair[1]+" special-case the same set of types",
			e.Pos(a.Pos()), a, strings.Join(na, ",") == strings.Join(nb, ",") && len(na) >= 2, fmt.Sprintf("%v vs %v", na, nb), true)
	}
}

// constNameIs: is constant k the value of os.<name>?
func constNameIs(e *Engine, k *ssa.Const, name string) bool {
	p := e.All["os"]
	if p == nil || p.Types == nil {
		return false
	}
	c, ok := p.Types.Scope().Lookup(name).(*types.Const)
	if !ok || k.Value == nil {
		return false
	}
	return constant.Compare(k.Value, token.EQL, c.Val())
}

// completeWriteHelper: fn opens the file named by its parameter #pathIdx with O_WRONLY|O_CREATE|O_TRUNC and writes a
// []byte parameter into it — an os.WriteFile equivalent.
func completeWriteHelper(fn *ssa.Function, pathIdx int) (bool, string) {
	const oWRONLY, oCREATE, oTRUNC = 0x1, 0x40, 0x200
	var open *ssa.Call
	wrote := false
	AllInstrsOf(fn, func(in ssa.Instruction) {
		c, ok := in.(*ssa.Call)
		if !ok {
			return
		}
		callee := c.Common().StaticCallee()
		if callee == nil {
			return
		}
		switch callee.String() {
		case "os.OpenFile":
			if paramIndex(c.Common().Args[0]) == pathIdx {
				open = c
			}
		case "(*os.File).Write":
			if pi := paramIndex(c.Common().Args[1]); pi >= 0 {
				wrote = true
			}
		case "os.WriteFile":
			if paramIndex(c.Common().Args[0]) == pathIdx && paramIndex(c.Common().Args[1]) >= 0 {
				open, wrote = c, true
			}
		}
	})
	if open == nil {
		return false, "not a recognised complete-write helper (no os.OpenFile/os.WriteFile on the path parameter)"
	}
	if open.Common().StaticCallee().String() == "os.WriteFile" {
		return true, ""
	}
	fl, ok := constIntVal(open.Common().Args[1])
	if !ok {
		return false, "the helper opens the file with non-constant flags"
	}
	if fl&oTRUNC == 0 {
		return false, "the helper opens the temporary file without O_TRUNC: remains of an earlier, interrupted save survive beyond the new data"
	}
	if fl&oCREATE == 0 || fl&oWRONLY == 0 {
		return false, "the helper does not open the file with O_WRONLY|O_CREATE"
	}
	if !wrote {
		return false, "the helper does not write its data parameter"
	}
	return true, ""
}
