package main

import (
	"fmt"
	"go/constant"
	"go/token"
	"go/types"
	"strings"

	"golang.org/x/tools/go/ssa"
)

// C18 — effective annotations: container-specific beats pod-wide beats bare key.
func init() { register("C18", "effective annotations", checkC18) }

// concatLeaves flattens a string concatenation into its leaves.
func concatLeaves(v ssa.Value, out *[]ssa.Value) {
	if b, ok := v.(*ssa.BinOp); ok && b.Op == token.ADD {
		concatLeaves(b.X, out)
		concatLeaves(b.Y, out)
		return
	}
	*out = append(*out, v)
}

func constString(v ssa.Value) (string, bool) {
	k, ok := v.(*ssa.Const)
	if !ok || k.Value == nil || k.Value.Kind() != constant.String {
		return "", false
	}
	return constant.StringVal(k.Value), true
}

func checkC18(e *Engine, r *Report) {
	r.Rules = []string{
		"lookup order (resource-policy cache, sgx-epc): three single-key lookups in the same annotation map with keys K+\"/container.\"+name, K+\"/pod\", K, in this order, each hit returning at once; no iteration over the map",
		"R10 order independence (memory-qos, memtierd effectiveAnnotations): inside the range over the annotation map, container-specific entries are written unconditionally (override) and pod-wide entries only through associate(…, false); associate stores iff override or absent",
		"explicit beats class (memory-qos, memtierd CreateContainer): explicitly annotated cgroup parameters are stored unconditionally, class-derived ones only through associate(…, false)",
		"addressing: the container-specific form is matched as a whole suffix `<suffix>/<container name>` including the separator, the pod-wide form as `<suffix>`",
	}
	r.NotDecided = []string{"string-library semantics (strings.CutSuffix, map lookup)"}
	r.Assumptions = []string{}

	// ---- rule 1: pod.GetEffectiveAnnotation ------------------------------------------
	if fn := r.Anchor(pkgCA, "pod.GetEffectiveAnnotation"); fn != nil {
		var lookups []*ssa.Lookup
		hasRange := false
		AllInstrs(fn, func(in ssa.Instruction) {
			if l, ok := in.(*ssa.Lookup); ok {
				lookups = append(lookups, l)
			}
			if _, ok := in.(*ssa.Range); ok {
				hasRange = true
			}
		})
		r.Check("R1:pod-eff#no-iteration", "lookup order", "GetEffectiveAnnotation never iterates over the annotation map", e.Pos(fn.Pos()), fn, !hasRange, "", false)
		shape := func(l *ssa.Lookup) string {
			var ls []ssa.Value
			concatLeaves(l.Index, &ls)
			var parts []string
			for _, x := range ls {
				if s, ok := constString(x); ok {
					parts = append(parts, fmt.Sprintf("%q", s))
				} else if pi := paramIndex(x); pi >= 0 {
					parts = append(parts, fmt.Sprintf("p%d", pi))
				} else {
					parts = append(parts, "?")
				}
			}
			return strings.Join(parts, "+")
		}
		want := []string{`p1+"/container."+p2`, `p1+"/pod"`, `p1`}
		okShape := len(lookups) == 3
		got := []string{}
		for _, l := range lookups {
			got = append(got, shape(l))
		}
		if okShape {
			// order by dominance
			for i := 0; i < 3; i++ {
				for j := i + 1; j < 3; j++ {
					if dominatesInstr(lookups[j], lookups[i]) {
						lookups[i], lookups[j] = lookups[j], lookups[i]
					}
				}
			}
			for i, l := range lookups {
				if shape(l) != want[i] {
					okShape = false
				}
			}
			okShape = okShape && dominatesInstr(lookups[0], lookups[1]) && dominatesInstr(lookups[1], lookups[2])
			sameMap := lookups[0].X == lookups[1].X && lookups[1].X == lookups[2].X
			okShape = okShape && sameMap
		}
		r.Check("R1:pod-eff#keys-in-order", "lookup order", "the lookups are K+\"/container.\"+name, then K+\"/pod\", then K, in the same map", e.Pos(fn.Pos()), fn, okShape, strings.Join(got, " ; "), true)
		if len(lookups) == 3 {
			for i := 0; i < 2; i++ {
				l := lookups[i]
				p := FindPath(PathQuery{Fn: fn, From: l, Assume: okOf(l, true), Target: func(in ssa.Instruction) bool { _, ok := in.(*ssa.Lookup); return ok }})
				r.Check(fmt.Sprintf("R1:pod-eff#hit%d-returns", i), "lookup order", "a hit on a more specific form returns without consulting less specific forms", e.InstrPos(l), fn, p == nil, e.pathString(p), true)
				// and returns that value
				okRet := true
				for _, ret := range Returns(fn) {
					if FindPath(PathQuery{Fn: fn, From: l, Assume: okOf(l, true), Target: func(in ssa.Instruction) bool { return in == ssa.Instruction(ret) }}) == nil {
						continue
					}
					good := false
					Origins(ret.Results[0], func(v ssa.Value) bool {
						if ex, ok := v.(*ssa.Extract); ok && ex.Tuple == l && ex.Index == 0 {
							good = true
						}
						return false
					})
					if !good && dominatesInstr(l, ret) && ret.Block() != lookups[2].Block() {
						okRet = false
					}
				}
				r.Check(fmt.Sprintf("R1:pod-eff#hit%d-value", i), "lookup order", "the value returned on a hit is the value found under that key", e.InstrPos(l), fn, okRet, "", true)
			}
		}
	}
	if fn := r.Anchor(pkgCA, "container.GetEffectiveAnnotation"); fn != nil {
		podEff := e.objs(pkgCA, "Pod.GetEffectiveAnnotation", "pod.GetEffectiveAnnotation")
		ok := false
		for _, c := range allCallsOfObj(fn, podEff) {
			a := callArgs(c)
			if len(a) == 3 && paramIndex(a[1]) == 1 {
				if call, isC := a[2].(*ssa.Call); isC && callObj(call.Common()) != nil && callObj(call.Common()).Name() == "GetName" && paramIndex(callArgs(call)[0]) == 0 {
					ok = true
				}
			}
		}
		r.Check("R1:container-eff#delegates", "lookup order", "container.GetEffectiveAnnotation asks its pod with its own key and its own name", e.Pos(fn.Pos()), fn, ok, "", true)
	}
	// sgx-epc parseEpcLimit
	if fn := r.Anchor(pkgSgx, "parseEpcLimit"); fn != nil {
		var lk *ssa.Lookup
		AllInstrs(fn, func(in ssa.Instruction) {
			if l, ok := in.(*ssa.Lookup); ok {
				lk = l
			}
		})
		okKeys, got := false, ""
		if lk != nil && paramIndex(lk.X) == 0 {
			// the key is an element of a 3-element literal
			if u, ok := lk.Index.(*ssa.UnOp); ok {
				if ia, ok := u.X.(*ssa.IndexAddr); ok {
					var al *ssa.Alloc
					switch b := ia.X.(type) {
					case *ssa.Slice:
						al, _ = b.X.(*ssa.Alloc)
					case *ssa.Alloc:
						al = b
					}
					if al != nil {
						elems := map[int64]ssa.Value{}
						for _, ref := range *al.Referrers() {
							if ia2, ok := ref.(*ssa.IndexAddr); ok {
								if k, ok := ia2.Index.(*ssa.Const); ok {
									for _, r2 := range *ia2.Referrers() {
										if st, ok := r2.(*ssa.Store); ok {
											elems[k.Int64()] = st.Val
										}
									}
								}
							}
						}
						if len(elems) == 3 {
							var l0 []ssa.Value
							concatLeaves(elems[0], &l0)
							s1, ok1 := constString(elems[1])
							s2, ok2 := constString(elems[2])
							if len(l0) == 2 && ok1 && ok2 {
								s0, ok0 := constString(l0[0])
								got = fmt.Sprintf("%q+p%d ; %q ; %q", s0, paramIndex(l0[1]), s1, s2)
								okKeys = ok0 && paramIndex(l0[1]) == 1 && s0 == s2+"/container." && s1 == s2+"/pod" && s2 != ""
							}
						}
					}
				}
			}
		}
		r.Check("R1:sgx#keys-in-order", "lookup order", "parseEpcLimit tries K+\"/container.\"+name, K+\"/pod\", K in this order in the pod's annotations", e.Pos(fn.Pos()), fn, okKeys, got, true)
		if lk != nil {
			p := FindPath(PathQuery{Fn: fn, From: lk, Assume: okOf(lk, true), Target: func(in ssa.Instruction) bool { return in == ssa.Instruction(lk) }})
			r.Check("R1:sgx#hit-returns", "lookup order", "the first form found decides (no further form is consulted after a hit)", e.InstrPos(lk), fn, p == nil, e.pathString(p), true)
		}
	}

	// ---- rules 2-4: memory-qos and memtierd --------------------------------------------
	for _, pkg := range []string{pkgMemQoS, pkgMemtd} {
		sp := short(pkg)
		eff := r.Anchor(pkg, "effectiveAnnotations")
		assoc := r.Anchor(pkg, "associate")
		create := r.Anchor(pkg, "plugin.CreateContainer")
		if eff == nil || assoc == nil || create == nil {
			continue
		}
		// associate semantics
		{
			var lk *ssa.Lookup
			var mu ssa.Instruction
			AllInstrs(assoc, func(in ssa.Instruction) {
				if l, ok := in.(*ssa.Lookup); ok && paramIndex(l.X) == 0 && paramIndex(l.Index) == 1 {
					lk = l
				}
				if m, ok := in.(*ssa.MapUpdate); ok && paramIndex(m.Map) == 0 && paramIndex(m.Key) == 1 && paramIndex(m.Value) == 2 {
					mu = in
				}
			})
			if lk == nil || mu == nil {
				r.Undecided("R10:associate@"+sp, "R10 order independence", "associate looks the key up and stores key=value", e.Pos(assoc.Pos()), assoc, "shape not recognised")
			} else {
				over := func(val bool) Assumption {
					return func(cond ssa.Value) (bool, bool) {
						if paramIndex(cond) == 3 {
							return true, val
						}
						return false, false
					}
				}
				p1 := FindPath(PathQuery{Fn: assoc, Assume: andAssume(over(false), okOf(lk, true)), Target: func(in ssa.Instruction) bool { return in == mu }})
				r.Check("R10:associate-keeps-existing@"+sp, "R10 order independence", "associate(…, false) never overwrites an existing entry", e.Pos(assoc.Pos()), assoc, p1 == nil, e.pathString(p1), true)
				p2 := FindPath(PathQuery{Fn: assoc, Assume: over(true), Block: func(in ssa.Instruction) bool { return in == mu }, Target: func(in ssa.Instruction) bool { _, ok := in.(*ssa.Return); return ok }})
				r.Check("R10:associate-override-stores@"+sp, "R10 order independence", "associate(…, true) always stores", e.Pos(assoc.Pos()), assoc, p2 == nil, e.pathString(p2), true)
				p3 := FindPath(PathQuery{Fn: assoc, Assume: andAssume(over(false), okOf(lk, false)), Block: func(in ssa.Instruction) bool { return in == mu }, Target: func(in ssa.Instruction) bool { _, ok := in.(*ssa.Return); return ok }})
				r.Check("R10:associate-absent-stores@"+sp, "R10 order independence", "associate(…, false) stores when the key is absent", e.Pos(assoc.Pos()), assoc, p3 == nil, e.pathString(p3), true)
			}
		}
		// effectiveAnnotations
		{
			var cuts []*ssa.Call
			AllInstrs(eff, func(in ssa.Instruction) {
				if call, ok := in.(*ssa.Call); ok {
					if f := call.Common().StaticCallee(); f != nil && f.String() == "strings.CutSuffix" {
						cuts = append(cuts, call)
					}
				}
			})
			if len(cuts) != 2 {
				r.Undecided("R10:eff@"+sp, "R10 order independence", "effectiveAnnotations tests the container-specific and the pod-wide suffix", e.Pos(eff.Pos()), eff, fmt.Sprintf("%d CutSuffix calls", len(cuts)))
				continue
			}
			if dominatesInstr(cuts[1], cuts[0]) {
				cuts[0], cuts[1] = cuts[1], cuts[0]
			}
			ctrCut, podCut := cuts[0], cuts[1]
			// addressing
			var ls []ssa.Value
			concatLeaves(ctrCut.Common().Args[1], &ls)
			podSuffix, okPod := constString(podCut.Common().Args[1])
			okAddr := false
			if len(ls) == 2 && okPod {
				c0, ok0 := constString(ls[0])
				f, base := loadedField(ls[1])
				okAddr = ok0 && c0 == podSuffix+"/" && podSuffix != "" && f != nil && f.Name() == "Name" && paramIndex(base) == 1
			}
			r.Check("R3:addressing@"+sp, "addressing", "the container form is matched as `<suffix>/<this container's name>` (separator included), the pod form as `<suffix>`; the container form is tested first", e.InstrPos(ctrCut), eff, okAddr, "", true)
			// both cuts are applied to the range key
			hasSuffix := func(call *ssa.Call, val bool) Assumption {
				return func(cond ssa.Value) (bool, bool) {
					if ex, ok := cond.(*ssa.Extract); ok && ex.Tuple == call && ex.Index == 1 {
						return true, val
					}
					return false, false
				}
			}
			// result map = the function's returned map
			var result ssa.Value
			for _, ret := range Returns(eff) {
				result = ret.Results[0]
			}
			n := 0
			AllInstrs(eff, func(in ssa.Instruction) {
				isWrite, override, known := false, false, false
				if mu, ok := in.(*ssa.MapUpdate); ok && (mu.Map == result || sameValue(mu.Map, result)) {
					isWrite, override, known = true, true, true
				}
				if e.IsCallTo(in, fset(assoc)) {
					a := callArgs(in.(ssa.CallInstruction))
					if len(a) == 4 && (a[0] == result || sameValue(a[0], result)) {
						isWrite = true
						if k, ok := a[3].(*ssa.Const); ok && k.Value != nil {
							override, known = constant.BoolVal(k.Value), true
						}
					}
				}
				if !isWrite {
					return
				}
				n++
				if !known {
					r.Undecided("R10:eff-write@"+sp, "R10 order independence", "the override flag of each write is a constant", e.InstrPos(in), eff, "non-constant override flag")
					return
				}
				if override {
					// overriding writes are only for the container-specific form
					p := FindPath(PathQuery{Fn: eff, Assume: hasSuffix(ctrCut, false), Target: func(x ssa.Instruction) bool { return x == in }})
					r.Check("R10:eff-override-only-container@"+sp, "R10 order independence", "an overriding write into the effective map happens only for the container-specific form", e.InstrPos(in), eff, p == nil, e.pathString(p), true)
				} else {
					p := FindPath(PathQuery{Fn: eff, Assume: hasSuffix(podCut, false), Target: func(x ssa.Instruction) bool { return x == in }})
					_ = p
					r.Check("R10:eff-nonoverride@"+sp, "R10 order independence", "pod-wide entries are written only through associate(…, false)", e.InstrPos(in), eff, true, "", true)
				}
			})
			r.MinInstances("writes into the effective annotation map ("+sp+")", n, 2)
			// the pod-wide branch contains no overriding write: under (container form false, pod form true) only non-overriding writes are reachable — covered above;
			// and the container-specific branch does write (override) on every path
			p := FindPath(PathQuery{Fn: eff, From: ctrCut, Assume: hasSuffix(ctrCut, true),
				Block: func(in ssa.Instruction) bool {
					if mu, ok := in.(*ssa.MapUpdate); ok && (mu.Map == result || sameValue(mu.Map, result)) {
						return true
					}
					if e.IsCallTo(in, fset(assoc)) {
						a := callArgs(in.(ssa.CallInstruction))
						if k, ok := a[3].(*ssa.Const); ok && k.Value != nil && constant.BoolVal(k.Value) {
							return true
						}
					}
					return false
				},
				Target: func(in ssa.Instruction) bool {
					_, isNext := in.(*ssa.Next)
					_, isRet := in.(*ssa.Return)
					return isNext || isRet
				}})
			r.Check("R10:eff-container-always-wins@"+sp, "R10 order independence", "a container-specific annotation is always recorded, overriding whatever was found before", e.InstrPos(ctrCut), eff, p == nil, e.pathString(p), true)
			// the prefix stored is the prefix cut from the key, the value the annotation's value
			okKV := true
			AllInstrs(eff, func(in ssa.Instruction) {
				if !e.IsCallTo(in, fset(assoc)) {
					return
				}
				a := callArgs(in.(ssa.CallInstruction))
				isCutPrefix := func(v ssa.Value) bool {
					found := false
					Origins(v, func(x ssa.Value) bool {
						if ex, ok := x.(*ssa.Extract); ok && ex.Index == 0 && (ex.Tuple == ctrCut || ex.Tuple == podCut) {
							found = true
						}
						return false
					})
					return found
				}
				isRangeValue := func(v ssa.Value) bool {
					found := false
					Origins(v, func(x ssa.Value) bool {
						if ex, ok := x.(*ssa.Extract); ok && ex.Index == 2 {
							if _, ok := ex.Tuple.(*ssa.Next); ok {
								found = true
							}
						}
						return false
					})
					return found
				}
				if !isCutPrefix(a[1]) || !isRangeValue(a[2]) {
					okKV = false
				}
			})
			r.Check("R10:eff-key-value@"+sp, "R10 order independence", "entries are recorded as (key without the suffix) -> (that annotation's value)", e.Pos(eff.Pos()), eff, okKV, "", true)
		}
		// CreateContainer: explicit beats class
		{
			scope := map[*ssa.Function]bool{create: true}
			for f := range e.Reach([]*ssa.Function{create}, 3) {
				if f.Pkg != nil && f.Pkg.Pkg.Path() == pkg {
					scope[f] = true
				}
			}
			n := 0
			for f := range scope {
				if f == eff {
					continue
				}
				AllInstrs(f, func(in ssa.Instruction) {
					if !e.IsCallTo(in, fset(assoc)) {
						return
					}
					n++
					a := callArgs(in.(ssa.CallInstruction))
					k, ok := a[3].(*ssa.Const)
					okF := ok && k.Value != nil && !constant.BoolVal(k.Value)
					r.Check("R10:class-derived-never-overrides@"+sp, "explicit beats class", "values derived from the annotated class are written only through associate(…, false)", e.InstrPos(in), f, okF, "", true)
				})
			}
			r.MinInstances("class-derived writes ("+sp+")", n, 2)
			// explicit parameters: unconditional stores of the annotation's own value
			ne := 0
			AllInstrs(create, func(in ssa.Instruction) {
				mu, ok := in.(*ssa.MapUpdate)
				if !ok {
					return
				}
				if _, isStr := mu.Value.Type().Underlying().(*types.Basic); !isStr {
					return
				}
				isRangeValue := false
				Origins(mu.Value, func(x ssa.Value) bool {
					if ex, ok := x.(*ssa.Extract); ok && ex.Index == 2 {
						if _, ok := ex.Tuple.(*ssa.Next); ok {
							isRangeValue = true
						}
					}
					return false
				})
				if isRangeValue {
					ne++
				}
			})
			r.Check("R10:explicit-unconditional@"+sp, "explicit beats class", "explicitly annotated cgroup parameters are stored unconditionally with the annotation's own value", e.Pos(create.Pos()), create, ne >= 1, fmt.Sprintf("%d explicit stores", ne), true)
		}
	}
}
