package main

import (
	"fmt"
	"go/constant"
	"go/token"
	"go/types"
	"strings"

	"golang.org/x/tools/go/ssa"
)

// C18 — effective annotations: container-specific beats pod-wide beats bare key.
func init() { register("C18", "effective annotations", checkC18) }

// concatLeaves flattens a string concatenation into its leaves.
func concatLeaves(v ssa.Value, out *[]ssa.Value) {
	if b, ok := v.(*ssa.BinOp); ok && b.Op == token.ADD {
		concatLeaves(b.X, out)
		concatLeaves(b.Y, out)
		return
	}
	*out = append(*out, v)
}

func constString(v ssa.Value) (string, bool) {
	k, ok := v.(*ssa.Const)
	if !ok || k.Value == nil || k.Value.Kind() != constant.String {
		return "", false
	}
	return constant.StringVal(k.Value), true
}

func checkC18(e *Engine, r *Report) {
	r.Rules = []string{
		"lookup order (resource-policy cache, sgx-epc): the annotation map is consulted by single-key lookups only (never ranged over), the keys tried are, in execution order, K+\"/container.\"+name, K+\"/pod\", K (written as consecutive lookups or as a loop over a literal list of the forms), and a hit returns at once with the value found",
		"R10 order independence (memory-qos, memtierd effectiveAnnotations): inside the range over the annotation map, container-specific entries are written unconditionally (override) and pod-wide entries only through associate(…, false); associate stores iff override or absent",
		"explicit beats class (memory-qos, memtierd CreateContainer): explicitly annotated cgroup parameters are stored unconditionally, class-derived ones only through associate(…, false)",
		"addressing: the container-specific form is matched as a whole suffix `<suffix>/<container name>` including the separator, the pod-wide form as `<suffix>`",
	}
	r.NotDecided = []string{"string-library semantics (strings.CutSuffix, map lookup)"}
	r.Assumptions = []string{}

	// ---- rule 1: pod.GetEffectiveAnnotation ------------------------------------------
	if fn := r.Anchor(pkgCA, "pod.GetEffectiveAnnotation"); fn != nil {
		checkLookupPrecedence(e, r, fn, "pod-eff", true)
	}
	if fn := r.Anchor(pkgCA, "container.GetEffectiveAnnotation"); fn != nil {
		podEff := e.objs(pkgCA, "Pod.GetEffectiveAnnotation", "pod.GetEffectiveAnnotation")
		ok := false
		for _, c := range allCallsOfObj(fn, podEff) {
			a := callArgs(c)
			if len(a) == 3 && paramIndex(a[1]) == 1 {
				if call, isC := a[2].(*ssa.Call); isC && callObj(call.Common()) != nil && callObj(call.Common()).Name() == "GetName" && paramIndex(callArgs(call)[0]) == 0 {
					ok = true
				}
			}
		}
		r.Check("R1:container-eff#delegates", "lookup order", "container.GetEffectiveAnnotation asks its pod with its own key and its own name", e.Pos(fn.Pos()), fn, ok, "", true)
	}
	// sgx-epc parseEpcLimit
	if fn := r.Anchor(pkgSgx, "parseEpcLimit"); fn != nil {
		checkLookupPrecedence(e, r, fn, "sgx", false)
	}

	// ---- rules 2-4: memory-qos and memtierd --------------------------------------------
	for _, pkg := range []string{pkgMemQoS, pkgMemtd} {
		sp := short(pkg)
		eff := r.Anchor(pkg, "effectiveAnnotations")
		assoc := r.Anchor(pkg, "associate")
		create := r.Anchor(pkg, "plugin.CreateContainer")
		if eff == nil || assoc == nil || create == nil {
			continue
		}
		// associate semantics
		{
			var lk *ssa.Lookup
			var mu ssa.Instruction
			AllInstrs(assoc, func(in ssa.Instruction) {
				if l, ok := in.(*ssa.Lookup); ok && paramIndex(l.X) == 0 && paramIndex(l.Index) == 1 {
					lk = l
				}
				if m, ok := in.(*ssa.MapUpdate); ok && paramIndex(m.Map) == 0 && paramIndex(m.Key) == 1 && paramIndex(m.Value) == 2 {
					mu = in
				}
			})
			if lk == nil || mu == nil {
				r.Undecided("R10:associate@"+sp, "R10 order independence", "associate looks the key up and stores key=value", e.Pos(assoc.Pos()), assoc, "shape not recognised")
			} else {
				over := func(val bool) Assumption {
					return func(cond ssa.Value) (bool, bool) {
						if paramIndex(cond) == 3 {
							return true, val
						}
						return false, false
					}
				}
				p1 := FindPath(PathQuery{Fn: assoc, Assume: andAssume(over(false), okOf(lk, true)), Target: func(in ssa.Instruction) bool { return in == mu }})
				r.Check("R10:associate-keeps-existing@"+sp, "R10 order independence", "associate(…, false) never overwrites an existing entry", e.Pos(assoc.Pos()), assoc, p1 == nil, e.pathString(p1), true)
				p2 := FindPath(PathQuery{Fn: assoc, Assume: over(true), Block: func(in ssa.Instruction) bool { return in == mu }, Target: func(in ssa.Instruction) bool { _, ok := in.(*ssa.Return); return ok }})
				r.Check("R10:associate-override-stores@"+sp, "R10 order independence", "associate(…, true) always stores", e.Pos(assoc.Pos()), assoc, p2 == nil, e.pathString(p2), true)
				p3 := FindPath(PathQuery{Fn: assoc, Assume: andAssume(over(false), okOf(lk, false)), Block: func(in ssa.Instruction) bool { return in == mu }, Target: func(in ssa.Instruction) bool { _, ok := in.(*ssa.Return); return ok }})
				r.Check("R10:associate-absent-stores@"+sp, "R10 order independence", "associate(…, false) stores when the key is absent", e.Pos(assoc.Pos()), assoc, p3 == nil, e.pathString(p3), true)
			}
		}
		// effectiveAnnotations
		{
			var cuts []*ssa.Call
			AllInstrs(eff, func(in ssa.Instruction) {
				if call, ok := in.(*ssa.Call); ok {
					if f := call.Common().StaticCallee(); f != nil && f.String() == "strings.CutSuffix" {
						cuts = append(cuts, call)
					}
				}
			})
			if len(cuts) != 2 {
				r.Undecided("R10:eff@"+sp, "R10 order independence", "effectiveAnnotations tests the container-specific and the pod-wide suffix", e.Pos(eff.Pos()), eff, fmt.Sprintf("%d CutSuffix calls", len(cuts)))
				continue
			}
			if dominatesInstr(cuts[1], cuts[0]) {
				cuts[0], cuts[1] = cuts[1], cuts[0]
			}
			ctrCut, podCut := cuts[0], cuts[1]
			// addressing
			var ls []ssa.Value
			concatLeaves(ctrCut.Common().Args[1], &ls)
			podSuffix, okPod := constString(podCut.Common().Args[1])
			okAddr := false
			if len(ls) == 2 && okPod {
				c0, ok0 := constString(ls[0])
				f, base := loadedField(ls[1])
				okAddr = ok0 && c0 == podSuffix+"/" && podSuffix != "" && f != nil && f.Name() == "Name" && paramIndex(base) == 1
			}
			r.Check("R3:addressing@"+sp, "addressing", "the container form is matched as `<suffix>/<this container's name>` (separator included), the pod form as `<suffix>`; the container form is tested first", e.InstrPos(ctrCut), eff, okAddr, "", true)
			// both cuts are applied to the range key
			hasSuffix := func(call *ssa.Call, val bool) Assumption {
				return func(cond ssa.Value) (bool, bool) {
					if ex, ok := cond.(*ssa.Extract); ok && ex.Tuple == call && ex.Index == 1 {
						return true, val
					}
					return false, false
				}
			}
			// result map = the function's returned map
			var result ssa.Value
			for _, ret := range Returns(eff) {
				result = ret.Results[0]
			}
			n := 0
			AllInstrs(eff, func(in ssa.Instruction) {
				isWrite, override, known := false, false, false
				if mu, ok := in.(*ssa.MapUpdate); ok && (mu.Map == result || sameValue(mu.Map, result)) {
					isWrite, override, known = true, true, true
				}
				if e.IsCallTo(in, fset(assoc)) {
					a := callArgs(in.(ssa.CallInstruction))
					if len(a) == 4 && (a[0] == result || sameValue(a[0], result)) {
						isWrite = true
						if k, ok := a[3].(*ssa.Const); ok && k.Value != nil {
							override, known = constant.BoolVal(k.Value), true
						}
					}
				}
				if !isWrite {
					return
				}
				n++
				if !known {
					r.Undecided("R10:eff-write@"+sp, "R10 order independence", "the override flag of each write is a constant", e.InstrPos(in), eff, "non-constant override flag")
					return
				}
				if override {
					// overriding writes are only for the container-specific form
					p := FindPath(PathQuery{Fn: eff, Assume: hasSuffix(ctrCut, false), Target: func(x ssa.Instruction) bool { return x == in }})
					r.Check("R10:eff-override-only-container@"+sp, "R10 order independence", "an overriding write into the effective map happens only for the container-specific form", e.InstrPos(in), eff, p == nil, e.pathString(p), true)
				} else {
					// … and only for an annotation in one of the two addressed forms: with neither suffix matching nothing is written
					neither := func(cond ssa.Value) (bool, bool) {
						if k, v := hasSuffix(podCut, false)(cond); k {
							return k, v
						}
						return hasSuffix(ctrCut, false)(cond)
					}
					p := FindPath(PathQuery{Fn: eff, Assume: neither, Target: func(x ssa.Instruction) bool { return x == in }})
					r.Check("R10:eff-nonoverride@"+sp, "R10 order independence", "pod-wide entries are written only through associate(…, false), and only for an annotation that carries the plugin's suffix (annotations addressed to other containers or plugins have no effect)", e.InstrPos(in), eff, p == nil, e.pathString(p), true)
				}
			})
			r.MinInstances("writes into the effective annotation map ("+sp+")", n, 2)
			// the pod-wide branch contains no overriding write: under (container form false, pod form true) only non-overriding writes are reachable — covered above;
			// and the container-specific branch does write (override) on every path
			p := FindPath(PathQuery{Fn: eff, From: ctrCut, Assume: hasSuffix(ctrCut, true),
				Block: func(in ssa.Instruction) bool {
					if mu, ok := in.(*ssa.MapUpdate); ok && (mu.Map == result || sameValue(mu.Map, result)) {
						return true
					}
					if e.IsCallTo(in, fset(assoc)) {
						a := callArgs(in.(ssa.CallInstruction))
						if k, ok := a[3].(*ssa.Const); ok && k.Value != nil && constant.BoolVal(k.Value) {
							return true
						}
					}
					return false
				},
				Target: func(in ssa.Instruction) bool {
					_, isNext := in.(*ssa.Next)
					_, isRet := in.(*ssa.Return)
					return isNext || isRet
				}})
			r.Check("R10:eff-container-always-wins@"+sp, "R10 order independence", "a container-specific annotation is always recorded, overriding whatever was found before", e.InstrPos(ctrCut), eff, p == nil, e.pathString(p), true)
			// the prefix stored is the prefix cut from the key, the value the annotation's value
			okKV := true
			AllInstrs(eff, func(in ssa.Instruction) {
				if !e.IsCallTo(in, fset(assoc)) {
					return
				}
				a := callArgs(in.(ssa.CallInstruction))
				isCutPrefix := func(v ssa.Value) bool {
					found := false
					Origins(v, func(x ssa.Value) bool {
						if ex, ok := x.(*ssa.Extract); ok && ex.Index == 0 && (ex.Tuple == ctrCut || ex.Tuple == podCut) {
							found = true
						}
						return false
					})
					return found
				}
				isRangeValue := func(v ssa.Value) bool {
					found := false
					Origins(v, func(x ssa.Value) bool {
						if ex, ok := x.(*ssa.Extract); ok && ex.Index == 2 {
							if _, ok := ex.Tuple.(*ssa.Next); ok {
								found = true
							}
						}
						return false
					})
					return found
				}
				if !isCutPrefix(a[1]) || !isRangeValue(a[2]) {
					okKV = false
				}
			})
			r.Check("R10:eff-key-value@"+sp, "R10 order independence", "entries are recorded as (key without the suffix) -> (that annotation's value)", e.Pos(eff.Pos()), eff, okKV, "", true)
		}
		// CreateContainer: explicit beats class
		{
			scope := map[*ssa.Function]bool{create: true}
			for f := range e.Reach([]*ssa.Function{create}, 3) {
				if f.Pkg != nil && f.Pkg.Pkg.Path() == pkg {
					scope[f] = true
				}
			}
			n := 0
			for f := range scope {
				if f == eff {
					continue
				}
				AllInstrs(f, func(in ssa.Instruction) {
					if !e.IsCallTo(in, fset(assoc)) {
						return
					}
					n++
					a := callArgs(in.(ssa.CallInstruction))
					k, ok := a[3].(*ssa.Const)
					okF := ok && k.Value != nil && !constant.BoolVal(k.Value)
					r.Check("R10:class-derived-never-overrides@"+sp, "explicit beats class", "values derived from the annotated class are written only through associate(…, false)", e.InstrPos(in), f, okF, "", true)
				})
			}
			r.MinInstances("class-derived writes ("+sp+")", n, 2)
			// the class whose values are derived is the one the annotation names: inside the search over the configured
			// classes, nothing is derived from (or returned as) a class unless its Name equals the requested name
			nCls := 0
			for f := range scope {
				for _, lp := range sliceLoops(f) {
					lp := lp
					if fl, _ := loadedField(rangedSlice(lp)); fl == nil || fl.Name() != "Classes" {
						continue
					}
					nCls++
					isNameTest := func(cf condFact) bool {
						b, ok := cf.Cond.(*ssa.BinOp)
						if !ok || (b.Op != token.EQL && b.Op != token.NEQ) {
							return false
						}
						for _, pr := range [][2]ssa.Value{{b.X, b.Y}, {b.Y, b.X}} {
							fl, _ := loadedField(pr[0])
							if fl != nil && fl.Name() == "Name" && paramIndex(pr[1]) >= 0 {
								return (b.Op == token.EQL) == cf.Val
							}
						}
						return false
					}
					okCls := true
					AllInstrs(f, func(in ssa.Instruction) {
						if in.Block() == nil || !lp.start.Block().Dominates(in.Block()) {
							return
						}
						uses := e.IsCallTo(in, fset(assoc))
						if ret, ok := in.(*ssa.Return); ok && len(ret.Results) > 0 {
							if k, isK := ret.Results[0].(*ssa.Const); !(isK && k.IsNil()) {
								if _, isPtr := ret.Results[0].Type().Underlying().(*types.Pointer); isPtr {
									uses = true
								}
							}
						}
						if !uses {
							return
						}
						dom := false
						for _, cf := range dominatingConds(in.Block()) {
							if isNameTest(cf) {
								dom = true
							}
						}
						if !dom {
							okCls = false
						}
					})
					r.Check("R3:class-by-own-name@"+sp, "explicit beats class", "values are derived from (or a class is returned for) a configured class only where that class's Name equals the annotated name", e.InstrPos(lp.start), f, okCls, "", true)
				}
			}
			r.MinInstances("searches over the configured classes ("+sp+")", nCls, 1)
			// explicit parameters: unconditional stores of the annotation's own value
			ne := 0
			AllInstrs(create, func(in ssa.Instruction) {
				mu, ok := in.(*ssa.MapUpdate)
				if !ok {
					return
				}
				if _, isStr := mu.Value.Type().Underlying().(*types.Basic); !isStr {
					return
				}
				isRangeValue := false
				Origins(mu.Value, func(x ssa.Value) bool {
					if ex, ok := x.(*ssa.Extract); ok && ex.Index == 2 {
						if _, ok := ex.Tuple.(*ssa.Next); ok {
							isRangeValue = true
						}
					}
					return false
				})
				if isRangeValue {
					ne++
				}
			})
			r.Check("R10:explicit-unconditional@"+sp, "explicit beats class", "explicitly annotated cgroup parameters are stored unconditionally with the annotation's own value", e.Pos(create.Pos()), create, ne >= 1, fmt.Sprintf("%d explicit stores", ne), true)
		}
	}
}

// ---- lookup precedence (shared by the cache and sgx-epc) --------------------------------------

type keyLeaf struct {
	konst string
	param int // -1 for a constant
}

// keyShape flattens a string concatenation into constants and parameters (adjacent constants merged).
func keyShape(v ssa.Value) ([]keyLeaf, bool) {
	var ls []ssa.Value
	concatLeaves(v, &ls)
	var out []keyLeaf
	for _, x := range ls {
		if s, ok := constString(x); ok {
			if n := len(out); n > 0 && out[n-1].param < 0 {
				out[n-1].konst += s
			} else {
				out = append(out, keyLeaf{konst: s, param: -1})
			}
			continue
		}
		if pi := paramIndex(x); pi >= 0 {
			out = append(out, keyLeaf{param: pi})
			continue
		}
		return nil, false
	}
	return out, true
}

func shapeString(k []keyLeaf) string {
	var parts []string
	for _, l := range k {
		if l.param >= 0 {
			parts = append(parts, fmt.Sprintf("p%d", l.param))
		} else {
			parts = append(parts, fmt.Sprintf("%q", l.konst))
		}
	}
	return strings.Join(parts, "+")
}

// literalElems: the elements of the array/slice literal that v (an element load) indexes.
func literalElems(idx ssa.Value) []ssa.Value {
	u, ok := idx.(*ssa.UnOp)
	if !ok {
		return nil
	}
	ia, ok := u.X.(*ssa.IndexAddr)
	if !ok {
		return nil
	}
	var al *ssa.Alloc
	switch b := ia.X.(type) {
	case *ssa.Slice:
		al, _ = b.X.(*ssa.Alloc)
	case *ssa.Alloc:
		al = b
	}
	if al == nil {
		return nil
	}
	byIdx := map[int64]ssa.Value{}
	for _, ref := range *al.Referrers() {
		if ia2, ok := ref.(*ssa.IndexAddr); ok {
			if k, ok := constIntVal(ia2.Index); ok {
				for _, r2 := range *ia2.Referrers() {
					if st, ok := r2.(*ssa.Store); ok && st.Addr == ia2 {
						byIdx[k] = st.Val
					}
				}
			}
		}
	}
	var out []ssa.Value
	for i := int64(0); i < int64(len(byIdx)); i++ {
		out = append(out, byIdx[i])
	}
	return out
}

func checkLookupPrecedence(e *Engine, r *Report, fn *ssa.Function, tag string, checkValue bool) {
	var lookups []*ssa.Lookup
	mapRange := false
	AllInstrs(fn, func(in ssa.Instruction) {
		if l, ok := in.(*ssa.Lookup); ok && l.CommaOk {
			if _, isMap := l.X.Type().Underlying().(*types.Map); isMap {
				lookups = append(lookups, l)
			}
		}
		if rg, ok := in.(*ssa.Range); ok {
			if _, isMap := rg.X.Type().Underlying().(*types.Map); isMap {
				mapRange = true
			}
		}
	})
	r.Check("R1:"+tag+"#no-iteration", "lookup order", fn.Name()+" never iterates over the annotation map", e.Pos(fn.Pos()), fn, !mapRange, "", false)
	// execution order of the lookups: A before B iff B is reachable from A and not vice versa
	before := func(a, b *ssa.Lookup) bool {
		ab := FindPath(PathQuery{Fn: fn, From: a, Target: func(in ssa.Instruction) bool { return in == ssa.Instruction(b) }}) != nil
		ba := FindPath(PathQuery{Fn: fn, From: b, Target: func(in ssa.Instruction) bool { return in == ssa.Instruction(a) }}) != nil
		return ab && !ba
	}
	ordered := true
	for i := 0; i < len(lookups); i++ {
		for j := i + 1; j < len(lookups); j++ {
			switch {
			case before(lookups[i], lookups[j]):
			case before(lookups[j], lookups[i]):
				lookups[i], lookups[j] = lookups[j], lookups[i]
			default:
				ordered = false
			}
		}
	}
	var seq [][]keyLeaf
	okShape := ordered && len(lookups) > 0
	sameMap := true
	for _, l := range lookups {
		if l.X != lookups[0].X && !sameValue(l.X, lookups[0].X) {
			sameMap = false
		}
		keys := []ssa.Value{l.Index}
		if el := literalElems(l.Index); el != nil {
			keys = el
		}
		for _, k := range keys {
			sh, ok := keyShape(k)
			if !ok {
				okShape = false
			}
			seq = append(seq, sh)
		}
	}
	var got []string
	for _, sh := range seq {
		got = append(got, shapeString(sh))
	}
	// expected: [base+"/container."+name, base+"/pod", base]
	if okShape && len(seq) == 3 && len(seq[2]) == 1 {
		base := seq[2][0]
		var wantPod, wantCtr []keyLeaf
		if base.param >= 0 {
			wantPod = []keyLeaf{base, {konst: "/pod", param: -1}}
			wantCtr = []keyLeaf{base, {konst: "/container.", param: -1}}
		} else {
			wantPod = []keyLeaf{{konst: base.konst + "/pod", param: -1}}
			wantCtr = []keyLeaf{{konst: base.konst + "/container.", param: -1}}
		}
		eq := func(a, b []keyLeaf) bool {
			if len(a) != len(b) {
				return false
			}
			for i := range a {
				if a[i] != b[i] {
					return false
				}
			}
			return true
		}
		okShape = eq(seq[1], wantPod) && len(seq[0]) == len(wantCtr)+1 && eq(seq[0][:len(wantCtr)], wantCtr) &&
			seq[0][len(wantCtr)].param >= 0 && seq[0][len(wantCtr)].param != base.param && (base.param >= 0 || base.konst != "")
	} else {
		okShape = false
	}
	r.Check("R1:"+tag+"#keys-in-order", "lookup order", "the keys tried are K+\"/container.\"+name, then K+\"/pod\", then K, in the same map", e.Pos(fn.Pos()), fn, okShape && sameMap, strings.Join(got, " ; "), true)
	// a hit decides: no lookup is consulted after a hit
	for i, l := range lookups {
		l := l
		last := i == len(lookups)-1 && literalElems(l.Index) == nil
		if last {
			continue
		}
		p := FindPath(PathQuery{Fn: fn, From: l, Assume: okOf(l, true), Target: func(in ssa.Instruction) bool { lk, ok := in.(*ssa.Lookup); return ok && lk.CommaOk }})
		r.Check(fmt.Sprintf("R1:%s#hit%d-returns", tag, i), "lookup order", "a hit on a more specific form decides: no less specific form is consulted afterwards", e.InstrPos(l), fn, p == nil, e.pathString(p), true)
		if !checkValue {
			continue
		}
		okRet := true
		for _, ret := range Returns(fn) {
			if FindPath(PathQuery{Fn: fn, From: l, Assume: okOf(l, true), Target: func(in ssa.Instruction) bool { return in == ssa.Instruction(ret) }}) == nil {
				continue
			}
			good := false
			Origins(ret.Results[0], func(v ssa.Value) bool {
				if ex, ok := v.(*ssa.Extract); ok && ex.Tuple == l && ex.Index == 0 {
					good = true
				}
				return false
			})
			if !good {
				okRet = false
			}
		}
		r.Check(fmt.Sprintf("R1:%s#hit%d-value", tag, i), "lookup order", "the value returned on a hit is the value found under that key", e.InstrPos(l), fn, okRet, "", true)
	}
	r.MinKeys("R1:"+tag+"#hit", 1)
}
