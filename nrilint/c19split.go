package main

import (
	"fmt"
	"go/constant"
	"go/token"
	"go/types"
	"sort"
	"strings"

	"golang.org/x/tools/go/ssa"
)

// Joint-key format of splitKeys, decided path by path over the (acyclic) body
// in a small abstract domain of sub-strings of the parameter.
//
//	non-joint (len(keys) < K with K <= 4, or keys[0] != ':')  ->  [keys], ""
//	joint, keys[1] and keys[2] both valid separators          ->  Split(keys[3:], keys[1:2]), keys[2:3]
//	joint otherwise                                           ->  Split(keys[1:],  ":"),      ":"
//
// Every path to a return is enumerated; a branch on a condition outside the
// domain is explored both ways (both outcomes must satisfy the table).

type skKind int

const (
	skUnknown skKind = iota
	skSub            // keys[lo:hi], hi < 0 = open
	skByte           // keys[lo]
	skLen            // len(keys)
	skStr            // constant string
	skInt            // constant int
	skAtom           // boolean atom (name, negated)
	skList           // []string{elems...}
	skSplit          // strings.Split(a, b)
)

type skVal struct {
	k      skKind
	lo, hi int64
	s      string
	neg    bool
	elems  []skVal
}

func (v skVal) String() string {
	switch v.k {
	case skSub:
		if v.hi < 0 {
			return fmt.Sprintf("keys[%d:]", v.lo)
		}
		return fmt.Sprintf("keys[%d:%d]", v.lo, v.hi)
	case skByte:
		return fmt.Sprintf("keys[%d]", v.lo)
	case skLen:
		return "len(keys)"
	case skStr:
		return fmt.Sprintf("%q", v.s)
	case skInt:
		return fmt.Sprint(v.lo)
	case skAtom:
		if v.neg {
			return "!" + v.s
		}
		return v.s
	case skList:
		var p []string
		for _, e := range v.elems {
			p = append(p, e.String())
		}
		return "[" + strings.Join(p, ", ") + "]"
	case skSplit:
		return "Split(" + v.elems[0].String() + ", " + v.elems[1].String() + ")"
	}
	return "?"
}

type skPath struct {
	atoms   map[string]bool
	results []skVal
	ret     *ssa.Return
}

func (p skPath) describe() string {
	var a []string
	for k, v := range p.atoms {
		a = append(a, fmt.Sprintf("%s=%v", k, v))
	}
	sort.Strings(a)
	var r []string
	for _, v := range p.results {
		r = append(r, v.String())
	}
	return "{" + strings.Join(a, ",") + "} -> " + strings.Join(r, ", ")
}

// skEnumerate enumerates the paths of fn; ok=false when the body is outside
// the fragment (a loop, too many paths).
func skEnumerate(fn *ssa.Function, sepPred string) (paths []skPath, ok bool, why string) {
	if len(fn.Params) != 1 {
		return nil, false, "unexpected signature"
	}
	param := fn.Params[0]
	type state struct {
		env   map[ssa.Value]skVal
		cells map[ssa.Value]skVal // by address value (Alloc or IndexAddr key string)
		arr   map[*ssa.Alloc]map[int64]skVal
		atoms map[string]bool
		on    map[*ssa.BasicBlock]bool
	}
	clone := func(s *state) *state {
		n := &state{env: map[ssa.Value]skVal{}, cells: map[ssa.Value]skVal{}, arr: map[*ssa.Alloc]map[int64]skVal{}, atoms: map[string]bool{}, on: map[*ssa.BasicBlock]bool{}}
		for k, v := range s.env {
			n.env[k] = v
		}
		for k, v := range s.cells {
			n.cells[k] = v
		}
		for k, v := range s.arr {
			m := map[int64]skVal{}
			for i, x := range v {
				m[i] = x
			}
			n.arr[k] = m
		}
		for k, v := range s.atoms {
			n.atoms[k] = v
		}
		for k, v := range s.on {
			n.on[k] = v
		}
		return n
	}
	ok = true
	var eval func(s *state, v ssa.Value) skVal
	eval = func(s *state, v ssa.Value) skVal {
		if v == ssa.Value(param) {
			return skVal{k: skSub, lo: 0, hi: -1}
		}
		if c, isC := v.(*ssa.Const); isC {
			if c.Value != nil && c.Value.Kind() == constant.String {
				return skVal{k: skStr, s: constant.StringVal(c.Value)}
			}
			if n, isInt := constIntVal(c); isInt {
				return skVal{k: skInt, lo: n}
			}
			return skVal{}
		}
		if x, has := s.env[v]; has {
			return x
		}
		return skVal{}
	}
	var run func(s *state, b *ssa.BasicBlock, pred *ssa.BasicBlock)
	run = func(s *state, b *ssa.BasicBlock, pred *ssa.BasicBlock) {
		if !ok {
			return
		}
		if s.on[b] {
			ok, why = false, "loop in the body"
			return
		}
		if len(paths) > 256 {
			ok, why = false, "too many paths"
			return
		}
		s.on[b] = true
		for _, in := range b.Instrs {
			switch x := in.(type) {
			case *ssa.Phi:
				for i, p := range b.Preds {
					if p == pred {
						s.env[x] = eval(s, x.Edges[i])
					}
				}
			case *ssa.Alloc:
				if _, isArr := x.Type().(*types.Pointer).Elem().Underlying().(*types.Array); isArr {
					s.arr[x] = map[int64]skVal{}
				}
			case *ssa.IndexAddr:
				// handled at the Store
			case *ssa.Store:
				if ia, isIA := x.Addr.(*ssa.IndexAddr); isIA {
					if al, isAl := ia.X.(*ssa.Alloc); isAl && s.arr[al] != nil {
						if i, isK := constIntVal(ia.Index); isK {
							s.arr[al][i] = eval(s, x.Val)
						}
					}
					continue
				}
				s.cells[x.Addr] = eval(s, x.Val)
			case *ssa.UnOp:
				switch x.Op {
				case token.MUL:
					if cv, has := s.cells[x.X]; has {
						s.env[x] = cv
					}
				case token.NOT:
					a := eval(s, x.X)
					if a.k == skAtom {
						a.neg = !a.neg
						s.env[x] = a
					}
				}
			case *ssa.Slice:
				if al, isAl := x.X.(*ssa.Alloc); isAl && s.arr[al] != nil && x.Low == nil && x.High == nil {
					m := s.arr[al]
					lst := skVal{k: skList}
					for i := int64(0); i < int64(len(m)); i++ {
						lst.elems = append(lst.elems, m[i])
					}
					s.env[x] = lst
					continue
				}
				base := eval(s, x.X)
				if base.k != skSub {
					continue
				}
				lo, hi := int64(0), int64(-1)
				if x.Low != nil {
					l := eval(s, x.Low)
					if l.k != skInt {
						continue
					}
					lo = l.lo
				}
				if x.High != nil {
					h := eval(s, x.High)
					if h.k != skInt {
						continue
					}
					hi = h.lo
				}
				nv := skVal{k: skSub, lo: base.lo + lo, hi: -1}
				if hi >= 0 {
					nv.hi = base.lo + hi
				} else if base.hi >= 0 {
					nv.hi = base.hi
				}
				s.env[x] = nv
			case *ssa.Lookup:
				base, idx := eval(s, x.X), eval(s, x.Index)
				if base.k == skSub && idx.k == skInt {
					s.env[x] = skVal{k: skByte, lo: base.lo + idx.lo}
				}
			case *ssa.Index:
				base, idx := eval(s, x.X), eval(s, x.Index)
				if base.k == skSub && idx.k == skInt {
					s.env[x] = skVal{k: skByte, lo: base.lo + idx.lo}
				}
			case *ssa.Convert:
				s.env[x] = eval(s, x.X)
			case *ssa.ChangeType:
				s.env[x] = eval(s, x.X)
			case *ssa.Call:
				if bi, isB := x.Common().Value.(*ssa.Builtin); isB && bi.Name() == "len" {
					if a := eval(s, x.Common().Args[0]); a.k == skSub && a.hi < 0 {
						s.env[x] = skVal{k: skLen, lo: a.lo} // len(keys[lo:]) = len(keys) - lo
					}
					continue
				}
				if f := x.Common().StaticCallee(); f != nil {
					switch {
					case f.String() == "strings.Split":
						s.env[x] = skVal{k: skSplit, elems: []skVal{eval(s, x.Common().Args[0]), eval(s, x.Common().Args[1])}}
					case f.Name() == sepPred && len(x.Common().Args) == 1:
						if a := eval(s, x.Common().Args[0]); a.k == skByte {
							s.env[x] = skVal{k: skAtom, s: fmt.Sprintf("valid(%d)", a.lo)}
						}
					}
				}
			case *ssa.BinOp:
				a, bb := eval(s, x.X), eval(s, x.Y)
				op := x.Op
				if a.k == skInt && (bb.k == skLen || bb.k == skByte) {
					a, bb = bb, a
					op = flipCmp(op)
				}
				switch {
				case a.k == skLen && bb.k == skInt:
					// len(keys) - a.lo  op  K   <=>  len(keys) op K + a.lo ; canonical atom "len<N"
					k := bb.lo + a.lo
					switch op {
					case token.LSS:
						s.env[x] = skVal{k: skAtom, s: fmt.Sprintf("len<%d", k)}
					case token.GEQ:
						s.env[x] = skVal{k: skAtom, s: fmt.Sprintf("len<%d", k), neg: true}
					case token.LEQ:
						s.env[x] = skVal{k: skAtom, s: fmt.Sprintf("len<%d", k+1)}
					case token.GTR:
						s.env[x] = skVal{k: skAtom, s: fmt.Sprintf("len<%d", k+1), neg: true}
					}
				case a.k == skByte && bb.k == skInt && a.lo == 0 && bb.lo == ':':
					switch op {
					case token.NEQ:
						s.env[x] = skVal{k: skAtom, s: "colon0", neg: true}
					case token.EQL:
						s.env[x] = skVal{k: skAtom, s: "colon0"}
					}
				}
			case *ssa.If:
				c := eval(s, x.Cond)
				for i, succ := range b.Succs {
					taken := i == 0
					ns := clone(s)
					if c.k == skAtom {
						val := taken != c.neg
						if old, has := ns.atoms[c.s]; has && old != val {
							continue // contradicts an earlier decision on this path
						}
						ns.atoms[c.s] = val
					}
					run(ns, succ, b)
				}
				return
			case *ssa.Jump:
				run(s, b.Succs[0], b)
				return
			case *ssa.Return:
				p := skPath{atoms: s.atoms, ret: x}
				for _, rv := range x.Results {
					p.results = append(p.results, eval(s, rv))
				}
				paths = append(paths, p)
				return
			case *ssa.Panic:
				return
			}
		}
	}
	run(&state{env: map[ssa.Value]skVal{}, cells: map[ssa.Value]skVal{}, arr: map[*ssa.Alloc]map[int64]skVal{}, atoms: map[string]bool{}, on: map[*ssa.BasicBlock]bool{}}, fn.Blocks[0], nil)
	return paths, ok, why
}

func checkSplitKeysFormat(e *Engine, r *Report, pkg string) {
	sk := r.Anchor(pkg, "splitKeys")
	if sk == nil {
		return
	}
	const key = "R6:joint-key-format"
	const what = "splitKeys: a key of at least 4 characters is joint iff it starts with ':'; with valid separator characters at [1] and [2] the list keys[3:] is split by keys[1:2] and the values are joined by keys[2:3], otherwise keys[1:] is split by \":\" and joined by \":\"; any other key is returned whole"
	paths, ok, why := skEnumerate(sk, "validSeparator")
	if !ok {
		r.Undecided(key, "R6 operator tables", what, e.Pos(sk.Pos()), sk, why)
		return
	}
	good, witness := true, ""
	nJointCustom, nJointDefault, nPlain := 0, 0, 0
	for _, p := range paths {
		fail := func(msg string) {
			if good {
				good, witness = false, msg+": "+p.describe()+" at "+e.InstrPos(p.ret)
			}
		}
		if len(p.results) != 2 {
			fail("unexpected result count")
			continue
		}
		// joint-ness on this path: the smallest N with len<N false bounds the length from below
		short, long := false, int64(0) // short: some len<N (N<=4) is true; long: len >= N known
		for a, v := range p.atoms {
			var n int64
			if _, err := fmt.Sscanf(a, "len<%d", &n); err == nil {
				if v && n <= 4 {
					short = true
				}
				if !v && n > long {
					long = n
				}
			}
		}
		colon, colonKnown := p.atoms["colon0"]
		eq := func(v skVal, k skKind, lo, hi int64) bool { return v.k == k && v.lo == lo && v.hi == hi }
		switch {
		case short || (colonKnown && !colon):
			nPlain++
			if !(p.results[0].k == skList && len(p.results[0].elems) == 1 && eq(p.results[0].elems[0], skSub, 0, -1)) || !(p.results[1].k == skStr && p.results[1].s == "") {
				fail("a plain key is not returned whole with an empty separator")
			}
		case long >= 3 && colonKnown && colon: // shorter joint keys are a bounds question (C14), not a format question
			v1, k1 := p.atoms["valid(1)"]
			v2, k2 := p.atoms["valid(2)"]
			switch {
			case k1 && k2 && v1 && v2:
				nJointCustom++
				r0 := p.results[0]
				if !(r0.k == skSplit && eq(r0.elems[0], skSub, 3, -1) && eq(r0.elems[1], skSub, 1, 2)) || !eq(p.results[1], skSub, 2, 3) {
					fail("with valid separators the list is not keys[3:] split by keys[1:2] with values joined by keys[2:3]")
				}
			case (k1 && !v1) || (k2 && !v2):
				nJointDefault++
				r0 := p.results[0]
				if !(r0.k == skSplit && eq(r0.elems[0], skSub, 1, -1) && r0.elems[1].k == skStr && r0.elems[1].s == ":") || !(p.results[1].k == skStr && p.results[1].s == ":") {
					fail("without valid separators the list is not keys[1:] split and joined by \":\"")
				}
			default:
				fail("a joint key is decomposed without validating both separator characters")
			}
		default:
			fail("a path decides neither the length nor the leading ':'")
		}
	}
	if good && (nJointCustom == 0 || nJointDefault == 0 || nPlain == 0) {
		good, witness = false, fmt.Sprintf("paths: %d custom, %d default, %d plain", nJointCustom, nJointDefault, nPlain)
	}
	if good {
		witness = fmt.Sprintf("%d paths: %d custom-separator, %d default-separator, %d plain", len(paths), nJointCustom, nJointDefault, nPlain)
	}
	r.Check(key, "R6 operator tables", what, e.Pos(sk.Pos()), sk, good, witness, true)
}

// ---- ResolveRef: the walk over the key ---------------------------------------------------------------
// Decided as path rules over ResolveRef, anchored at three constructs found by type: the comma-ok lookup in a
// map[string]string, the comparison of the remaining key with "", and the final assertion of the object to string.

func boolConstOf(v ssa.Value) (val, ok bool) {
	c, isC := v.(*ssa.Const)
	if !isC || c.Value == nil || c.Value.Kind() != constant.Bool {
		return false, false
	}
	return constant.BoolVal(c.Value), true
}

func assumeBool(v ssa.Value, val bool) Assumption {
	return func(cond ssa.Value) (bool, bool) {
		if cond == v {
			return true, val
		}
		if u, ok := cond.(*ssa.UnOp); ok && u.Op == token.NOT && u.X == v {
			return true, !val
		}
		return false, false
	}
}

func extractOf(t ssa.Value, idx int) ssa.Value {
	if t.Referrers() == nil {
		return nil
	}
	for _, ref := range *t.Referrers() {
		if ex, ok := ref.(*ssa.Extract); ok && ex.Index == idx {
			return ex
		}
	}
	return nil
}

func checkResolveRef(e *Engine, r *Report, pkg string) {
	rr := r.Anchor(pkg, "ResolveRef")
	if rr == nil {
		return
	}
	const rule = "R6 operator tables"
	var lookup *ssa.Lookup
	var strAssert *ssa.TypeAssert
	var walkAsserts []ssa.Instruction
	var emptyCmp *ssa.BinOp
	AllInstrs(rr, func(in ssa.Instruction) {
		switch x := in.(type) {
		case *ssa.Lookup:
			if m, ok := x.X.Type().Underlying().(*types.Map); ok && x.CommaOk {
				if b, ok := m.Elem().Underlying().(*types.Basic); ok && b.Kind() == types.String {
					lookup = x
				}
			}
		case *ssa.TypeAssert:
			if b, ok := x.AssertedType.Underlying().(*types.Basic); ok && b.Kind() == types.String && x.CommaOk {
				strAssert = x
			} else {
				walkAsserts = append(walkAsserts, x)
			}
		case *ssa.BinOp:
			if x.Op == token.EQL || x.Op == token.NEQ {
				if c, ok := x.Y.(*ssa.Const); ok && c.Value != nil && c.Value.Kind() == constant.String && constant.StringVal(c.Value) == "" {
					if b, ok := x.X.Type().Underlying().(*types.Basic); ok && b.Kind() == types.String && emptyCmp == nil {
						emptyCmp = x
					}
				}
			}
		}
	})
	if lookup == nil || strAssert == nil || emptyCmp == nil || len(walkAsserts) == 0 {
		r.Undecided("R6:resolve-walk", rule, "ResolveRef walks the key through Evaluable objects and string maps and ends with a string", e.Pos(rr.Pos()), rr,
			fmt.Sprintf("anchors not found: lookup=%v final-assert=%v empty-key-test=%v walk-asserts=%d", lookup != nil, strAssert != nil, emptyCmp != nil, len(walkAsserts)))
		return
	}
	isWalk := func(in ssa.Instruction) bool {
		for _, w := range walkAsserts {
			if w == in {
				return true
			}
		}
		return false
	}
	foundIs := func(ret *ssa.Return, want bool) bool {
		if len(ret.Results) < 2 {
			return false
		}
		v, ok := boolConstOf(ret.Results[1])
		return ok && v == want
	}
	report := func(key, what string, p []ssa.Instruction, pos ssa.Instruction) {
		w := ""
		if p != nil {
			w = e.pathString(p)
		}
		r.Check(key, rule, what, e.InstrPos(pos), rr, p == nil, w, true)
	}
	okL := extractOf(lookup, 1)
	okS, valS := extractOf(strAssert, 1), extractOf(strAssert, 0)
	if okL == nil || okS == nil || valS == nil {
		r.Undecided("R6:resolve-walk", rule, "ResolveRef tests its lookups", e.Pos(rr.Pos()), rr, "a comma-ok result is not used")
		return
	}
	// A: a key missing from a label/annotation map is "not found"
	report("R6:resolve-miss-is-not-found", "ResolveRef: a key missing from a string map makes the reference not found (never a found empty value)",
		FindPath(PathQuery{Fn: rr, From: lookup, Assume: assumeBool(okL, false), Target: func(in ssa.Instruction) bool {
			ret, ok := in.(*ssa.Return)
			return ok && !foundIs(ret, false)
		}}), lookup)
	// B: a key present in the map is not reported missing at the lookup
	report("R6:resolve-hit-continues", "ResolveRef: a key present in a string map is not reported as not found at the lookup",
		FindPath(PathQuery{Fn: rr, From: lookup, Assume: assumeBool(okL, true), Block: func(in ssa.Instruction) bool { _, ok := in.(*ssa.TypeAssert); return ok },
			Target: func(in ssa.Instruction) bool {
				ret, ok := in.(*ssa.Return)
				return ok && !foundIs(ret, true)
			}}), lookup)
	// C: the walk ends exactly when no key remains
	emptyAssume := func(empty bool) Assumption {
		return func(cond ssa.Value) (bool, bool) {
			if cond == ssa.Value(emptyCmp) {
				return true, (emptyCmp.Op == token.EQL) == empty
			}
			if u, ok := cond.(*ssa.UnOp); ok && u.Op == token.NOT && u.X == ssa.Value(emptyCmp) {
				return true, (emptyCmp.Op == token.EQL) != empty
			}
			return false, false
		}
	}
	report("R6:resolve-continues-while-key-remains", "ResolveRef: while a part of the key remains the object is not taken as the final value (nested keys pod/labels/… are walked to the end)",
		FindPath(PathQuery{Fn: rr, From: emptyCmp, Assume: emptyAssume(false), Block: isWalk, Target: func(in ssa.Instruction) bool { return in == ssa.Instruction(strAssert) }}), emptyCmp)
	report("R6:resolve-stops-at-empty-key", "ResolveRef: once the key is used up the walk stops and the object is taken as the value",
		FindPath(PathQuery{Fn: rr, From: emptyCmp, Assume: emptyAssume(true), Block: func(in ssa.Instruction) bool { return in == ssa.Instruction(strAssert) }, Target: isWalk}), emptyCmp)
	// D: the result is the string the walk ended at
	report("R6:resolve-string-is-the-value", "ResolveRef: when the walk ends at a string, that string is returned as found",
		FindPath(PathQuery{Fn: rr, From: strAssert, Assume: assumeBool(okS, true), Target: func(in ssa.Instruction) bool {
			ret, ok := in.(*ssa.Return)
			return ok && !(foundIs(ret, true) && unspill(ret.Results[0]) == valS)
		}}), strAssert)
	report("R6:resolve-non-string-is-not-found", "ResolveRef: when the walk ends at something else than a string, nothing is found",
		FindPath(PathQuery{Fn: rr, From: strAssert, Assume: assumeBool(okS, false), Target: func(in ssa.Instruction) bool {
			ret, ok := in.(*ssa.Return)
			return ok && !foundIs(ret, false)
		}}), strAssert)
}

// ---- built-in balloon types: added exactly when missing ------------------------------------------------
// For each store `defs = append(..)` in fillBuiltinBalloonDefs that adds a freshly allocated BalloonDef R: let X be
// the looked-up definition R stands in for (the other input of the phi R flows into, or the other stores to the cell R
// is stored in). Then from every test of X against nil: with X nil every successful return has passed the store,
// and with X non-nil none has.
func checkBuiltinDefsAdded(e *Engine, r *Report, fb *ssa.Function, fDefs *types.Var) {
	const rule = "selection order"
	type site struct {
		store *ssa.Store
		fresh ssa.Value
		front bool
	}
	var sites []site
	AllInstrs(fb, func(in ssa.Instruction) {
		st, ok := in.(*ssa.Store)
		if !ok || fieldOfAddr(st.Addr) != fDefs {
			return
		}
		call, ok := st.Val.(*ssa.Call)
		if !ok {
			return
		}
		if b, ok := call.Common().Value.(*ssa.Builtin); !ok || b.Name() != "append" {
			return
		}
		for i, a := range call.Common().Args {
			for _, el := range sliceLiteralElems(a) {
				if al, ok := unspill(el).(*ssa.Alloc); ok && al.Heap {
					sites = append(sites, site{st, al, i == 0})
				}
			}
		}
	})
	if len(sites) < 2 {
		r.Check("R5:builtin-types-added-when-missing", rule, "fillBuiltinBalloonDefs adds the implicit reserved and default balloon types to the list", e.Pos(fb.Pos()), fb, false,
			fmt.Sprintf("%d additions of a fresh BalloonDef found, expected the reserved and the default type", len(sites)), true)
		return
	}
	for _, s := range sites {
		s := s
		where := map[bool]string{true: "front", false: "end"}[s.front]
		key := "R5:builtin-type-added-iff-missing@" + where
		what := "fillBuiltinBalloonDefs adds the implicit balloon type at the " + where + " of the list exactly when the configured list has none of that name"
		// tests of the value the fresh definition replaces
		isX := func(v ssa.Value) bool {
			v0 := v
			if v0 == s.fresh {
				return false
			}
			// phi partner
			if v0.Referrers() != nil {
				for _, ref := range *v0.Referrers() {
					if phi, ok := ref.(*ssa.Phi); ok {
						for _, ed := range phi.Edges {
							if ed == s.fresh {
								return true
							}
						}
					}
				}
			}
			// cell partner: v is a load of a cell the fresh definition is stored to
			if u, ok := v0.(*ssa.UnOp); ok && u.Op == token.MUL {
				if c, ok := u.X.(*ssa.Alloc); ok {
					for _, st := range cellStores(c) {
						if st.Val == s.fresh {
							return true
						}
					}
				}
			}
			return false
		}
		var tests []*ssa.BinOp
		AllInstrs(fb, func(in ssa.Instruction) {
			b, ok := in.(*ssa.BinOp)
			if !ok || (b.Op != token.EQL && b.Op != token.NEQ) {
				return
			}
			if c, ok := b.Y.(*ssa.Const); ok && c.IsNil() && isX(b.X) {
				tests = append(tests, b)
			}
		})
		if len(tests) == 0 {
			r.Check(key, rule, what, e.InstrPos(s.store), fb, false, "the addition is not conditional on the looked-up definition being nil", true)
			continue
		}
		good, w := true, ""
		for _, tst := range tests {
			tst := tst
			as := func(isNil bool) Assumption {
				return func(cond ssa.Value) (bool, bool) {
					if cond == ssa.Value(tst) {
						return true, (tst.Op == token.EQL) == isNil
					}
					if u, ok := cond.(*ssa.UnOp); ok && u.Op == token.NOT && u.X == ssa.Value(tst) {
						return true, (tst.Op == token.EQL) != isNil
					}
					return false, false
				}
			}
			isStore := func(in ssa.Instruction) bool { return in == ssa.Instruction(s.store) }
			if p := FindPath(PathQuery{Fn: fb, From: tst, Assume: as(true), Block: isStore, Target: func(in ssa.Instruction) bool {
				ret, ok := in.(*ssa.Return)
				return ok && e.maySucceed(ret)
			}}); p != nil {
				good, w = false, "missing type not added: "+e.pathString(p)
			}
			if p := FindPath(PathQuery{Fn: fb, From: tst, Assume: as(false), Target: isStore}); p != nil {
				good, w = false, "type added although configured: "+e.pathString(p)
			}
		}
		r.Check(key, rule, what, e.InstrPos(s.store), fb, good, w, true)
	}
}

// validateConfig refuses a balloon type whose minimum exceeds its (set) maximum — the clamp rules of resizeBalloon and
// the instance limits rely on min <= max.
func checkLimitRangeValidated(e *Engine, r *Report, vc *ssa.Function, name string, fMin, fMax *types.Var) {
	key := "R2:config-range-validated#" + name
	what := "validateConfig refuses a balloon type whose Min" + name + " exceeds its Max" + name + " when the maximum is set"
	isMin := func(v ssa.Value) bool { g, _ := loadedField(unspill(v)); return g != nil && g == fMin }
	isMax := func(v ssa.Value) bool { g, _ := loadedField(unspill(v)); return g != nil && g == fMax }
	var cmps []*ssa.BinOp
	AllInstrs(vc, func(in ssa.Instruction) {
		if b, ok := in.(*ssa.BinOp); ok {
			if _, y, _, ok := cmpOriented(b, isMin); ok && isMax(y) {
				cmps = append(cmps, b)
			}
		}
	})
	if len(cmps) == 0 {
		r.Check(key, "R2 limits", what, e.Pos(vc.Pos()), vc, false, "the two limits are never compared", true)
		return
	}
	assume := func(cond ssa.Value) (bool, bool) {
		if _, y, op, ok := cmpOriented(cond, isMin); ok && isMax(y) { // min op max, with min > max
			switch op {
			case token.GTR, token.GEQ, token.NEQ:
				return true, true
			default:
				return true, false
			}
		}
		if _, y, op, ok := cmpOriented(cond, isMax); ok {
			if k, isK := constIntVal(y); isK && k == 0 { // the maximum is set: max > 0
				switch op {
				case token.GTR, token.NEQ:
					return true, true
				case token.EQL, token.LEQ, token.LSS:
					return true, false
				}
			}
		}
		return false, false
	}
	good, w := true, ""
	for _, c := range cmps {
		if p := FindPath(PathQuery{Fn: vc, From: c, Assume: assume, Target: func(in ssa.Instruction) bool {
			ret, ok := in.(*ssa.Return)
			return ok && e.maySucceed(ret)
		}}); p != nil {
			good, w = false, "accepted: "+e.pathString(p)
		}
	}
	r.Check(key, "R2 limits", what, e.InstrPos(cmps[0]), vc, good, w, true)
}
