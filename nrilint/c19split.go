package main

import (
	"fmt"
	"go/constant"
	"go/token"
	"go/types"
	"sort"
	"strings"

	"golang.org/x/tools/go/ssa"
)

// Joint-key format of splitKeys, decided path by path over the (acyclic) body
// in a small abstract domain of sub-strings of the parameter.
//
//	non-joint (len(keys) < K with K <= 4, or keys[0] != ':')  ->  [keys], ""
//	joint, keys[1] and keys[2] both valid separators          ->  Split(keys[3:], keys[1:2]), keys[2:3]
//	joint otherwise                                           ->  Split(keys[1:],  ":"),      ":"
//
// Every path to a return is enumerated; a branch on a condition outside the
// domain is explored both ways (both outcomes must satisfy the table).

type skKind int

const (
	skUnknown skKind = iota
	skSub            // keys[lo:hi], hi < 0 = open
	skByte           // keys[lo]
	skLen            // len(keys)
	skStr            // constant string
	skInt            // constant int
	skAtom           // boolean atom (name, negated)
	skList           // []string{elems...}
	skSplit          // strings.Split(a, b)
)

type skVal struct {
	k      skKind
	lo, hi int64
	s      string
	neg    bool
	elems  []skVal
}

func (v skVal) String() string {
	switch v.k {
	case skSub:
		if v.hi < 0 {
			return fmt.Sprintf("keys[%d:]", v.lo)
		}
		return fmt.Sprintf("keys[%d:%d]", v.lo, v.hi)
	case skByte:
		return fmt.Sprintf("keys[%d]", v.lo)
	case skLen:
		return "len(keys)"
	case skStr:
		return fmt.Sprintf("%q", v.s)
	case skInt:
		return fmt.Sprint(v.lo)
	case skAtom:
		if v.neg {
			return "!" + v.s
		}
		return v.s
	case skList:
		var p []string
		for _, e := range v.elems {
			p = append(p, e.String())
		}
		return "[" + strings.Join(p, ", ") + "]"
	case skSplit:
		return "Split(" + v.elems[0].String() + ", " + v.elems[1].String() + ")"
	}
	return "?"
}

type skPath struct {
	atoms   map[string]bool
	results []skVal
	ret     *ssa.Return
}

func (p skPath) describe() string {
	var a []string
	for k, v := range p.atoms {
		a = append(a, fmt.Sprintf("%s=%v", k, v))
	}
	sort.Strings(a)
	var r []string
	for _, v := range p.results {
		r = append(r, v.String())
	}
	return "{" + strings.Join(a, ",") + "} -> " + strings.Join(r, ", ")
}

// skEnumerate enumerates the paths of fn; ok=false when the body is outside
// the fragment (a loop, too many paths).
func skEnumerate(fn *ssa.Function, sepPred string) (paths []skPath, ok bool, why string) {
	if len(fn.Params) != 1 {
		return nil, false, "unexpected signature"
	}
	param := fn.Params[0]
	type state struct {
		env   map[ssa.Value]skVal
		cells map[ssa.Value]skVal // by address value (Alloc or IndexAddr key string)
		arr   map[*ssa.Alloc]map[int64]skVal
		atoms map[string]bool
		on    map[*ssa.BasicBlock]bool
	}
	clone := func(s *state) *state {
		n := &state{env: map[ssa.Value]skVal{}, cells: map[ssa.Value]skVal{}, arr: map[*ssa.Alloc]map[int64]skVal{}, atoms: map[string]bool{}, on: map[*ssa.BasicBlock]bool{}}
		for k, v := range s.env {
			n.env[k] = v
		}
		for k, v := range s.cells {
			n.cells[k] = v
		}
		for k, v := range s.arr {
			m := map[int64]skVal{}
			for i, x := range v {
				m[i] = x
			}
			n.arr[k] = m
		}
		for k, v := range s.atoms {
			n.atoms[k] = v
		}
		for k, v := range s.on {
			n.on[k] = v
		}
		return n
	}
	ok = true
	var eval func(s *state, v ssa.Value) skVal
	eval = func(s *state, v ssa.Value) skVal {
		if v == ssa.Value(param) {
			return skVal{k: skSub, lo: 0, hi: -1}
		}
		if c, isC := v.(*ssa.Const); isC {
			if c.Value != nil && c.Value.Kind() == constant.String {
				return skVal{k: skStr, s: constant.StringVal(c.Value)}
			}
			if n, isInt := constIntVal(c); isInt {
				return skVal{k: skInt, lo: n}
			}
			return skVal{}
		}
		if x, has := s.env[v]; has {
			return x
		}
		return skVal{}
	}
	var run func(s *state, b *ssa.BasicBlock, pred *ssa.BasicBlock)
	run = func(s *state, b *ssa.BasicBlock, pred *ssa.BasicBlock) {
		if !ok {
			return
		}
		if s.on[b] {
			ok, why = false, "loop in the body"
			return
		}
		if len(paths) > 256 {
			ok, why = false, "too many paths"
			return
		}
		s.on[b] = true
		for _, in := range b.Instrs {
			switch x := in.(type) {
			case *ssa.Phi:
				for i, p := range b.Preds {
					if p == pred {
						s.env[x] = eval(s, x.Edges[i])
					}
				}
			case *ssa.Alloc:
				if _, isArr := x.Type().(*types.Pointer).Elem().Underlying().(*types.Array); isArr {
					s.arr[x] = map[int64]skVal{}
				}
			case *ssa.IndexAddr:
				// handled at the Store
			case *ssa.Store:
				if ia, isIA := x.Addr.(*ssa.IndexAddr); isIA {
					if al, isAl := ia.X.(*ssa.Alloc); isAl && s.arr[al] != nil {
						if i, isK := constIntVal(ia.Index); isK {
							s.arr[al][i] = eval(s, x.Val)
						}
					}
					continue
				}
				s.cells[x.Addr] = eval(s, x.Val)
			case *ssa.UnOp:
				switch x.Op {
				case token.MUL:
					if cv, has := s.cells[x.X]; has {
						s.env[x] = cv
					}
				case token.NOT:
					a := eval(s, x.X)
					if a.k == skAtom {
						a.neg = !a.neg
						s.env[x] = a
					}
				}
			case *ssa.Slice:
				if al, isAl := x.X.(*ssa.Alloc); isAl && s.arr[al] != nil && x.Low == nil && x.High == nil {
					m := s.arr[al]
					lst := skVal{k: skList}
					for i := int64(0); i < int64(len(m)); i++ {
						lst.elems = append(lst.elems, m[i])
					}
					s.env[x] = lst
					continue
				}
				base := eval(s, x.X)
				if base.k != skSub {
					continue
				}
				lo, hi := int64(0), int64(-1)
				if x.Low != nil {
					l := eval(s, x.Low)
					if l.k != skInt {
						continue
					}
					lo = l.lo
				}
				if x.High != nil {
					h := eval(s, x.High)
					if h.k != skInt {
						continue
					}
					hi = h.lo
				}
				nv := skVal{k: skSub, lo: base.lo + lo, hi: -1}
				if hi >= 0 {
					nv.hi = base.lo + hi
				} else if base.hi >= 0 {
					nv.hi = base.hi
				}
				s.env[x] = nv
			case *ssa.Lookup:
				base, idx := eval(s, x.X), eval(s, x.Index)
				if base.k == skSub && idx.k == skInt {
					s.env[x] = skVal{k: skByte, lo: base.lo + idx.lo}
				}
			case *ssa.Index:
				base, idx := eval(s, x.X), eval(s, x.Index)
				if base.k == skSub && idx.k == skInt {
					s.env[x] = skVal{k: skByte, lo: base.lo + idx.lo}
				}
			case *ssa.Convert:
				s.env[x] = eval(s, x.X)
			case *ssa.ChangeType:
				s.env[x] = eval(s, x.X)
			case *ssa.Call:
				if bi, isB := x.Common().Value.(*ssa.Builtin); isB && bi.Name() == "len" {
					if a := eval(s, x.Common().Args[0]); a.k == skSub && a.hi < 0 {
						s.env[x] = skVal{k: skLen, lo: a.lo} // len(keys[lo:]) = len(keys) - lo
					}
					continue
				}
				if f := x.Common().StaticCallee(); f != nil {
					switch {
					case f.String() == "strings.Split":
						s.env[x] = skVal{k: skSplit, elems: []skVal{eval(s, x.Common().Args[0]), eval(s, x.Common().Args[1])}}
					case f.Name() == sepPred && len(x.Common().Args) == 1:
						if a := eval(s, x.Common().Args[0]); a.k == skByte {
							s.env[x] = skVal{k: skAtom, s: fmt.Sprintf("valid(%d)", a.lo)}
						}
					}
				}
			case *ssa.BinOp:
				a, bb := eval(s, x.X), eval(s, x.Y)
				op := x.Op
				if a.k == skInt && (bb.k == skLen || bb.k == skByte) {
					a, bb = bb, a
					op = flipCmp(op)
				}
				switch {
				case a.k == skLen && bb.k == skInt:
					// len(keys) - a.lo  op  K   <=>  len(keys) op K + a.lo ; canonical atom "len<N"
					k := bb.lo + a.lo
					switch op {
					case token.LSS:
						s.env[x] = skVal{k: skAtom, s: fmt.Sprintf("len<%d", k)}
					case token.GEQ:
						s.env[x] = skVal{k: skAtom, s: fmt.Sprintf("len<%d", k), neg: true}
					case token.LEQ:
						s.env[x] = skVal{k: skAtom, s: fmt.Sprintf("len<%d", k+1)}
					case token.GTR:
						s.env[x] = skVal{k: skAtom, s: fmt.Sprintf("len<%d", k+1), neg: true}
					}
				case a.k == skByte && bb.k == skInt && a.lo == 0 && bb.lo == ':':
					switch op {
					case token.NEQ:
						s.env[x] = skVal{k: skAtom, s: "colon0", neg: true}
					case token.EQL:
						s.env[x] = skVal{k: skAtom, s: "colon0"}
					}
				}
			case *ssa.If:
				c := eval(s, x.Cond)
				for i, succ := range b.Succs {
					taken := i == 0
					ns := clone(s)
					if c.k == skAtom {
						val := taken != c.neg
						if old, has := ns.atoms[c.s]; has && old != val {
							continue // contradicts an earlier decision on this path
						}
						ns.atoms[c.s] = val
					}
					run(ns, succ, b)
				}
				return
			case *ssa.Jump:
				run(s, b.Succs[0], b)
				return
			case *ssa.Return:
				p := skPath{atoms: s.atoms, ret: x}
				for _, rv := range x.Results {
					p.results = append(p.results, eval(s, rv))
				}
				paths = append(paths, p)
				return
			case *ssa.Panic:
				return
			}
		}
	}
	run(&state{env: map[ssa.Value]skVal{}, cells: map[ssa.Value]skVal{}, arr: map[*ssa.Alloc]map[int64]skVal{}, atoms: map[string]bool{}, on: map[*ssa.BasicBlock]bool{}}, fn.Blocks[0], nil)
	return paths, ok, why
}

func checkSplitKeysFormat(e *Engine, r *Report, pkg string) {
	sk := r.Anchor(pkg, "splitKeys")
	if sk == nil {
		return
	}
	const key = "R6:joint-key-format"
	const what = "splitKeys: a key of at least 4 characters is joint iff it starts with ':'; with valid separator characters at [1] and [2] the list keys[3:] is split by keys[1:2] and the values are joined by keys[2:3], otherwise keys[1:] is split by \":\" and joined by \":\"; any other key is returned whole"
	paths, ok, why := skEnumerate(sk, "validSeparator")
	if !ok {
		r.Undecided(key, "R6 operator tables", what, e.Pos(sk.Pos()), sk, why)
		return
	}
	good, witness := true, ""
	nJointCustom, nJointDefault, nPlain := 0, 0, 0
	for _, p := range paths {
		fail := func(msg string) {
			if good {
				good, witness = false, msg+": "+p.describe()+" at "+e.InstrPos(p.ret)
			}
		}
		if len(p.results) != 2 {
			fail("unexpected result count")
			continue
		}
		// joint-ness on this path: the smallest N with len<N false bounds the length from below
		short, long := false, int64(0) // short: some len<N (N<=4) is true; long: len >= N known
		for a, v := range p.atoms {
			var n int64
			if _, err := fmt.Sscanf(a, "len<%d", &n); err == nil {
				if v && n <= 4 {
					short = true
				}
				if !v && n > long {
					long = n
				}
			}
		}
		colon, colonKnown := p.atoms["colon0"]
		eq := func(v skVal, k skKind, lo, hi int64) bool { return v.k == k && v.lo == lo && v.hi == hi }
		switch {
		case short || (colonKnown && !colon):
			nPlain++
			if !(p.results[0].k == skList && len(p.results[0].elems) == 1 && eq(p.results[0].elems[0], skSub, 0, -1)) || !(p.results[1].k == skStr && p.results[1].s == "") {
				fail("a plain key is not returned whole with an empty separator")
			}
		case long >= 3 && colonKnown && colon: // shorter joint keys are a bounds question (C14), not a format question
			v1, k1 := p.atoms["valid(1)"]
			v2, k2 := p.atoms["valid(2)"]
			switch {
			case k1 && k2 && v1 && v2:
				nJointCustom++
				r0 := p.results[0]
				if !(r0.k == skSplit && eq(r0.elems[0], skSub, 3, -1) && eq(r0.elems[1], skSub, 1, 2)) || !eq(p.results[1], skSub, 2, 3) {
					fail("with valid separators the list is not keys[3:] split by keys[1:2] with values joined by keys[2:3]")
				}
			case (k1 && !v1) || (k2 && !v2):
				nJointDefault++
				r0 := p.results[0]
				if !(r0.k == skSplit && eq(r0.elems[0], skSub, 1, -1) && r0.elems[1].k == skStr && r0.elems[1].s == ":") || !(p.results[1].k == skStr && p.results[1].s == ":") {
					fail("without valid separators the list is not keys[1:] split and joined by \":\"")
				}
			default:
				fail("a joint key is decomposed without validating both separator characters")
			}
		default:
			fail("a path decides neither the length nor the leading ':'")
		}
	}
	if good && (nJointCustom == 0 || nJointDefault == 0 || nPlain == 0) {
		good, witness = false, fmt.Sprintf("paths: %d custom, %d default, %d plain", nJointCustom, nJointDefault, nPlain)
	}
	if good {
		witness = fmt.Sprintf("%d paths: %d custom-separator, %d default-separator, %d plain", len(paths), nJointCustom, nJointDefault, nPlain)
	}
	r.Check(key, "R6 operator tables", what, e.Pos(sk.Pos()), sk, good, witness, true)
}

// ---- ResolveRef: the walk over the key ---------------------------------------------------------------
// Decided as path rules over ResolveRef, anchored at three constructs found by type: the comma-ok lookup in a
// map[string]string, the comparison of the remaining key with "", and the final assertion of the object to string.

func boolConstOf(v ssa.Value) (val, ok bool) {
	c, isC := v.(*ssa.Const)
	if !isC || c.Value == nil || c.Value.Kind() != constant.Bool {
		return false, false
	}
	return constant.BoolVal(c.Value), true
}

func assumeBool(v ssa.Value, val bool) Assumption {
	return func(cond ssa.Value) (bool, bool) {
		if cond == v {
			return true, val
		}
		if u, ok := cond.(*ssa.UnOp); ok && u.Op == token.NOT && u.X == v {
			return true, !val
		}
		return false, false
	}
}

func extractOf(t ssa.Value, idx int) ssa.Value {
	if t.Referrers() == nil {
		return nil
	}
	for _, ref := range *t.Referrers() {
		if ex, ok := ref.(*ssa.Extract); ok && ex.Index == idx {
			return ex
		}
	}
	return nil
}

func checkResolveRef(e *Engine, r *Report, pkg string) {
	rr := r.Anchor(pkg, "ResolveRef")
	if rr == nil {
		return
	}
	const rule = "R6 operator tables"
	var lookup *ssa.Lookup
	var strAssert *ssa.TypeAssert
	var walkAsserts []ssa.Instruction
	var emptyCmp *ssa.BinOp
	AllInstrs(rr, func(in ssa.Instruction) {
		switch x := in.(type) {
		case *ssa.Lookup:
			if m, ok := x.X.Type().Underlying().(*types.Map); ok && x.CommaOk {
				if b, ok := m.Elem().Underlying().(*types.Basic); ok && b.Kind() == types.String {
					lookup = x
				}
			}
		case *ssa.TypeAssert:
			if b, ok := x.AssertedType.Underlying().(*types.Basic); ok && b.Kind() == types.String && x.CommaOk {
				strAssert = x
			} else {
				walkAsserts = append(walkAsserts, x)
			}
		case *ssa.BinOp:
			if x.Op == token.EQL || x.Op == token.NEQ {
				if c, ok := x.Y.(*ssa.Const); ok && c.Value != nil && c.Value.Kind() == constant.String && constant.StringVal(c.Value) == "" {
					if b, ok := x.X.Type().Underlying().(*types.Basic); ok && b.Kind() == types.String && emptyCmp == nil {
						emptyCmp = x
					}
				}
			}
		}
	})
	if lookup == nil || strAssert == nil || emptyCmp == nil || len(walkAsserts) == 0 {
		r.Undecided("R6:resolve-walk", rule, "ResolveRef walks the key through Evaluable objects and string maps and ends with a string", e.Pos(rr.Pos()), rr,
			fmt.Sprintf("anchors not found: lookup=%v final-assert=%v empty-key-test=%v walk-asserts=%d", lookup != nil, strAssert != nil, emptyCmp != nil, len(walkAsserts)))
		return
	}
	isWalk := func(in ssa.Instruction) bool {
		for _, w := range walkAsserts {
			if w == in {
				return true
			}
		}
		return false
	}
	foundIs := func(ret *ssa.Return, want bool) bool {
		if len(ret.Results) < 2 {
			return false
		}
		v, ok := boolConstOf(ret.Results[1])
		return ok && v == want
	}
	report := func(key, what string, p []ssa.Instruction, pos ssa.Instruction) {
		w := ""
		if p != nil {
			w = e.pathString(p)
		}
		r.Check(key, rule, what, e.InstrPos(pos), rr, p == nil, w, true)
	}
	okL := extractOf(lookup, 1)
	okS, valS := extractOf(strAssert, 1), extractOf(strAssert, 0)
	if okL == nil || okS == nil || valS == nil {
		r.Undecided("R6:resolve-walk", rule, "ResolveRef tests its lookups", e.Pos(rr.Pos()), rr, "a comma-ok result is not used")
		return
	}
	// A: a key missing from a label/annotation map is "not found"
	report("R6:resolve-miss-is-not-found", "ResolveRef: a key missing from a string map makes the reference not found (never a found empty value)",
		FindPath(PathQuery{Fn: rr, From: lookup, Assume: assumeBool(okL, false), Target: func(in ssa.Instruction) bool {
			ret, ok := in.(*ssa.Return)
			return ok && !foundIs(ret, false)
		}}), lookup)
	// B: a key present in the map is not reported missing at the lookup
	report("R6:resolve-hit-continues", "ResolveRef: a key present in a string map is not reported as not found at the lookup",
		FindPath(PathQuery{Fn: rr, From: lookup, Assume: assumeBool(okL, true), Block: func(in ssa.Instruction) bool { _, ok := in.(*ssa.TypeAssert); return ok },
			Target: func(in ssa.Instruction) bool {
				ret, ok := in.(*ssa.Return)
				return ok && !foundIs(ret, true)
			}}), lookup)
	// C: the walk ends exactly when no key remains
	emptyAssume := func(empty bool) Assumption {
		return func(cond ssa.Value) (bool, bool) {
			if cond == ssa.Value(emptyCmp) {
				return true, (emptyCmp.Op == token.EQL) == empty
			}
			if u, ok := cond.(*ssa.UnOp); ok && u.Op == token.NOT && u.X == ssa.Value(emptyCmp) {
				return true, (emptyCmp.Op == token.EQL) != empty
			}
			return false, false
		}
	}
	report("R6:resolve-continues-while-key-remains", "ResolveRef: while a part of the key remains the object is not taken as the final value (nested keys pod/labels/… are walked to the end)",
		FindPath(PathQuery{Fn: rr, From: emptyCmp, Assume: emptyAssume(false), Block: isWalk, Target: func(in ssa.Instruction) bool { return in == ssa.Instruction(strAssert) }}), emptyCmp)
	report("R6:resolve-stops-at-empty-key", "ResolveRef: once the key is used up the walk stops and the object is taken as the value",
		FindPath(PathQuery{Fn: rr, From: emptyCmp, Assume: emptyAssume(true), Block: func(in ssa.Instruction) bool { return in == ssa.Instruction(strAssert) }, Target: isWalk}), emptyCmp)
	// D: the result is the string the walk ended at
	report("R6:resolve-string-is-the-value", "ResolveRef: when the walk ends at a string, that string is returned as found",
		FindPath(PathQuery{Fn: rr, From: strAssert, Assume: assumeBool(okS, true), Target: func(in ssa.Instruction) bool {
			ret, ok := in.(*ssa.Return)
			return ok && !(foundIs(ret, true) && unspill(ret.Results[0]) == valS)
		}}), strAssert)
	report("R6:resolve-non-string-is-not-found", "ResolveRef: when the walk ends at something else than a string, nothing is found",
		FindPath(PathQuery{Fn: rr, From: strAssert, Assume: assumeBool(okS, false), Target: func(in ssa.Instruction) bool {
			ret, ok := in.(*ssa.Return)
			return ok && !foundIs(ret, false)
		}}), strAssert)
}
