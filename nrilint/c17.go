package main

import (
	"fmt"
	"go/token"
	"go/types"

	"golang.org/x/tools/go/ssa"
)

// C17 — configuration precedence: node-specific over group/default, always.
func init() { register("C17", "configuration precedence", checkC17) }

func checkC17(e *Engine, r *Report) {
	r.Rules = []string{
		"R2 group never overrides node: in updateGroupConfig the hand-over to updateConfig is unreachable while a node-specific configuration exists; the group configuration is remembered on every non-duplicate path before that test",
		"data-flow node fallback: updateNodeConfig records the new node configuration and hands updateConfig the node configuration when there is one, otherwise the remembered group configuration",
		"R2 duplicate suppression: nothing is recorded or delivered when sameConfigVersion(new, current-of-that-kind) holds; sameConfigVersion is true only for both-absent or equal UID and equal non-zero generation",
		"R2 validation gate: notifyFn is unreachable for a nil configuration and for one whose Validate() fails",
		"R3 ownership and routing: nodeCfg/groupCfg are written only by their update function; notifyFn is called only from updateConfig; the event loop routes Added/Modified to update…(object) and Deleted to update…(nil) of the watch the event came from",
	}
	r.NotDecided = []string{"the watch plumbing (re-opening of watches, group label changes)"}
	r.Assumptions = []string{"events of one watch are delivered in order by the Kubernetes client"}

	upNode := r.Anchor(pkgAgent, "Agent.updateNodeConfig")
	upGroup := r.Anchor(pkgAgent, "Agent.updateGroupConfig")
	upCfg := r.Anchor(pkgAgent, "Agent.updateConfig")
	same := r.Anchor(pkgAgent, "sameConfigVersion")
	start := r.Anchor(pkgAgent, "Agent.Start")
	fNode := e.Field(pkgAgent, "Agent", "nodeCfg")
	fGroup := e.Field(pkgAgent, "Agent", "groupCfg")
	fNotify := e.Field(pkgAgent, "Agent", "notifyFn")
	if upNode == nil || upGroup == nil || upCfg == nil || same == nil || start == nil || fNode == nil || fGroup == nil || fNotify == nil {
		r.Undecided("anchor:agent", "anchor", "agent configuration functions exist", "-", nil, "anchor drift")
		return
	}
	isStoreOf := func(f *types.Var) func(ssa.Instruction) bool {
		return func(in ssa.Instruction) bool { st, ok := in.(*ssa.Store); return ok && fieldOfAddr(st.Addr) == f }
	}
	isUpCfg := func(in ssa.Instruction) bool { return e.IsCallTo(in, fset(upCfg)) }
	fieldNil := func(f *types.Var, isNil bool) Assumption {
		return func(cond ssa.Value) (bool, bool) {
			b, ok := cond.(*ssa.BinOp)
			if !ok || (b.Op != token.EQL && b.Op != token.NEQ) {
				return false, false
			}
			if g, _ := loadedField(b.X); g == f && isNilConstV(b.Y) {
				return true, (b.Op == token.EQL) == isNil
			}
			return false, false
		}
	}
	dup := func(fn *ssa.Function, val bool) (Assumption, ssa.CallInstruction) {
		cs := e.callsTo(fn, same)
		if len(cs) != 1 {
			return nil, nil
		}
		c := cs[0]
		return func(cond ssa.Value) (bool, bool) {
			if cond == c.Value() {
				return true, val
			}
			return false, false
		}, c
	}

	// ---- rule 1: group never overrides node ---------------------------------------
	{
		r.Unreachable("R2:group-never-overrides-node", "R2 group never overrides node", "updateGroupConfig does not deliver a configuration while a node-specific one exists", upGroup, nil,
			isUpCfg, fieldNil(fNode, false))
		notDup, sc := dup(upGroup, false)
		if sc == nil {
			r.Undecided("R2:group-remembered", "R2 group never overrides node", "updateGroupConfig consults sameConfigVersion once", e.Pos(upGroup.Pos()), upGroup, "call not found")
		} else {
			r.MustPass("R2:group-remembered", "R2 group never overrides node", "a non-duplicate group configuration is remembered (a.groupCfg) on every path, also when it is not applied", upGroup, sc.(ssa.Instruction), nil,
				isStoreOf(fGroup), notDup)
			// and it is remembered before the node test can return
			for _, c := range e.callsTo(upGroup, upCfg) {
				a := callArgs(c)
				var stored ssa.Value
				AllInstrs(upGroup, func(in ssa.Instruction) {
					if st, ok := in.(*ssa.Store); ok && fieldOfAddr(st.Addr) == fGroup {
						stored = st.Val
					}
				})
				delivered := a[1]
				// `a.updateConfig(a.groupCfg)`: a load of the field after the store delivers the stored value
				if f, _ := loadedField(delivered); f == fGroup {
					if ld, ok := delivered.(ssa.Instruction); ok {
						var last *ssa.Store
						AllInstrs(upGroup, func(in ssa.Instruction) {
							if st, ok := in.(*ssa.Store); ok && fieldOfAddr(st.Addr) == fGroup && dominatesInstr(st, ld) && (last == nil || dominatesInstr(last, st)) {
								last = st
							}
						})
						if last != nil {
							delivered = last.Val
						}
					}
				}
				r.Check("R2:group-delivers-what-it-stored", "R2 group never overrides node", "the configuration delivered is the one just remembered as group configuration", e.InstrPos(c), upGroup,
					stored != nil && (delivered == stored || sameValue(delivered, stored)), "", true)
			}
		}
	}

	// ---- rule 1b: a group configuration IS delivered while no node-specific one exists, and an event's object is
	// what is compared and recorded (a present object is not treated as a deletion) -------------------------------
	{
		notDup, sc := dup(upGroup, false)
		if sc != nil {
			noNode := func(cond ssa.Value) (bool, bool) {
				if k, v := notDup(cond); k {
					return k, v
				}
				return fieldNil(fNode, true)(cond)
			}
			r.MustPass("R2:group-delivered-without-node", "R2 group never overrides node", "with no node-specific configuration a non-duplicate group configuration is delivered (through updateConfig)", upGroup, sc.(ssa.Instruction), nil,
				isUpCfg, noNode)
		}
		for _, t := range []struct {
			fn   *ssa.Function
			kind string
		}{{upNode, "node"}, {upGroup, "group"}} {
			_, scall := dup(t.fn, false)
			if scall == nil || len(t.fn.Params) < 2 {
				continue
			}
			objP := ssa.Value(t.fn.Params[1])
			var okV, objV ssa.Value
			AllInstrs(t.fn, func(in ssa.Instruction) {
				if ta, ok := in.(*ssa.TypeAssert); ok && ta.CommaOk && sameObject(ta.X, objP) && ta.Referrers() != nil {
					for _, ref := range *ta.Referrers() {
						if ex, ok := ref.(*ssa.Extract); ok {
							if ex.Index == 1 {
								okV = ex
							} else {
								objV = ex
							}
						}
					}
				}
			})
			if okV == nil || objV == nil {
				r.Undecided("R2:event-object-is-used@"+t.kind, "R3 ownership and routing", "the "+t.kind+" update function asserts the event object to metav1.Object", e.Pos(t.fn.Pos()), t.fn, "no comma-ok type assertion of the parameter")
				continue
			}
			present := func(cond ssa.Value) (bool, bool) {
				if unspill(cond) == okV {
					return true, true
				}
				if b, ok := cond.(*ssa.BinOp); ok && (b.Op == token.EQL || b.Op == token.NEQ) {
					if (sameObject(b.X, objP) && isNilConstV(b.Y)) || (sameObject(b.Y, objP) && isNilConstV(b.X)) {
						return true, b.Op == token.NEQ
					}
				}
				return false, false
			}
			ok1 := reachableBlock(t.fn, scall.Block(), present)
			okArg, why := true, ""
			if ok1 {
				a := callArgs(scall)
				n := 0
				OriginsUnder(t.fn, a[0], present, func(v ssa.Value) bool {
					switch v.(type) {
					case *ssa.Phi, *ssa.ChangeInterface, *ssa.MakeInterface, *ssa.ChangeType:
						return false
					}
					n++
					if v != objV {
						okArg, why = false, "compared value may be "+v.String()
					}
					return true
				})
				if n == 0 {
					okArg, why = false, "no origin"
				}
			} else {
				why = "a present, well-typed object never reaches the version comparison"
			}
			r.Check("R2:event-object-is-used@"+t.kind, "R3 ownership and routing", "a present "+t.kind+" configuration object is what is compared with the current one (it is not taken for a deletion or dropped)", e.InstrPos(scall), t.fn, ok1 && okArg, why, true)
		}
	}

	// ---- rule 2: node fallback --------------------------------------------------------
	{
		notDup, sc := dup(upNode, false)
		if sc == nil {
			r.Undecided("R2:node-recorded", "data-flow node fallback", "updateNodeConfig consults sameConfigVersion once", e.Pos(upNode.Pos()), upNode, "call not found")
		} else {
			r.MustPass("R2:node-recorded", "data-flow node fallback", "a non-duplicate node configuration (or its deletion) is recorded in a.nodeCfg on every path", upNode, sc.(ssa.Instruction), nil,
				isStoreOf(fNode), notDup)
			r.MustPass("R2:node-delivers", "data-flow node fallback", "a non-duplicate node event always leads to a delivery decision through updateConfig", upNode, sc.(ssa.Instruction), nil,
				isUpCfg, notDup)
			var stored ssa.Value
			AllInstrs(upNode, func(in ssa.Instruction) {
				if st, ok := in.(*ssa.Store); ok && fieldOfAddr(st.Addr) == fNode {
					stored = st.Val
				}
			})
			for _, c := range e.callsTo(upNode, upCfg) {
				arg := callArgs(c)[1]
				// with the new node configuration absent the argument is the group configuration …
				isNewNil := func(val bool) Assumption {
					return func(cond ssa.Value) (bool, bool) {
						b, ok := cond.(*ssa.BinOp)
						if !ok || (b.Op != token.EQL && b.Op != token.NEQ) || stored == nil {
							return false, false
						}
						if (b.X == stored || sameValue(b.X, stored)) && isNilConstV(b.Y) {
							return true, (b.Op == token.EQL) == val
						}
						return false, false
					}
				}
				onlyGroup, any := true, false
				OriginsUnder(upNode, arg, isNewNil(true), func(v ssa.Value) bool {
					if _, isPhi := v.(*ssa.Phi); isPhi {
						return false
					}
					any = true
					if f, _ := loadedField(v); f != fGroup {
						onlyGroup = false
					}
					return true
				})
				r.Check("R2:node-deleted-falls-back-to-group", "data-flow node fallback", "when the node-specific configuration is deleted the group configuration is delivered",
					e.InstrPos(c), upNode, onlyGroup && any, "", true)
				noGroup, any2 := true, false
				OriginsUnder(upNode, arg, isNewNil(false), func(v ssa.Value) bool {
					if _, isPhi := v.(*ssa.Phi); isPhi {
						if v == stored {
							any2 = true
							return true
						}
						return false
					}
					any2 = true
					if f, _ := loadedField(v); f == fGroup {
						noGroup = false
					}
					return true
				})
				r.Check("R2:node-present-wins", "data-flow node fallback", "when a node-specific configuration exists it is the one delivered (never the group configuration)",
					e.InstrPos(c), upNode, noGroup && any2, "", true)
			}
		}
	}

	// ---- rule 3: duplicates -------------------------------------------------------------
	for _, t := range []struct {
		fn   *ssa.Function
		cur  *types.Var
		kind string
	}{{upNode, fNode, "node"}, {upGroup, fGroup, "group"}} {
		isDup, sc := dup(t.fn, true)
		if sc == nil {
			continue
		}
		a := callArgs(sc)
		f, _ := loadedField(a[1])
		r.Check("R2:dup-compares-own-kind@"+t.kind, "R2 duplicate suppression", "the incoming "+t.kind+" configuration is compared with the current "+t.kind+" configuration", e.InstrPos(sc), t.fn, f == t.cur, "", true)
		r.Unreachable("R2:dup-suppressed@"+t.kind, "R2 duplicate suppression", "a re-delivered "+t.kind+" configuration version neither changes state nor is delivered again", t.fn, sc.(ssa.Instruction),
			func(in ssa.Instruction) bool { return isUpCfg(in) || isStoreOf(fNode)(in) || isStoreOf(fGroup)(in) }, isDup)
	}
	{
		// sameConfigVersion semantics
		isGetter := func(v ssa.Value, name string) bool {
			call, ok := v.(*ssa.Call)
			return ok && call.Common().IsInvoke() && call.Common().Method.Name() == name
		}
		retTrue := func(in ssa.Instruction) bool {
			ret, ok := in.(*ssa.Return)
			if !ok {
				return false
			}
			k, ok := ret.Results[0].(*ssa.Const)
			return !ok || k.Value == nil || k.Value.ExactString() == "true"
		}
		bothPresent := func(cond ssa.Value) (bool, bool) {
			b, ok := cond.(*ssa.BinOp)
			if ok && (b.Op == token.EQL || b.Op == token.NEQ) && paramIndex(b.X) >= 0 && isNilConstV(b.Y) {
				return true, b.Op == token.NEQ
			}
			return false, false
		}
		for _, t := range []struct {
			key, what string
			a         Assumption
		}{
			{"uid-differs", "configurations with different UIDs are not the same version", func(cond ssa.Value) (bool, bool) {
				b, ok := cond.(*ssa.BinOp)
				if ok && (b.Op == token.NEQ || b.Op == token.EQL) && isGetter(b.X, "GetUID") && isGetter(b.Y, "GetUID") {
					return true, b.Op == token.NEQ
				}
				return false, false
			}},
			{"generation-differs", "configurations with different generations are not the same version", func(cond ssa.Value) (bool, bool) {
				b, ok := cond.(*ssa.BinOp)
				if ok && (b.Op == token.NEQ || b.Op == token.EQL) && isGetter(b.X, "GetGeneration") && isGetter(b.Y, "GetGeneration") {
					return true, b.Op == token.NEQ
				}
				if ok && (b.Op == token.NEQ || b.Op == token.EQL) && isGetter(b.X, "GetUID") && isGetter(b.Y, "GetUID") {
					return true, b.Op == token.EQL
				}
				return false, false
			}},
			{"generation-zero", "configurations without a generation (read from a file) are always treated as new", func(cond ssa.Value) (bool, bool) {
				b, ok := cond.(*ssa.BinOp)
				if ok && (b.Op == token.NEQ || b.Op == token.EQL) && isGetter(b.X, "GetGeneration") && isConstInt(b.Y, 0) {
					return true, b.Op == token.EQL
				}
				if ok && (b.Op == token.NEQ || b.Op == token.EQL) && isGetter(b.X, "GetGeneration") && isGetter(b.Y, "GetGeneration") {
					return true, b.Op == token.EQL
				}
				if ok && (b.Op == token.NEQ || b.Op == token.EQL) && isGetter(b.X, "GetUID") && isGetter(b.Y, "GetUID") {
					return true, b.Op == token.EQL
				}
				return false, false
			}},
		} {
			p := FindPath(PathQuery{Fn: same, Assume: andAssume(bothPresent, t.a), Target: retTrue})
			r.Check("R2:same-version#"+t.key, "R2 duplicate suppression", t.what, e.Pos(same.Pos()), same, p == nil, e.pathString(p), true)
		}
		// exactly one absent -> not the same
		for i := 0; i < 2; i++ {
			i := i
			oneNil := func(cond ssa.Value) (bool, bool) {
				b, ok := cond.(*ssa.BinOp)
				if ok && (b.Op == token.EQL || b.Op == token.NEQ) && paramIndex(b.X) >= 0 && isNilConstV(b.Y) {
					isNil := paramIndex(b.X) == i
					return true, (b.Op == token.EQL) == isNil
				}
				return false, false
			}
			p := FindPath(PathQuery{Fn: same, Assume: oneNil, Target: retTrue})
			r.Check(fmt.Sprintf("R2:same-version#only-arg%d-absent", i), "R2 duplicate suppression", "an absent and a present configuration are never the same version", e.Pos(same.Pos()), same, p == nil, e.pathString(p), true)
		}
	}

	// ---- rule 4: validation gate ----------------------------------------------------------
	{
		isNotify := func(in ssa.Instruction) bool {
			ci, ok := in.(ssa.CallInstruction)
			if !ok || ci.Common().IsInvoke() || ci.Common().StaticCallee() != nil {
				return false
			}
			f, _ := loadedField(ci.Common().Value)
			return f == fNotify
		}
		n := 0
		AllInstrs(upCfg, func(in ssa.Instruction) {
			if isNotify(in) {
				n++
			}
		})
		r.MinInstances("notifyFn call in updateConfig", n, 1)
		r.Unreachable("R2:no-nil-delivery", "R2 validation gate", "a nil configuration is never handed to the plugin", upCfg, nil, isNotify, func(cond ssa.Value) (bool, bool) {
			b, ok := cond.(*ssa.BinOp)
			if ok && (b.Op == token.EQL || b.Op == token.NEQ) && paramIndex(b.X) == 1 && isNilConstV(b.Y) {
				return true, b.Op == token.EQL
			}
			return false, false
		})
		// Validate() failed
		var validate ssa.Value
		AllInstrs(upCfg, func(in ssa.Instruction) {
			if call, ok := in.(*ssa.Call); ok && call.Common().IsInvoke() && call.Common().Method.Name() == "Validate" {
				validate = call
			}
		})
		if validate == nil {
			r.Undecided("R2:no-invalid-delivery", "R2 validation gate", "updateConfig validates configurations that implement Validator", e.Pos(upCfg.Pos()), upCfg, "Validate call not found")
		} else {
			r.Unreachable("R2:no-invalid-delivery", "R2 validation gate", "a configuration whose Validate() fails is never handed to the plugin", upCfg, validate.(ssa.Instruction), isNotify,
				func(cond ssa.Value) (bool, bool) { k, v := callSucceeded(validate)(cond); return k, !v })
			// the validation is attempted for every configuration implementing the Validator interface
			var ta *ssa.TypeAssert
			AllInstrs(upCfg, func(in ssa.Instruction) {
				if t, ok := in.(*ssa.TypeAssert); ok && t.CommaOk && paramIndex(t.X) == 1 {
					ta = t
				}
			})
			okV := ta != nil
			if okV {
				p := FindPath(PathQuery{Fn: upCfg, Assume: okOf(ta, true), Block: func(in ssa.Instruction) bool { return in == validate.(ssa.Instruction) }, Target: isNotify})
				okV = p == nil
			}
			r.Check("R2:validator-always-consulted", "R2 validation gate", "every configuration that implements Validator is validated before delivery", e.Pos(upCfg.Pos()), upCfg, okV, "", true)
		}
		// the argument delivered is the configuration given
		AllInstrs(upCfg, func(in ssa.Instruction) {
			if isNotify(in) {
				a := in.(ssa.CallInstruction).Common().Args
				ok := len(a) == 1 && originAll(a[0], func(v ssa.Value) bool { return paramIndex(v) == 1 })
				r.Check("R2:delivers-its-argument", "R2 validation gate", "updateConfig delivers exactly the configuration it was given", e.InstrPos(in), upCfg, ok, "", true)
			}
		})
	}

	// ---- rule 5: ownership and routing ---------------------------------------------------------
	agentFns := e.funcsInPkg(pkgAgent)
	r.WhoMayWrite("R3", fNode, "Agent.nodeCfg", set(FnName(upNode)), agentFns)
	r.WhoMayWrite("R3", fGroup, "Agent.groupCfg", set(FnName(upGroup)), agentFns)
	for _, fn := range agentFns {
		AllInstrs(fn, func(in ssa.Instruction) {
			ci, ok := in.(ssa.CallInstruction)
			if !ok || ci.Common().IsInvoke() || ci.Common().StaticCallee() != nil {
				return
			}
			if f, _ := loadedField(ci.Common().Value); f == fNotify {
				r.Check("R3:notify-caller@"+FnName(TopParent(fn)), "R3 ownership and routing", "the plugin's notification function is called only from updateConfig", e.InstrPos(in), fn, TopParent(fn) == upCfg, "", false)
			}
		})
	}
	for _, cs := range e.Callers(upCfg) {
		top := TopParent(cs.Fn)
		r.Check("R3:updateConfig-caller@"+FnName(top), "R3 ownership and routing", "updateConfig is reached only through the node/group update functions", e.InstrPos(cs.Call), cs.Fn, top == upNode || top == upGroup, "", false)
	}
	// routing in Start
	{
		fNodeW := e.Field(pkgAgent, "Agent", "nodeCfgWatch")
		fGroupW := e.Field(pkgAgent, "Agent", "groupCfgWatch")
		watchOf := func(obj ssa.Value) *types.Var {
			// obj is e.Object with e received in a select state whose channel is eventChanOf(a.<watch>)
			var res *types.Var
			Origins(obj, func(v ssa.Value) bool {
				var evt ssa.Value
				if fld, ok := v.(*ssa.Field); ok {
					evt = fld.X
				} else if u, ok := v.(*ssa.UnOp); ok && u.Op == token.MUL {
					if fa, ok := u.X.(*ssa.FieldAddr); ok && fieldOfAddr(fa).Name() == "Object" {
						if al, ok := fa.X.(*ssa.Alloc); ok {
							for _, st := range reachingStores(al, u) {
								evt = st.Val
							}
						}
					}
				}
				if evt == nil {
					return false
				}
				ex, ok := evt.(*ssa.Extract)
				if !ok {
					return true
				}
				sel, ok := ex.Tuple.(*ssa.Select)
				if !ok {
					return true
				}
				// receive states in order; tuple = (index, recvOk, r0, r1, …)
				k := ex.Index - 2
				ri := -1
				for _, stt := range sel.States {
					if stt.Dir == types.RecvOnly {
						ri++
						if ri == k {
							Origins(stt.Chan, func(c ssa.Value) bool {
								if call, ok := c.(*ssa.Call); ok {
									for _, a := range call.Common().Args {
										if f, _ := loadedField(a); f != nil {
											res = f
										}
									}
								}
								return false
							})
						}
					}
				}
				return true
			})
			return res
		}
		for _, t := range []struct {
			fn    *ssa.Function
			watch *types.Var
			kind  string
		}{{upNode, fNodeW, "node"}, {upGroup, fGroupW, "group"}} {
			nObj, nNil := 0, 0
			for _, c := range e.callsTo(start, t.fn) {
				a := callArgs(c)[1]
				if isNilConstV(a) {
					nNil++
					continue
				}
				nObj++
				r.Check("R3:route-object@"+t.kind, "R3 ownership and routing", "objects handed to the "+t.kind+" update function come from the "+t.kind+" configuration watch", e.InstrPos(c), start, watchOf(a) == t.watch, "", true)
			}
			r.Check("R3:route-shape@"+t.kind, "R3 ownership and routing", "the event loop has one update(object) and one update(nil) route for the "+t.kind+" watch", e.Pos(start.Pos()), start, nObj == 1 && nNil == 1,
				fmt.Sprintf("%d object routes, %d nil routes", nObj, nNil), false)
		}
		// Deleted -> nil ; Added/Modified -> object  (event type constants)
		watchPkg := "k8s.io/apimachinery/pkg/watch"
		deleted, _ := e.TypesPkg(watchPkg).Scope().Lookup("Deleted").(*types.Const)
		added, _ := e.TypesPkg(watchPkg).Scope().Lookup("Added").(*types.Const)
		modified, _ := e.TypesPkg(watchPkg).Scope().Lookup("Modified").(*types.Const)
		evType := func(k *types.Const) Assumption {
			return func(cond ssa.Value) (bool, bool) {
				b, ok := cond.(*ssa.BinOp)
				if !ok || b.Op != token.EQL {
					return false, false
				}
				c, ok := b.Y.(*ssa.Const)
				if !ok || c.Value == nil || !types.Identical(c.Type(), k.Type()) {
					return false, false
				}
				return true, isConstEq(b.Y, k)
			}
		}
		if deleted != nil && added != nil && modified != nil {
			for _, fn := range []*ssa.Function{upNode, upGroup} {
				for _, c := range e.callsTo(start, fn) {
					isNil := isNilConstV(callArgs(c)[1])
					in := c.(ssa.Instruction)
					reach := func(k *types.Const) bool {
						return FindPath(PathQuery{Fn: start, Assume: evType(k), Target: func(x ssa.Instruction) bool { return x == in }}) != nil
					}
					var ok bool
					if isNil {
						ok = reach(deleted) && !reach(added) && !reach(modified)
					} else {
						ok = !reach(deleted) && reach(added) && reach(modified)
					}
					r.Check("R3:route-event-type@"+fn.Name(), "R3 ownership and routing", "Deleted events clear the configuration (nil), Added/Modified events deliver the object", e.InstrPos(c), start, ok, "", true)
				}
			}
		} else {
			r.Undecided("R3:route-event-type", "R3 ownership and routing", "watch event type constants resolve", "-", nil, "k8s watch constants not found")
		}
	}
}
